(* C02 — the remaining oracle clauses: a round empties the network; nothing missing + nothing in
   flight => acknowledged and calm one round later; the whole-case oracle holds for the model *)
From Coq Require Import List ZArith Bool Lia.
From RD Require Import Common.Corr C02.Model C02.Basics C02.Inv C02.Mono C02.Net C02.Conv C02.Proofs.
Import ListNotations.
Open Scope Z_scope.

(* datagrams for the reader that are never answered *)
Definition is_quiet (m : sub) : bool :=
  match m with SData _ | SFrag _ _ _ | SGap _ _ _ => true | _ => false end.
Definition quiet_d (d : dgram) : bool := forallb is_quiet d.

Lemma recv_sub_quiet s m : is_quiet m = true -> net (recv_sub s m) = net s /\ sw (recv_sub s m) = sw s.
Proof. destruct m; try discriminate; intros _; split; reflexivity. Qed.
Lemma recv_quiet d : forall s, quiet_d d = true -> net (recv s d) = net s /\ sw (recv s d) = sw s.
Proof.
  unfold recv. induction d as [|m d IH]; intros s Q; cbn [fold_left]; [split; reflexivity|].
  cbn [quiet_d forallb] in Q. apply andb_true_iff in Q as [Q1 Q2].
  destruct (recv_sub_quiet s m Q1) as [E1 E2]. destruct (IH (recv_sub s m) Q2) as [E3 E4].
  split; congruence.
Qed.

Lemma deliver_prefix_quiet depth pre : forall s post,
  net s = pre ++ post -> Forall (fun d => quiet_d d = true) pre ->
  net (deliver_n depth (length pre) s) = post /\ sw (deliver_n depth (length pre) s) = sw s.
Proof.
  induction pre as [|d pre IH]; intros s post E Q; cbn [length deliver_n]; [split; [exact E | reflexivity]|].
  cbn [app] in E. inversion Q as [|? ? Qd Qp]; subst.
  rewrite (deliver_step depth s d _ E).
  destruct (recv_quiet d (mkS (sw s) (sr s) (pre ++ post)) Qd) as [E1 E2]. cbn [net sw] in E1, E2.
  destruct (IH _ post E1 Qp) as [E3 E4]. split; [exact E3 | congruence].
Qed.

Lemma gap_sub_quiet l : quiet_d (gap_sub l) = true.
Proof. unfold gap_sub. destruct (lmin l); reflexivity. Qed.
Lemma quiet_d_app a b : quiet_d (a ++ b) = quiet_d a && quiet_d b.
Proof. unfold quiet_d. apply forallb_app. Qed.

Lemma w_repair_quiet w : Forall (fun d => quiet_d d = true) (snd (w_repair w)).
Proof.
  unfold w_repair. destruct (lmin (p_unsent w)) as [u|]; [|constructor].
  destruct (_ || _).
  - cbn [snd]. constructor; [|constructor]. rewrite quiet_d_app, gap_sub_quiet.
    destruct (u <? w_first w); reflexivity.
  - destruct (held w u); cbn [snd].
    + unfold send_cc. destruct (nfr w u <=? 1).
      * constructor; [|constructor]. rewrite quiet_d_app. destruct (isnil (p_gap w)); [reflexivity|].
        rewrite gap_sub_quiet. reflexivity.
      * apply Forall_app. split.
        -- destruct (isnil (p_gap w)); constructor; [apply gap_sub_quiet | constructor].
        -- apply Forall_forall. intros d Hd. apply in_map_iff in Hd as [f [<- _]]. reflexivity.
    + constructor; [apply gap_sub_quiet | constructor].
Qed.
Lemma w_repair_frags_quiet w : Forall (fun d => quiet_d d = true) (snd (w_repair_frags w)).
Proof.
  unfold w_repair_frags. destruct (fminkey (p_frq w)); [|constructor].
  destruct (fget z (p_frq w)); [|constructor]. cbn [snd]. destruct (held w z); [|constructor].
  apply Forall_forall. intros d Hd. apply in_map_iff in Hd as [f [<- _]]. reflexivity.
Qed.

Lemma repair_loop_quiet depth fuel : forall s,
  Forall (fun d => quiet_d d = true) (net s) ->
  Forall (fun d => quiet_d d = true) (net (repair_loop depth fuel s)).
Proof.
  induction fuel as [|n IH]; intros s Q; cbn [repair_loop]; [exact Q|].
  destruct (p_repair (sw s)); [|exact Q]. apply IH. cbn [step lift_w net].
  apply Forall_app. split; [exact Q | apply w_repair_quiet].
Qed.
Lemma frags_loop_quiet depth fuel : forall s,
  Forall (fun d => quiet_d d = true) (net s) ->
  Forall (fun d => quiet_d d = true) (net (frags_loop depth fuel s)).
Proof.
  induction fuel as [|n IH]; intros s Q; cbn [frags_loop]; [exact Q|].
  destruct (frags_requested (sw s)); [|exact Q]. apply IH. cbn [step lift_w net].
  apply Forall_app. split; [exact Q | apply w_repair_frags_quiet].
Qed.
Lemma repairs_quiet depth s :
  Forall (fun d => quiet_d d = true) (net s) -> Forall (fun d => quiet_d d = true) (net (repairs depth s)).
Proof. intro Q. unfold repairs. apply frags_loop_quiet. apply repair_loop_quiet. exact Q. Qed.

Lemma flush_quiet depth s :
  Forall (fun d => quiet_d d = true) (net s) -> net (flush depth s) = [] /\ sw (flush depth s) = sw s.
Proof.
  intro Q. unfold flush. apply (deliver_prefix_quiet depth (net s) s []); [rewrite app_nil_r; reflexivity | exact Q].
Qed.

(* the first two passes of any round leave nothing in flight and everything the reader said has
   reached the writer *)
Lemma two_passes depth s1 :
  0 <= depth -> Inv s1 ->
  net (flush depth (flush depth s1)) = [] /\ sr (flush depth (flush depth s1)) = sr (flush depth s1).
Proof.
  intros D I1.
  unfold flush at 2 4. destruct (deliver_prefix depth (net s1) s1 [] D I1) as [extra [E [T N]]]; [rewrite app_nil_r; reflexivity|].
  cbn [app] in E. fold (flush depth s1) in *.
  destruct (nw_props depth _ _ D N I1) as (I2 & _).
  unfold flush at 1 3. rewrite E.
  destruct (deliver_prefix_to_writer depth extra (flush depth s1) [] D I2) as (E3 & R3 & _);
    [rewrite app_nil_r; exact E | exact T|].
  split; assumption.
Qed.

Theorem round_net_empty depth s : 0 <= depth -> Inv s -> net (round depth s) = [].
Proof.
  intros D I. unfold round.
  destruct (Inv_step depth s OHbTick D I) as [I1 _].
  destruct (two_passes depth _ D I1) as [E3 _].
  rewrite (flush_nil depth _ E3).
  apply flush_quiet. apply repairs_quiet. rewrite E3. constructor.
Qed.

(* ---------- the frags timer clears every request ---------- *)
Lemma frags_tick_count s :
  Inv s -> frags_requested (sw s) = true ->
  (count_true (p_frq (fst (w_repair_frags (sw s)))) < count_true (p_frq (sw s)))%nat.
Proof.
  intros I FR. unfold frags_requested in FR. apply existsb_exists in FR as [[k0 bv0] [Hin0 _]].
  unfold w_repair_frags.
  destruct (fminkey (p_frq (sw s))) as [k|] eqn:M.
  2:{ unfold fminkey in M. apply lmin_none in M. apply (in_map fst) in Hin0. rewrite M in Hin0. destruct Hin0. }
  destruct (fminkey_fget _ _ M) as [bvk Gk]. rewrite Gk.
  pose proof (i_frq _ I _ _ (fget_In _ _ _ Gk)) as (K1 & K2 & K3).
  apply bany_true_ex in K3 as [i [Hi Bi]].
  assert (Hin : In (Z.of_nat i + 1) (bidx true 1 bvk)).
  { apply bidx_In. split; [lia|]. replace (Z.to_nat (Z.of_nat i + 1 - 1)) with i by lia. exact Bi. }
  destruct (bidx true 1 bvk) as [|g0 rest] eqn:Bx; [destruct Hin|].
  assert (G0 : In g0 (bidx true 1 bvk)) by (rewrite Bx; left; reflexivity).
  apply bidx_In in G0 as [G0a G0b].
  remember (firstn 8 (g0 :: rest)) as fs eqn:Efs.
  assert (Hfs : exists rest', fs = g0 :: rest') by (rewrite Efs; cbn [firstn]; eexists; reflexivity).
  destruct Hfs as [rest' Hfs]. clear Efs.
  assert (NIL : isnil fs = false) by (rewrite Hfs; reflexivity). rewrite NIL.
  cbn [fst]. unfold set_frq. cbn [p_frq].
  assert (CL : (cnt (clear_bits fs bvk) < cnt bvk)%nat) by (rewrite Hfs; apply clear_bits_cnt_lt; exact G0b).
  pose proof (count_true_fdel k _ _ Gk) as CD.
  destruct (bany (clear_bits fs bvk)).
  - unfold fset. rewrite count_true_app. cbn [count_true fold_right snd].
    fold (cnt (clear_bits fs bvk)). lia.
  - lia.
Qed.

Lemma frags_loop_clears depth fuel : forall s,
  0 <= depth -> Inv s -> (count_true (p_frq (sw s)) < fuel)%nat ->
  let s' := frags_loop depth fuel s in
  frags_requested (sw s') = false /\ p_repair (sw s') = p_repair (sw s) /\ p_aab (sw s') = p_aab (sw s)
  /\ w_log (sw s') = w_log (sw s).
Proof.
  induction fuel as [|n IH]; intros s D I L; [lia|]. cbn [frags_loop].
  destruct (frags_requested (sw s)) eqn:FR; [|cbn zeta; auto].
  destruct (Inv_step depth s ORepairFragsTick D I) as [I' _].
  pose proof (frags_tick_count s I FR) as C.
  destruct (IH (step depth s ORepairFragsTick) D I') as (A1 & A2 & A3 & A4).
  - cbn [step lift_w sw]. lia.
  - cbn zeta. split; [exact A1|]. cbn [step lift_w sw] in A2, A3, A4.
    assert (P : p_repair (fst (w_repair_frags (sw s))) = p_repair (sw s) /\
                p_aab (fst (w_repair_frags (sw s))) = p_aab (sw s) /\
                w_log (fst (w_repair_frags (sw s))) = w_log (sw s)).
    { unfold w_repair_frags. destruct (fminkey _); [|auto]. destruct (fget _ _); auto. }
    destruct P as (P1 & P2 & P3). unfold lift_w in *. cbn [sw] in *. cbn [step]. unfold lift_w. split; [congruence|]. split; congruence.
Qed.

Lemma repair_loop_acked depth n s :
  Inv s -> acked s = true ->
  let s' := repair_loop depth (S n) s in
  p_repair (sw s') = false /\ p_aab (sw s') = p_aab (sw s) /\ w_log (sw s') = w_log (sw s)
  /\ p_frq (sw s') = p_frq (sw s) /\ net s' = net s.
Proof.
  intros I A. cbn [repair_loop]. destruct (p_repair (sw s)) eqn:R; [|cbn zeta; auto].
  assert (U : p_unsent (sw s) = []).
  { destruct (p_unsent (sw s)) as [|u t] eqn:E; [reflexivity|]. exfalso.
    pose proof (i_unsent _ I u) as H. rewrite E in H. specialize (H (or_introl eq_refl)).
    unfold acked in A. apply Z.ltb_lt in A. lia. }
  assert (T : step depth s ORepairTick = mkS (set_repair false (sw s)) (sr s) (net s)).
  { cbn [step]. unfold lift_w, w_repair. rewrite U. cbn [lmin fst snd]. rewrite app_nil_r. reflexivity. }
  rewrite T. destruct n; cbn [repair_loop sw set_repair p_repair]; cbn zeta; auto.
Qed.

(* the reader's answer to a heartbeat when it has everything *)
Lemma hb_reply_complete w r n fi la c :
  Inv (mkS w r n) -> 1 <= fi <= w_first w -> r_hbc r < c -> la <= w_last w -> w_last w < r_base r ->
  r_hb fi la c r =
    (mkR (r_base r) (r_known r) c (r_anc r + 1) (r_asm r) (r_got r), [[SAck (r_base r) [] (r_anc r)]]).
Proof.
  intros I Hfi Hc Hla Hb.
  destruct (r_hb_shape w r n fi la c I Hfi Hc) as [nfs [E [N1 _]]].
  assert (Ms : missing (mkR (r_base r) (r_known r) c (r_anc r) (r_asm r) (r_got r)) fi (Z.min la (r_base r + 255)) = []).
  { unfold missing. destruct (fi >? _); [reflexivity|]. cbn [r_base r_known].
    rewrite zseq_empty by lia. reflexivity. }
  rewrite Ms in E, N1. cbn [filter length] in E.
  assert (Nn : nfs = []).
  { destruct nfs as [|m t]; [reflexivity|]. destruct (N1 m (or_introl eq_refl)) as (sn & ? & ? & ? & ? & _ & [] & _). }
  subst nfs. cbn [isnil app] in E. rewrite E. change (Z.of_nat 0) with 0. rewrite !Z.add_0_r. reflexivity.
Qed.

Theorem round_settles depth s :
  0 <= depth -> Inv s -> mu s = O -> net s = [] -> acked (round depth s) = true /\ calm (round depth s) = true.
Proof.
  intros D I Z En.
  pose proof (mu_zero_covered s I Z) as Cv. unfold covered in Cv. apply andb_true_iff in Cv as [_ Cv]. apply Z.ltb_lt in Cv.
  pose proof (round_net_empty depth s D I) as Ne.
  (* it is enough to know the writer after the second pass *)
  assert (Key : exists s3, flush depth (flush depth (step depth s OHbTick)) = s3 /\ Inv s3 /\ net s3 = [] /\
                 acked s3 = true /\ (p_repair (sw s3) = true -> True)).
  { eexists. split; [reflexivity|].
    destruct (Inv_step depth s OHbTick D I) as [I1 _].
    pose proof (flush_nw depth _ D I1) as N1. destruct (nw_props depth _ _ D N1 I1) as (I2 & _).
    pose proof (flush_nw depth _ D I2) as N2. destruct (nw_props depth _ _ D N2 I2) as (I3 & _).
    split; [exact I3|]. split; [apply two_passes; assumption|]. split; [|auto].
    destruct (acked s) eqn:A.
    - (* no heartbeat: nothing happens in the passes *)
      assert (T : step depth s OHbTick = s).
      { unfold acked in A. cbn [step]. unfold lift_w, w_hbtick. rewrite A. cbn [fst snd]. rewrite app_nil_r. destruct s; reflexivity. }
      rewrite T, !(flush_nil depth s En). exact A.
    - (* heartbeat, ACKNACK with base last+1 *)
      unfold acked in A. apply Z.ltb_ge in A.
      assert (T : step depth s OHbTick =
                  mkS (set_hbc (w_hbc (sw s) + 1) (sw s)) (sr s) [[SHb (w_first (sw s)) (w_last (sw s)) (w_hbc (sw s))]]).
      { cbn [step]. unfold lift_w, w_hbtick. replace (w_last (sw s) <? p_aab (sw s)) with false by (symmetry; apply Z.ltb_ge; exact A).
        cbn [fst snd]. rewrite En. reflexivity. }
      rewrite T in *.
      set (w1 := set_hbc (w_hbc (sw s) + 1) (sw s)) in *.
      assert (I0 : Inv (mkS w1 (sr s) [])) by (eapply Inv_net_sub; [exact I1 | intros d []]).
      assert (F1 : flush depth (mkS w1 (sr s) [[SHb (w_first (sw s)) (w_last (sw s)) (w_hbc (sw s))]]) =
                   mkS w1 (mkR (r_base (sr s)) (r_known (sr s)) (w_hbc (sw s)) (r_anc (sr s) + 1) (r_asm (sr s)) (r_got (sr s)))
                       [[SAck (r_base (sr s)) [] (r_anc (sr s))]]).
      { unfold flush. cbn [net length deliver_n step nth_error remove_nth sw sr].
        unfold recv. cbn [fold_left recv_sub sw sr net].
        rewrite (hb_reply_complete w1 (sr s) [] _ _ _ I0).
        - reflexivity.
        - pose proof (i_first _ I). unfold w1, set_hbc. cbn [w_first]. lia.
        - apply (i_hbc _ I).
        - unfold w1, set_hbc, w_last. cbn [w_log]. lia.
        - unfold w1, set_hbc, w_last in *. cbn [w_log]. exact Cv. }
      rewrite F1 in *.
      unfold flush. cbn [net length deliver_n step nth_error remove_nth sw sr].
      unfold recv. cbn [fold_left recv_sub sw sr net].
      pose proof (i_gap _ I0) as G. cbn [sw] in G.
      unfold w_acknack. rewrite G. cbn [filter isnil app].
      unfold acked, w1, set_hbc, w_last. cbn [sw w_log p_aab]. apply Z.ltb_lt.
      pose proof (i_base _ I). unfold w_last in *. lia. }
  destruct Key as (s3 & E3 & I3 & N3 & A3 & _).
  unfold round. rewrite E3. rewrite (flush_nil depth s3 N3).
  unfold repairs.
  destruct (repair_loop_acked depth (length (p_unsent (sw s3))) s3 I3 A3) as (R1 & R2 & R3 & R4 & R5).
  set (s4 := repair_loop depth (S (length (p_unsent (sw s3)))) s3) in *.
  destruct (repair_loop_props depth (S (length (p_unsent (sw s3)))) s3) as (N4 & _). fold s4 in N4.
  destruct (nw_props depth _ _ D N4 I3) as (I4 & _).
  destruct (frags_loop_clears depth (S (count_true (p_frq (sw s4)))) s4 D I4 ltac:(lia)) as (C1 & C2 & C3 & C4).
  set (s5 := frags_loop depth (S (count_true (p_frq (sw s4)))) s4) in *.
  assert (Q5 : Forall (fun d => quiet_d d = true) (net s5)).
  { unfold s5. apply frags_loop_quiet. rewrite R5, N3. constructor. }
  destruct (flush_quiet depth s5 Q5) as [E6 W6].
  unfold acked, calm. rewrite W6, E6. split.
  - unfold w_last. rewrite C3, C4, R2, R3. exact A3.
  - rewrite C1, C2, R1. reflexivity.
Qed.

(* ---------- the whole-case oracle on the model ---------- *)
Lemma isnil_len {A} (l : list A) : (Z.of_nat (length l) =? 0) = isnil l.
Proof. destruct l; reflexivity. Qed.
Lemma d_calm_dig s : d_calm (dig s) = calm s.
Proof. unfold d_calm, calm, dig, frags_requested. cbn [d_repair d_frq d_net]. rewrite isnil_len. reflexivity. Qed.

Lemma round_log depth s : 0 <= depth -> Inv s -> w_log (sw (round depth s)) = w_log (sw s).
Proof. intros D I. destruct (nw_props depth _ _ D (round_nw depth s D I) I) as (_ & _ & L & _). exact L. Qed.

Theorem round_ok_full depth s :
  0 <= depth -> Inv s ->
  round_ok (w_log (sw s)) (dig s) (snd (round_sent depth s), dig (round depth s)) = true.
Proof.
  intros D I. pose proof (round_core_ok_inv depth s D I) as C. rewrite round_sent_fst in C.
  unfold round_core in C. unfold round_ok. cbn [fst snd] in *.
  apply andb_true_iff in C as [C C4]. apply andb_true_iff in C as [C C3]. apply andb_true_iff in C as [C1 C2].
  assert (E1 : d_mu (w_log (sw s)) (dig (round depth s)) = mu (round depth s))
    by (rewrite <- (round_log depth s D I); apply d_mu_dig).
  assert (E0 : d_mu (w_log (sw s)) (dig s) = mu s) by apply d_mu_dig.
  rewrite C1, C2, C3, C4. cbn [andb].
  assert (N : (d_net (dig (round depth s)) =? 0) = true).
  { unfold dig. cbn [d_net]. rewrite round_net_empty by assumption. reflexivity. }
  rewrite N. cbn [andb]. rewrite andb_true_r.
  rewrite E0. destruct (Nat.eqb (mu s) 0 && (d_net (dig s) =? 0)) eqn:E; [|reflexivity].
  apply andb_true_iff in E as [Ea Eb]. apply Nat.eqb_eq in Ea.
  unfold dig in Eb. cbn [d_net] in Eb. rewrite isnil_len in Eb.
  assert (En : net s = []) by (destruct (net s); [reflexivity | discriminate]).
  destruct (round_settles depth s D I Ea En) as [A Cm].
  cbn [negb orb]. rewrite d_calm_dig, Cm. change (d_acked (dig (round depth s))) with (acked (round depth s)). rewrite A. reflexivity.
Qed.

Lemma run_rounds_ok depth n : forall s,
  0 <= depth -> Inv s ->
  rounds_ok (w_log (sw s)) (dig s) (run_rounds depth s n) = true /\ length (run_rounds depth s n) = n.
Proof.
  induction n as [|n IH]; intros s D I; cbn [run_rounds]; [split; reflexivity|].
  destruct (round_sent depth s) as [s' e] eqn:E.
  assert (Es : s' = round depth s) by (rewrite <- round_sent_fst, E; reflexivity).
  assert (Ee : e = snd (round_sent depth s)) by (rewrite E; reflexivity).
  subst s' e. cbn [rounds_ok length snd].
  destruct (IH (round depth s) D (round_Inv depth s D I)) as [H1 H2].
  rewrite (round_log depth s D I) in H1. rewrite H1, H2, (round_ok_full depth s D I). split; reflexivity.
Qed.

Lemma iter_round_add depth a : forall b s, iter_round depth (a + b) s = iter_round depth b (iter_round depth a s).
Proof. induction a as [|a IH]; intros b s; cbn [Nat.add iter_round]; [reflexivity | apply IH]. Qed.
Lemma iter_round_S depth k s : iter_round depth (S k) s = round depth (iter_round depth k s).
Proof. replace (S k) with (k + 1)%nat by lia. rewrite iter_round_add. reflexivity. Qed.

Lemma run_rounds_last depth n : forall s dflt,
  last (run_rounds depth s (S n)) dflt =
    (snd (round_sent depth (iter_round depth n s)), dig (iter_round depth (S n) s)).
Proof.
  induction n as [|n IH]; intros s dflt.
  - cbn [run_rounds iter_round]. destruct (round_sent depth s) as [s' e] eqn:E.
    assert (Es : s' = round depth s) by (rewrite <- round_sent_fst, E; reflexivity).
    subst s'. reflexivity.
  - cbn [run_rounds]. destruct (round_sent depth s) as [s' e] eqn:E.
    assert (Es : s' = round depth s) by (rewrite <- round_sent_fst, E; reflexivity). subst s'.
    specialize (IH (round depth s) dflt). cbn [run_rounds] in IH.
    destruct (round_sent depth (round depth s)) as [s'' e'] eqn:E'.
    cbn [last]. cbn [last] in IH. rewrite IH. reflexivity.
Qed.
Lemma last_map_f {A B} (f : A -> B) l d : last (map f l) (f d) = f (last l d).
Proof. induction l as [|a l IH]; [reflexivity|]. cbn [map last]. destruct l; [reflexivity|]. exact IH. Qed.
Lemma run_rounds_last_digest depth n s d0 :
  last_digest (run_rounds depth s (S n)) d0 = dig (iter_round depth (S n) s).
Proof.
  unfold last_digest. change d0 with (snd (@nil dgram, d0)). rewrite last_map_f. rewrite run_rounds_last. reflexivity.
Qed.

Lemma iter_quiet depth q k :
  mu q = O -> acked q = true -> calm q = true -> iter_round depth k q = q.
Proof.
  intros Z A C. induction k as [|k IH]; [reflexivity|]. cbn [iter_round].
  assert (R : round depth q = q) by (rewrite <- round_sent_fst, (quiet depth q Z A C); reflexivity).
  rewrite R. exact IH.
Qed.

Lemma iter_round_log depth k : forall s, 0 <= depth -> Inv s -> w_log (sw (iter_round depth k s)) = w_log (sw s).
Proof.
  induction k as [|k IH]; intros s D I; cbn [iter_round]; [reflexivity|].
  rewrite IH by (try assumption; apply round_Inv; assumption). apply round_log; assumption.
Qed.

(* nothing missing after mu rounds; nothing in flight one round later; acknowledged and calm one
   round later; silent from then on *)
Lemma settle_point depth s :
  0 <= depth -> Inv s ->
  let q := iter_round depth (mu s + 2) s in
  Inv q /\ mu q = O /\ acked q = true /\ calm q = true /\ w_log (sw q) = w_log (sw s).
Proof.
  intros D I q. unfold q. rewrite iter_round_add.
  set (a := iter_round depth (mu s) s).
  assert (Ia : Inv a) by (apply iter_round_Inv; assumption).
  assert (Za : mu a = O) by (apply converges_aux; [exact D | exact I | lia]).
  assert (La : w_log (sw a) = w_log (sw s)) by (apply iter_round_log; assumption).
  cbn [iter_round].
  set (b := round depth a). assert (Ib : Inv b) by (apply round_Inv; assumption).
  assert (Zb : mu b = O) by (pose proof (round_mu_le depth a D Ia); unfold b; lia).
  assert (Nb : net b = []) by (apply round_net_empty; assumption).
  destruct (round_settles depth b D Ib Zb Nb) as [Ac Cc].
  assert (Zc : mu (round depth b) = O) by (pose proof (round_mu_le depth b D Ib); lia).
  split; [apply round_Inv; assumption|]. split; [exact Zc|]. split; [exact Ac|]. split; [exact Cc|].
  rewrite (round_log depth b D Ib). unfold b. rewrite (round_log depth a D Ia). exact La.
Qed.

Lemma run_steps_fst depth ops : forall s, fst (run_steps depth s ops) = run_ops depth s ops.
Proof.
  unfold run_ops. induction ops as [|o t IH]; intro s; cbn [run_steps fold_left]; [reflexivity|].
  specialize (IH (step depth s o)). destruct (run_steps depth (step depth s o) t). exact IH.
Qed.
Lemma last_cons {A} (l : list A) : forall a d, last (a :: l) d = last l a.
Proof.
  induction l as [|b l IH]; intros a d; [reflexivity|].
  change (last (a :: b :: l) d) with (last (b :: l) d). rewrite !IH. reflexivity.
Qed.
Lemma run_steps_last depth ops : forall s,
  last_digest (snd (run_steps depth s ops)) (dig s) = dig (run_ops depth s ops).
Proof.
  unfold run_ops, last_digest. induction ops as [|o t IH]; intro s; cbn [run_steps fold_left]; [reflexivity|].
  specialize (IH (step depth s o)). destruct (run_steps depth (step depth s o) t) as [sf l].
  cbn [snd map] in *. rewrite last_cons. exact IH.
Qed.
Lemma run_ops_log depth ops : forall s, w_log (sw (run_ops depth s ops)) = w_log (sw s) ++ writes_of ops.
Proof.
  unfold run_ops, writes_of. induction ops as [|o t IH]; intro s; cbn [fold_left flat_map]; [rewrite app_nil_r; reflexivity|].
  rewrite IH. destruct o; try (rewrite step_log by reflexivity; reflexivity).
  - cbn [step lift_w sw w_write fst w_log app]. rewrite <- app_assoc. reflexivity.
  - reflexivity.
Qed.

Theorem run_ok c : 0 <= c_depth c -> ok c (run c) = true.
Proof.
  intro D. unfold run.
  pose proof (run_steps_fst (c_depth c) (c_ops c) s_init) as F.
  pose proof (run_steps_last (c_depth c) (c_ops c) s_init) as Ld.
  destruct (run_steps (c_depth c) s_init (c_ops c)) as [s l]. cbn [fst snd] in F, Ld.
  pose proof (Inv_run (c_depth c) (c_ops c) s_init D Inv_init) as I. rewrite <- F in I.
  pose proof (run_ops_log (c_depth c) (c_ops c) s_init) as Lg. rewrite <- F in Lg. cbn in Lg.
  unfold ok. cbn [o_steps o_rounds]. change d_init with (dig s_init). rewrite Ld, <- F, <- Lg.
  destruct (run_rounds_ok (c_depth c) (c_rounds c) s D I) as [R1 R2].
  rewrite R1, R2, Nat.eqb_refl. cbn [andb].
  rewrite d_mu_dig.
  destruct (Nat.leb (mu s + 3) (c_rounds c)) eqn:E; [|reflexivity]. apply Nat.leb_le in E.
  cbn [negb orb].
  destruct (c_rounds c) as [|n] eqn:En; [lia|].
  rewrite run_rounds_last_digest, run_rounds_last.
  destruct (settle_point (c_depth c) s D I) as (Iq & Zq & Aq & Cq & Lq). cbn zeta in *.
  set (q := iter_round (c_depth c) (mu s + 2) s) in *.
  assert (E1 : iter_round (c_depth c) n s = q).
  { replace n with ((mu s + 2) + (n - (mu s + 2)))%nat by lia. rewrite iter_round_add. fold q. apply iter_quiet; assumption. }
  assert (E2 : iter_round (c_depth c) (S n) s = q).
  { replace (S n) with ((mu s + 2) + (S n - (mu s + 2)))%nat by lia. rewrite iter_round_add. fold q. apply iter_quiet; assumption. }
  rewrite E1, E2. rewrite (quiet (c_depth c) q Zq Aq Cq). cbn [fst snd isnil].
  rewrite <- Lq, d_mu_dig, Zq. cbn [Nat.eqb andb].
  change (d_covered (dig q)) with (covered q). change (d_acked (dig q)) with (acked q).
  rewrite (mu_zero_covered q Iq Zq), Aq. reflexivity.
Qed.

(* the round is itself a finite execution: reachable states are closed under it *)
Lemma run_ops_app depth a : forall b s, run_ops depth s (a ++ b) = run_ops depth (run_ops depth s a) b.
Proof. unfold run_ops. intros b s. apply fold_left_app. Qed.
Lemma nw_steps_ops depth s s' : nw_steps depth s s' -> exists ops, s' = run_ops depth s ops.
Proof.
  induction 1 as [s|s o s' No St [ops IH]]; [exists []; reflexivity|].
  exists (o :: ops). rewrite IH. reflexivity.
Qed.
Theorem reachable_round depth s : 0 <= depth -> reachable depth s -> reachable depth (round depth s).
Proof.
  intros D R. pose proof (reachable_Inv depth s D R) as I.
  destruct (nw_steps_ops depth _ _ (round_nw depth s D I)) as [ops2 E].
  destruct R as [ops1 ->]. exists (ops1 ++ ops2). rewrite run_ops_app. exact E.
Qed.

(* "then goes quiet": from round mu(s)+3 on, no datagram is ever sent again (until the next write) *)
Theorem eventually_silent depth s n :
  0 <= depth -> reachable depth s -> (mu s + 2 <= n)%nat ->
  round_sent depth (iter_round depth n s) = (iter_round depth n s, [])
  /\ covered (iter_round depth n s) = true /\ acked (iter_round depth n s) = true.
Proof.
  intros D R Hn. pose proof (reachable_Inv depth s D R) as I.
  destruct (settle_point depth s D I) as (Iq & Zq & Aq & Cq & _). cbn zeta in *.
  set (q := iter_round depth (mu s + 2) s) in *.
  assert (E : iter_round depth n s = q).
  { replace n with ((mu s + 2) + (n - (mu s + 2)))%nat by lia. rewrite iter_round_add. fold q. apply iter_quiet; assumption. }
  rewrite E. split; [apply quiet; assumption|]. split; [apply mu_zero_covered; assumption | exact Aq].
Qed.
