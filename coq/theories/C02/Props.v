(* C02 — property theorems only.  depth = the writer's History depth used by cache cleaning
   (min(depth, 32) >= 0 in writer.rs); reachable = reached from the initial state by ANY finite op
   list over the fault alphabet (writes, timer ticks, cache cleaning, deliver / drop / duplicate
   the i-th in-flight datagram), of any length. *)
From Coq Require Import List ZArith Bool Lia.
From RD Require Import Common.Corr C02.Model C02.Inv C02.Proofs C02.Full.
Import ListNotations.
Open Scope Z_scope.

(* the inductive invariant holds in every reachable state *)
Theorem C02_invariant : forall depth ops, 0 <= depth -> Inv (run_ops depth s_init ops).
Proof. intros depth ops D. apply Inv_run; [exact D | exact Inv_init]. Qed.
Print Assumptions C02_invariant.

(* one fault-free round repairs at least one missing (sample | fragment) item *)
Theorem C02_round_decreases : forall depth s,
  0 <= depth -> reachable depth s -> (0 < mu s)%nat -> (mu (round depth s) < mu s)%nat.
Proof. intros depth s D R. apply C02.Conv.round_decreases; [exact D | exact (reachable_Inv depth s D R)]. Qed.
Print Assumptions C02_round_decreases.

(* after mu(s) fault-free rounds nothing is missing: bound k = mu s, stated explicitly *)
Theorem C02_converges : forall depth s,
  0 <= depth -> reachable depth s -> mu (iter_round depth (mu s) s) = O.
Proof. exact converges. Qed.
Print Assumptions C02_converges.

(* ... and then the reader holds every sample still in the writer's history (fragmented ones
   complete: r_got lists samples handed to the cache) and knows every advertised SN *)
Theorem C02_converges_covered : forall depth s,
  0 <= depth -> reachable depth s -> covered (iter_round depth (mu s) s) = true.
Proof. exact converges_covered. Qed.
Print Assumptions C02_converges_covered.

(* quiet: nothing missing, everything acknowledged, no repair timer armed, nothing in flight
   => the round sends no datagram at all (no DATA / DATAFRAG / GAP and no HEARTBEAT) and leaves the
   state unchanged, so this holds for every later round as well *)
Theorem C02_quiet : forall depth s,
  mu s = O -> acked s = true -> calm s = true -> round_sent depth s = (s, []).
Proof. exact quiet. Qed.
Print Assumptions C02_quiet.

(* between "nothing missing" and silence at most two rounds pass: a round leaves nothing in flight,
   and from "nothing missing, nothing in flight" one round makes the writer acknowledged and calm *)
Theorem C02_round_empties_network : forall depth s,
  0 <= depth -> reachable depth s -> net (round depth s) = [].
Proof. intros depth s D R. apply round_net_empty; [exact D | exact (reachable_Inv depth s D R)]. Qed.
Print Assumptions C02_round_empties_network.

Theorem C02_settles : forall depth s,
  0 <= depth -> reachable depth s -> mu s = O -> net s = [] ->
  acked (round depth s) = true /\ calm (round depth s) = true.
Proof. intros depth s D R. apply round_settles; [exact D | exact (reachable_Inv depth s D R)]. Qed.
Print Assumptions C02_settles.

(* the quiet rule itself: once the reader has acknowledged everything the periodic tick sends no
   HEARTBEAT (and otherwise it does: heartbeats legitimately continue while something is
   unacknowledged) *)
Theorem C02_heartbeat_iff_unacked : forall s,
  snd (w_hbtick (sw s)) = [] <-> acked s = true.
Proof.
  intro s. unfold w_hbtick, acked. destruct (w_last (sw s) <? p_aab (sw s)); cbn [snd]; split; intro H;
    try reflexivity; discriminate.
Qed.
Print Assumptions C02_heartbeat_iff_unacked.

(* "then goes quiet", with the bound: after mu(s)+2 fault-free rounds every further round sends
   nothing at all, the reader holds everything and the writer knows it *)
Theorem C02_goes_quiet : forall depth s n,
  0 <= depth -> reachable depth s -> (mu s + 2 <= n)%nat ->
  round_sent depth (iter_round depth n s) = (iter_round depth n s, [])
  /\ covered (iter_round depth n s) = true /\ acked (iter_round depth n s) = true.
Proof. exact eventually_silent. Qed.
Print Assumptions C02_goes_quiet.

(* a round is itself a finite execution: all theorems apply again after any number of rounds *)
Theorem C02_reachable_round : forall depth s,
  0 <= depth -> reachable depth s -> reachable depth (round depth s).
Proof. exact reachable_round. Qed.
Print Assumptions C02_reachable_round.

(* the model passes the whole oracle on every case (depth >= 0 is what writer.rs computes:
   min(depth as usize, 32)) *)
Theorem C02_model_ok : forall c, 0 <= c_depth c -> ok c (run c) = true.
Proof. exact run_ok. Qed.
Print Assumptions C02_model_ok.

(* the per-round clauses hold from every reachable state *)
Theorem C02_round_ok : forall depth s,
  0 <= depth -> reachable depth s ->
  round_ok (w_log (sw s)) (dig s) (snd (round_sent depth s), dig (round depth s)) = true.
Proof. intros depth s D R. apply round_ok_full; [exact D | exact (reachable_Inv depth s D R)]. Qed.
Print Assumptions C02_round_ok.

(* what an accepted round observation means *)
Theorem C02_oracle_sound : forall log d0 e,
  round_ok log d0 e = true ->
  (d_mu log d0 = O \/ (d_mu log (snd e) < d_mu log d0)%nat) /\
  (d_mu log d0 = O /\ d_acked d0 = true /\ d_calm d0 = true -> fst e = []) /\
  (d_mu log (snd e) = O -> d_covered (snd e) = true).
Proof. exact round_ok_sound. Qed.
Print Assumptions C02_oracle_sound.

Theorem C02_oracle_rounds : forall c o,
  ok c o = true ->
  rounds_ok (writes_of (c_ops c)) (last_digest (o_steps o) d_init) (o_rounds o) = true
  /\ length (o_rounds o) = c_rounds c.
Proof. exact ok_sound. Qed.
Print Assumptions C02_oracle_rounds.

(* the F8 witness (same fragment lost three times) on the model of the repaired code *)
Example C02_f8_witness_ok : ok c_f8 (run c_f8) = true.
Proof. exact f8_witness_ok. Qed.
(* hypotheses are satisfiable: a reachable state with missing items, repaired by one round *)
Example C02_nonvacuous : exists s, reachable 1 s /\ mu s = 4%nat /\ mu (round 1 s) = 0%nat.
Proof. exact nonvacuous. Qed.
