(* C02 — lemmas about the list-as-set / bit-vector / map primitives of Model.v *)
From Coq Require Import List ZArith Bool Lia.
From RD Require Import Common.Corr C02.Model.
Import ListNotations.
Open Scope Z_scope.

(* ---------- sets ---------- *)
Lemma mem_In x l : mem x l = true <-> In x l.
Proof.
  unfold mem. rewrite existsb_exists. split.
  - intros [y [Hy E]]. apply Z.eqb_eq in E. subst. exact Hy.
  - intro H. exists x. split; [exact H | apply Z.eqb_refl].
Qed.
Lemma mem_false x l : mem x l = false <-> ~ In x l.
Proof. rewrite <- mem_In. destruct (mem x l); split; intros; try congruence; intuition. Qed.

Lemma add_In x y l : In y (add x l) <-> y = x \/ In y l.
Proof.
  unfold add. destruct (mem x l) eqn:E.
  - apply mem_In in E. split; [intro; right; assumption | intros [->|]; assumption].
  - rewrite in_app_iff. simpl. intuition.
Qed.
Lemma union_In y bits : forall l, In y (union l bits) <-> In y l \/ In y bits.
Proof.
  unfold union. induction bits as [|b bits IH]; intro l; simpl.
  - intuition.
  - rewrite IH, add_In. intuition.
Qed.
Lemma del_In x y l : In y (del x l) <-> In y l /\ y <> x.
Proof.
  unfold del. rewrite filter_In. rewrite negb_true_iff, Z.eqb_neq. intuition.
Qed.
Lemma filter_len_le {A} (f : A -> bool) l : (length (filter f l) <= length l)%nat.
Proof. induction l as [|a l IH]; simpl; [lia|]. destruct (f a); simpl; lia. Qed.
Lemma del_length_lt x l : In x l -> (length (del x l) < length l)%nat.
Proof.
  unfold del. induction l as [|a l IH]; simpl; intro H; [contradiction|].
  destruct (Z.eqb_spec x a).
  - simpl. pose proof (filter_len_le (fun y => negb (x =? y)) l). lia.
  - simpl. destruct H as [H|H]; [congruence|]. specialize (IH H). lia.
Qed.

Lemma fold_min_le l : forall x, fold_left Z.min l x <= x /\ (forall y, In y l -> fold_left Z.min l x <= y).
Proof.
  induction l as [|a l IH]; intro x; simpl.
  - split; [lia | contradiction].
  - destruct (IH (Z.min x a)) as [H1 H2]. split; [lia|].
    intros y [->|Hy]; [lia | auto].
Qed.
Lemma fold_min_In l : forall x, fold_left Z.min l x = x \/ In (fold_left Z.min l x) l.
Proof.
  induction l as [|a l IH]; intro x; simpl; [left; reflexivity|].
  destruct (IH (Z.min x a)) as [H|H].
  - rewrite H. destruct (Z.min_spec x a) as [[_ E]|[_ E]]; rewrite E; auto.
  - right. right. exact H.
Qed.
Lemma lmin_spec l m : lmin l = Some m -> In m l /\ forall y, In y l -> m <= y.
Proof.
  destruct l as [|x t]; simpl; [discriminate|]. intro H. inversion H; subst; clear H.
  destruct (fold_min_le t x) as [H1 H2]. split.
  - destruct (fold_min_In t x) as [E|E]; [left; symmetry; exact E | right; exact E].
  - intros y [->|Hy]; auto.
Qed.
Lemma lmin_none l : lmin l = None -> l = [].
Proof. destruct l; simpl; [reflexivity | discriminate]. Qed.

(* ---------- ranges ---------- *)
Lemma zrange_In n : forall lo x, In x (zrange lo n) <-> lo <= x < lo + Z.of_nat n.
Proof.
  induction n as [|n IH]; intros lo x; simpl zrange.
  - simpl. lia.
  - simpl In. rewrite IH. lia.
Qed.
Lemma zseq_In lo hi x : In x (zseq lo hi) <-> lo <= x <= hi.
Proof. unfold zseq. rewrite zrange_In. lia. Qed.
Lemma zrange_length n : forall lo, length (zrange lo n) = n.
Proof. induction n; intro; simpl; auto. Qed.

(* ---------- bit vectors ---------- *)
Lemma bset_length i v l : length (bset i v l) = length l.
Proof. revert i; induction l as [|b l IH]; intros [|i]; simpl; auto. Qed.
Lemma bget_bset_same i v l : (i < length l)%nat -> bget i (bset i v l) = v.
Proof.
  unfold bget. revert i; induction l as [|b l IH]; intros [|i]; simpl; intro H; try lia; auto.
  apply IH. lia.
Qed.
Lemma bget_bset_other i j v l : i <> j -> bget j (bset i v l) = bget j l.
Proof.
  unfold bget. revert i j; induction l as [|b l IH]; intros [|i] [|j]; simpl; intro H; auto; try congruence.
Qed.
Lemma bget_bset_true i j l : bget j l = true -> bget j (bset i true l) = true.
Proof.
  intro H. destruct (Nat.eq_dec i j) as [->|N].
  - destruct (Nat.lt_ge_cases j (length l)) as [L|L].
    + apply bget_bset_same; exact L.
    + unfold bget in H. rewrite nth_overflow in H by exact L. discriminate.
  - rewrite bget_bset_other by exact N. exact H.
Qed.
Lemma bget_repeat_false i n : bget i (repeat false n) = false.
Proof. unfold bget. revert i; induction n; intros [|i]; simpl; auto. Qed.
Lemma bget_overflow i l : (length l <= i)%nat -> bget i l = false.
Proof. intro. unfold bget. apply nth_overflow. assumption. Qed.

Lemma ball_false_ex l : ball l = false -> exists i, (i < length l)%nat /\ bget i l = false.
Proof.
  unfold ball, bget. induction l as [|b l IH]; simpl; [discriminate|].
  destruct b; simpl.
  - intro H. destruct (IH H) as [i [Hi E]]. exists (S i). split; [lia | exact E].
  - intros _. exists O. split; [lia | reflexivity].
Qed.
Lemma ball_true_all l i : ball l = true -> (i < length l)%nat -> bget i l = true.
Proof.
  unfold ball, bget. revert i. induction l as [|b l IH]; simpl; intros i H Hi; [lia|].
  apply andb_true_iff in H as [Hb H]. destruct i; [exact Hb|]. apply IH; [exact H | lia].
Qed.
Lemma bany_true_ex l : bany l = true <-> exists i, (i < length l)%nat /\ bget i l = true.
Proof.
  unfold bany, bget. induction l as [|b l IH]; simpl.
  - split; [discriminate | intros [i [Hi _]]; lia].
  - destruct b; simpl.
    + split; [intros _; exists O; split; [lia | reflexivity] | reflexivity].
    + rewrite IH. split.
      * intros [i [Hi E]]. exists (S i). split; [lia | exact E].
      * intros [[|i] [Hi E]]; [discriminate|]. exists i. split; [lia | exact E].
Qed.

(* bidx v from l = the 1-based (from-based) positions holding v *)
Lemma bidx_In v l : forall from x,
  In x (bidx v from l) <-> from <= x < from + Z.of_nat (length l) /\ bget (Z.to_nat (x - from)) l = v.
Proof.
  unfold bget. induction l as [|b l IH]; intros from x; simpl bidx.
  - simpl. split; [contradiction | lia].
  - assert (Hcase: forall P, (In x (bidx v (from + 1) l) <-> P) ->
             (x <> from -> (P <-> from <= x < from + Z.of_nat (length (b :: l)) /\
                    nth (Z.to_nat (x - from)) (b :: l) false = v)) -> True) by (intros; exact I).
    clear Hcase.
    destruct (Bool.eqb b v) eqn:E.
    + apply eqb_prop in E. simpl In. rewrite IH. simpl length.
      destruct (Z.eq_dec x from) as [->|N].
      * replace (from - from) with 0 by lia. simpl. split; [intros _; split; [lia | exact E] | auto].
      * split.
        -- intros [H|[H1 H2]]; [congruence|]. split; [lia|].
           replace (Z.to_nat (x - from)) with (S (Z.to_nat (x - (from + 1)))) by lia. exact H2.
        -- intros [H1 H2]. right. split; [lia|].
           replace (Z.to_nat (x - from)) with (S (Z.to_nat (x - (from + 1)))) in H2 by lia. exact H2.
    + apply eqb_false_iff in E. rewrite IH. simpl length.
      destruct (Z.eq_dec x from) as [->|N].
      * replace (from - from) with 0 by lia. simpl. split; [lia | intros [_ H]; congruence].
      * split.
        -- intros [H1 H2]. split; [lia|].
           replace (Z.to_nat (x - from)) with (S (Z.to_nat (x - (from + 1)))) by lia. exact H2.
        -- intros [H1 H2]. split; [lia|].
           replace (Z.to_nat (x - from)) with (S (Z.to_nat (x - (from + 1)))) in H2 by lia. exact H2.
Qed.

(* ---------- maps ---------- *)
Lemma fget_In k m bv : fget k m = Some bv -> In (k, bv) m.
Proof.
  induction m as [|[k' v] m IH]; simpl; [discriminate|].
  destruct (Z.eqb_spec k k').
  - intro H; inversion H; subst. left; reflexivity.
  - intro H. right. auto.
Qed.
Lemma In_fget k m bv : In (k, bv) m -> exists bv', fget k m = Some bv'.
Proof.
  induction m as [|[k' v] m IH]; simpl; [contradiction|].
  destruct (Z.eqb_spec k k'); [eauto|].
  intros [H|H]; [inversion H; congruence | auto].
Qed.
Lemma fdel_In k m kv : In kv (fdel k m) <-> In kv m /\ fst kv <> k.
Proof.
  unfold fdel. rewrite filter_In, negb_true_iff, Z.eqb_neq. intuition.
Qed.
Lemma fget_fdel_same k m : fget k (fdel k m) = None.
Proof.
  induction m as [|[k' v] m IH]; simpl; [reflexivity|].
  destruct (Z.eqb_spec k k'); simpl; [exact IH|].
  destruct (Z.eqb_spec k k'); [contradiction | exact IH].
Qed.
Lemma fget_fdel_other k j m : j <> k -> fget j (fdel k m) = fget j m.
Proof.
  intro N. induction m as [|[k' v] m IH]; simpl; [reflexivity|].
  destruct (Z.eqb_spec k k'); simpl.
  - subst. destruct (Z.eqb_spec j k'); [contradiction | exact IH].
  - destruct (Z.eqb_spec j k'); [reflexivity | exact IH].
Qed.
Lemma fget_app j m1 m2 : fget j (m1 ++ m2) = match fget j m1 with Some v => Some v | None => fget j m2 end.
Proof.
  induction m1 as [|[k v] m1 IH]; simpl; [reflexivity|].
  destruct (j =? k); [reflexivity | exact IH].
Qed.
Lemma fget_fset_same k v m : fget k (fset k v m) = Some v.
Proof. unfold fset. rewrite fget_app, fget_fdel_same. simpl. rewrite Z.eqb_refl. reflexivity. Qed.
Lemma fget_fset_other k j v m : j <> k -> fget j (fset k v m) = fget j m.
Proof.
  intro N. unfold fset. rewrite fget_app, fget_fdel_other by exact N.
  destruct (fget j m); [reflexivity|]. simpl. destruct (Z.eqb_spec j k); [contradiction | reflexivity].
Qed.
Lemma fset_In k v m kv : In kv (fset k v m) <-> (In kv m /\ fst kv <> k) \/ kv = (k, v).
Proof. unfold fset. rewrite in_app_iff, fdel_In. simpl. intuition. Qed.
Lemma fhas_spec k m : fhas k m = true <-> exists bv, fget k m = Some bv.
Proof. unfold fhas. destruct (fget k m); split; eauto; try discriminate. intros [bv H]; discriminate. Qed.

(* ---------- advance_ack_base ---------- *)
Lemma advance_spec fuel : forall b kn b' kn',
  advance fuel b kn = (b', kn') ->
  b <= b' /\
  (forall x, In x kn' <-> In x kn /\ ~ (b <= x < b')) /\
  (forall x, b <= x < b' -> In x kn).
Proof.
  induction fuel as [|n IH]; intros b kn b' kn'; simpl.
  - intro H; inversion H; subst. split; [lia|]. split; [intro x; split; [intro; split; [assumption|lia] | tauto] | lia].
  - destruct (mem b kn) eqn:E.
    + intro H. apply IH in H as (H1 & H2 & H3). apply mem_In in E. split; [lia|]. split.
      * intro x. rewrite H2, del_In. split.
        -- intros [[Hx Hn] Hr]. split; [exact Hx | lia].
        -- intros [Hx Hr]. split; [split; [exact Hx | lia] | lia].
      * intros x Hx. destruct (Z.eq_dec x b) as [->|N]; [exact E|].
        assert (Hx' : b + 1 <= x < b') by lia. apply H3 in Hx'. apply del_In in Hx'. tauto.
    + intro H; inversion H; subst. split; [lia|]. split; [intro x; split; [intro; split; [assumption|lia] | tauto] | lia].
Qed.
Lemma advance_complete fuel : forall b kn b' kn',
  (length kn <= fuel)%nat -> advance fuel b kn = (b', kn') -> ~ In b' kn'.
Proof.
  induction fuel as [|n IH]; intros b kn b' kn' L; simpl.
  - intro H; inversion H; subst. destruct kn'; simpl in *; [tauto | lia].
  - destruct (mem b kn) eqn:E.
    + apply mem_In in E. pose proof (del_length_lt b kn E). apply IH. lia.
    + intro H; inversion H; subst. apply mem_false. exact E.
Qed.
Lemma adv_spec b kn : let bk := adv b kn in
  b <= fst bk /\
  (forall x, In x (snd bk) <-> In x kn /\ ~ (b <= x < fst bk)) /\
  (forall x, b <= x < fst bk -> In x kn) /\
  ~ In (fst bk) (snd bk).
Proof.
  unfold adv. destruct (advance (length kn) b kn) as [b' kn'] eqn:E. simpl.
  pose proof (advance_spec _ _ _ _ _ E) as (H1 & H2 & H3).
  pose proof (advance_complete _ _ _ _ _ (Nat.le_refl _) E). tauto.
Qed.
