(* C02 — how datagrams move through a fault-free pass *)
From Coq Require Import List ZArith Bool Lia.
From RD Require Import Common.Corr C02.Model C02.Basics C02.Inv C02.Mono.
Import ListNotations.
Open Scope Z_scope.

Definition is_ack (m : sub) : bool :=
  match m with SAck _ _ _ | SNackFrag _ _ _ _ => true | _ => false end.
Definition to_writer (d : dgram) : bool := forallb is_ack d.

(* ---------- replies are appended; under Inv they all go to the writer ---------- *)
Lemma r_hb_out_to_writer w r n fi la c :
  Inv (mkS w r n) -> sub_ok w r (SHb fi la c) ->
  Forall (fun d => to_writer d = true) (snd (r_hb fi la c r)).
Proof.
  intros I (Hfi & Hla & Hc).
  destruct (Z.le_gt_cases c (r_hbc r)) as [L|G].
  - unfold r_hb. replace (c <=? r_hbc r) with true by (symmetry; apply Z.leb_le; exact L). constructor.
  - destruct (r_hb_shape w r n fi la c I Hfi ltac:(lia)) as [nfs [E [N1 _]]]. rewrite E. cbn [snd].
    apply Forall_app. split.
    + destruct (isnil nfs); constructor; [|constructor]. unfold to_writer. apply forallb_forall.
      intros m Hm. destruct (N1 m Hm) as (sn & f0 & bits & k & bv & -> & _). reflexivity.
    + constructor; [reflexivity | constructor].
Qed.

Lemma recv_sub_net s m :
  Inv s -> sub_ok (sw s) (sr s) m ->
  exists out, net (recv_sub s m) = net s ++ out /\ Forall (fun d => to_writer d = true) out.
Proof.
  intros I Hm. destruct s as [w r n]. cbn [sw sr net] in *. destruct m; cbn [recv_sub sw sr net].
  - exists []. rewrite app_nil_r. split; [reflexivity | constructor].
  - exists []. rewrite app_nil_r. split; [reflexivity | constructor].
  - pose proof (r_hb_out_to_writer w r n first last count I Hm) as T.
    destruct (r_hb first last count r) as [r' out]. cbn [net snd] in *. exists out. split; [reflexivity | exact T].
  - exists []. rewrite app_nil_r. split; [reflexivity | constructor].
  - pose proof (i_gap _ I) as G. cbn [sw] in G. unfold w_acknack. rewrite G. cbn [filter isnil net]. exists []. split; [reflexivity | constructor].
  - exists []. rewrite app_nil_r. split; [reflexivity | constructor].
Qed.

Lemma recv_net d : forall s,
  Inv s -> (forall m, In m d -> sub_ok (sw s) (sr s) m) ->
  exists out, net (recv s d) = net s ++ out /\ Forall (fun d => to_writer d = true) out.
Proof.
  unfold recv. induction d as [|m d IH]; intros s I H; cbn [fold_left].
  - exists []. rewrite app_nil_r. split; [reflexivity | constructor].
  - destruct (Inv_recv_sub s m I (H m (or_introl eq_refl))) as [I' [F1 F2]].
    destruct (recv_sub_net s m I (H m (or_introl eq_refl))) as [o1 [E1 T1]].
    destruct (IH (recv_sub s m) I') as [o2 [E2 T2]].
    + intros m' Hm'. eapply sub_ok_mono; [exact F1 | exact F2 | apply H; right; exact Hm'].
    + exists (o1 ++ o2). rewrite E2, E1, app_assoc. split; [reflexivity | apply Forall_app; split; assumption].
Qed.

(* a datagram for the writer leaves the reader alone and is not answered (pending_gap is empty) *)
Lemma recv_sub_to_writer s m :
  Inv s -> is_ack m = true -> net (recv_sub s m) = net s /\ sr (recv_sub s m) = sr s.
Proof.
  intros I Hm. destruct m; try discriminate; cbn [recv_sub].
  - unfold w_acknack. rewrite (i_gap _ I). cbn [filter isnil net sr]. rewrite app_nil_r. split; reflexivity.
  - split; reflexivity.
Qed.
Lemma recv_to_writer d : forall s,
  Inv s -> to_writer d = true -> (forall m, In m d -> sub_ok (sw s) (sr s) m) ->
  net (recv s d) = net s /\ sr (recv s d) = sr s.
Proof.
  unfold recv. induction d as [|m d IH]; intros s I T H; cbn [fold_left]; [split; reflexivity|].
  cbn [to_writer forallb] in T. apply andb_true_iff in T as [T1 T2].
  destruct (Inv_recv_sub s m I (H m (or_introl eq_refl))) as [I' [F1 F2]].
  destruct (recv_sub_to_writer s m I T1) as [E1 E2].
  destruct (IH (recv_sub s m) I' T2) as [E3 E4].
  - intros m' Hm'. eapply sub_ok_mono; [exact F1 | exact F2 | apply H; right; exact Hm'].
  - split; congruence.
Qed.

(* ---------- deliver_n ---------- *)
Lemma deliver_step depth s d rest :
  net s = d :: rest -> step depth s (ODeliver 0) = recv (mkS (sw s) (sr s) rest) d.
Proof. intro E. cbn [step]. rewrite E. reflexivity. Qed.

Lemma deliver_n_add depth a : forall b s, deliver_n depth (a + b) s = deliver_n depth b (deliver_n depth a s).
Proof. induction a as [|a IH]; intros b s; cbn [Nat.add deliver_n]; [reflexivity | apply IH]. Qed.

Lemma Inv_head s d rest : Inv s -> net s = d :: rest ->
  Inv (mkS (sw s) (sr s) rest) /\ (forall m, In m d -> sub_ok (sw s) (sr s) m).
Proof.
  intros I E. split.
  - destruct s as [w r n]. cbn [sw sr net] in *. subst n. eapply Inv_net_sub; [exact I | intros x Hx; right; exact Hx].
  - intros m Hm. eapply (i_net s I); [rewrite E; left; reflexivity | exact Hm].
Qed.

(* generic pass over a prefix of the network *)
Lemma deliver_prefix depth pre : forall s post,
  0 <= depth -> Inv s -> net s = pre ++ post ->
  exists extra, net (deliver_n depth (length pre) s) = post ++ extra
    /\ Forall (fun d => to_writer d = true) extra
    /\ nw_steps depth s (deliver_n depth (length pre) s).
Proof.
  induction pre as [|d pre IH]; intros s post D I E; cbn [length deliver_n].
  - exists []. rewrite app_nil_r. split; [exact E|]. split; [constructor | apply nw_refl].
  - cbn [app] in E. destruct (Inv_head s d _ I E) as [I0 Hd].
    rewrite (deliver_step depth s d _ E).
    destruct (recv_net d _ I0 Hd) as [o1 [E1 T1]]. cbn [net] in E1.
    destruct (Inv_recv d _ I0 Hd) as [I1 _].
    destruct (IH (recv (mkS (sw s) (sr s) (pre ++ post)) d) (post ++ o1) D I1) as [ex [E2 [T2 N2]]].
    + rewrite E1, app_assoc. reflexivity.
    + exists (o1 ++ ex). split; [rewrite E2, app_assoc; reflexivity|]. split; [apply Forall_app; split; assumption|].
      eapply nw_cons with (o := ODeliver 0); [reflexivity|]. rewrite (deliver_step depth s d _ E). exact N2.
Qed.

(* a pass over datagrams that all go to the writer: nothing is answered, the reader is untouched *)
Lemma deliver_prefix_to_writer depth pre : forall s post,
  0 <= depth -> Inv s -> net s = pre ++ post -> Forall (fun d => to_writer d = true) pre ->
  net (deliver_n depth (length pre) s) = post /\ sr (deliver_n depth (length pre) s) = sr s
  /\ nw_steps depth s (deliver_n depth (length pre) s).
Proof.
  induction pre as [|d pre IH]; intros s post D I E T; cbn [length deliver_n].
  - split; [exact E|]. split; [reflexivity | apply nw_refl].
  - cbn [app] in E. destruct (Inv_head s d _ I E) as [I0 Hd]. inversion T as [|? ? Td Tp]; subst.
    rewrite (deliver_step depth s d _ E).
    destruct (recv_to_writer d _ I0 Td Hd) as [E1 E2]. cbn [net sr] in E1, E2.
    destruct (Inv_recv d _ I0 Hd) as [I1 _].
    destruct (IH (recv (mkS (sw s) (sr s) (pre ++ post)) d) post D I1 E1 Tp) as [E3 [E4 N]].
    split; [exact E3|]. split; [congruence|].
    eapply nw_cons with (o := ODeliver 0); [reflexivity|]. rewrite (deliver_step depth s d _ E). exact N.
Qed.

(* heartbeat counts seen during a pass *)
Lemma irr_range_hbc a b r : r_hbc (irr_range a b r) = r_hbc r.
Proof.
  unfold irr_range. destruct (a >? b); [reflexivity|]. destruct (a <=? r_base r); [|reflexivity].
  destruct (b >? r_base r); reflexivity.
Qed.
Lemma set_irr_hbc sn r : r_hbc (set_irr sn r) = r_hbc r.
Proof. unfold set_irr. destruct (sn <? r_base r); [reflexivity|]. destruct (sn =? r_base r); reflexivity. Qed.
Lemma r_gap_hbc st b bits r : r_hbc (r_gap st b bits r) = r_hbc r.
Proof.
  unfold r_gap. destruct (_ || _); [reflexivity|].
  assert (G : forall l x, r_hbc (fold_left (fun acc sn => set_irr sn acc) l x) = r_hbc x).
  { induction l as [|a l IHl]; intro x; cbn [fold_left]; [reflexivity|]. rewrite IHl. apply set_irr_hbc. }
  rewrite G. apply irr_range_hbc.
Qed.
Lemma r_frag_hbc sn f nf r : r_hbc (r_frag sn f nf r) = r_hbc r.
Proof.
  unfold r_frag. destruct (negb ((1 <=? f) && (f <=? nf))); [reflexivity|].
  destruct (negb _); [reflexivity|]. destruct (ball _); [rewrite r_data_hbc|]; reflexivity.
Qed.
Lemma r_hb_hbc fi la c r : r_hbc (fst (r_hb fi la c r)) = if c <=? r_hbc r then r_hbc r else c.
Proof.
  unfold r_hb. destruct (c <=? r_hbc r); [reflexivity|]. cbn [fst r_hbc]. rewrite irr_range_hbc. reflexivity.
Qed.
Lemma recv_sub_hbc s m c :
  r_hbc (sr s) < c -> (forall fi la c', m = SHb fi la c' -> c' < c) -> r_hbc (sr (recv_sub s m)) < c.
Proof.
  intros H Hm. destruct m; cbn [recv_sub sr].
  - rewrite r_data_hbc. exact H.
  - rewrite r_frag_hbc. exact H.
  - pose proof (r_hb_hbc first last count (sr s)) as E.
    destruct (r_hb first last count (sr s)) as [r' out]. cbn [fst sr] in *. rewrite E.
    destruct (count <=? r_hbc (sr s)); [exact H | eapply Hm; reflexivity].
  - rewrite r_gap_hbc. exact H.
  - destruct (w_acknack base bits (sw s)). exact H.
  - exact H.
Qed.
Lemma recv_hbc d c : forall s,
  r_hbc (sr s) < c -> (forall fi la c', In (SHb fi la c') d -> c' < c) -> r_hbc (sr (recv s d)) < c.
Proof.
  unfold recv. induction d as [|m d IH]; intros s H Hd; cbn [fold_left]; [exact H|].
  apply IH.
  - apply recv_sub_hbc; [exact H|]. intros fi la c' ->. eapply Hd. left. reflexivity.
  - intros fi la c' Hin. eapply Hd. right. exact Hin.
Qed.
Lemma deliver_prefix_hbc depth c pre : forall s post,
  0 <= depth -> Inv s -> net s = pre ++ post -> r_hbc (sr s) < c ->
  (forall d fi la c', In d pre -> In (SHb fi la c') d -> c' < c) ->
  r_hbc (sr (deliver_n depth (length pre) s)) < c.
Proof.
  induction pre as [|d pre IH]; intros s post D I E H Hp; cbn [length deliver_n]; [exact H|].
  cbn [app] in E. destruct (Inv_head s d _ I E) as [I0 Hd].
  rewrite (deliver_step depth s d _ E).
  destruct (recv_net d _ I0 Hd) as [o1 [E1 T1]]. cbn [net] in E1.
  destruct (Inv_recv d _ I0 Hd) as [I1 _].
  apply (IH _ (post ++ o1) D I1).
  - rewrite E1, app_assoc. reflexivity.
  - apply recv_hbc; [exact H|]. intros fi la c' Hin. eapply Hp; [left; reflexivity | exact Hin].
  - intros d' fi la c' Hd' Hin. eapply Hp; [right; exact Hd' | exact Hin].
Qed.
