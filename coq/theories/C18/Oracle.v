(* C18 — the boolean oracle [ok] means the property (oracle soundness), and the refutation of the
   pre-repair code. *)
From Coq Require Import List ZArith Bool Lia.
From RD Require Import C18.Glob C18.GlobProofs C18.Model C18.Proofs.
Import ListNotations.
Open Scope Z_scope.

(* what "the grant allows it" means for each entry point *)
Definition GrantedP (g : grant pattern) (a : api) (q : query) : Prop :=
  match a with
  | CreateDatawriter | RemoteDatawriter => Grants g Publish q
  | CreateDatareader => Grants g Subscribe q
  | CreateTopic | RemoteTopic => Grants g Publish q \/ Grants g Subscribe q
  | RemoteDatareader => Grants g Subscribe q \/ Grants g Relay q
  end.

(* the property text: the governance document leaves that access unprotected for the topic, or
   the first applicable rule of the subject's currently valid grant allows it (otherwise the
   grant's default applies) *)
Definition AllowedP (cdoc : option (list (grant pattern))) (cdr : option (domain_rule pattern))
           (subject now : Z) (a : api) (domain : Z) (topic : str) : Prop :=
  exists dr, cdr = Some dr /\
    (Unprotected dr (entity_of a) topic
     \/ exists doc g, cdoc = Some doc /\ FirstSuch (ValidFor subject now) doc g
                      /\ GrantedP g a (api_query domain topic)).

Lemma spec_granted_spec : forall g a q, spec_granted g a q = true <-> GrantedP g a q.
Proof.
  intros g a q. unfold spec_granted, GrantedP.
  destruct a; rewrite ?orb_true_iff, ?spec_allows_eq, ?check_action_spec; tauto.
Qed.

Lemma spec_allowed_spec : forall cdoc cdr subject now a domain topic,
  spec_allowed cdoc cdr subject now a domain topic = true
  <-> AllowedP cdoc cdr subject now a domain topic.
Proof.
  intros. unfold spec_allowed, AllowedP. destruct cdr as [dr|].
  2:{ split; [discriminate|]. intros (dr & H & _). discriminate. }
  rewrite orb_true_iff, spec_unprotected_eq, unprotected_spec. split.
  - intros [H|H]; exists dr; split; auto. right.
    destruct cdoc as [d|]; [|discriminate]. rewrite spec_valid_grant_eq in H.
    destruct (find_grant d subject now) as [g|] eqn:F; [|discriminate].
    apply find_grant_some in F. exists d, g. repeat split; auto. apply spec_granted_spec; auto.
  - intros (dr' & Hd & [H|(d & g & -> & F & G)]); inversion Hd; subst; auto. right.
    rewrite spec_valid_grant_eq. apply find_grant_some in F. rewrite F. apply spec_granted_spec; auto.
Qed.

(* one observed verdict that passes the oracle says "allowed" exactly when the property does *)
Lemma decision_ok_sound : forall cdoc cdr subject now a domain topic d,
  decision_ok cdoc cdr subject now a domain topic d = true ->
  d <> DNotRun -> is_builtin_topic topic = false ->
  exists b, dres_allowed d = Some b
            /\ (b = true <-> AllowedP cdoc cdr subject now a domain topic).
Proof.
  intros cdoc cdr subject now a domain topic d H Hn Hb. unfold decision_ok in H. rewrite Hb in H.
  destruct d; try discriminate; try contradiction;
    apply andb_true_iff in H as [_ H]; apply andb_true_iff in H as [H _];
    cbn [dres_allowed] in *;
    eexists; (split; [reflexivity|]); rewrite <- spec_allowed_spec;
    destruct (spec_allowed cdoc cdr subject now a domain topic);
    repeat match goal with b : bool |- _ => destruct b end;
    simpl in H; try discriminate; split; auto.
Qed.

Definition compile_opt {A B} (f : A -> option B) (o : option A) : option (option B) :=
  match o with None => Some None | Some d => option_map Some (f d) end.

Theorem oracle_sound_check : forall doc dr subject now a domain topic d1 d2 d3 cdoc cdr,
  ok (CCheck doc dr subject now a domain topic) (ODecision d1 d2 d3) = true ->
  compile_opt compile_permissions doc = Some cdoc ->
  compile_opt compile_domain_rule dr = Some cdr ->
  is_builtin_topic topic = false ->
  forall d, In d [d1; d2; d3] -> d <> DNotRun ->
    exists b, dres_allowed d = Some b
              /\ (b = true <-> AllowedP cdoc cdr subject now a domain topic).
Proof.
  intros doc dr subject now a domain topic d1 d2 d3 cdoc cdr H E1 E2 Hb d Hin Hn.
  unfold compile_opt in E1, E2. simpl in H. rewrite E1, E2 in H.
  apply andb_true_iff in H as [H H3]. apply andb_true_iff in H as [H H2].
  apply andb_true_iff in H as [_ H1].
  destruct Hin as [<-|[<-|[<-|[]]]]; eapply decision_ok_sound; eauto.
Qed.

Theorem oracle_sound_signed : forall alt accepted same_bytes,
  ok (CSigned alt) (OSigned accepted same_bytes) = true ->
  accepted = true -> alt = Genuine /\ same_bytes = true.
Proof.
  intros alt accepted same_bytes H ->. simpl in H. apply andb_true_iff in H as [H1 H2].
  split; auto. destruct alt; auto; discriminate.
Qed.

Theorem oracle_sound_glob : forall pat subj r,
  ok (CGlob pat subj) (OGlob r) = true ->
  match compile_pat pat with
  | None => r = None
  | Some p => exists b, r = Some b /\ (no_rec p = true -> (b = true <-> Matches p subj))
  end.
Proof.
  intros pat subj r H. simpl in H. unfold spec_glob in H.
  destruct (compile_pat pat) as [p|]; simpl in H.
  - destruct r as [b|]; [|discriminate]. simpl in H. apply eqb_prop in H. subst b.
    eexists. split; [reflexivity|]. intro Hn. apply glob_spec; auto.
  - destruct r; [discriminate|reflexivity].
Qed.

Theorem oracle_sound_domain : forall d i b,
  ok (CDomain d i) (OBool b) = true -> (b = true <-> InDomain d i).
Proof.
  intros d i b H. simpl in H. apply eqb_prop in H. subst b.
  rewrite <- domain_matches_spec. destruct d; simpl; rewrite orb_false_r; try tauto.
  rewrite Z.eqb_sym. tauto.
Qed.

(* ------------------------------------------------------------------------------------------ *)
(* the code before the repairs fails the oracle (both witnesses are in the driver's corpus and
   failed on the unrepaired implementation in the same way) *)

(* D1: an allow rule restricted to partition "P1" granted access to an entity without partitions
   (= in the default partition "") *)
Definition witness_partition : case :=
  CCheck (Some [Build_grant 0 1705392000 3376800000
                  [Build_rule Allow [DValue 0] [Build_criterion [[84; 45; 49]] [[80; 49]] []]
                     [Build_criterion [[84; 45; 49]] [[80; 49]] []] []] Deny])
         (Some (Build_domain_rule [DRange 0 100] [Build_topic_rule [42] true true]))
         0 1800000000 CreateDatawriter 0 [84; 45; 49].

(* D2: the only grant has expired, the governance document switches access control off for the
   topic: the old code answered Err(no valid grant) *)
Definition witness_expired : case :=
  CCheck (Some [Build_grant 0 1516176000 1705392000
                  [Build_rule Allow [DValue 0] [Build_criterion [[42]] [] []]
                     [Build_criterion [[42]] [] []] []] Allow])
         (Some (Build_domain_rule [DRange 0 100] [Build_topic_rule [83; 113; 42] false false]))
         0 1800000000 CreateDatawriter 0 [83; 113; 117; 97; 114; 101].

Lemma old_partition_refuted :
  run_old witness_partition = ODecision (DOk true) (DOk true) (DOk true)
  /\ ok witness_partition (run_old witness_partition) = false
  /\ run witness_partition = ODecision (DOk false) (DOk false) (DOk false).
Proof. vm_compute. auto. Qed.

Lemma old_expired_refuted :
  run_old witness_expired = ODecision (DErr ENoGrant) (DErr ENoGrant) (DErr ENoGrant)
  /\ ok witness_expired (run_old witness_expired) = false
  /\ run witness_expired = ODecision (DOk true) (DOk true) (DOk true).
Proof. vm_compute. auto. Qed.

(* ------------------------------------------------------------------------------------------ *)
(* non-vacuity examples *)

Example ex_first_match_deny_then_allow :
  let deny_sq := Build_rule Deny [DValue 0] [Build_criterion [[TChar 83; TChar 113]] [] []] [] [] in
  let allow_all := Build_rule Allow [DMin 0] [Build_criterion [[TAnySeq]] [] []] [] [] in
  let q := api_query 0 [83; 113] in
  check_action crit_applicable (Build_grant 0 0 10 [deny_sq; allow_all] Allow) Publish q = Deny
  /\ check_action crit_applicable (Build_grant 0 0 10 [allow_all; deny_sq] Deny) Publish q = Allow.
Proof. vm_compute. auto. Qed.

Example ex_decision_hyp_satisfiable :
  exists h now e q, is_builtin_topic (q_topic q) = false /\ check_entity h now e q = DOk true
                    /\ exists h', check_entity h' now e q = DOk false.
Proof.
  exists (mk_handle (Some [Build_grant 0 0 10 [] Allow]) (Some (Build_domain_rule [] [])) 0), 5,
         Datawriter, (api_query 0 [83]).
  repeat split; try reflexivity.
  exists (mk_handle (Some [Build_grant 0 0 10 [] Deny]) (Some (Build_domain_rule [] [])) 0).
  reflexivity.
Qed.

Example ex_glob :
  compile_pat [114; 116; 47; 42] = Some [TChar 114; TChar 116; TChar 47; TAnySeq]
  /\ no_rec [TChar 114; TChar 116; TChar 47; TAnySeq] = true
  /\ gmatches [TChar 114; TChar 116; TChar 47; TAnySeq] [114; 116; 47; 97] = true
  /\ gmatches [TChar 114; TChar 116; TChar 47; TAnySeq] [114; 113; 47; 97] = false.
Proof. vm_compute. auto. Qed.
