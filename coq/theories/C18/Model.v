(* C18 — model of the builtin access-control decision logic (feature `security`):
     src/security/access_control/access_control_builtin.rs                       check_entity, get_grant
     .../access_control_builtin/domain_participant_permissions_document.rs       find_grant, Grant::check_action,
                                    Rule::is_applicable, Criterion::is_applicable, DomainIds::matches
     .../access_control_builtin/domain_governance_document.rs                    DomainRule::find_topic_rule,
                                                                                DomainGovernanceDocument::find_rule
     .../access_control_builtin/local_entity_access_control.rs                   check_create_{datawriter,datareader,topic}
     .../access_control_builtin/remote_entity_access_control.rs                  check_remote_{datawriter,datareader,topic}
     .../access_control_builtin/s_mime_config_parser.rs                          SignedDocument::{from_bytes,verify_signature}
     .../access_control_builtin/participant_access_control.rs                    the load chain of validate_*_permissions
   Subject names are abstract ids (x509 DistinguishedName equality); times are seconds (Z);
   documents carry their pattern *source strings*; compilation (glob::Pattern::new) is explicit. *)
From Coq Require Import List ZArith Bool Lia String Ascii.
From RD Require Import C18.Glob.
Import ListNotations.
Open Scope Z_scope.
Set Implicit Arguments.

Inductive verdict := Allow | Deny.
Inductive action := Publish | Subscribe | Relay.
Inductive entity := Datawriter | Datareader | Topic.

Definition verdict_bool (v : verdict) : bool := match v with Allow => true | Deny => false end.

Inductive domain_ids := DValue (v : Z) | DRange (lo hi : Z) | DMin (lo : Z) | DMax (hi : Z).

(* DomainIds::matches *)
Definition domain_matches (d : domain_ids) (i : Z) : bool :=
  match d with
  | DValue v => v =? i
  | DRange lo hi => (lo <=? i) && (i <=? hi)
  | DMin lo => lo <=? i
  | DMax hi => i <=? hi
  end.

(* P = str for documents as written, P = pattern for compiled documents *)
Record criterion (P : Type) := {
  c_topics : list P;
  c_partitions : list P;
  c_tags : list (str * str) }.

Record rule (P : Type) := {
  r_verdict : verdict;
  r_domains : list domain_ids;
  r_publish : list (criterion P);
  r_subscribe : list (criterion P);
  r_relay : list (criterion P) }.

Record grant (P : Type) := {
  g_subject : Z;
  g_not_before : Z;       (* validity : Range<DateTime<Utc>> = not_before .. not_after *)
  g_not_after : Z;
  g_rules : list (rule P);
  g_default : verdict }.

Record topic_rule (P : Type) := {
  tr_expr : P;
  tr_read : bool;        (* enable_read_access_control *)
  tr_write : bool }.     (* enable_write_access_control *)

Record domain_rule (P : Type) := {
  dr_domains : list domain_ids;
  dr_topic_rules : list (topic_rule P) }.

(* ---- compilation of the pattern strings (Criterion::from_xml / TopicRule::from_xml call
        Pattern::new on every expression and fail on the first error) ---- *)
Fixpoint mapM {A B} (f : A -> option B) (l : list A) : option (list B) :=
  match l with
  | [] => Some []
  | x :: l' => match f x with
               | None => None
               | Some y => match mapM f l' with None => None | Some ys => Some (y :: ys) end
               end
  end.

Definition compile_criterion (c : criterion str) : option (criterion pattern) :=
  match mapM compile_pat (c_topics c), mapM compile_pat (c_partitions c) with
  | Some t, Some p => Some {| c_topics := t; c_partitions := p; c_tags := c_tags c |}
  | _, _ => None
  end.

Definition compile_rule (r : rule str) : option (rule pattern) :=
  match mapM compile_criterion (r_publish r), mapM compile_criterion (r_subscribe r),
        mapM compile_criterion (r_relay r) with
  | Some p, Some s, Some y =>
      Some {| r_verdict := r_verdict r; r_domains := r_domains r;
              r_publish := p; r_subscribe := s; r_relay := y |}
  | _, _, _ => None
  end.

Definition compile_grant (g : grant str) : option (grant pattern) :=
  match mapM compile_rule (g_rules g) with
  | Some rs => Some {| g_subject := g_subject g; g_not_before := g_not_before g;
                       g_not_after := g_not_after g; g_rules := rs; g_default := g_default g |}
  | None => None
  end.

Definition compile_permissions (d : list (grant str)) : option (list (grant pattern)) :=
  mapM compile_grant d.

Definition compile_topic_rule (t : topic_rule str) : option (topic_rule pattern) :=
  match compile_pat (tr_expr t) with
  | Some p => Some {| tr_expr := p; tr_read := tr_read t; tr_write := tr_write t |}
  | None => None
  end.

Definition compile_domain_rule (d : domain_rule str) : option (domain_rule pattern) :=
  match mapM compile_topic_rule (dr_topic_rules d) with
  | Some ts => Some {| dr_domains := dr_domains d; dr_topic_rules := ts |}
  | None => None
  end.

(* ---- decision functions on compiled documents ---- *)

Definition tag_check (dt nv : str * str) : bool :=       (* DataTag::check *)
  str_eqb (fst nv) (fst dt) && str_eqb (snd nv) (snd dt).

(* Criterion::is_applicable as it was before the repair (commit "fix: a permissions rule
   restricted to partitions ..."): an entity without partitions passed the partition test
   vacuously *)
Definition crit_applicable_old (c : criterion pattern) (topic : str) (partitions : list str)
           (tags : list (str * str)) : bool :=
  existsb (fun g => gmatches g topic) (c_topics c)
  && forallb (fun p => existsb (fun g => gmatches g p) (c_partitions c)) partitions
  && forallb (fun nv => existsb (fun dt => tag_check dt nv) (c_tags c)) tags.

(* Criterion::is_applicable (repaired): no partitions = the default partition "" on both sides *)
Definition default_if_empty {A} (d : A) (l : list A) : list A :=
  match l with [] => [d] | _ => l end.

Definition crit_applicable (c : criterion pattern) (topic : str) (partitions : list str)
           (tags : list (str * str)) : bool :=
  existsb (fun g => gmatches g topic) (c_topics c)
  && forallb (fun p => existsb (fun g => gmatches g p) (default_if_empty ([] : pattern) (c_partitions c)))
             (default_if_empty ([] : str) partitions)
  && forallb (fun nv => existsb (fun dt => tag_check dt nv) (c_tags c)) tags.

Record query := {
  q_domain : Z;
  q_topic : str;
  q_partitions : list str;
  q_tags : list (str * str) }.

Section Decision.
  (* the criterion test in force (old or repaired code) *)
  Variable crit_app : criterion pattern -> str -> list str -> list (str * str) -> bool.

  (* Rule::is_applicable *)
  Definition rule_applicable (r : rule pattern) (a : action) (q : query) : bool :=
    if existsb (fun d => domain_matches d (q_domain q)) (r_domains r) then
      let criteria := match a with
                      | Publish => r_publish r
                      | Subscribe => r_subscribe r
                      | Relay => r_relay r
                      end in
      existsb (fun c => crit_app c (q_topic q) (q_partitions q) (q_tags q)) criteria
    else false.

  (* Grant::check_action: rules.iter().find(applicable).map(verdict).unwrap_or(default) *)
  Definition check_action (g : grant pattern) (a : action) (q : query) : verdict :=
    match find (fun r => rule_applicable r a q) (g_rules g) with
    | Some r => r_verdict r
    | None => g_default g
    end.
End Decision.

(* Range<DateTime>::contains : start <= t < end *)
Definition validity_contains (g : grant pattern) (now : Z) : bool :=
  (g_not_before g <=? now) && (now <? g_not_after g).

(* DomainParticipantPermissions::find_grant *)
Definition find_grant (doc : list (grant pattern)) (subject : Z) (now : Z) : option (grant pattern) :=
  find (fun g => (g_subject g =? subject) && validity_contains g now) doc.

(* DomainRule::find_topic_rule *)
Definition find_topic_rule (dr : domain_rule pattern) (topic : str) : option (topic_rule pattern) :=
  find (fun tr => gmatches (tr_expr tr) topic) (dr_topic_rules dr).

(* DomainGovernanceDocument::find_rule *)
Definition find_domain_rule (gov : list (domain_rule pattern)) (domain : Z) : option (domain_rule pattern) :=
  find (fun dr => existsb (fun d => domain_matches d domain) (dr_domains dr)) gov.

(* rtps::constant::builtin_topic_names, the eleven names check_entity lets through *)
Definition s (x : string) : str := map (fun a => Z.of_nat (nat_of_ascii a)) (list_ascii_of_string x).
Definition builtin_topics : list str :=
  [ s "DCPSParticipant"; s "DCPSParticipantMessage"; s "DCPSParticipantMessageSecure";
    s "DCPSParticipantSecure"; s "DCPSParticipantStatelessMessage";
    s "DCPSParticipantVolatileMessageSecure"; s "DCPSPublication"; s "DCPSPublicationsSecure";
    s "DCPSSubscription"; s "DCPSSubscriptionsSecure"; s "DCPSTopic" ].
Definition is_builtin_topic (t : str) : bool := existsb (str_eqb t) builtin_topics.

Inductive derr :=
| EPermDoc        (* "Could not find a permissions document for the PermissionsHandle" *)
| ENoGrant        (* "Could not find a valid grant for the PermissionsHandle" *)
| ENoDomainRule   (* "Could not find a domain rule for the PermissionsHandle" *)
| EOther.

Inductive dres :=
| DOk (b : bool)                           (* SecurityResult<bool> = Ok(b) *)
| DOk2 (passed relay_only : bool)          (* check_remote_datareader: Ok((passed, relay_only)) *)
| DErr (e : derr)
| DParse                                   (* the document did not compile (Pattern::new error) *)
| DPanic
| DNotRun.

(* what is stored under one PermissionsHandle *)
Record handle_state := {
  h_perm : option (Z * list (grant pattern));   (* (subject name, permissions document) *)
  h_rule : option (domain_rule pattern) }.

(* get_grant *)
Definition get_grant (h : handle_state) (now : Z) : derr + grant pattern :=
  match h_perm h with
  | None => inl EPermDoc
  | Some (subject, doc) =>
      match find_grant doc subject now with
      | None => inl ENoGrant
      | Some g => inr g
      end
  end.

Definition access_flag (e : entity) (tr : topic_rule pattern) : bool :=
  match e with
  | Datawriter => tr_write tr
  | Datareader => tr_read tr
  | Topic => tr_read tr && tr_write tr
  end.

(* `.find_topic_rule(topic).map(flag).is_some_and(bool::not)` *)
Definition unprotected (dr : domain_rule pattern) (e : entity) (topic : str) : bool :=
  match find_topic_rule dr topic with
  | Some tr => negb (access_flag e tr)
  | None => false
  end.

Definition has_access (crit_app : criterion pattern -> str -> list str -> list (str * str) -> bool)
           (g : grant pattern) (e : entity) (q : query) : bool :=
  let w := verdict_bool (check_action crit_app g Publish q) in
  let r := verdict_bool (check_action crit_app g Subscribe q) in
  match e with
  | Datawriter => w
  | Datareader => r
  | Topic => w || r
  end.

(* AccessControlBuiltin::check_entity, repaired: the governance document is consulted first and
   an unprotected access is granted without looking for a grant *)
Definition check_entity (h : handle_state) (now : Z) (e : entity) (q : query) : dres :=
  if is_builtin_topic (q_topic q) then DOk true else
  match h_rule h with
  | None => DErr ENoDomainRule
  | Some dr =>
      if unprotected dr e (q_topic q) then DOk true else
      match get_grant h now with
      | inl err => DErr err
      | inr g => DOk (has_access crit_applicable g e q)
      end
  end.

(* check_entity before the repairs: grant looked up first, old criterion test *)
Definition check_entity_old (h : handle_state) (now : Z) (e : entity) (q : query) : dres :=
  if is_builtin_topic (q_topic q) then DOk true else
  match get_grant h now with
  | inl err => DErr err
  | inr g =>
      match h_rule h with
      | None => DErr ENoDomainRule
      | Some dr => DOk (unprotected dr e (q_topic q) || has_access crit_applicable_old g e q)
      end
  end.

(* RemoteEntityAccessControl::check_remote_datareader (repaired the same way) *)
Definition check_remote_datareader (h : handle_state) (now : Z) (q : query) : dres :=
  match h_rule h with
  | None => DErr ENoDomainRule
  | Some dr =>
      if unprotected dr Datareader (q_topic q) then DOk2 true false else
      match get_grant h now with
      | inl err => DErr err
      | inr g =>
          if verdict_bool (check_action crit_applicable g Subscribe q) then DOk2 true false
          else let relay := verdict_bool (check_action crit_applicable g Relay q) in
               DOk2 relay relay
      end
  end.

Definition check_remote_datareader_old (h : handle_state) (now : Z) (q : query) : dres :=
  match get_grant h now with
  | inl err => DErr err
  | inr g =>
      match h_rule h with
      | None => DErr ENoDomainRule
      | Some dr =>
          let full := unprotected dr Datareader (q_topic q)
                      || verdict_bool (check_action crit_applicable_old g Subscribe q) in
          let relay_only := if full then false
                            else verdict_bool (check_action crit_applicable_old g Relay q) in
          DOk2 (full || relay_only) relay_only
      end
  end.

(* the six entry points; all of them pass partitions = &[] and data_tags = &[] *)
Inductive api :=
| CreateDatawriter | CreateDatareader | CreateTopic
| RemoteDatawriter | RemoteDatareader | RemoteTopic.

Definition api_query (domain : Z) (topic : str) : query :=
  {| q_domain := domain; q_topic := topic; q_partitions := []; q_tags := [] |}.

Definition check_api (h : handle_state) (now : Z) (a : api) (domain : Z) (topic : str) : dres :=
  let q := api_query domain topic in
  match a with
  | CreateDatawriter | RemoteDatawriter => check_entity h now Datawriter q
  | CreateDatareader => check_entity h now Datareader q
  | CreateTopic | RemoteTopic => check_entity h now Topic q
  | RemoteDatareader => check_remote_datareader h now q
  end.

Definition check_api_old (h : handle_state) (now : Z) (a : api) (domain : Z) (topic : str) : dres :=
  let q := api_query domain topic in
  match a with
  | CreateDatawriter | RemoteDatawriter => check_entity_old h now Datawriter q
  | CreateDatareader => check_entity_old h now Datareader q
  | CreateTopic | RemoteTopic => check_entity_old h now Topic q
  | RemoteDatareader => check_remote_datareader_old h now q
  end.

(* ------------------------------------------------------------------------------------------ *)
(* Signed documents.  External behaviour is a Section variable, never an axiom:
     mailparse      : mailparse::parse_mail — the MIME parts (raw bytes, decoded body) of the input
     unix2dos       : String::from_utf8 + newline_converter::unix2dos (None = not UTF-8)
     pkcs7_verify   : the whole of verify_signature's cryptographic part: DER/CMS decoding, the
                      message-digest attribute equals SHA-256(content), and the ECDSA-P256-SHA256
                      signature over the signed attributes verifies under the given certificate
     parse          : String::from_utf8_lossy + {DomainGovernanceDocument,DomainParticipantPermissions}::from_xml *)
Section Signed.
  Variables (bytes cert doc : Type).
  Record mime_part := { mp_raw : bytes; mp_body : option bytes }.
  Variable mailparse : bytes -> option (list mime_part).
  Variable pop_last : bytes -> bytes.                 (* Vec::pop *)
  Variable unix2dos : bytes -> option bytes.
  Variable pkcs7_verify : cert -> bytes -> bytes -> bool.
  Variable parse : bytes -> option doc.

  Inductive load_err := LMime | LSignature | LXml.

  (* SignedDocument::from_bytes : (content, signature_der) *)
  Definition from_bytes (input : bytes) : option (bytes * bytes) :=
    match mailparse input with
    | Some [doc_content; signature] =>
        match unix2dos (pop_last (mp_raw doc_content)), mp_body signature with
        | Some content, Some sig => Some (content, sig)
        | _, _ => None
        end
    | _ => None
    end.

  (* SignedDocument::verify_signature : Ok(self.content.clone()) iff the check passes *)
  Definition verify_signature (sd : bytes * bytes) (ca : cert) : option bytes :=
    if pkcs7_verify ca (fst sd) (snd sd) then Some (fst sd) else None.

  (* from_bytes(..).and_then(verify_signature(ca)).and_then(from_xml)  — validate_local_permissions
     (governance and permissions) and validate_remote_permissions *)
  Definition load_document (ca : cert) (input : bytes) : load_err + doc :=
    match from_bytes input with
    | None => inl LMime
    | Some sd =>
        match verify_signature sd ca with
        | None => inl LSignature
        | Some content =>
            match parse content with
            | None => inl LXml
            | Some d => inr d
            end
        end
    end.
End Signed.

(* ------------------------------------------------------------------------------------------ *)
(* Correspondence interface *)

Inductive alteration :=
| Genuine                 (* the document as signed by the Permissions CA *)
| ContentFlip             (* one content byte changed *)
| SignatureFlip           (* one byte of the base64 signature changed *)
| SwappedSignature        (* content of one validly signed document, signature of another *)
| WrongCa                 (* verified against a different CA certificate *)
| Truncated.              (* a proper prefix of the signed document *)

Definition alteration_eqb (a b : alteration) : bool :=
  match a, b with
  | Genuine, Genuine | ContentFlip, ContentFlip | SignatureFlip, SignatureFlip
  | SwappedSignature, SwappedSignature | WrongCa, WrongCa | Truncated, Truncated => true
  | _, _ => false
  end.

Inductive case :=
| CGlob (pat : str) (subject : str)                 (* Pattern::new(pat).map(|p| p.matches(subject)) *)
| CDomain (d : domain_ids) (i : Z)                  (* DomainIds::matches *)
| CFindGrant (doc : list (grant str)) (subject now : Z)      (* find_grant: index of the grant found *)
| CFindRule (gov : list (domain_rule str)) (domain : Z)      (* DomainGovernanceDocument::find_rule: index *)
| CApplicable (r : rule str) (a : action) (q : query)        (* Rule::is_applicable, any partitions/tags *)
| CCheck (doc : option (list (grant str))) (dr : option (domain_rule str))
         (subject now : Z) (a : api) (domain : Z) (topic : str)
| CSigned (alt : alteration).

Inductive obs :=
| OGlob (r : option bool)              (* None = PatternError *)
| OBool (b : bool)
| OIndex (i : option Z)
| ODecision (direct xml full : dres)   (* documents built as structs / parsed from XML / signed,
                                          loaded by validate_local_permissions (DNotRun if not run) *)
| OSigned (accepted : bool) (same_bytes : bool)  (* accepted; the bytes handed to the XML parser are
                                                    exactly the signed content *)
| OParse                               (* a pattern of the document did not compile *)
| OPanic.

Fixpoint find_index {A} (f : A -> bool) (l : list A) (i : Z) : option Z :=
  match l with
  | [] => None
  | x :: l' => if f x then Some i else find_index f l' (i + 1)
  end.

Definition expected_verify (alt : alteration) : bool :=
  match alt with Genuine => true | _ => false end.

Definition run_check_with (chk : handle_state -> Z -> api -> Z -> str -> dres) (doc : option (list (grant str))) (dr : option (domain_rule str))
           (subject now : Z) (a : api) (domain : Z) (topic : str) : dres :=
  match (match doc with None => Some None
                   | Some d => option_map Some (compile_permissions d) end),
        (match dr with None => Some None
                  | Some r => option_map Some (compile_domain_rule r) end) with
  | Some cdoc, Some cdr =>
      chk {| h_perm := option_map (fun d => (subject, d)) cdoc; h_rule := cdr |} now a domain topic
  | _, _ => DParse
  end.

Definition run_with (chk : handle_state -> Z -> api -> Z -> str -> dres)
           (crit_app : criterion pattern -> str -> list str -> list (str * str) -> bool) (c : case) : obs :=
  match c with
  | CGlob pat subj => OGlob (option_map (fun p => gmatches p subj) (compile_pat pat))
  | CDomain d i => OBool (domain_matches d i)
  | CFindGrant doc subject now =>
      match compile_permissions doc with
      | None => OParse
      | Some d => OIndex (find_index (fun g => (g_subject g =? subject) && validity_contains g now) d 0)
      end
  | CFindRule gov domain =>
      match mapM compile_domain_rule gov with
      | None => OParse
      | Some g => OIndex (find_index (fun dr => existsb (fun d => domain_matches d domain) (dr_domains dr)) g 0)
      end
  | CApplicable r a q =>
      match compile_rule r with
      | None => OParse
      | Some cr => OBool (rule_applicable crit_app cr a q)
      end
  | CCheck doc dr subject now a domain topic =>
      let d := run_check_with chk doc dr subject now a domain topic in
      ODecision d d d
  | CSigned alt =>
      (* load_document with the oracle answer expected for this alteration class; the other
         steps succeed on a well-formed genuine document *)
      match load_document (bytes := unit) (cert := unit) (doc := unit)
              (fun _ => Some [ {| mp_raw := tt; mp_body := Some tt |}; {| mp_raw := tt; mp_body := Some tt |} ])
              (fun b => b) (fun b => Some b) (fun _ _ _ => expected_verify alt) (fun _ => Some tt) tt tt with
      | inr _ => OSigned true true
      | inl _ => OSigned false true
      end
  end.

Definition run_check := run_check_with check_api.
Definition run : case -> obs := run_with check_api crit_applicable.
(* the code before the two repairs (kept for the refutation theorems and their replay) *)
Definition run_old : case -> obs := run_with check_api_old crit_applicable_old.

(* ---- comparison of observations ---- *)
Definition derr_eqb (a b : derr) : bool :=
  match a, b with
  | EPermDoc, EPermDoc | ENoGrant, ENoGrant | ENoDomainRule, ENoDomainRule | EOther, EOther => true
  | _, _ => false
  end.

(* second argument = implementation; DNotRun there means "this path was not exercised" *)
Definition dres_eqb (m i : dres) : bool :=
  match m, i with
  | _, DNotRun => true
  | DOk a, DOk b => Bool.eqb a b
  | DOk2 a1 a2, DOk2 b1 b2 => Bool.eqb a1 b1 && Bool.eqb a2 b2
  | DErr a, DErr b => derr_eqb a b
  | DParse, DParse => true
  | _, _ => false
  end.

Definition optb_eqb (a b : option bool) : bool :=
  match a, b with
  | None, None => true
  | Some x, Some y => Bool.eqb x y
  | _, _ => false
  end.

Definition optz_eqb (a b : option Z) : bool :=
  match a, b with
  | None, None => true
  | Some x, Some y => x =? y
  | _, _ => false
  end.

Definition obs_eqb (m i : obs) : bool :=
  match m, i with
  | OGlob a, OGlob b => optb_eqb a b
  | OBool a, OBool b => Bool.eqb a b
  | OIndex a, OIndex b => optz_eqb a b
  | ODecision a1 a2 a3, ODecision b1 b2 b3 =>
      match b1 with DNotRun => false | _ => dres_eqb a1 b1 end
      && dres_eqb a2 b2 && dres_eqb a3 b3
  | OSigned a _, OSigned b _ => Bool.eqb a b
  | OParse, OParse => true
  | _, _ => false
  end.

(* ------------------------------------------------------------------------------------------ *)
(* The property oracle: judges an observation from the inputs only, by a specification written
   independently of the decision functions above (explicit recursion instead of find/existsb
   chains; the entity's partition set is the DDS default partition "" when none is given). *)

Definition spec_glob (pat s : str) : option bool :=
  option_map (fun p => gmatches p s) (compile_pat pat).
  (* gmatches p s = true <-> Matches p s  is theorem C18_glob *)

Fixpoint spec_in_domains (ds : list domain_ids) (i : Z) : bool :=
  match ds with
  | [] => false
  | DValue v :: ds' => (i =? v) || spec_in_domains ds' i
  | DRange lo hi :: ds' => ((lo <=? i) && (i <=? hi)) || spec_in_domains ds' i
  | DMin lo :: ds' => (lo <=? i) || spec_in_domains ds' i
  | DMax hi :: ds' => (i <=? hi) || spec_in_domains ds' i
  end.

Fixpoint some_pattern_matches (ps : list pattern) (x : str) : bool :=
  match ps with
  | [] => false
  | p :: ps' => if gmatches p x then true else some_pattern_matches ps' x
  end.

Fixpoint all_partitions_allowed (ps : list pattern) (parts : list str) : bool :=
  match parts with
  | [] => true
  | x :: parts' => some_pattern_matches ps x && all_partitions_allowed ps parts'
  end.

Fixpoint all_tags_allowed (allowed tags : list (str * str)) : bool :=
  match tags with
  | [] => true
  | nv :: tags' =>
      existsb (fun dt => str_eqb (fst dt) (fst nv) && str_eqb (snd dt) (snd nv)) allowed
      && all_tags_allowed allowed tags'
  end.

(* a criterion covers a query: the topic matches one of its topic expressions, every partition
   of the entity (the default partition "" if it has none) matches one of its partition
   expressions (only the default partition if it lists none), every data tag of the entity is
   listed *)
Definition spec_crit (c : criterion pattern) (q : query) : bool :=
  some_pattern_matches (c_topics c) (q_topic q)
  && all_partitions_allowed (match c_partitions c with [] => [[]] | ps => ps end)
                            (match q_partitions q with [] => [[]] | xs => xs end)
  && all_tags_allowed (c_tags c) (q_tags q).

Fixpoint spec_some_crit (cs : list (criterion pattern)) (q : query) : bool :=
  match cs with
  | [] => false
  | c :: cs' => spec_crit c q || spec_some_crit cs' q
  end.

Definition spec_rule_applies (r : rule pattern) (a : action) (q : query) : bool :=
  spec_in_domains (r_domains r) (q_domain q)
  && spec_some_crit (match a with Publish => r_publish r | Subscribe => r_subscribe r | Relay => r_relay r end) q.

(* first applicable rule decides, else the default *)
Fixpoint spec_rules (rs : list (rule pattern)) (dflt : verdict) (a : action) (q : query) : verdict :=
  match rs with
  | [] => dflt
  | r :: rs' => if spec_rule_applies r a q then r_verdict r else spec_rules rs' dflt a q
  end.

Definition spec_allows (g : grant pattern) (a : action) (q : query) : bool :=
  verdict_bool (spec_rules (g_rules g) (g_default g) a q).

(* first grant of the subject whose validity window contains now *)
Fixpoint spec_valid_grant (doc : list (grant pattern)) (subject now : Z) : option (grant pattern) :=
  match doc with
  | [] => None
  | g :: doc' =>
      if (g_subject g =? subject) && (g_not_before g <=? now) && (now <? g_not_after g)
      then Some g else spec_valid_grant doc' subject now
  end.

(* first topic rule of the governance document matching the topic *)
Fixpoint spec_topic_rule (trs : list (topic_rule pattern)) (topic : str) : option (topic_rule pattern) :=
  match trs with
  | [] => None
  | tr :: trs' => if gmatches (tr_expr tr) topic then Some tr else spec_topic_rule trs' topic
  end.

(* "the governance document leaves that access unprotected for the topic" *)
Definition spec_unprotected (dr : domain_rule pattern) (a : api) (topic : str) : bool :=
  match spec_topic_rule (dr_topic_rules dr) topic with
  | None => false
  | Some tr =>
      match a with
      | CreateDatawriter | RemoteDatawriter => negb (tr_write tr)
      | CreateDatareader | RemoteDatareader => negb (tr_read tr)
      | CreateTopic | RemoteTopic => negb (tr_read tr) || negb (tr_write tr)
      end
  end.

(* "the first applicable rule of the subject's currently valid grant allows it (otherwise the
   grant's default applies)" *)
Definition spec_granted (g : grant pattern) (a : api) (q : query) : bool :=
  match a with
  | CreateDatawriter | RemoteDatawriter => spec_allows g Publish q
  | CreateDatareader => spec_allows g Subscribe q
  | CreateTopic | RemoteTopic => spec_allows g Publish q || spec_allows g Subscribe q
  | RemoteDatareader => spec_allows g Subscribe q || spec_allows g Relay q
  end.

(* the verdict the property demands for a non-builtin topic: allowed iff the governance document
   leaves the access unprotected or the currently valid grant allows it *)
Definition spec_allowed (doc : option (list (grant pattern))) (dr : option (domain_rule pattern))
           (subject now : Z) (a : api) (domain : Z) (topic : str) : bool :=
  let q := api_query domain topic in
  match dr with
  | None => false
  | Some dr =>
      spec_unprotected dr a topic
      || match doc with
         | None => false
         | Some d => match spec_valid_grant d subject now with
                     | None => false
                     | Some g => spec_granted g a q
                     end
         end
  end.

Definition dres_allowed (d : dres) : option bool :=
  match d with
  | DOk b => Some b
  | DOk2 b _ => Some b
  | DErr _ => Some false
  | DParse | DPanic | DNotRun => None
  end.

(* relay_only may be reported only when the access was granted through a relay rule alone *)
Definition relay_flag_ok (doc : option (list (grant pattern))) (dr : option (domain_rule pattern))
           (subject now : Z) (domain : Z) (topic : str) (d : dres) : bool :=
  match d with
  | DOk2 passed relay_only =>
      if relay_only then
        passed &&
        match dr, doc with
        | Some dr, Some dd =>
            negb (spec_unprotected dr RemoteDatareader topic)
            && match spec_valid_grant dd subject now with
               | Some g => negb (spec_allows g Subscribe (api_query domain topic))
                           && spec_allows g Relay (api_query domain topic)
               | None => false
               end
        | _, _ => false
        end
      else true
  | _ => true
  end.

Definition shape_ok (a : api) (d : dres) : bool :=
  match a, d with
  | RemoteDatareader, DOk _ => false
  | RemoteDatareader, _ => true
  | _, DOk2 _ _ => false
  | _, _ => true
  end.

Definition decision_ok (doc : option (list (grant pattern))) (dr : option (domain_rule pattern))
           (subject now : Z) (a : api) (domain : Z) (topic : str) (d : dres) : bool :=
  match d with
  | DNotRun => true
  | DPanic | DParse => false
  | _ =>
      shape_ok a d
      && if is_builtin_topic topic then true else
         (* (the builtin discovery / security topics are outside the property: no topic rule or
            grant speaks about them) *)
         match dres_allowed d with
         | Some b => Bool.eqb b (spec_allowed doc dr subject now a domain topic)
         | None => false
         end
      && relay_flag_ok doc dr subject now domain topic d
  end.

Definition ok (c : case) (o : obs) : bool :=
  match c, o with
  | CGlob pat subj, OGlob r => optb_eqb r (spec_glob pat subj)
  | CDomain d i, OBool b => Bool.eqb b (spec_in_domains [d] i)
  | CFindGrant doc subject now, OIndex i =>
      match compile_permissions doc with
      | None => false
      | Some d =>
          match i with
          | None => match spec_valid_grant d subject now with None => true | Some _ => false end
          | Some k =>
              (* the k-th grant is for the subject and valid now, and no earlier one is *)
              match nth_error d (Z.to_nat k) with
              | Some g => (0 <=? k) && (g_subject g =? subject) && (g_not_before g <=? now) && (now <? g_not_after g)
                          && match spec_valid_grant (firstn (Z.to_nat k) d) subject now with
                             | None => true | Some _ => false end
              | None => false
              end
          end
      end
  | CFindGrant doc _ _, OParse => match compile_permissions doc with None => true | Some _ => false end
  | CFindRule gov domain, OIndex i =>
      match mapM compile_domain_rule gov with
      | None => false
      | Some g =>
          let app := fun dr => spec_in_domains (dr_domains dr) domain in
          match i with
          | None => negb (existsb app g)
          | Some k => match nth_error g (Z.to_nat k) with
                      | Some dr => (0 <=? k) && app dr && negb (existsb app (firstn (Z.to_nat k) g))
                      | None => false
                      end
          end
      end
  | CFindRule gov _, OParse => match mapM compile_domain_rule gov with None => true | Some _ => false end
  | CApplicable r a q, OBool b =>
      match compile_rule r with
      | None => false
      | Some cr => Bool.eqb b (spec_rule_applies cr a q)
      end
  | CApplicable r _ _, OParse => match compile_rule r with None => true | Some _ => false end
  | CCheck doc dr subject now a domain topic, ODecision d1 d2 d3 =>
      match (match doc with None => Some None | Some d => option_map Some (compile_permissions d) end),
            (match dr with None => Some None | Some r => option_map Some (compile_domain_rule r) end) with
      | Some cdoc, Some cdr =>
          (match d1 with DNotRun => false | _ => true end)
          && decision_ok cdoc cdr subject now a domain topic d1
          && decision_ok cdoc cdr subject now a domain topic d2
          && decision_ok cdoc cdr subject now a domain topic d3
      | _, _ =>
          (* a document whose patterns do not compile must be rejected as a whole *)
          match d1, d2, d3 with
          | DParse, (DParse | DNotRun), (DParse | DNotRun) => true
          | _, _, _ => false
          end
      end
  | CSigned alt, OSigned accepted same_bytes =>
      (* accepted only if genuine, and then the parsed bytes are exactly the signed bytes *)
      negb accepted || (alteration_eqb alt Genuine && same_bytes)
  | _, _ => false
  end.
