(* C18 — the glob model agrees with the declarative reading of file-name patterns, and the pattern
   compiler terminates within its fuel. *)
From Coq Require Import List ZArith Bool Lia.
From RD Require Import C18.Glob.
Import ListNotations.
Open Scope Z_scope.

Definition charlike (t : tok) : bool :=
  match t with TAnySeq | TAnyRec => false | _ => true end.

(* patterns built from literal characters, `?`, `*` and classes (no `**` component) *)
Fixpoint no_rec (p : pattern) : bool :=
  match p with
  | [] => true
  | TAnyRec :: _ => false
  | _ :: r => no_rec r
  end.

Lemma mfrom_charlike t T f :
  charlike t = true ->
  mfrom (t :: T) f = match f with
                     | [] => EntireNo
                     | c :: f' => if tok_accepts t c then mfrom T f' else SubNo
                     end.
Proof. destruct t; simpl; intros H; try discriminate; reflexivity. Qed.

Lemma matches_charlike_inv t T f :
  charlike t = true -> Matches (t :: T) f ->
  exists c f', f = c :: f' /\ tok_accepts t c = true /\ Matches T f'.
Proof.
  intros Hc H; inversion H; subst; simpl in Hc; try discriminate.
  - exists c, f0; repeat split; auto. simpl. apply Z.eqb_refl.
  - exists c, f0; repeat split; auto.
  - exists c, f0; repeat split; auto.
  - exists c, f0; repeat split; auto. simpl. rewrite H2. reflexivity.
Qed.

Lemma matches_charlike_intro t T c f :
  charlike t = true -> tok_accepts t c = true -> Matches T f -> Matches (t :: T) (c :: f).
Proof.
  destruct t; simpl; intros Hc Ha Hm; try discriminate.
  - apply Z.eqb_eq in Ha; subst. constructor; auto.
  - constructor; auto.
  - constructor; auto.
  - apply M_except; auto. destruct (in_cs cs c); simpl in Ha; congruence.
Qed.

Lemma matches_seq_inv T f :
  Matches (TAnySeq :: T) f <-> exists u w, f = u ++ w /\ Matches T w.
Proof.
  split.
  - intro H; inversion H; subst. eauto.
  - intros (u & w & -> & H). constructor; auto.
Qed.

Definition kspec (k : str -> mres) (R : pattern) : Prop :=
  forall f, (k f = Match <-> Matches R f)
            /\ (k f = EntireNo -> forall u w, f = u ++ w -> ~ Matches R w).

Lemma seq_loop_spec k R :
  kspec k R ->
  forall f, ~ Matches R f ->
    (seq_loop k f = Match <-> exists u w, f = u ++ w /\ Matches R w)
    /\ (seq_loop k f = EntireNo -> forall u w, f = u ++ w -> ~ Matches R w).
Proof.
  intros Hk f; induction f as [|a f IH]; intros Hn; simpl.
  - destruct (Hk []) as [H1 H2]. split.
    + split.
      * intro H. exists [], []. split; auto. apply H1; auto.
      * intros (u & w & Heq & Hm). symmetry in Heq. apply app_eq_nil in Heq as [-> ->]. apply H1; auto.
    + exact H2.
  - destruct (Hk f) as [H1 H2]. destruct (k f) eqn:E.
    + split; [split; auto | discriminate].
      intros _. exists [a], f. split; auto. apply H1; auto.
    + assert (Hnf : ~ Matches R f) by (intro Hm; apply H1 in Hm; discriminate).
      destruct (IH Hnf) as [I1 I2]. split.
      * split.
        -- intro H. apply I1 in H as (u & w & -> & Hm). exists (a :: u), w. auto.
        -- intros (u & w & Heq & Hm). destruct u as [|b u]; simpl in Heq.
           ++ subst w. contradiction.
           ++ inversion Heq; subst. apply I1. eauto.
      * intros H u w Heq Hm. destruct u as [|b u]; simpl in Heq.
        -- subst w. contradiction.
        -- inversion Heq; subst. eapply I2; eauto.
    + split.
      * split; [discriminate|].
        intros (u & w & Heq & Hm). destruct u as [|b u]; simpl in Heq.
        -- subst w. contradiction.
        -- inversion Heq; subst. exfalso. eapply H2; eauto.
      * intros _ u w Heq Hm. destruct u as [|b u]; simpl in Heq.
        -- subst w. contradiction.
        -- inversion Heq; subst. eapply H2; eauto.
Qed.

Lemma mfrom_spec : forall T, no_rec T = true -> kspec (mfrom T) T.
Proof.
  induction T as [|t T IH]; intros Hn f.
  - simpl. destruct f.
    + split; [split; auto; constructor | discriminate].
    + split; [split; [discriminate | intro H; inversion H] | discriminate].
  - destruct (charlike t) eqn:Hc.
    + assert (HnT : no_rec T = true) by (destruct t; simpl in *; auto; discriminate).
      specialize (IH HnT). rewrite (mfrom_charlike _ _ _ Hc). destruct f as [|c f'].
      * split; [split; [discriminate|] |].
        -- intro H. apply matches_charlike_inv in H as (c & f' & Heq & _); auto. discriminate.
        -- intros _ u w Heq H. symmetry in Heq. apply app_eq_nil in Heq as [_ ->].
           apply matches_charlike_inv in H as (c & f' & Heq & _); auto. discriminate.
      * destruct (tok_accepts t c) eqn:Ha.
        -- destruct (IH f') as [H1 H2]. split.
           ++ split.
              ** intro H. apply matches_charlike_intro; [exact Hc | exact Ha | apply H1; exact H].
              ** intro H. apply matches_charlike_inv in H as (c0 & f0 & Heq & _ & Hm); auto.
                 inversion Heq; subst. apply H1; auto.
           ++ intros HE u w Heq H.
              apply matches_charlike_inv in H as (c0 & f0 & -> & _ & Hm); auto.
              destruct u as [|b u]; simpl in Heq.
              ** inversion Heq; subst. eapply (H2 HE []); [simpl; reflexivity | exact Hm].
              ** inversion Heq; subst. eapply (H2 HE (u ++ [c0])); [|exact Hm].
                 rewrite <- app_assoc. reflexivity.
        -- split; [split; [discriminate|] | discriminate].
           intro H. apply matches_charlike_inv in H as (c0 & f0 & Heq & Ha' & _); auto.
           inversion Heq; subst. congruence.
    + destruct t; simpl in Hc; try discriminate.
      (* TAnySeq (TAnyRec is excluded by Hn) *)
      * simpl in Hn. specialize (IH Hn).
        cbn [mfrom]. destruct (IH f) as [H1 H2]. destruct (mfrom T f) eqn:E.
        -- split; [split; auto | discriminate]. intros _. apply matches_seq_inv.
           exists [], f. split; auto. apply H1; auto.
        -- assert (Hnf : ~ Matches T f) by (intro Hm; apply H1 in Hm; discriminate).
           destruct (seq_loop_spec _ _ IH f Hnf) as [S1 S2]. split.
           ++ rewrite matches_seq_inv. exact S1.
           ++ intros HE u w Heq Hm. apply matches_seq_inv in Hm as (u' & w' & -> & Hm).
              eapply (S2 HE (u ++ u')); [|exact Hm]. rewrite <- app_assoc. exact Heq.
        -- split.
           ++ split; [discriminate|]. intro Hm. apply matches_seq_inv in Hm as (u' & w' & Heq & Hm).
              exfalso. eapply H2; eauto.
           ++ intros _ u w Heq Hm. apply matches_seq_inv in Hm as (u' & w' & -> & Hm).
              eapply (H2 eq_refl (u ++ u')); [|exact Hm]. rewrite <- app_assoc. exact Heq.
Qed.

Theorem glob_spec : forall p s, no_rec p = true -> (gmatches p s = true <-> Matches p s).
Proof.
  intros p s Hn. destruct (mfrom_spec p Hn s) as [H _]. unfold gmatches.
  destruct (mfrom p s); split; intro; try discriminate; auto.
  - apply H; auto.
  - apply H in H0. discriminate.
  - apply H in H0. discriminate.
Qed.

(* ---- consequences that read like the fnmatch manual ---- *)

Lemma matches_literal : forall l s, Matches (map TChar l) s <-> s = l.
Proof.
  induction l as [|c l IH]; simpl; intros s; split; intro H.
  - inversion H; auto.
  - subst; constructor.
  - inversion H; subst. f_equal. apply IH; auto.
  - subst. constructor. apply IH; auto.
Qed.

Lemma matches_star_any : forall s, Matches [TAnySeq] s.
Proof. intros s. rewrite <- (app_nil_r s). constructor. constructor. Qed.

Lemma matches_quest_one : forall s, Matches [TAnyChar] s <-> exists c, s = [c].
Proof.
  intros s; split.
  - intro H; inversion H; subst.
    match goal with Hm : Matches [] _ |- _ => inversion Hm; subst end. eauto.
  - intros (c & ->). constructor. constructor.
Qed.

Lemma matches_prefix_star : forall l s, Matches (map TChar l ++ [TAnySeq]) s <-> exists t, s = l ++ t.
Proof.
  induction l as [|c l IH]; simpl; intros s; split.
  - intros _. exists s; auto.
  - intros _. apply matches_star_any.
  - intro H; inversion H; subst.
    match goal with Hm : Matches _ _ |- _ => apply IH in Hm as (t & ->) end. exists t; auto.
  - intros (t & ->). simpl. constructor. apply IH. eauto.
Qed.

(* ---- the compiler never runs out of fuel ---- *)

Lemma count_stars_len : forall s n r, count_stars s = (n, r) -> (length r <= length s)%nat.
Proof.
  induction s as [|c s IH]; simpl; intros n r H.
  - inversion H; subst; simpl; lia.
  - destruct (c =? ch_star).
    + destruct (count_stars s) as [n' r'] eqn:E. inversion H; subst.
      specialize (IH _ _ eq_refl). lia.
    + inversion H; subst; simpl; lia.
Qed.

Lemma count_stars_head : forall c s n r,
  (c =? ch_star) = true -> count_stars (c :: s) = (n, r) -> (length r <= length s)%nat.
Proof.
  intros c s n r Hc H. simpl in H. rewrite Hc in H.
  destruct (count_stars s) as [n' r'] eqn:E. inversion H; subst.
  eapply count_stars_len; eauto.
Qed.

Lemma skipn_len {A} : forall n (l : list A), (length (skipn n l) <= length l)%nat.
Proof. intros. rewrite skipn_length. lia. Qed.

Lemma parse_pat_fuel : forall fuel prev s acc,
  (length s < fuel)%nat -> parse_pat fuel prev s acc <> PFuel.
Proof.
  induction fuel as [|fuel IH]; intros prev s acc Hlt; [lia|].
  cbn [parse_pat]. destruct s as [|c r]; [discriminate|]. simpl in Hlt.
  destruct (c =? ch_quest). { apply IH; lia. }
  destruct (c =? ch_star) eqn:Hs.
  { destruct (count_stars (c :: r)) as [n r'] eqn:E.
    pose proof (count_stars_head _ _ _ _ Hs E) as Hl.
    destruct (Nat.ltb 2 n); [discriminate|].
    destruct (Nat.eqb n 2).
    - destruct (match prev with None => true | Some p => p =? ch_slash end); [|discriminate].
      destruct r' as [|d r'']; [apply IH; simpl; lia|].
      destruct (d =? ch_slash); [|discriminate]. apply IH. simpl in Hl. lia.
    - apply IH. lia. }
  destruct (c =? ch_lb).
  { destruct r as [|c1 r1]; [discriminate|].
    destruct (c1 =? ch_bang).
    - destruct (Nat.leb 3 (length (c1 :: r1))); [|discriminate].
      destruct r1 as [|x r2]; [discriminate|].
      destruct (find_rb r2); [|discriminate].
      apply IH. pose proof (skipn_len (S n) r2). simpl in *. lia.
    - destruct (Nat.leb 2 (length (c1 :: r1))); [|discriminate].
      destruct (find_rb r1); [|discriminate].
      apply IH. pose proof (skipn_len (S n) r1). simpl in *. lia. }
  apply IH. lia.
Qed.

Theorem compile_pat_total : forall s, parse_pat (S (length s)) None s [] <> PFuel.
Proof. intros s. apply parse_pat_fuel. lia. Qed.
