(* C18 — model of the part of the `glob` crate (0.3) that the access-control plugin uses:
   glob::Pattern::new (the pattern compiler) and glob::Pattern::matches
   (= matches_with(MatchOptions::new()) = matches_from(true, chars, 0, opts) == Match), with
   MatchOptions::new() = { case_sensitive: true, require_literal_separator: false,
   require_literal_leading_dot: false }.   Strings are lists of Unicode scalar values (Z). *)
From Coq Require Import List ZArith Bool Lia.
Import ListNotations.
Open Scope Z_scope.

Definition str := list Z.

Fixpoint str_eqb (a b : str) : bool :=
  match a, b with
  | [], [] => true
  | x :: a', y :: b' => (x =? y) && str_eqb a' b'
  | _, _ => false
  end.

Inductive cspec := SingleChar (c : Z) | CharRange (a b : Z).

Inductive tok :=
| TChar (c : Z)
| TAnyChar                      (* ? *)
| TAnySeq                       (* * *)
| TAnyRec                       (* ** as a whole path component *)
| TWithin (cs : list cspec)     (* [...] *)
| TExcept (cs : list cspec).    (* [!...] *)

Definition pattern := list tok.

Definition ch_bang := 33.
Definition ch_star := 42.
Definition ch_dash := 45.
Definition ch_slash := 47.   (* std::path::is_separator on unix *)
Definition ch_quest := 63.
Definition ch_lb := 91.
Definition ch_rb := 93.

(* fn parse_char_specifiers(s: &[char]) *)
Fixpoint parse_cs (s : str) : list cspec :=
  match s with
  | [] => []
  | a :: s' =>
      match s' with
      | d :: b :: rest =>
          if d =? ch_dash then CharRange a b :: parse_cs rest
          else SingleChar a :: parse_cs s'
      | _ => SingleChar a :: parse_cs s'
      end
  end.

(* fn in_char_specifiers, case_sensitive = true *)
Definition in_cs (cs : list cspec) (c : Z) : bool :=
  existsb (fun sp => match sp with
                     | SingleChar sc => c =? sc
                     | CharRange a b => (a <=? c) && (c <=? b)
                     end) cs.

(* the run of '*' starting at the head of s: (count, rest) *)
Fixpoint count_stars (s : str) : nat * str :=
  match s with
  | c :: r => if c =? ch_star then let (n, r') := count_stars r in (S n, r') else (O, s)
  | [] => (O, [])
  end.

(* chars[..].iter().position(|x| *x == ']') *)
Fixpoint find_rb (s : str) : option nat :=
  match s with
  | [] => None
  | c :: r => if c =? ch_rb then Some O else option_map S (find_rb r)
  end.

Definition is_anyrec (t : tok) : bool := match t with TAnyRec => true | _ => false end.

(* `if !(tokens_len > 1 && tokens[tokens_len - 1] == AnyRecursiveSequence) { tokens.push(..) }` *)
Definition push_rec (acc : list tok) : list tok :=
  if (Nat.ltb 1 (length acc)) && is_anyrec (last acc TAnyChar) then acc else acc ++ [TAnyRec].

Inductive presult := POk (p : pattern) | PErr | PFuel.

(* Pattern::new: the `while i < chars.len()` loop.  [prev] is chars[i-1] (None at i = 0), [s] is
   chars[i..], [acc] the tokens so far.  Every iteration consumes at least one char; the loop is
   written with fuel and a distinguished PFuel outcome (never produced for fuel > length s:
   Proofs.parse_pat_fuel). *)
Fixpoint parse_pat (fuel : nat) (prev : option Z) (s : str) (acc : list tok) : presult :=
  match fuel with
  | O => PFuel
  | S fuel' =>
    match s with
    | [] => POk acc
    | c :: r =>
      if c =? ch_quest then parse_pat fuel' (Some c) r (acc ++ [TAnyChar])
      else if c =? ch_star then
        let (n, r') := count_stars s in
        if Nat.ltb 2 n then PErr                                     (* ERROR_WILDCARDS *)
        else if Nat.eqb n 2 then
          (* `i == 2 || path::is_separator(chars[i - count - 1])` *)
          if match prev with None => true | Some p => p =? ch_slash end then
            match r' with
            | d :: r'' =>
                if d =? ch_slash then parse_pat fuel' (Some d) r'' (push_rec acc)
                else PErr                                            (* `**` ends in non-separator *)
            | [] => parse_pat fuel' (Some ch_star) [] (push_rec acc)
            end
          else PErr                                                  (* `**` begins with non-separator *)
        else parse_pat fuel' (Some ch_star) r' (acc ++ [TAnySeq])
      else if c =? ch_lb then
        match r with
        | c1 :: r1 =>
          if c1 =? ch_bang then
            (* i + 4 <= chars.len() && chars[i + 1] == '!' *)
            if Nat.leb 3 (length r) then
              match r1 with
              | x :: r2 =>
                  match find_rb r2 with
                  | Some j => parse_pat fuel' (Some ch_rb) (skipn (S j) r2)
                                (acc ++ [TExcept (parse_cs (x :: firstn j r2))])
                  | None => PErr
                  end
              | [] => PErr
              end
            else PErr
          else
            (* i + 3 <= chars.len() && chars[i + 1] != '!' *)
            if Nat.leb 2 (length r) then
              match find_rb r1 with
              | Some j => parse_pat fuel' (Some ch_rb) (skipn (S j) r1)
                            (acc ++ [TWithin (parse_cs (c1 :: firstn j r1))])
              | None => PErr
              end
            else PErr
        | [] => PErr                                                 (* ERROR_INVALID_RANGE *)
        end
      else parse_pat fuel' (Some c) r (acc ++ [TChar c])
    end
  end.

(* Pattern::new(s).ok() *)
Definition compile_pat (s : str) : option pattern :=
  match parse_pat (S (length s)) None s [] with
  | POk p => Some p
  | _ => None
  end.

(* ------------------------------------------------------------------------------------------ *)
(* Pattern::matches_from.  With the default options `follows_separator` only feeds a
   debug_assert, so it is not a parameter here. *)
Inductive mres := Match | SubNo | EntireNo.

Definition tok_accepts (t : tok) (c : Z) : bool :=
  match t with
  | TChar c2 => c =? c2
  | TAnyChar => true
  | TWithin cs => in_cs cs c
  | TExcept cs => negb (in_cs cs c)
  | TAnySeq | TAnyRec => false    (* unreachable!() in the code *)
  end.

(* the `while let Some(c) = file.next()` loop of an AnySequence token; [k] is the match of the
   remaining tokens (matches_from(.., i + ti + 1, ..)) *)
Fixpoint seq_loop (k : str -> mres) (f : str) : mres :=
  match f with
  | [] => k []                          (* `while let` ends: the for loop goes on with the rest *)
  | _ :: f' => match k f' with SubNo => seq_loop k f' | m => m end
  end.

(* ... of an AnyRecursiveSequence token *)
Fixpoint rec_loop (k : str -> mres) (f : str) : mres :=
  match f with
  | [] => k []
  | c :: f' =>
      if c =? ch_slash
      then match k f' with SubNo => rec_loop k f' | m => m end
      else rec_loop k f'                (* AnyRecursiveSequence if !follows_separator => continue *)
  end.

Fixpoint mfrom (toks : pattern) (file : str) : mres :=
  match toks with
  | [] => match file with [] => Match | _ => SubNo end
  | TAnySeq :: rest =>
      match mfrom rest file with                (* empty match *)
      | SubNo => seq_loop (mfrom rest) file
      | m => m
      end
  | TAnyRec :: rest =>
      match mfrom rest file with
      | SubNo => rec_loop (mfrom rest) file
      | m => m
      end
  | t :: rest =>
      match file with
      | [] => EntireNo
      | c :: f' => if tok_accepts t c then mfrom rest f' else SubNo
      end
  end.

Definition gmatches (p : pattern) (s : str) : bool :=
  match mfrom p s with Match => true | _ => false end.

(* ------------------------------------------------------------------------------------------ *)
(* Declarative reading of a compiled file-name pattern. *)
Definition ends_with_sep (u : str) : Prop := exists u', u = u' ++ [ch_slash].

Inductive Matches : pattern -> str -> Prop :=
| M_nil : Matches [] []
| M_char c rest f : Matches rest f -> Matches (TChar c :: rest) (c :: f)
| M_any c rest f : Matches rest f -> Matches (TAnyChar :: rest) (c :: f)           (* ? : any one char *)
| M_within cs c rest f : in_cs cs c = true -> Matches rest f -> Matches (TWithin cs :: rest) (c :: f)
| M_except cs c rest f : in_cs cs c = false -> Matches rest f -> Matches (TExcept cs :: rest) (c :: f)
| M_seq u rest f : Matches rest f -> Matches (TAnySeq :: rest) (u ++ f)            (* * : any sequence *)
| M_rec_empty rest f : Matches rest f -> Matches (TAnyRec :: rest) f               (* ** : nothing, *)
| M_rec_dirs u rest f : ends_with_sep u -> Matches rest f -> Matches (TAnyRec :: rest) (u ++ f)
                                                                 (* ... whole directories, *)
| M_rec_all u rest : Matches rest [] -> Matches (TAnyRec :: rest) u.               (* ... or everything *)
