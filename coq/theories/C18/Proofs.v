(* C18 — declarative specification of the access decision and the lemmas behind Props.v *)
From Coq Require Import List ZArith Bool Lia.
From RD Require Import C18.Glob C18.GlobProofs C18.Model.
Import ListNotations.
Open Scope Z_scope.

(* ------------------------------------------------------------------------------------------ *)
(* Declarative specification *)

(* "x matches the file-name pattern p"; characterised by glob_spec / C18_glob *)
Definition PMatch (p : pattern) (x : str) : Prop := gmatches p x = true.

Definition InDomain (d : domain_ids) (i : Z) : Prop :=
  match d with
  | DValue v => i = v
  | DRange lo hi => lo <= i <= hi
  | DMin lo => lo <= i
  | DMax hi => i <= hi
  end.

(* the partitions an entity is in / a criterion covers: the default partition "" if none listed *)
Definition entity_partitions (l : list str) : list str := default_if_empty ([] : str) l.
Definition covered_partitions (l : list pattern) : list pattern := default_if_empty ([] : pattern) l.

Definition Covers (c : criterion pattern) (topic : str) (parts : list str) (tags : list (str * str)) : Prop :=
  (exists p, In p (c_topics c) /\ PMatch p topic)
  /\ (forall x, In x (entity_partitions parts) ->
                exists p, In p (covered_partitions (c_partitions c)) /\ PMatch p x)
  /\ (forall nv, In nv tags -> In nv (c_tags c)).

Definition criteria_of (r : rule pattern) (a : action) : list (criterion pattern) :=
  match a with Publish => r_publish r | Subscribe => r_subscribe r | Relay => r_relay r end.

Definition Applicable (r : rule pattern) (a : action) (q : query) : Prop :=
  (exists d, In d (r_domains r) /\ InDomain d (q_domain q))
  /\ (exists c, In c (criteria_of r a) /\ Covers c (q_topic q) (q_partitions q) (q_tags q)).

(* x is the first element of l with property P *)
Definition FirstSuch {A} (P : A -> Prop) (l : list A) (x : A) : Prop :=
  exists l1 l2, l = l1 ++ x :: l2 /\ P x /\ forall y, In y l1 -> ~ P y.
Definition NoneSuch {A} (P : A -> Prop) (l : list A) : Prop := forall y, In y l -> ~ P y.

(* the first applicable rule allows, or no rule is applicable and the default allows *)
Definition Grants (g : grant pattern) (a : action) (q : query) : Prop :=
  (exists r, FirstSuch (fun r => Applicable r a q) (g_rules g) r /\ r_verdict r = Allow)
  \/ (NoneSuch (fun r => Applicable r a q) (g_rules g) /\ g_default g = Allow).

Definition ValidFor (subject now : Z) (g : grant pattern) : Prop :=
  g_subject g = subject /\ g_not_before g <= now < g_not_after g.

(* the first topic rule of the governance document that matches the topic switches the
   access control in question off *)
Definition Unprotected (dr : domain_rule pattern) (e : entity) (topic : str) : Prop :=
  exists tr, FirstSuch (fun tr => PMatch (tr_expr tr) topic) (dr_topic_rules dr) tr
             /\ access_flag e tr = false.

Definition HasAccess (g : grant pattern) (e : entity) (q : query) : Prop :=
  match e with
  | Datawriter => Grants g Publish q
  | Datareader => Grants g Subscribe q
  | Topic => Grants g Publish q \/ Grants g Subscribe q
  end.

(* ------------------------------------------------------------------------------------------ *)
(* generic facts about find *)

Lemma find_first {A} (f : A -> bool) (P : A -> Prop) :
  (forall x, f x = true <-> P x) ->
  forall l x, find f l = Some x <-> FirstSuch P l x.
Proof.
  intros Hf l; induction l as [|a l IH]; intros x; simpl.
  - split; [discriminate|]. intros (l1 & l2 & Heq & _). destruct l1; discriminate.
  - destruct (f a) eqn:E.
    + split.
      * intro H; inversion H; subst. exists [], l. repeat split; auto. apply Hf; auto.
      * intros (l1 & l2 & Heq & Hx & Hn). destruct l1 as [|b l1]; simpl in Heq.
        -- inversion Heq; auto.
        -- inversion Heq; subst. exfalso. apply (Hn b); [left; auto | apply Hf; auto].
    + split.
      * intro H. apply IH in H as (l1 & l2 & -> & Hx & Hn). exists (a :: l1), l2.
        repeat split; auto. intros y [<-|Hy]; auto. intro Hp. apply Hf in Hp. congruence.
      * intros (l1 & l2 & Heq & Hx & Hn). destruct l1 as [|b l1]; simpl in Heq.
        -- inversion Heq; subst. apply Hf in Hx. congruence.
        -- inversion Heq; subst. apply IH. exists l1, l2. repeat split; auto.
           intros y Hy. apply Hn. right; auto.
Qed.

Lemma find_none {A} (f : A -> bool) (P : A -> Prop) :
  (forall x, f x = true <-> P x) ->
  forall l, find f l = None <-> NoneSuch P l.
Proof.
  intros Hf l; induction l as [|a l IH]; simpl.
  - split; auto. intros _ y [].
  - destruct (f a) eqn:E.
    + split; [discriminate|]. intro H. exfalso. apply (H a); [left; auto | apply Hf; auto].
    + rewrite IH. split.
      * intros H y [<-|Hy]; auto. intro Hp. apply Hf in Hp. congruence.
      * intros H y Hy. apply H. right; auto.
Qed.

Lemma first_none_excl {A} (P : A -> Prop) l x : FirstSuch P l x -> NoneSuch P l -> False.
Proof.
  intros (l1 & l2 & -> & Hx & _) Hn. apply (Hn x); auto. apply in_or_app. right; left; auto.
Qed.

Lemma first_unique {A} (P : A -> Prop) l x y : FirstSuch P l x -> FirstSuch P l y -> x = y.
Proof.
  intros (l1 & l2 & -> & Hx & Hn). revert y.
  induction l1 as [|a l1 IH]; simpl; intros y (m1 & m2 & Heq & Hy & Hm).
  - destruct m1 as [|b m1]; simpl in Heq.
    + inversion Heq; reflexivity.
    + inversion Heq as [[Hb Hl]]. exfalso. apply (Hm b); [left; reflexivity | rewrite <- Hb; exact Hx].
  - destruct m1 as [|b m1]; simpl in Heq.
    + inversion Heq as [[Hb Hl]]. exfalso. apply (Hn a); [left; reflexivity | rewrite Hb; exact Hy].
    + inversion Heq as [[Hb Hl]]. apply IH.
      * intros z Hz. apply Hn. right; auto.
      * exists m1, m2. repeat split; auto. intros z Hz. apply Hm. right; auto.
Qed.

(* ------------------------------------------------------------------------------------------ *)
(* reflection of the decision functions *)

Lemma str_eqb_eq : forall a b, str_eqb a b = true <-> a = b.
Proof.
  induction a as [|x a IH]; destruct b as [|y b]; simpl; split; intro H; try discriminate; auto.
  - apply andb_true_iff in H as [H1 H2]. apply Z.eqb_eq in H1. apply IH in H2. congruence.
  - inversion H; subst. apply andb_true_iff. split; [apply Z.eqb_refl | apply IH; auto].
Qed.

Lemma str_eqb_sym : forall a b, str_eqb a b = str_eqb b a.
Proof.
  induction a as [|x a IH]; destruct b as [|y b]; simpl; auto.
  rewrite Z.eqb_sym, IH. reflexivity.
Qed.

Lemma domain_matches_spec : forall d i, domain_matches d i = true <-> InDomain d i.
Proof.
  intros [v|lo hi|lo|hi] i; simpl.
  - rewrite Z.eqb_eq. split; intro; subst; auto.
  - rewrite andb_true_iff, !Z.leb_le. tauto.
  - apply Z.leb_le.
  - apply Z.leb_le.
Qed.

Lemma tag_check_spec : forall dt nv, tag_check dt nv = true <-> nv = dt.
Proof.
  intros [a b] [c d]. unfold tag_check. simpl. rewrite andb_true_iff, !str_eqb_eq.
  split; [intros [-> ->]; auto | intro H; inversion H; auto].
Qed.

Lemma crit_applicable_spec : forall c topic parts tags,
  crit_applicable c topic parts tags = true <-> Covers c topic parts tags.
Proof.
  intros c topic parts tags. unfold crit_applicable, Covers, PMatch.
  rewrite !andb_true_iff, existsb_exists, !forallb_forall.
  split.
  - intros [[H1 H2] H3]. repeat split; auto.
    + intros x Hx. apply H2 in Hx. apply existsb_exists in Hx. exact Hx.
    + intros nv Hn. apply H3 in Hn. apply existsb_exists in Hn as (dt & Hd & Ht).
      apply tag_check_spec in Ht. subst; auto.
  - intros (H1 & H2 & H3). repeat split; auto.
    + intros x Hx. apply existsb_exists. apply H2; auto.
    + intros nv Hn. apply existsb_exists. exists nv. split; auto. apply tag_check_spec; auto.
Qed.

Lemma rule_applicable_spec : forall r a q,
  rule_applicable crit_applicable r a q = true <-> Applicable r a q.
Proof.
  intros r a q. unfold rule_applicable, Applicable.
  destruct (existsb (fun d => domain_matches d (q_domain q)) (r_domains r)) eqn:E.
  - apply existsb_exists in E as (d & Hd & Hm). apply domain_matches_spec in Hm.
    rewrite existsb_exists. split.
    + intros (c & Hc & Ha). split; [eauto|]. exists c. split.
      * destruct a; auto.
      * apply crit_applicable_spec; auto.
    + intros [_ (c & Hc & Ha)]. exists c. split.
      * destruct a; auto.
      * apply crit_applicable_spec; auto.
  - split; [discriminate|]. intros [(d & Hd & Hm) _]. exfalso.
    assert (existsb (fun d => domain_matches d (q_domain q)) (r_domains r) = true).
    { apply existsb_exists. exists d. split; auto. apply domain_matches_spec; auto. }
    congruence.
Qed.

Lemma check_action_spec : forall g a q,
  verdict_bool (check_action crit_applicable g a q) = true <-> Grants g a q.
Proof.
  intros g a q. unfold check_action, Grants.
  destruct (find (fun r => rule_applicable crit_applicable r a q) (g_rules g)) as [r|] eqn:E.
  - apply (find_first _ _ (fun r => rule_applicable_spec r a q)) in E. split.
    + intro H. left. exists r. split; auto. destruct (r_verdict r); auto; discriminate.
    + intros [(r' & Hr' & Hv) | [Hnone _]].
      * rewrite (first_unique _ _ _ _ E Hr'), Hv. reflexivity.
      * exfalso. eapply first_none_excl; eauto.
  - apply (find_none _ _ (fun r => rule_applicable_spec r a q)) in E. split.
    + intro H. right. split; auto. destruct (g_default g); auto; discriminate.
    + intros [(r' & Hr' & Hv) | [_ Hd]].
      * exfalso. eapply first_none_excl; eauto.
      * rewrite Hd. reflexivity.
Qed.

Lemma valid_spec : forall subject now g,
  (g_subject g =? subject) && validity_contains g now = true <-> ValidFor subject now g.
Proof.
  intros. unfold validity_contains, ValidFor.
  rewrite !andb_true_iff, Z.eqb_eq, Z.leb_le, Z.ltb_lt. tauto.
Qed.

Lemma find_grant_some : forall doc subject now g,
  find_grant doc subject now = Some g <-> FirstSuch (ValidFor subject now) doc g.
Proof. intros. apply find_first. intro x. apply valid_spec. Qed.

Lemma find_grant_none : forall doc subject now,
  find_grant doc subject now = None <-> NoneSuch (ValidFor subject now) doc.
Proof. intros. apply find_none. intro x. apply valid_spec. Qed.

Lemma unprotected_spec : forall dr e topic,
  unprotected dr e topic = true <-> Unprotected dr e topic.
Proof.
  intros dr e topic. unfold unprotected, Unprotected, find_topic_rule.
  destruct (find (fun tr => gmatches (tr_expr tr) topic) (dr_topic_rules dr)) as [tr|] eqn:E.
  - apply (find_first (fun tr => gmatches (tr_expr tr) topic) (fun tr => PMatch (tr_expr tr) topic)
             (fun tr => iff_refl _)) in E. split.
    + intro H. exists tr. split; auto. destruct (access_flag e tr); auto; discriminate.
    + intros (tr' & Htr' & Hflag). rewrite (first_unique _ _ _ _ E Htr'), Hflag. reflexivity.
  - apply (find_none (fun tr => gmatches (tr_expr tr) topic) (fun tr => PMatch (tr_expr tr) topic)
             (fun tr => iff_refl _)) in E. split; [discriminate|].
    intros (tr' & Htr' & _). exfalso. eapply first_none_excl; eauto.
Qed.

Lemma has_access_spec : forall g e q,
  has_access crit_applicable g e q = true <-> HasAccess g e q.
Proof.
  intros g e q. unfold has_access, HasAccess. destruct e.
  - apply check_action_spec.
  - apply check_action_spec.
  - rewrite orb_true_iff, !check_action_spec. tauto.
Qed.

(* ------------------------------------------------------------------------------------------ *)
(* the decision theorems *)

Theorem decision : forall h now e q,
  is_builtin_topic (q_topic q) = false ->
  (check_entity h now e q = DOk true <->
   exists dr, h_rule h = Some dr /\
     (Unprotected dr e (q_topic q)
      \/ exists subject doc g,
           h_perm h = Some (subject, doc)
           /\ FirstSuch (ValidFor subject now) doc g
           /\ HasAccess g e q)).
Proof.
  intros h now e q Hb. unfold check_entity. rewrite Hb.
  destruct (h_rule h) as [dr|] eqn:Hr.
  2:{ split; [discriminate|]. intros (dr & Hd & _). discriminate. }
  destruct (unprotected dr e (q_topic q)) eqn:Hu.
  { split; auto. intros _. exists dr. split; auto. left. apply unprotected_spec; auto. }
  assert (Hnu : ~ Unprotected dr e (q_topic q)).
  { intro H. apply unprotected_spec in H. congruence. }
  unfold get_grant. destruct (h_perm h) as [[subject doc]|] eqn:Hp.
  2:{ split; [discriminate|]. intros (dr' & Hd & [Hun | (s' & d' & g' & Hq & _)]).
      - inversion Hd; subst. contradiction.
      - discriminate. }
  destruct (find_grant doc subject now) as [g|] eqn:Hg.
  - apply find_grant_some in Hg. split.
    + intro H. inversion H as [Ha]. exists dr. split; auto. right.
      exists subject, doc, g. repeat split; auto. apply has_access_spec; auto.
    + intros (dr' & Hd & [Hun | (s' & d' & g' & Hq & Hf & Ha)]).
      * inversion Hd; subst. contradiction.
      * inversion Hq; subst. rewrite (first_unique _ _ _ _ Hg Hf).
        apply has_access_spec in Ha. rewrite Ha. reflexivity.
  - apply find_grant_none in Hg. split; [discriminate|].
    intros (dr' & Hd & [Hun | (s' & d' & g' & Hq & Hf & Ha)]).
    + inversion Hd; subst. contradiction.
    + inversion Hq; subst. exfalso. eapply first_none_excl; eauto.
Qed.

(* everything else the code can answer, case by case *)
Theorem decision_outcomes : forall h now e q,
  is_builtin_topic (q_topic q) = false ->
  (h_rule h = None -> check_entity h now e q = DErr ENoDomainRule)
  /\ (forall dr, h_rule h = Some dr -> ~ Unprotected dr e (q_topic q) ->
        (h_perm h = None -> check_entity h now e q = DErr EPermDoc)
        /\ (forall subject doc, h_perm h = Some (subject, doc) ->
              (NoneSuch (ValidFor subject now) doc -> check_entity h now e q = DErr ENoGrant)
              /\ (forall g, FirstSuch (ValidFor subject now) doc g ->
                    ~ HasAccess g e q -> check_entity h now e q = DOk false))).
Proof.
  intros h now e q Hb. unfold check_entity. rewrite Hb. split.
  - intros ->. reflexivity.
  - intros dr -> Hnu.
    destruct (unprotected dr e (q_topic q)) eqn:Hu.
    { exfalso. apply Hnu. apply unprotected_spec; auto. }
    unfold get_grant. split.
    + intros ->. reflexivity.
    + intros subject doc ->. split.
      * intro Hn. apply find_grant_none in Hn. rewrite Hn. reflexivity.
      * intros g Hf Hna. apply find_grant_some in Hf. rewrite Hf.
        destruct (has_access crit_applicable g e q) eqn:Ha; auto.
        exfalso. apply Hna. apply has_access_spec; auto.
Qed.

Theorem builtin_always : forall h now e q,
  is_builtin_topic (q_topic q) = true -> check_entity h now e q = DOk true.
Proof. intros. unfold check_entity. rewrite H. reflexivity. Qed.

Definition entity_of (a : api) : entity :=
  match a with
  | CreateDatawriter | RemoteDatawriter => Datawriter
  | CreateDatareader | RemoteDatareader => Datareader
  | CreateTopic | RemoteTopic => Topic
  end.

Theorem api_is_check_entity : forall h now a domain topic,
  a <> RemoteDatareader ->
  check_api h now a domain topic = check_entity h now (entity_of a) (api_query domain topic).
Proof. intros h now a domain topic Ha. destruct a; try reflexivity. contradiction. Qed.

Theorem remote_datareader_decision : forall h now q passed relay_only,
  check_remote_datareader h now q = DOk2 passed relay_only <->
  exists dr, h_rule h = Some dr /\
    ((Unprotected dr Datareader (q_topic q) /\ passed = true /\ relay_only = false)
     \/ (~ Unprotected dr Datareader (q_topic q) /\
         exists subject doc g,
           h_perm h = Some (subject, doc) /\ FirstSuch (ValidFor subject now) doc g /\
           ((Grants g Subscribe q /\ passed = true /\ relay_only = false)
            \/ (~ Grants g Subscribe q /\ Grants g Relay q /\ passed = true /\ relay_only = true)
            \/ (~ Grants g Subscribe q /\ ~ Grants g Relay q /\ passed = false /\ relay_only = false)))).
Proof.
  intros h now q passed relay_only. unfold check_remote_datareader.
  destruct (h_rule h) as [dr|] eqn:Hr.
  2:{ split; [discriminate|]. intros (dr & Hd & _). discriminate. }
  destruct (unprotected dr Datareader (q_topic q)) eqn:Hu.
  { assert (HU : Unprotected dr Datareader (q_topic q)) by (apply unprotected_spec; auto).
    split.
    - intro H. inversion H; subst. exists dr. split; auto.
    - intros (dr' & Hd & [(_ & -> & ->) | (Hnu & _)]); auto. inversion Hd; subst. contradiction. }
  assert (Hnu : ~ Unprotected dr Datareader (q_topic q)).
  { intro H. apply unprotected_spec in H. congruence. }
  unfold get_grant. destruct (h_perm h) as [[subject doc]|] eqn:Hp.
  2:{ split; [discriminate|]. intros (dr' & Hd & [(HU & _) | (_ & s' & d' & g' & Hq & _)]).
      - inversion Hd; subst. contradiction.
      - discriminate. }
  destruct (find_grant doc subject now) as [g|] eqn:Hg.
  - apply find_grant_some in Hg.
    destruct (verdict_bool (check_action crit_applicable g Subscribe q)) eqn:Hs.
    + assert (HS : Grants g Subscribe q) by (apply check_action_spec; auto).
      split.
      * intro H. inversion H; subst. exists dr. split; auto. right. split; auto.
        exists subject, doc, g. repeat split; auto.
      * intros (dr' & Hd & [(HU & _) | (_ & s' & d' & g' & Hq & Hf & Hcase)]).
        -- inversion Hd; subst. contradiction.
        -- inversion Hq; subst. rewrite <- (first_unique _ _ _ _ Hg Hf) in Hcase.
           destruct Hcase as [(_ & -> & ->) | [(Hn & _) | (Hn & _)]]; auto; contradiction.
    + assert (HS : ~ Grants g Subscribe q).
      { intro H. apply check_action_spec in H. congruence. }
      destruct (verdict_bool (check_action crit_applicable g Relay q)) eqn:Hrl.
      * assert (HR : Grants g Relay q) by (apply check_action_spec; auto).
        split.
        -- intro H. inversion H; subst. exists dr. split; auto. right. split; auto.
           exists subject, doc, g. repeat split; auto. right. left. auto.
        -- intros (dr' & Hd & [(HU & _) | (_ & s' & d' & g' & Hq & Hf & Hcase)]).
           ++ inversion Hd; subst. contradiction.
           ++ inversion Hq; subst. rewrite <- (first_unique _ _ _ _ Hg Hf) in Hcase.
              destruct Hcase as [(Hn & _) | [(_ & _ & -> & ->) | (_ & Hn & _)]]; auto; contradiction.
      * assert (HR : ~ Grants g Relay q).
        { intro H. apply check_action_spec in H. congruence. }
        split.
        -- intro H. inversion H; subst. exists dr. split; auto. right. split; auto.
           exists subject, doc, g. repeat split; auto. right. right. auto.
        -- intros (dr' & Hd & [(HU & _) | (_ & s' & d' & g' & Hq & Hf & Hcase)]).
           ++ inversion Hd; subst. contradiction.
           ++ inversion Hq; subst. rewrite <- (first_unique _ _ _ _ Hg Hf) in Hcase.
              destruct Hcase as [(Hn & _) | [(_ & Hn & _) | (_ & _ & -> & ->)]]; auto; contradiction.
  - apply find_grant_none in Hg. split; [discriminate|].
    intros (dr' & Hd & [(HU & _) | (_ & s' & d' & g' & Hq & Hf & _)]).
    + inversion Hd; subst. contradiction.
    + inversion Hq; subst. exfalso. eapply first_none_excl; eauto.
Qed.

(* rules after the first applicable one (and the default) are irrelevant *)
Theorem first_match : forall g g' a q l1 r l2 l2',
  g_rules g = l1 ++ r :: l2 ->
  g_rules g' = l1 ++ r :: l2' ->
  Applicable r a q ->
  (forall r', In r' l1 -> ~ Applicable r' a q) ->
  check_action crit_applicable g a q = r_verdict r
  /\ check_action crit_applicable g' a q = r_verdict r.
Proof.
  intros g g' a q l1 r l2 l2' H1 H2 Ha Hn.
  assert (F : forall rs l, rs = l1 ++ r :: l ->
            find (fun r => rule_applicable crit_applicable r a q) rs = Some r).
  { intros rs l ->. apply (find_first _ _ (fun r => rule_applicable_spec r a q)).
    exists l1, l. auto. }
  unfold check_action. rewrite (F _ _ H1), (F _ _ H2). auto.
Qed.

(* ... and a denying first applicable rule cannot be overridden by anything behind it *)
Corollary deny_first_wins : forall g a q l1 r l2,
  g_rules g = l1 ++ r :: l2 -> Applicable r a q -> (forall r', In r' l1 -> ~ Applicable r' a q) ->
  r_verdict r = Deny -> ~ Grants g a q.
Proof.
  intros g a q l1 r l2 H Ha Hn Hd HG.
  destruct (first_match g g a q l1 r l2 l2 H H Ha Hn) as [E _].
  apply check_action_spec in HG. rewrite E, Hd in HG. discriminate.
Qed.

Theorem domain_ids_spec : forall ds i,
  existsb (fun d => domain_matches d i) ds = true <-> exists d, In d ds /\ InDomain d i.
Proof.
  intros. rewrite existsb_exists. split; intros (d & Hd & H); exists d; split; auto;
    apply domain_matches_spec; auto.
Qed.

(* ------------------------------------------------------------------------------------------ *)
(* signed documents *)
Section SignedFacts.
  Variables (bytes cert doc : Type).
  Variable mailparse : bytes -> option (list (mime_part bytes)).
  Variable pop_last : bytes -> bytes.
  Variable unix2dos : bytes -> option bytes.
  Variable pkcs7_verify : cert -> bytes -> bytes -> bool.
  Variable parse : bytes -> option doc.

  Let from_bytes' := from_bytes mailparse pop_last unix2dos.
  Let load' := load_document mailparse pop_last unix2dos pkcs7_verify parse.

  Lemma signature_only_if : forall ca input d,
    load' ca input = inr d <->
    exists content sig,
      from_bytes' input = Some (content, sig)
      /\ pkcs7_verify ca content sig = true
      /\ parse content = Some d.
  Proof.
    intros ca input d. unfold load', load_document, from_bytes', verify_signature.
    destruct (from_bytes mailparse pop_last unix2dos input) as [[content sig]|] eqn:E; simpl.
    - destruct (pkcs7_verify ca content sig) eqn:V.
      + destruct (parse content) as [d'|] eqn:P.
        * split.
          -- intro H; inversion H; subst. exists content, sig. auto.
          -- intros (c' & s' & Hq & _ & Hp). inversion Hq; subst. rewrite P in Hp. inversion Hp; auto.
        * split; [discriminate|]. intros (c' & s' & Hq & _ & Hp). inversion Hq; subst. congruence.
      + split; [discriminate|]. intros (c' & s' & Hq & Hv & _). inversion Hq; subst. congruence.
    - split; [discriminate|]. intros (c' & s' & Hq & _). discriminate.
  Qed.

  (* the content handed to the verifier is a function of the first MIME part only *)
  Lemma from_bytes_content : forall input content sig,
    from_bytes' input = Some (content, sig) ->
    exists p1 p2, mailparse input = Some [p1; p2]
                  /\ unix2dos (pop_last (mp_raw p1)) = Some content
                  /\ mp_body p2 = Some sig.
  Proof.
    intros input content sig. unfold from_bytes', from_bytes.
    destruct (mailparse input) as [[|p1 [|p2 [|p3 l]]]|]; try discriminate.
    destruct (unix2dos (pop_last (mp_raw p1))) eqn:U; try discriminate.
    destruct (mp_body p2) eqn:B; try discriminate.
    intro H; inversion H; subst. exists p1, p2. auto.
  Qed.
End SignedFacts.

(* ------------------------------------------------------------------------------------------ *)
(* the oracle's specification functions coincide with the model's *)

Lemma spec_in_domains_eq : forall ds i,
  spec_in_domains ds i = existsb (fun d => domain_matches d i) ds.
Proof.
  induction ds as [|d ds IH]; intros i; simpl; auto.
  destruct d; simpl; rewrite IH; auto. rewrite Z.eqb_sym. reflexivity.
Qed.

Lemma some_pattern_matches_eq : forall ps x,
  some_pattern_matches ps x = existsb (fun g => gmatches g x) ps.
Proof. induction ps as [|p ps IH]; intros x; simpl; auto. rewrite IH. destruct (gmatches p x); auto. Qed.

Lemma all_partitions_allowed_eq : forall ps parts,
  all_partitions_allowed ps parts = forallb (fun p => existsb (fun g => gmatches g p) ps) parts.
Proof.
  induction parts as [|x parts IH]; simpl; auto. rewrite IH, some_pattern_matches_eq. reflexivity.
Qed.

Lemma existsb_ext' {A} (f g : A -> bool) l : (forall x, f x = g x) -> existsb f l = existsb g l.
Proof. intro H. induction l; simpl; auto. rewrite H, IHl. reflexivity. Qed.

Lemma all_tags_allowed_eq : forall allowed tags,
  all_tags_allowed allowed tags = forallb (fun nv => existsb (fun dt => tag_check dt nv) allowed) tags.
Proof.
  induction tags as [|nv tags IH]; simpl; auto. rewrite IH. f_equal.
  apply existsb_ext'. intros dt. unfold tag_check.
  rewrite (str_eqb_sym (fst dt)), (str_eqb_sym (snd dt)). reflexivity.
Qed.

Lemma spec_crit_eq : forall c q,
  spec_crit c q = crit_applicable c (q_topic q) (q_partitions q) (q_tags q).
Proof.
  intros c q. unfold spec_crit, crit_applicable.
  rewrite some_pattern_matches_eq, all_partitions_allowed_eq, all_tags_allowed_eq.
  destruct (c_partitions c); destruct (q_partitions q); reflexivity.
Qed.

Lemma spec_some_crit_eq : forall cs q,
  spec_some_crit cs q = existsb (fun c => crit_applicable c (q_topic q) (q_partitions q) (q_tags q)) cs.
Proof. induction cs as [|c cs IH]; intros q; simpl; auto. rewrite IH, spec_crit_eq. reflexivity. Qed.

Lemma spec_rule_applies_eq : forall r a q,
  spec_rule_applies r a q = rule_applicable crit_applicable r a q.
Proof.
  intros r a q. unfold spec_rule_applies, rule_applicable.
  rewrite spec_in_domains_eq, spec_some_crit_eq.
  destruct (existsb (fun d => domain_matches d (q_domain q)) (r_domains r)); simpl; auto;
    try (destruct a; reflexivity).
Qed.

Lemma spec_rules_eq : forall rs dflt a q,
  spec_rules rs dflt a q =
  match find (fun r => rule_applicable crit_applicable r a q) rs with
  | Some r => r_verdict r
  | None => dflt
  end.
Proof.
  induction rs as [|r rs IH]; intros; simpl; auto.
  rewrite spec_rule_applies_eq. destruct (rule_applicable crit_applicable r a q); auto.
Qed.

Lemma spec_allows_eq : forall g a q,
  spec_allows g a q = verdict_bool (check_action crit_applicable g a q).
Proof. intros. unfold spec_allows, check_action. rewrite spec_rules_eq. reflexivity. Qed.

Lemma spec_valid_grant_eq : forall doc subject now,
  spec_valid_grant doc subject now = find_grant doc subject now.
Proof.
  induction doc as [|g doc IH]; intros; simpl; auto.
  unfold validity_contains. rewrite <- andb_assoc.
  destruct ((g_subject g =? subject) && ((g_not_before g <=? now) && (now <? g_not_after g))); auto.
Qed.

Lemma spec_topic_rule_eq : forall trs topic,
  spec_topic_rule trs topic = find (fun tr => gmatches (tr_expr tr) topic) trs.
Proof. induction trs as [|tr trs IH]; intros; simpl; auto. destruct (gmatches (tr_expr tr) topic); auto. Qed.

Lemma spec_unprotected_eq : forall dr a topic,
  spec_unprotected dr a topic = unprotected dr (entity_of a) topic.
Proof.
  intros. unfold spec_unprotected, unprotected, find_topic_rule. rewrite spec_topic_rule_eq.
  destruct (find (fun tr => gmatches (tr_expr tr) topic) (dr_topic_rules dr)) as [tr|]; auto.
  destruct a; simpl; auto; rewrite negb_andb; reflexivity.
Qed.

(* ------------------------------------------------------------------------------------------ *)
(* model_ok *)

Definition mk_handle (cdoc : option (list (grant pattern))) (cdr : option (domain_rule pattern))
           (subject : Z) : handle_state :=
  {| h_perm := option_map (fun d => (subject, d)) cdoc; h_rule := cdr |}.

Lemma decision_ok_model : forall cdoc cdr subject now a domain topic,
  decision_ok cdoc cdr subject now a domain topic
    (check_api (mk_handle cdoc cdr subject) now a domain topic) = true.
Proof.
  intros cdoc cdr subject now a domain topic.
  unfold decision_ok, spec_allowed, relay_flag_ok.
  destruct (is_builtin_topic topic) eqn:Hb.
  - (* builtin: only the shape is demanded *)
    destruct a; simpl; unfold check_entity; simpl; rewrite ?Hb; simpl; auto;
    unfold check_remote_datareader, get_grant; simpl;
    destruct cdr as [dr|]; simpl; auto;
    destruct (unprotected dr Datareader topic); simpl; auto;
    destruct cdoc as [d|]; simpl; auto;
    destruct (find_grant d subject now) as [g|]; simpl; auto;
    destruct (verdict_bool (check_action crit_applicable g Subscribe (api_query domain topic))); simpl; auto;
    destruct (verdict_bool (check_action crit_applicable g Relay (api_query domain topic))); simpl; auto.
  - destruct a; simpl; unfold check_entity, check_remote_datareader, get_grant; simpl; rewrite ?Hb;
    (destruct cdr as [dr|]; simpl; [|reflexivity]);
    rewrite ?spec_unprotected_eq; simpl;
    (destruct (unprotected dr _ topic) eqn:Hu; simpl; [reflexivity|]);
    (destruct cdoc as [d|]; simpl; [|reflexivity]);
    rewrite ?spec_valid_grant_eq;
    (destruct (find_grant d subject now) as [g|]; simpl; [|reflexivity]);
    unfold spec_granted, has_access; rewrite ?spec_allows_eq;
    destruct (verdict_bool (check_action crit_applicable g Publish (api_query domain topic)));
    destruct (verdict_bool (check_action crit_applicable g Subscribe (api_query domain topic)));
    try destruct (verdict_bool (check_action crit_applicable g Relay (api_query domain topic)));
    reflexivity.
Qed.

Lemma find_index_spec {A} (f : A -> bool) : forall l i k,
  find_index f l i = Some k ->
  i <= k /\ exists x, nth_error l (Z.to_nat (k - i)) = Some x /\ f x = true
                      /\ existsb f (firstn (Z.to_nat (k - i)) l) = false.
Proof.
  induction l as [|a l IH]; intros i k H; simpl in H; [discriminate|].
  destruct (f a) eqn:E.
  - inversion H; subst. split; [lia|]. rewrite Z.sub_diag. simpl. exists a. auto.
  - apply IH in H as (Hle & x & Hn & Hx & Hf). split; [lia|].
    replace (Z.to_nat (k - i)) with (S (Z.to_nat (k - (i + 1)))) by lia.
    simpl. exists x. rewrite E. auto.
Qed.

Lemma find_index_none {A} (f : A -> bool) : forall l i,
  find_index f l i = None -> existsb f l = false.
Proof.
  induction l as [|a l IH]; intros i H; simpl in *; auto.
  destruct (f a); [discriminate|]. simpl. eapply IH; eauto.
Qed.

Lemma existsb_find_none {A} (f : A -> bool) l : existsb f l = false -> find f l = None.
Proof. induction l; simpl; auto. destruct (f a); simpl; [discriminate|auto]. Qed.

Lemma run_ok : forall c, ok c (run c) = true.
Proof.
  intros c. destruct c; unfold run, run_with; simpl.
  - (* CGlob *) unfold spec_glob. destruct (compile_pat pat); simpl; auto. apply eqb_reflx.
  - (* CDomain *) destruct d; simpl; rewrite orb_false_r; try apply eqb_reflx.
    rewrite Z.eqb_sym. apply eqb_reflx.
  - (* CFindGrant *)
    destruct (compile_permissions doc) as [d|] eqn:E; simpl; rewrite ?E; [|reflexivity].
    set (f := fun g : grant pattern => (g_subject g =? subject) && validity_contains g now).
    destruct (find_index f d 0) as [k|] eqn:F.
    + apply find_index_spec in F as (Hle & x & Hn & Hx & Hf). rewrite Z.sub_0_r in *.
      rewrite Hn. rewrite spec_valid_grant_eq. unfold find_grant. fold f.
      rewrite (existsb_find_none _ _ Hf).
      unfold f, validity_contains in Hx. apply andb_true_iff in Hx as [H1 H2].
      apply andb_true_iff in H2 as [H2 H3]. rewrite H1, H2, H3.
      replace (0 <=? k) with true by (symmetry; apply Z.leb_le; lia). reflexivity.
    + apply find_index_none in F. rewrite spec_valid_grant_eq. unfold find_grant. fold f.
      rewrite (existsb_find_none _ _ F). reflexivity.
  - (* CFindRule *)
    destruct (mapM compile_domain_rule gov) as [g|] eqn:E; simpl; rewrite ?E; [|reflexivity].
    set (f := fun dr : domain_rule pattern => existsb (fun d => domain_matches d domain) (dr_domains dr)).
    assert (Hext : forall l, existsb (fun dr => spec_in_domains (dr_domains dr) domain) l = existsb f l).
    { intro l. apply existsb_ext'. intro x. apply spec_in_domains_eq. }
    destruct (find_index f g 0) as [k|] eqn:F.
    + apply find_index_spec in F as (Hle & x & Hn & Hx & Hf). rewrite Z.sub_0_r in *.
      rewrite Hn, Hext, Hf, spec_in_domains_eq. unfold f in Hx. rewrite Hx.
      replace (0 <=? k) with true by (symmetry; apply Z.leb_le; lia). reflexivity.
    + apply find_index_none in F. rewrite Hext, F. reflexivity.
  - (* CApplicable *)
    destruct (compile_rule r) as [cr|] eqn:E; simpl; rewrite ?E; auto.
    rewrite spec_rule_applies_eq. apply eqb_reflx.
  - (* CCheck *)
    unfold run_check_with.
    destruct (match doc with None => Some None | Some d => option_map Some (compile_permissions d) end)
      as [cdoc|] eqn:E1;
    destruct (match dr with None => Some None | Some r => option_map Some (compile_domain_rule r) end)
      as [cdr|] eqn:E2; try reflexivity.
    pose proof (decision_ok_model cdoc cdr subject now a domain topic) as H.
    unfold mk_handle in H. rewrite H. simpl.
    destruct (check_api _ now a domain topic) eqn:C; try reflexivity.
    exfalso. clear H.
    destruct a; simpl in C; unfold check_entity, check_remote_datareader, get_grant in C; simpl in C;
    repeat match type of C with
           | context [if ?b then _ else _] => destruct b
           | context [match ?x with _ => _ end] => destruct x
           end; discriminate.
  - (* CSigned *)
    destruct alt; reflexivity.
Qed.
