(* C18 — property theorems only.  Proofs are one `exact`; statements are pinned by ./check. *)
From Coq Require Import List ZArith Bool.
From RD Require Import C18.Glob C18.GlobProofs C18.Model C18.Proofs C18.Oracle.
Import ListNotations.
Open Scope Z_scope.

(* check_entity answers Ok(true) exactly when the governance document leaves the access
   unprotected for the topic, or the first applicable rule of the subject's first currently
   valid grant allows it, or no rule is applicable and the grant's default allows it
   (HasAccess/Grants unfold to exactly that); for data writers, data readers and topics *)
Theorem C18_decision : forall h now e q,
  is_builtin_topic (q_topic q) = false ->
  (check_entity h now e q = DOk true <->
   exists dr, h_rule h = Some dr /\
     (Unprotected dr e (q_topic q)
      \/ exists subject doc g,
           h_perm h = Some (subject, doc)
           /\ FirstSuch (ValidFor subject now) doc g
           /\ HasAccess g e q)).
Proof. exact decision. Qed.
Print Assumptions C18_decision.

(* ... and every other answer: no domain rule / no permissions document / no currently valid
   grant give the code's exact error, a valid grant that does not allow gives Ok(false) *)
Theorem C18_decision_outcomes : forall h now e q,
  is_builtin_topic (q_topic q) = false ->
  (h_rule h = None -> check_entity h now e q = DErr ENoDomainRule)
  /\ (forall dr, h_rule h = Some dr -> ~ Unprotected dr e (q_topic q) ->
        (h_perm h = None -> check_entity h now e q = DErr EPermDoc)
        /\ (forall subject doc, h_perm h = Some (subject, doc) ->
              (NoneSuch (ValidFor subject now) doc -> check_entity h now e q = DErr ENoGrant)
              /\ (forall g, FirstSuch (ValidFor subject now) doc g ->
                    ~ HasAccess g e q -> check_entity h now e q = DOk false))).
Proof. exact decision_outcomes. Qed.
Print Assumptions C18_decision_outcomes.

(* the six entry points: five are check_entity on (domain, topic, no partitions, no tags) ... *)
Theorem C18_api : forall h now a domain topic,
  a <> RemoteDatareader ->
  check_api h now a domain topic = check_entity h now (entity_of a) (api_query domain topic).
Proof. exact api_is_check_entity. Qed.
Print Assumptions C18_api.

(* ... and check_remote_datareader additionally reports relay-only access *)
Theorem C18_remote_datareader : forall h now q passed relay_only,
  check_remote_datareader h now q = DOk2 passed relay_only <->
  exists dr, h_rule h = Some dr /\
    ((Unprotected dr Datareader (q_topic q) /\ passed = true /\ relay_only = false)
     \/ (~ Unprotected dr Datareader (q_topic q) /\
         exists subject doc g,
           h_perm h = Some (subject, doc) /\ FirstSuch (ValidFor subject now) doc g /\
           ((Grants g Subscribe q /\ passed = true /\ relay_only = false)
            \/ (~ Grants g Subscribe q /\ Grants g Relay q /\ passed = true /\ relay_only = true)
            \/ (~ Grants g Subscribe q /\ ~ Grants g Relay q /\ passed = false /\ relay_only = false)))).
Proof. exact remote_datareader_decision. Qed.
Print Assumptions C18_remote_datareader.

(* rules behind the first applicable one (and the default) cannot change the verdict *)
Theorem C18_first_match : forall g g' a q l1 r l2 l2',
  g_rules g = l1 ++ r :: l2 ->
  g_rules g' = l1 ++ r :: l2' ->
  Applicable r a q ->
  (forall r', In r' l1 -> ~ Applicable r' a q) ->
  check_action crit_applicable g a q = r_verdict r
  /\ check_action crit_applicable g' a q = r_verdict r.
Proof. exact first_match. Qed.
Print Assumptions C18_first_match.

(* what "applicable" is: Rule::is_applicable reflects the declarative Applicable (domain id in
   one of the listed values/ranges; some criterion of the action covers topic, partitions, tags) *)
Theorem C18_applicable : forall r a q,
  rule_applicable crit_applicable r a q = true <-> Applicable r a q.
Proof. exact rule_applicable_spec. Qed.
Print Assumptions C18_applicable.

Theorem C18_domain_ids : forall d i, domain_matches d i = true <-> InDomain d i.
Proof. exact domain_matches_spec. Qed.
Print Assumptions C18_domain_ids.

(* the matcher agrees with the declarative reading of file-name patterns (`*` any sequence, `?`
   any one character, [...] / [!...] classes, anything else itself) for every compiled pattern
   without a `**` component; and the pattern compiler always terminates within its fuel *)
Theorem C18_glob : forall p s, no_rec p = true -> (gmatches p s = true <-> Matches p s).
Proof. exact glob_spec. Qed.
Print Assumptions C18_glob.

Theorem C18_glob_compile_total : forall s, parse_pat (S (length s)) None s [] <> PFuel.
Proof. exact compile_pat_total. Qed.
Print Assumptions C18_glob_compile_total.

(* a signed document is accepted (parsed into d) only if pkcs7_verify holds, under the configured
   CA, for exactly the content bytes that are then parsed; for every behaviour of the MIME
   splitter, the line-end conversion, the PKCS#7 verifier and the XML parser *)
Theorem C18_signature :
  forall (bytes cert doc : Type) (mailparse : bytes -> option (list (mime_part bytes)))
         (pop_last : bytes -> bytes) (unix2dos : bytes -> option bytes)
         (pkcs7_verify : cert -> bytes -> bytes -> bool) (parse : bytes -> option doc)
         (ca : cert) (input : bytes) (d : doc),
  load_document mailparse pop_last unix2dos pkcs7_verify parse ca input = inr d <->
  exists content sig,
    from_bytes mailparse pop_last unix2dos input = Some (content, sig)
    /\ pkcs7_verify ca content sig = true
    /\ parse content = Some d.
Proof. exact signature_only_if. Qed.
Print Assumptions C18_signature.

Theorem C18_model_ok : forall c, ok c (run c) = true.
Proof. exact run_ok. Qed.
Print Assumptions C18_model_ok.

(* the oracle applied to the implementation's observations is the property *)
Theorem C18_oracle_sound : forall doc dr subject now a domain topic d1 d2 d3 cdoc cdr,
  ok (CCheck doc dr subject now a domain topic) (ODecision d1 d2 d3) = true ->
  compile_opt compile_permissions doc = Some cdoc ->
  compile_opt compile_domain_rule dr = Some cdr ->
  is_builtin_topic topic = false ->
  forall d, In d [d1; d2; d3] -> d <> DNotRun ->
    exists b, dres_allowed d = Some b
              /\ (b = true <-> AllowedP cdoc cdr subject now a domain topic).
Proof. exact oracle_sound_check. Qed.
Print Assumptions C18_oracle_sound.

Theorem C18_oracle_sound_signed : forall alt accepted same_bytes,
  ok (CSigned alt) (OSigned accepted same_bytes) = true ->
  accepted = true -> alt = Genuine /\ same_bytes = true.
Proof. exact oracle_sound_signed. Qed.
Print Assumptions C18_oracle_sound_signed.

Theorem C18_oracle_sound_glob : forall pat subj r,
  ok (CGlob pat subj) (OGlob r) = true ->
  match compile_pat pat with
  | None => r = None
  | Some p => exists b, r = Some b /\ (no_rec p = true -> (b = true <-> Matches p subj))
  end.
Proof. exact oracle_sound_glob. Qed.
Print Assumptions C18_oracle_sound_glob.

(* the code as found failed the property (repaired by two fix: commits; witnesses in the corpus) *)
Theorem C18_old_partition_refuted :
  run_old witness_partition = ODecision (DOk true) (DOk true) (DOk true)
  /\ ok witness_partition (run_old witness_partition) = false
  /\ run witness_partition = ODecision (DOk false) (DOk false) (DOk false).
Proof. exact old_partition_refuted. Qed.
Print Assumptions C18_old_partition_refuted.

Theorem C18_old_expired_refuted :
  run_old witness_expired = ODecision (DErr ENoGrant) (DErr ENoGrant) (DErr ENoGrant)
  /\ ok witness_expired (run_old witness_expired) = false
  /\ run witness_expired = ODecision (DOk true) (DOk true) (DOk true).
Proof. exact old_expired_refuted. Qed.
Print Assumptions C18_old_expired_refuted.
