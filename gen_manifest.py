#!/usr/bin/env python3
"""Writes MANIFEST.json from props.py (claimed checks) + the not-applicable/pending table below."""
import json, subprocess
import os
PROPS = {f[:-5]: json.load(open("props/"+f)) for f in sorted(os.listdir("props")) if f.endswith(".json")}

ALL = ["C%02d" % i for i in range(1, 21)]
PENDING_REASON = ("not claimed yet: the Rocq model, theorems and correspondence driver for this property "
                  "are not built/committed at this point of the work (see DESIGN.md section 11 for the order); "
                  "the technique is applicable")
hooks = subprocess.run(["git", "-C", "/repo", "log", "--format=%H %s"], capture_output=True, text=True).stdout.splitlines()
hook_commits = [l.split()[0] for l in hooks if l.split(" ", 1)[1].startswith("verif hooks")]
checks = []
DISABLED = {pid: c["disabled"] for pid, c in PROPS.items() if c.get("disabled")}
PROPS = {pid: c for pid, c in PROPS.items() if not c.get("disabled")}
for pid in sorted(PROPS):
    c = PROPS[pid]
    checks.append(dict(
        property_id=pid,
        quick_cmd="./check %s --tier quick" % pid,
        thorough_cmd="./check %s --tier thorough" % pid,
        evidence_file="/verif/evidence/%s.json" % pid,
        replay_cmd_template="./check %s --replay {path}" % pid,
        engine="rocq-proofs+correspondence",
        level_claimed=dict(category="proof", text=c["level_text"], design_ref=c.get("design_ref", "DESIGN.md section 7, " + pid)),
        level_note=c["level_note"],
        technique=c.get("technique", "machine-checked proof in Rocq (Coq 8.16.1) about an executable Gallina model + differential correspondence check model vs code evaluated inside Coq"),
    ))
m = dict(
    version=1,
    setup_cmd="./check setup",
    hooks=dict(
        guard="rustdds_verif",
        enable='RUSTFLAGS="--cfg rustdds_verif" (set in /verif/harness/.cargo/config.toml); the harness crate depends on /repo by path with feature "security"',
        baseline_off_cmd="cd /repo && cargo test --workspace --no-fail-fast --offline",
        source_commits=hook_commits,
        add_only=True,
    ),
    engines=[
        dict(name="rocq-proofs+correspondence", path="/verif/coq, /verif/harness, /verif/check",
             serves_properties=sorted(PROPS),
             kind_free_text="Coq 8.16.1 development (theories/<ID>/{Model,Proofs,Props}.v), Rust in-crate drivers "
                            "(harness/inrepo/*.rs mounted into rustdds under cfg rustdds_verif) that run the real code and "
                            "emit (case, observation) pairs as Gallina terms, evaluated against the model and the property "
                            "oracle with vm_compute by coqc"),
    ],
    checks=checks,
    not_applicable=[dict(property_id=p, reason=DISABLED.get(p, PENDING_REASON)) for p in ALL if p not in PROPS],
    notes="See DESIGN.md (sections 9, 12, 13, 14 are the record of the result). known_findings.json lists recorded findings and fixed defects. hooks.add_only refers to the repository's own lines: the 'verif hooks:' commits only add cfg(rustdds_verif)-gated items and statements; three of them (91c9a3f, a1c41cd, d51fddf) also re-tag or move lines that earlier hook commits had added. With --cfg rustdds_verif_only plus --cfg rustdds_verif_cNN only the hook blocks of single properties are compiled (isolated fallback build of ./check).",
)
json.dump(m, open("MANIFEST.json", "w"), indent=1)
print("claimed:", sorted(PROPS))
