# Per-property configuration of ./check (driver name, budgets, evidence texts).
PROPS = {
    "C10": dict(
        driver="c10", n_quick=6000, n_thorough=120000,
        rule="(offered, requested) QosPolicies pairs: 7 fixed boundary pairs + seeded stratified pairs "
             "(policy density 2/8..8/8, durations from a boundary grid incl. 0, 1 tick, INFINITE, and random; "
             "1/4 of the pairs are offered-with-one-policy-perturbed). distinct = distinct (case, verdict) "
             "hashes; non-trivial = at least one policy is specified on both sides.",
        assumptions=["Duration is compared through Duration::to_ticks (derived lexicographic Ord on (i32,u32) "
                     "coincides with tick order)",
                     "policies without a request/offered rule (history, resource limits, lifespan, "
                     "time-based filter) are set randomly by the driver and are not inputs of the model"],
        level_text="Kernel-checked theorems C10_iff (matched <-> every shared policy satisfies its request/offered rule, "
                   "for all QoS pairs), C10_cause (a reported policy really is incompatible) and C10_oracle_sound about the "
                   "Gallina model of compliance_failure_wrt_impl; the model is tied to the compiled code by differential "
                   "execution on thousands of stratified pairs per run, and the implementation's own verdicts are judged by "
                   "the Coq oracle. All inputs are covered by the theorem; the tie is sampled.",
        level_note="Trusted: Coq kernel/vm_compute; hand-written model (8 policies, Duration as tick count); correspondence "
                   "sampling (generator strata printed in evidence). Modelled, not verified: the two call sites in "
                   "Reader/Writer (exercised by the C11 driver).",
        trusted=["call sites Reader::update_writer_proxy / Writer::update_reader_proxy are exercised by the C11 driver"],
    ),
}
