#!/bin/sh
# usage: mk_agent_ws.sh <name>   -> /tmp/ag_<name>/{repo,verif} worktrees on branches agent/<name>
set -e
n="$1"; base="/tmp/ag_$n"
mkdir -p "$base"
git -C /verif worktree add -q -B "agent/$n" "$base/verif" HEAD
git -C /repo worktree add -q -B "agent/$n" "$base/repo" HEAD
mkdir -p "$base/verif/build"
echo "$base"
