#!/bin/sh
# usage: mk_mut_ws.sh <ID> [suffix] -> /tmp/mut_<ID><suffix> detached worktree of /repo HEAD + property text file
set -e
id="$1"; sfx="$2"; d="/tmp/mut_${id}${sfx}"
git -C /repo worktree add -q --detach "$d" HEAD
python3 - "$id" "$d" <<'P'
import json,sys
for l in open('/verif/properties.jsonl'):
    p=json.loads(l)
    if p['id']==sys.argv[1]:
        open(sys.argv[2]+'/PROPERTY.json','w').write(json.dumps(p,indent=1))
P
echo "$d"
