// Cooperative scheduler for C13: runs two REAL threads (P = producer side = the participant's
// event-loop code, C = consumer side = the application task) through an explicit schedule.
//
// The repo carries cfg(rustdds_verif) calls `crate::verif_hooks::sched::yield_point("tag")` between
// the atomic steps (lock acquisitions / channel operations) of the C13 handshakes.  When the calling
// thread has installed a schedule, yield_point ends the thread's current step: the next schedule
// entry decides which thread may run its next step; the caller blocks on a condvar until it is its
// turn again.  Without an installed schedule (every other thread, every other driver, the repo's
// own tests) yield_point is a no-op.
//
// One schedule entry = the code of that thread between two yield points = one step of the Coq
// model.  An entry for a thread that has finished is skipped (the model stutters); a thread that
// cannot move (parked task without a wake, idle event loop, poll without an event) reports
// `blocked()` at its turn, which also consumes the entry.  When the schedule is exhausted the run
// is brought to rest deterministically: P until it finishes or is blocked, then C until it
// finishes or is blocked, and so on, until both are finished/blocked with no real step in
// between (quiescence) — the same continuation as `completion` in coq/theories/C13/Sched.v.
use std::{
  cell::RefCell,
  sync::{Arc, Condvar, Mutex},
  time::{Duration, Instant},
};

pub const P: usize = 0;
pub const C: usize = 1;

#[derive(Clone, Copy, PartialEq, Eq, Debug)]
pub enum Outcome {
  Running,
  Quiescent,
  Hang,
}

struct St {
  schedule: Vec<u8>,
  pos: usize,
  turn: Option<usize>,
  registered: [bool; 2],
  finished: [bool; 2],
  epoch: u64,                   // number of real (non-blocked) steps so far
  blocked_at: [Option<u64>; 2], // epoch of the thread's last `blocked` report
  comp_cur: usize,              // completion phase: whose run it is
  stop: bool,
  outcome: Outcome,
  steps: u64,
  max_steps: u64,
  trace: Vec<(u8, &'static str)>,
  keep_trace: bool,
}

pub struct Sched {
  st: Mutex<St>,
  cv: Condvar,
}

thread_local! {
  static CUR: RefCell<Option<(Arc<Sched>, usize)>> = RefCell::new(None);
}

impl St {
  fn stuck(&self, t: usize) -> bool {
    self.finished[t] || self.blocked_at[t] == Some(self.epoch)
  }
  fn choose_next(&mut self) {
    loop {
      if self.pos < self.schedule.len() {
        let t = self.schedule[self.pos] as usize;
        self.pos += 1;
        if self.finished[t] {
          continue; // the model stutters
        }
        self.turn = Some(t);
        return;
      }
      if self.stuck(P) && self.stuck(C) {
        self.stop = true;
        self.outcome = Outcome::Quiescent;
        self.turn = None;
        return;
      }
      if self.stuck(self.comp_cur) {
        self.comp_cur = 1 - self.comp_cur;
      }
      self.turn = Some(self.comp_cur);
      return;
    }
  }
}

impl Sched {
  pub fn new(schedule: &[u8], max_steps: u64, keep_trace: bool) -> Arc<Sched> {
    Arc::new(Sched {
      st: Mutex::new(St {
        schedule: schedule.to_vec(),
        pos: 0,
        turn: None,
        registered: [false; 2],
        finished: [false; 2],
        epoch: 0,
        blocked_at: [None; 2],
        comp_cur: P,
        stop: false,
        outcome: Outcome::Running,
        steps: 0,
        max_steps,
        trace: Vec::new(),
        keep_trace,
      }),
      cv: Condvar::new(),
    })
  }

  fn wait_turn<'a>(&'a self, mut g: std::sync::MutexGuard<'a, St>, me: usize) -> bool {
    while g.turn != Some(me) && !g.stop {
      g = self.cv.wait(g).unwrap();
    }
    !g.stop
  }

  /// Called by thread `me` once, before its first step.  Blocks until it is its turn.
  /// Returns false if the run was stopped.
  pub fn install(self: &Arc<Sched>, me: usize) -> bool {
    CUR.with(|c| *c.borrow_mut() = Some((self.clone(), me)));
    let mut g = self.st.lock().unwrap();
    g.registered[me] = true;
    self.cv.notify_all();
    self.wait_turn(g, me)
  }

  /// Main thread: wait for both threads to stand at their first step, then start the schedule.
  pub fn start(&self) {
    let mut g = self.st.lock().unwrap();
    while !(g.registered[P] && g.registered[C]) {
      g = self.cv.wait(g).unwrap();
    }
    g.choose_next();
    self.cv.notify_all();
  }

  fn step_done(&self, me: usize, blocked: bool, tag: &'static str) -> bool {
    let mut g = self.st.lock().unwrap();
    if g.stop {
      return false;
    }
    g.steps += 1;
    if g.keep_trace {
      g.trace.push((me as u8, tag));
    }
    if g.steps > g.max_steps {
      g.stop = true;
      g.outcome = Outcome::Hang;
      self.cv.notify_all();
      return false;
    }
    if blocked {
      g.blocked_at[me] = Some(g.epoch);
    } else {
      g.epoch += 1;
    }
    g.choose_next();
    self.cv.notify_all();
    self.wait_turn(g, me)
  }

  fn finish(&self, me: usize) {
    let mut g = self.st.lock().unwrap();
    g.finished[me] = true;
    g.epoch += 1; // the code that ran since the last yield point may have been a real step
    if !g.stop {
      g.choose_next();
    }
    self.cv.notify_all();
  }

  /// Main thread: wait until the run has come to rest (or both threads finished); on timeout stop
  /// everything and report a hang.
  pub fn wait_done(&self, timeout: Duration) -> Outcome {
    let t0 = Instant::now();
    let mut g = self.st.lock().unwrap();
    loop {
      if g.stop {
        return g.outcome;
      }
      let el = t0.elapsed();
      if el >= timeout {
        g.stop = true;
        g.outcome = Outcome::Hang;
        self.cv.notify_all();
        return Outcome::Hang;
      }
      let (gg, _) = self.cv.wait_timeout(g, timeout - el).unwrap();
      g = gg;
    }
  }

  pub fn trace(&self) -> Vec<(u8, &'static str)> {
    self.st.lock().unwrap().trace.clone()
  }
  pub fn steps(&self) -> u64 {
    self.st.lock().unwrap().steps
  }
}

/// The hook called from the repo (cfg rustdds_verif).  No-op unless this thread installed a schedule.
pub fn yield_point(tag: &'static str) {
  let cur = CUR.with(|c| c.borrow().clone());
  if let Some((s, me)) = cur {
    if !s.step_done(me, false, tag) {
      // the run was stopped (quiescence elsewhere cannot happen while we run; this is the
      // watchdog / step limit): stop scheduling this thread, let it run free
      CUR.with(|c| *c.borrow_mut() = None);
    }
  }
}

/// Driver-side: the calling thread cannot move at its turn (parked / idle / no poll event).
/// Returns false when the run is over and the thread should leave its loop.
pub fn blocked(tag: &'static str) -> bool {
  let cur = CUR.with(|c| c.borrow().clone());
  match cur {
    Some((s, me)) => {
      let go = s.step_done(me, true, tag);
      if !go {
        CUR.with(|c| *c.borrow_mut() = None);
      }
      go
    }
    None => false,
  }
}

/// Driver-side: is a schedule still installed on this thread (false after a stop)?
pub fn active() -> bool {
  CUR.with(|c| c.borrow().is_some())
}

/// Driver-side: the calling thread has no more work.
pub fn finish() {
  let cur = CUR.with(|c| c.borrow_mut().take());
  if let Some((s, me)) = cur {
    s.finish(me);
  }
}
