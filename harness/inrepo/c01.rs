// C01 driver: the rig of c03.rs (real MessageReceiver + real reliable rtps::Reader fed with
// serialized datagrams) sharing its topic cache with a real with_key::DataReader created through a
// real DomainParticipant / Subscriber / Topic (the crate's own `read_and_take` test does the same).
// Operations are submessages and DataReader::take(n, ReadCondition::any()) calls.  Observed: per
// submessage the cache changes added, the reliable hand-over marker of its writer and the size of
// the topic cache; per take the samples handed over (writer, sequence number, source timestamp,
// payload bytes re-encoded from the deserialized value).
use std::{
  panic::{catch_unwind, AssertUnwindSafe},
  sync::{Arc, Mutex},
};

use serde::{Deserialize, Serialize};

use crate::{
  dds::{
    participant::DomainParticipant,
    pubsub::Subscriber,
    qos::{policy, HasQoSPolicy, QosPolicies},
    readcondition::ReadCondition,
    topic::{Topic, TopicDescription, TopicKind},
    with_key::datareader::DataReader,
  },
  serialization::CDRDeserializerAdapter,
  structure::{dds_cache::TopicCache, time::Timestamp},
  Keyed,
};
use super::{
  c03::{self, Gen, Op, Rig},
  capture,
  util::{self, Args, CaseOut, Rng},
};

#[derive(Serialize, Deserialize, Clone, Debug, PartialEq)]
pub struct Blob {
  v: Vec<u8>,
}
impl Keyed for Blob {
  type K = ();
  fn key(&self) {}
}

#[derive(Clone, Debug)]
pub enum AOp {
  Sub(Op),
  Take(usize),
}
impl AOp {
  fn coq(&self) -> String {
    match self {
      AOp::Sub(o) => format!("ASub ({})", o.coq()),
      AOp::Take(n) => format!("ATake {}", n),
    }
  }
}

#[derive(Clone, Debug)]
pub enum AObs {
  Sub { adds: Vec<(u8, i64)>, marker: i64, cache_len: usize },
  Take(Vec<(u8, i64, Option<u64>, Vec<u8>)>),
  TakeErr,
}
impl AObs {
  fn coq(&self) -> String {
    match self {
      AObs::Sub { adds, marker, cache_len } => format!(
        "OSub {} {} {}",
        util::list(adds.iter().map(|(w, sn)| format!("({}, {})", w, util::z(*sn as i128)))),
        util::z(*marker as i128),
        cache_len
      ),
      AObs::Take(l) => format!(
        "OTake {}",
        util::list(l.iter().map(|(w, sn, ts, p)| format!(
          "({}, {}, {}, {})",
          w,
          util::z(*sn as i128),
          util::opt(ts.map(|t| util::z(t as i128))),
          util::bytes(p)
        )))
      ),
      // a failing take is reported as an impossible sample so that it cannot go unnoticed
      AObs::TakeErr => "OTake [(0, (-1), None, [])]".to_string(),
    }
  }
}

struct World {
  dp: DomainParticipant,
  sub: Subscriber,
  counter: usize,
}

struct CaseRig {
  rig: Rig,
  dr: DataReader<Blob, CDRDeserializerAdapter<Blob>>,
  _topic: Topic,
  max_keep: i32,
}

fn case_qos(max_samples: Option<i32>) -> QosPolicies {
  let mut qos = c03::reliable_qos(policy::History::KeepAll);
  if let Some(m) = max_samples {
    qos.resource_limits = Some(policy::ResourceLimits {
      max_samples: m,
      max_instances: i32::MAX,
      max_samples_per_instance: i32::MAX,
    });
  }
  qos
}

fn new_case_rig(world: &mut World, matched: &[u8], max_samples: Option<i32>, seed: u64) -> CaseRig {
  let qos = case_qos(max_samples);
  // Subscriber::create_datareader announces the reader to the discovery thread with try_send on a
  // bounded channel (64 commands) and returns Err("... Error: Full") when that thread lags behind
  // (seen under heavy machine load: one reader per case, several hundred cases per second).  That is
  // back-pressure of the API, not a failure of the code under test: wait and try again on a fresh
  // topic (the reader of the failed attempt stays behind on its own, never used topic).
  let mut attempt = 0;
  let (topic, topic_name, topic_cache, dr) = loop {
    world.counter += 1;
    let topic_name = format!("c01_{}_{}", seed, world.counter);
    let topic = world
      .dp
      .create_topic(topic_name.clone(), "c01_blob".to_string(), &qos, TopicKind::WithKey)
      .unwrap();
    let topic_cache: Arc<Mutex<TopicCache>> =
      world
        .dp
        .dds_cache()
        .write()
        .unwrap()
        .add_new_topic(topic.name(), topic.get_type(), &topic.qos());
    match world
      .sub
      .create_datareader::<Blob, CDRDeserializerAdapter<Blob>>(&topic, Some(qos.clone()))
    {
      Ok(dr) => break (topic, topic_name, topic_cache, dr),
      Err(e) => {
        attempt += 1;
        if attempt > 200 {
          panic!("create_datareader keeps failing: {:?}", e);
        }
        std::thread::sleep(std::time::Duration::from_millis(50));
      }
    }
  };
  let rig = Rig::new(matched, &qos, &topic_name, topic_cache.clone());
  let max_keep = topic_cache.lock().unwrap().verif_keep_limits().1;
  CaseRig { rig, dr, _topic: topic, max_keep }
}

fn reencode(b: &Blob) -> Vec<u8> {
  // CDR_LE representation header ++ u32 length ++ bytes, padded to 4 (what payload_for produces)
  let mut v = vec![0, 1, 0, 0];
  v.extend_from_slice(&(b.v.len() as u32).to_le_bytes());
  v.extend_from_slice(&b.v);
  while v.len() % 4 != 0 {
    v.push(0);
  }
  v
}

impl CaseRig {
  fn step(&mut self, a: &AOp) -> AObs {
    match a {
      AOp::Sub(op) => {
        let so = self.rig.feed(op);
        let (marker, cache_len) = {
          let tc = self.rig.topic_cache.lock().unwrap();
          (
            tc.verif_reliable_before(c03::writer_guid(op.writer())).map(i64::from).unwrap_or(1),
            tc.get_changes_in_range_best_effort(Timestamp::ZERO, Timestamp::INFINITE).count(),
          )
        };
        AObs::Sub { adds: so.adds.iter().map(|a| (a.w, a.sn)).collect(), marker, cache_len }
      }
      AOp::Take(n) => match self.dr.take(*n, ReadCondition::any()) {
        Ok(v) => AObs::Take(
          v.iter()
            .map(|ds| {
              let info = ds.sample_info();
              let id = info.sample_identity();
              let payload = match ds.value() {
                crate::dds::with_key::Sample::Value(b) => reencode(b),
                crate::dds::with_key::Sample::Dispose(_) => vec![255],
              };
              (
                id.writer_guid.prefix.bytes[0],
                i64::from(id.sequence_number),
                info.source_timestamp().map(c03::ts_to_u64),
                payload,
              )
            })
            .collect(),
        ),
        Err(_) => AObs::TakeErr,
      },
    }
  }
}

struct CaseRun {
  matched: Vec<u8>,
  max_keep: i32,
  ops: Vec<AOp>,
  obs: Vec<AObs>,
  panicked: bool,
}

fn run_fixed(world: &mut World, matched: &[u8], max_samples: Option<i32>, ops: &[AOp], seed: u64) -> CaseRun {
  let mut obs = Vec::new();
  let mut max_keep = 0;
  let r = catch_unwind(AssertUnwindSafe(|| {
    let mut cr = new_case_rig(world, matched, max_samples, seed);
    max_keep = cr.max_keep;
    // keep the participant's periodic DDSCache::garbage_collect (it needs the write lock) out of
    // the case: the model has the garbage collection of add_change only
    let dds_cache = world.dp.dds_cache();
    let _no_timer_gc = dds_cache.read().unwrap();
    for a in ops {
      obs.push(cr.step(a));
    }
  }));
  CaseRun { matched: matched.to_vec(), max_keep, ops: ops.to_vec(), obs, panicked: r.is_err() }
}

fn run_generated(world: &mut World, mut rng: Rng, profile: u8, nops: usize, seed: u64) -> CaseRun {
  let max_samples = match rng.below(10) {
    0 | 1 => Some(8),
    2 => Some(20),
    3 => Some(200),
    _ => None,
  };
  let take_every = 1 + rng.below(12) as usize;
  let mut gen = Gen::new(rng.clone(), profile);
  let matched = gen.matched();
  let mut ops = Vec::new();
  let mut obs = Vec::new();
  // only the code under test runs inside catch_unwind: a panic of the generator must not be
  // reported as a panic of the implementation
  let mut cr = match catch_unwind(AssertUnwindSafe(|| new_case_rig(world, &matched, max_samples, seed))) {
    Ok(cr) => cr,
    Err(_) => return CaseRun { matched, max_keep: 0, ops, obs, panicked: true },
  };
  let max_keep = cr.max_keep;
  let dds_cache = world.dp.dds_cache();
  let _no_timer_gc = dds_cache.read().unwrap();
  let mut panicked = false;
  for i in 0..nops {
    let a = if rng.below(take_every as u64 + 1) == 0 || i + 1 == nops {
      AOp::Take(*rng.pick(&[0usize, 1, 1, 2, 3, 5, 1000, 1000, 1000]))
    } else {
      let ids: Vec<u8> = gen.ws.iter().map(|w| w.id).collect();
      let bases = match catch_unwind(AssertUnwindSafe(|| {
        ids.iter().map(|id| (*id, cr.rig.ack_base(*id))).collect::<Vec<(u8, i64)>>()
      })) {
        Ok(b) => b,
        Err(_) => {
          panicked = true;
          break;
        }
      };
      AOp::Sub(
        gen
          .next(&|id| bases.iter().find(|(i, _)| *i == id).map(|p| p.1).unwrap_or(1))
          .normalized(),
      )
    };
    match catch_unwind(AssertUnwindSafe(|| cr.step(&a))) {
      Ok(o) => {
        obs.push(o);
        ops.push(a);
      }
      Err(_) => {
        panicked = true;
        break;
      }
    }
  }
  CaseRun { matched, max_keep, ops, obs, panicked }
}

fn coq_case(cr: &CaseRun) -> String {
  format!(
    "Build_case {} {} {}",
    util::list(cr.matched.iter().map(|w| format!("{}", w))),
    cr.max_keep,
    util::list(cr.ops.iter().map(|o| o.coq()))
  )
}
fn coq_obs(cr: &CaseRun) -> String {
  let l = util::list(cr.obs.iter().map(|o| format!("({})", o.coq())));
  if cr.panicked {
    format!("OPanicked {}", l)
  } else {
    format!("ORun {}", l)
  }
}

fn tags_of(cr: &CaseRun, kind: &str) -> (Vec<String>, bool) {
  let mut tags = vec![
    format!("kind:{}", kind),
    format!("writers:{}", cr.matched.len()),
    format!("max_keep:{}", cr.max_keep),
  ];
  let n = cr.ops.len();
  tags.push(format!("ops:{}", if n <= 10 { "1-10" } else if n <= 40 { "11-40" } else if n <= 120 { "41-120" } else { ">120" }));
  let mut handed = 0;
  let mut adds = 0;
  let mut evicted = false;
  let mut prev_len = 0;
  let mut out_of_order = false;
  let mut seen_max: std::collections::BTreeMap<u8, i64> = Default::default();
  let mut live_marker: std::collections::BTreeMap<u8, i64> = Default::default();
  let mut far_parts: Vec<(u8, i64, i64)> = Vec::new();
  for (a, o) in cr.ops.iter().zip(cr.obs.iter()) {
    match (a, o) {
      (AOp::Sub(op), AObs::Sub { adds: ad, cache_len, marker }) => {
        tags.push(format!("op:{}", op.kind()));
        // GAP ranges above the hand-over bound (= ack base) of their time reaching beyond its
        // 256-window: only the window is recorded (repo fix c71c7f1)
        let matched = cr.matched.contains(&op.writer());
        let before = *live_marker.get(&op.writer()).unwrap_or(&1);
        if let Op::Gap { w, start, base, .. } = op {
          if matched && *start >= 1 && *start <= c03::MAX_SN && *base <= c03::MAX_SN && *base > *start {
            if *start > before && *base > before + 256 {
              tags.push("branch:gap_cut".to_string());
              far_parts.push((*w, (*start).max(before + 256), *base));
            } else if *start <= before
              && far_parts.iter().any(|(fw, lo, hi)| fw == w && *lo < *base && before < *hi)
            {
              tags.push("branch:gap_renewed_after_cut".to_string());
            }
          }
        }
        if matched {
          live_marker.insert(op.writer(), *marker);
        }
        adds += ad.len();
        for (w, sn) in ad {
          let m = seen_max.entry(*w).or_insert(0);
          if *sn < *m {
            out_of_order = true;
          }
          *m = (*m).max(*sn);
        }
        if *cache_len != prev_len + ad.len() {
          evicted = true;
        }
        prev_len = *cache_len;
      }
      (AOp::Take(k), AObs::Take(l)) => {
        tags.push("op:take".to_string());
        handed += l.len();
        if l.iter().any(|(w, sn, _, _)| far_parts.iter().any(|(fw, _, hi)| fw == w && sn >= hi)) {
          tags.push("branch:handed_beyond_cut_gap".to_string());
        }
        if l.len() == *k && *k > 0 {
          tags.push("branch:take_truncated".to_string());
        }
      }
      _ => tags.push("op:take_error".to_string()),
    }
  }
  tags.push(format!("handed:{}", if handed == 0 { "0" } else if handed <= 5 { "1-5" } else if handed <= 40 { "6-40" } else { ">40" }));
  if handed < adds {
    tags.push("branch:held_back".to_string());
  }
  if evicted {
    tags.push("branch:cache_evicted".to_string());
  }
  if out_of_order {
    tags.push("branch:arrived_out_of_order".to_string());
  }
  if cr.panicked {
    tags.push("PANIC".to_string());
  }
  (tags, handed > 0)
}

fn d(w: u8, sn: i64, ts: Option<u64>) -> AOp {
  AOp::Sub(Op::Data { w, sn, ts, payload: c03::payload_for(w, sn, 4) })
}
fn hb(w: u8, first: i64, last: i64, count: i32) -> AOp {
  AOp::Sub(Op::Hb { w, first, last, count, fin: false })
}
fn gap(w: u8, start: i64, base: i64, numbits: u32, bits: &[i64]) -> AOp {
  AOp::Sub(Op::Gap { w, start, base, numbits, bits: bits.to_vec() })
}
fn fr(w: u8, sn: i64, k: u32, ts: Option<u64>) -> AOp {
  let mut body = vec![0u8, 1, 0, 0, 12, 0, 0, 0];
  body.extend((0..12).map(|i| (sn as u8).wrapping_mul(3).wrapping_add(i)));
  let from = (k as usize - 1) * 8;
  let to = (from + 8).min(body.len());
  AOp::Sub(Op::Frag { w, sn, start: k, count: 1, dsz: 20, fs: 8, payload: body[from..to].to_vec(), ts })
}
const T: AOp = AOp::Take(1000);

fn corpus() -> Vec<(Vec<u8>, Option<i32>, Vec<AOp>)> {
  let mut c: Vec<(Vec<u8>, Option<i32>, Vec<AOp>)> = Vec::new();
  // 0: in order
  c.push((vec![1], None, vec![d(1, 1, Some(7 << 32)), T, d(1, 2, None), d(1, 3, None), T, T]));
  // 1: out of order: 3, 2 are held back until 1 arrives
  c.push((vec![1], None, vec![d(1, 3, None), d(1, 2, None), T, d(1, 1, None), T]));
  // 2: duplicates before and after the hand-over
  c.push((vec![1], None, vec![d(1, 1, None), d(1, 1, None), T, d(1, 1, None), d(1, 2, None), d(1, 2, None), T]));
  // 3: hole closed by GAP range / bitmap / HEARTBEAT first
  c.push((vec![1], None, vec![d(1, 2, None), T, gap(1, 1, 2, 0, &[]), T, d(1, 5, None), gap(1, 3, 3, 2, &[3, 4]), T, d(1, 9, None), hb(1, 9, 9, 1), T]));
  // 4: two writers with equal sequence numbers, truncated takes
  c.push((vec![1, 2], None, vec![d(2, 1, None), d(1, 1, None), d(1, 2, None), d(2, 2, None), AOp::Take(1), AOp::Take(2), AOp::Take(0), T]));
  // 5: fragmented sample completes a run
  c.push((vec![1], None, vec![d(1, 2, None), fr(1, 1, 1, Some(1 << 32)), fr(1, 1, 3, Some(2 << 32)), T, fr(1, 1, 2, Some(3 << 32)), T]));
  // 6: small topic cache (max_samples 8): eviction at the 64th sequence number before anything is taken
  let mut ops: Vec<AOp> = (1..=70).map(|sn| d(1, sn, None)).collect();
  ops.push(T);
  c.push((vec![1], Some(8), ops));
  // 7: default cache crossing the GC boundary twice with takes in between
  let mut ops: Vec<AOp> = Vec::new();
  for sn in 1..=130 {
    ops.push(d(1, sn, None));
    if sn % 50 == 0 {
      ops.push(AOp::Take(30));
    }
  }
  ops.push(T);
  c.push((vec![1], None, ops));
  // 8: unmatched writer and a heartbeat that jumps over received samples
  c.push((vec![1], None, vec![d(9, 1, None), T, d(1, 4, None), d(1, 6, None), hb(1, 5, 6, 1), T, hb(1, 7, 6, 2), T]));
  // 9: sample received, then declared irrelevant before it could be handed over?  (it stays available)
  c.push((vec![1], None, vec![d(1, 2, None), gap(1, 1, 4, 0, &[]), T, d(1, 3, None), T]));
  // --- GAP ranges above the ack base are recorded only within 256 numbers from it (repo fix c71c7f1)
  // 10: GAP [5,1000) at base 1; 1..4 arrive and are handed over; sample 1000 waits until the writer
  //     has repeated the GAP from the reader's base 257
  c.push((vec![1], None, vec![gap(1, 5, 1000, 0, &[]), d(1, 1, None), d(1, 2, None), d(1, 3, None), d(1, 4, None), T, d(1, 1000, None), T, hb(1, 1, 1200, 1), T, gap(1, 257, 1000, 0, &[]), T, hb(1, 1, 1200, 2), d(1, 1001, None), T]));
  // 11: a sample inside the far part (300) is received first; it is handed over when the renewed
  //     GAP [257,300) arrives, the rest of the range follows piecewise
  c.push((vec![1], None, vec![d(1, 300, None), gap(1, 5, 1000, 0, &[]), d(1, 1, None), d(1, 2, None), d(1, 3, None), d(1, 4, None), T, gap(1, 257, 300, 0, &[]), T, gap(1, 302, 1000, 0, &[]), d(1, 301, None), T, d(1, 1000, None), T, gap(1, 558, 1000, 0, &[]), T]));
  // 12: two writers, the far GAP of one does not disturb the other; small topic cache
  c.push((vec![1, 2], Some(8), vec![gap(1, 3, 600, 0, &[]), d(2, 1, None), d(1, 1, None), d(1, 2, None), d(1, 600, None), d(2, 2, None), AOp::Take(2), gap(1, 259, 600, 0, &[]), T, gap(1, 258, 600, 0, &[]), T, gap(1, 1, 601, 0, &[]), T]));
  c
}

pub fn run(args: &Args) -> i32 {
  capture::enable();
  let header = "From Coq Require Import List ZArith Bool.\nFrom RD Require Import Common.Corr C03.Model C01.Model.\nImport ListNotations.\nOpen Scope Z_scope.";
  let mut out = CaseOut::new(args, header, "check run obs_eqb ok", "case", "obs");
  out.per_shard = 40;
  let domain = 150 + (args.seed % 50) as u16;
  let dp = match DomainParticipant::new(domain) {
    Ok(dp) => dp,
    Err(e) => {
      eprintln!("cannot create DomainParticipant: {:?}", e);
      return 3;
    }
  };
  let sub = dp.create_subscriber(&case_qos(None)).unwrap();
  let mut world = World { dp, sub, counter: 0 };
  let corpus = corpus();
  let ncorpus = corpus.len();
  let total = ncorpus + args.n;
  for idx in 0..total {
    if let Some(only) = args.only {
      if only != idx {
        continue;
      }
    }
    let (cr, kind) = if idx < ncorpus {
      let (m, ms, ops) = &corpus[idx];
      let ops: Vec<AOp> = ops
        .iter()
        .cloned()
        .map(|a| match a {
          AOp::Sub(o) => AOp::Sub(o.normalized()),
          t => t,
        })
        .collect();
      (run_fixed(&mut world, m, *ms, &ops, args.seed), "corpus")
    } else {
      let mut rng = Rng::for_case(args.seed, idx);
      let p = rng.below(100);
      let (profile, nops, kind) = if p < 60 {
        (0u8, 5 + rng.below(45) as usize, "small")
      } else if p < 82 {
        (1, 70 + rng.below(110) as usize, "gc64")
      } else if p < 94 {
        (2, 20 + rng.below(60) as usize, "wide")
      } else {
        (3, 6 + rng.below(30) as usize, "hostile")
      };
      (run_generated(&mut world, rng, profile, nops, args.seed), kind)
    };
    let (tags, nontrivial) = tags_of(&cr, kind);
    out.push(idx, coq_case(&cr), coq_obs(&cr), &tags, nontrivial);
  }
  capture::disable();
  out.finish()
}
