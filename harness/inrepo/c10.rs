// C10 driver: QosPolicies::compliance_failure_wrt on generated (offered, requested) pairs.
use crate::{
  dds::qos::{policy::*, QosPolicies, QosPolicyId},
  structure::duration::Duration,
};
use crate::{
  dds::statusevents::{DataReaderStatus, DataWriterStatus},
  rtps::{rtps_reader_proxy::RtpsReaderProxy, rtps_writer_proxy::RtpsWriterProxy},
  structure::guid::{EntityId, EntityKind, GuidPrefix, GUID},
};
use super::{
  mk,
  util::{self, Args, CaseOut, Rng},
};

/// The two call sites of the compatibility check: a real rtps::Writer is told about a remote
/// reader (Writer::update_reader_proxy) and a real rtps::Reader about a remote writer
/// (Reader::update_writer_proxy); the verdict each side reaches is read from its status events.
fn call_sites(off: &QosPolicies, req: &QosPolicies) -> (String, String) {
  let wg = GUID::new(
    GuidPrefix::new(&[1; 12]),
    EntityId::new([0, 0, 1], EntityKind::WRITER_WITH_KEY_USER_DEFINED),
  );
  let rg = GUID::new(
    GuidPrefix::new(&[2; 12]),
    EntityId::new([0, 0, 2], EntityKind::READER_WITH_KEY_USER_DEFINED),
  );
  let mut wk = mk::make_writer(wg, "c10_topic", off.clone());
  let mut rk = mk::make_reader(rg, "c10_topic", req.clone());
  wk.writer
    .update_reader_proxy(&RtpsReaderProxy::new(rg, req.clone(), false), req);
  rk.reader
    .update_writer_proxy(RtpsWriterProxy::new(wg, vec![], vec![], EntityId::UNKNOWN), off);
  let mut wside = "SSilent".to_string();
  while let Ok(e) = wk.status.try_recv() {
    match e {
      DataWriterStatus::PublicationMatched { current, .. } if current.count() > 0 => {
        wside = "SMatched".into()
      }
      DataWriterStatus::OfferedIncompatibleQos { last_policy_id, .. } => {
        wside = format!("(SIncompatible {})", coq_policy(last_policy_id))
      }
      _ => {}
    }
  }
  let mut rside = "SSilent".to_string();
  while let Ok(e) = rk.status.try_recv() {
    match e {
      DataReaderStatus::SubscriptionMatched { current, .. } if current.count() > 0 => {
        rside = "SMatched".into()
      }
      DataReaderStatus::RequestedIncompatibleQos { last_policy_id, .. } => {
        rside = format!("(SIncompatible {})", coq_policy(last_policy_id))
      }
      _ => {}
    }
  }
  (wside, rside)
}

fn coq_policy(p: QosPolicyId) -> String {
  match p {
    QosPolicyId::Durability => "PDurability".into(),
    QosPolicyId::Presentation => "PPresentation".into(),
    QosPolicyId::Deadline => "PDeadline".into(),
    QosPolicyId::LatencyBudget => "PLatencyBudget".into(),
    QosPolicyId::Ownership => "POwnership".into(),
    QosPolicyId::Liveliness => "PLiveliness".into(),
    QosPolicyId::Reliability => "PReliability".into(),
    QosPolicyId::DestinationOrder => "PDestinationOrder".into(),
    other => format!("(POther (* {:?} *))", other),
  }
}

fn gen_duration(r: &mut Rng) -> Duration {
  let grid: [i64; 8] = [
    0,
    1,
    1 << 32,
    (1 << 32) + 1,
    10 << 32,
    (0x7FFF_FFFFi64 << 32),
    Duration::INFINITE.to_ticks(),
    (3 << 32) + 0x8000_0000,
  ];
  if r.chance(3, 4) {
    Duration::from_ticks(*r.pick(&grid))
  } else {
    Duration::from_ticks((r.range(0, 20) << 32) + r.range(0, 3) * 0x4000_0000)
  }
}

fn gen_qos(r: &mut Rng, density: u64) -> QosPolicies {
  let mut q = QosPolicies::qos_none();
  let p = |r: &mut Rng| r.chance(density, 8);
  if p(r) {
    q.durability = Some(*r.pick(&[
      Durability::Volatile,
      Durability::TransientLocal,
      Durability::Transient,
      Durability::Persistent,
    ]));
  }
  if p(r) {
    q.presentation = Some(Presentation {
      access_scope: *r.pick(&[
        PresentationAccessScope::Instance,
        PresentationAccessScope::Topic,
        PresentationAccessScope::Group,
      ]),
      coherent_access: r.chance(1, 2),
      ordered_access: r.chance(1, 2),
    });
  }
  if p(r) {
    q.deadline = Some(Deadline(gen_duration(r)));
  }
  if p(r) {
    q.latency_budget = Some(LatencyBudget { duration: gen_duration(r) });
  }
  if p(r) {
    q.ownership = Some(if r.chance(1, 3) {
      Ownership::Shared
    } else {
      Ownership::Exclusive { strength: r.range(-2, 5) as i32 }
    });
  }
  if p(r) {
    let lease_duration = gen_duration(r);
    q.liveliness = Some(match r.below(3) {
      0 => Liveliness::Automatic { lease_duration },
      1 => Liveliness::ManualByParticipant { lease_duration },
      _ => Liveliness::ManualByTopic { lease_duration },
    });
  }
  if p(r) {
    q.reliability = Some(if r.chance(1, 2) {
      Reliability::BestEffort
    } else {
      Reliability::Reliable { max_blocking_time: gen_duration(r) }
    });
  }
  if p(r) {
    q.destination_order = Some(*r.pick(&[
      DestinationOrder::ByReceptionTimestamp,
      DestinationOrder::BySourceTimeStamp,
    ]));
  }
  // policies without a request/offered rule: must not influence the verdict (not passed to the model)
  if r.chance(1, 3) {
    q.history = Some(if r.chance(1, 2) {
      History::KeepAll
    } else {
      History::KeepLast { depth: r.range(1, 9) as i32 }
    });
  }
  if r.chance(1, 4) {
    q.lifespan = Some(Lifespan { duration: gen_duration(r) });
  }
  if r.chance(1, 4) {
    q.time_based_filter = Some(TimeBasedFilter { minimum_separation: gen_duration(r) });
  }
  if r.chance(1, 4) {
    q.resource_limits = Some(ResourceLimits {
      max_samples: r.range(-1, 9) as i32,
      max_instances: r.range(-1, 9) as i32,
      max_samples_per_instance: r.range(-1, 9) as i32,
    });
  }
  q
}

pub fn coq_qos(q: &QosPolicies) -> String {
  let d = q.durability.map(|d| {
    match d {
      Durability::Volatile => "Volatile",
      Durability::TransientLocal => "TransientLocal",
      Durability::Transient => "Transient",
      Durability::Persistent => "Persistent",
    }
    .to_string()
  });
  let p = q.presentation.map(|p| {
    format!(
      "(Build_presentation {} {} {})",
      match p.access_scope {
        PresentationAccessScope::Instance => "ScInstance",
        PresentationAccessScope::Topic => "ScTopic",
        PresentationAccessScope::Group => "ScGroup",
      },
      util::b(p.coherent_access),
      util::b(p.ordered_access)
    )
  });
  let dl = q.deadline.map(|x| util::z(x.0.to_ticks() as i128));
  let lb = q.latency_budget.map(|x| util::z(x.duration.to_ticks() as i128));
  let ow = q.ownership.map(|o| match o {
    Ownership::Shared => "Shared".to_string(),
    Ownership::Exclusive { strength } => format!("(Exclusive {})", util::z(strength as i128)),
  });
  let lv = q.liveliness.map(|l| {
    let (k, d) = match l {
      Liveliness::Automatic { lease_duration } => ("Automatic", lease_duration),
      Liveliness::ManualByParticipant { lease_duration } => ("ManualByParticipant", lease_duration),
      Liveliness::ManualByTopic { lease_duration } => ("ManualByTopic", lease_duration),
    };
    format!("(Build_liveliness {} {})", k, util::z(d.to_ticks() as i128))
  });
  let rl = q.reliability.map(|r| match r {
    Reliability::BestEffort => "BestEffort".to_string(),
    Reliability::Reliable { max_blocking_time } => {
      format!("(Reliable {})", util::z(max_blocking_time.to_ticks() as i128))
    }
  });
  let dor = q.destination_order.map(|d| {
    match d {
      DestinationOrder::ByReceptionTimestamp => "ByReception",
      DestinationOrder::BySourceTimeStamp => "BySource",
    }
    .to_string()
  });
  format!(
    "(Build_qos {} {} {} {} {} {} {} {})",
    util::opt(d),
    util::opt(p),
    util::opt(dl),
    util::opt(lb),
    util::opt(ow),
    util::opt(lv),
    util::opt(rl),
    util::opt(dor)
  )
}

fn coq_verdict(v: Option<QosPolicyId>) -> String {
  match v {
    None => "None".to_string(),
    Some(p) => format!("(Some {})", coq_policy(p)),
  }
}

/// Fixed corpus: boundary pairs derived from the case split of the proof (one per rule, on both
/// sides of the boundary) and the two pre-repair findings F3a/F3b.
fn corpus() -> Vec<(QosPolicies, QosPolicies)> {
  let s = |x: i64| Duration::from_ticks(x << 32);
  let n = QosPolicies::qos_none;
  let mut v = Vec::new();
  let lv = |l| {
    let mut q = n();
    q.liveliness = Some(l);
    q
  };
  let ow = |o| {
    let mut q = n();
    q.ownership = Some(o);
    q
  };
  // F3a: kind weaker than requested, lease shorter
  v.push((
    lv(Liveliness::Automatic { lease_duration: s(1) }),
    lv(Liveliness::ManualByTopic { lease_duration: s(10) }),
  ));
  v.push((
    lv(Liveliness::ManualByTopic { lease_duration: s(1) }),
    lv(Liveliness::Automatic { lease_duration: s(10) }),
  ));
  v.push((
    lv(Liveliness::ManualByTopic { lease_duration: s(10) }),
    lv(Liveliness::Automatic { lease_duration: s(1) }),
  ));
  v.push((
    lv(Liveliness::ManualByParticipant { lease_duration: Duration::INFINITE }),
    lv(Liveliness::ManualByParticipant { lease_duration: Duration::INFINITE }),
  ));
  // F3b: same kind, different strength
  v.push((ow(Ownership::Exclusive { strength: 5 }), ow(Ownership::Exclusive { strength: 0 })));
  v.push((ow(Ownership::Shared), ow(Ownership::Exclusive { strength: 0 })));
  v.push((ow(Ownership::Exclusive { strength: 0 }), ow(Ownership::Shared)));
  v
}

pub fn run(args: &Args) -> i32 {
  let mut out = CaseOut::new(
    args,
    "From Coq Require Import List ZArith.\nFrom RD Require Import Common.Corr C10.Model.\nImport ListNotations.\nOpen Scope Z_scope.",
    "check run obs_eqb ok",
    "case",
    "obs",
  );
  let mut idx = 0usize;
  let mut emit = |out: &mut CaseOut, idx: usize, off: &QosPolicies, req: &QosPolicies, sites: bool| {
    let v = off.compliance_failure_wrt(req);
    let (wside, rside) = if sites {
      call_sites(off, req)
    } else {
      ("SNotRun".to_string(), "SNotRun".to_string())
    };
    let both = |a: bool, c: bool| a && c;
    let mut tags = vec![format!("verdict:{:?}", v), format!("call_sites_run:{}", sites)];
    let mut shared = 0;
    for (name, a, c) in [
      ("durability", off.durability.is_some(), req.durability.is_some()),
      ("presentation", off.presentation.is_some(), req.presentation.is_some()),
      ("deadline", off.deadline.is_some(), req.deadline.is_some()),
      ("latency", off.latency_budget.is_some(), req.latency_budget.is_some()),
      ("ownership", off.ownership.is_some(), req.ownership.is_some()),
      ("liveliness", off.liveliness.is_some(), req.liveliness.is_some()),
      ("reliability", off.reliability.is_some(), req.reliability.is_some()),
      ("dest_order", off.destination_order.is_some(), req.destination_order.is_some()),
    ] {
      if both(a, c) {
        shared += 1;
        tags.push(format!("both:{}", name));
      }
    }
    tags.push(format!("policies_on_both_sides:{}", shared));
    out.push(
      idx,
      format!("({}, {})", coq_qos(off), coq_qos(req)),
      format!("(Build_obs {} {} {})", coq_verdict(v), wside, rside),
      &tags,
      shared >= 1, // non-trivial: at least one policy is specified by both sides
    );
  };
  for (off, req) in corpus() {
    if args.only.map_or(true, |o| o == idx) {
      emit(&mut out, idx, &off, &req, true);
    }
    idx += 1;
  }
  for _ in 0..args.n {
    if args.only.map_or(true, |o| o == idx) {
      let mut r = Rng::for_case(args.seed, idx);
      // density strata: sparse (single-policy cells), medium, dense (pairs of policies)
      let density = *r.pick(&[2u64, 4, 6, 8]);
      let off = gen_qos(&mut r, density);
      let mut req = gen_qos(&mut r, density);
      if r.chance(1, 4) {
        // requested = offered with one policy perturbed: probes each boundary from the equal side
        req = off.clone();
        match r.below(4) {
          0 => req.deadline = req.deadline.map(|d| Deadline(Duration::from_ticks(d.0.to_ticks().saturating_sub(1).max(0)))),
          1 => req.latency_budget = Some(LatencyBudget { duration: gen_duration(&mut r) }),
          2 => {
            req.liveliness = off.liveliness.map(|l| Liveliness::Automatic { lease_duration: l.duration() })
          }
          _ => req.ownership = Some(Ownership::Exclusive { strength: 77 }),
        }
      }
      let sites = idx % 5 == 0;
      emit(&mut out, idx, &off, &req, sites);
    }
    idx += 1;
  }
  out.finish()
}
