// C10 driver: QosPolicies::compliance_failure_wrt on generated (offered, requested) pairs.
use crate::{
  dds::qos::{policy::*, QosPolicies, QosPolicyId},
  structure::duration::Duration,
};
use super::util::{self, Args, CaseOut, Rng};

fn gen_duration(r: &mut Rng) -> Duration {
  let grid: [i64; 8] = [
    0,
    1,
    1 << 32,
    (1 << 32) + 1,
    10 << 32,
    (0x7FFF_FFFFi64 << 32),
    Duration::INFINITE.to_ticks(),
    (3 << 32) + 0x8000_0000,
  ];
  if r.chance(3, 4) {
    Duration::from_ticks(*r.pick(&grid))
  } else {
    Duration::from_ticks((r.range(0, 20) << 32) + r.range(0, 3) * 0x4000_0000)
  }
}

fn gen_qos(r: &mut Rng, density: u64) -> QosPolicies {
  let mut q = QosPolicies::qos_none();
  let p = |r: &mut Rng| r.chance(density, 8);
  if p(r) {
    q.durability = Some(*r.pick(&[
      Durability::Volatile,
      Durability::TransientLocal,
      Durability::Transient,
      Durability::Persistent,
    ]));
  }
  if p(r) {
    q.presentation = Some(Presentation {
      access_scope: *r.pick(&[
        PresentationAccessScope::Instance,
        PresentationAccessScope::Topic,
        PresentationAccessScope::Group,
      ]),
      coherent_access: r.chance(1, 2),
      ordered_access: r.chance(1, 2),
    });
  }
  if p(r) {
    q.deadline = Some(Deadline(gen_duration(r)));
  }
  if p(r) {
    q.latency_budget = Some(LatencyBudget { duration: gen_duration(r) });
  }
  if p(r) {
    q.ownership = Some(if r.chance(1, 3) {
      Ownership::Shared
    } else {
      Ownership::Exclusive { strength: r.range(-2, 5) as i32 }
    });
  }
  if p(r) {
    let lease_duration = gen_duration(r);
    q.liveliness = Some(match r.below(3) {
      0 => Liveliness::Automatic { lease_duration },
      1 => Liveliness::ManualByParticipant { lease_duration },
      _ => Liveliness::ManualByTopic { lease_duration },
    });
  }
  if p(r) {
    q.reliability = Some(if r.chance(1, 2) {
      Reliability::BestEffort
    } else {
      Reliability::Reliable { max_blocking_time: gen_duration(r) }
    });
  }
  if p(r) {
    q.destination_order = Some(*r.pick(&[
      DestinationOrder::ByReceptionTimestamp,
      DestinationOrder::BySourceTimeStamp,
    ]));
  }
  // policies without a request/offered rule: must not influence the verdict (not passed to the model)
  if r.chance(1, 3) {
    q.history = Some(if r.chance(1, 2) {
      History::KeepAll
    } else {
      History::KeepLast { depth: r.range(1, 9) as i32 }
    });
  }
  if r.chance(1, 4) {
    q.lifespan = Some(Lifespan { duration: gen_duration(r) });
  }
  if r.chance(1, 4) {
    q.time_based_filter = Some(TimeBasedFilter { minimum_separation: gen_duration(r) });
  }
  if r.chance(1, 4) {
    q.resource_limits = Some(ResourceLimits {
      max_samples: r.range(-1, 9) as i32,
      max_instances: r.range(-1, 9) as i32,
      max_samples_per_instance: r.range(-1, 9) as i32,
    });
  }
  q
}

fn coq_qos(q: &QosPolicies) -> String {
  let d = q.durability.map(|d| {
    match d {
      Durability::Volatile => "Volatile",
      Durability::TransientLocal => "TransientLocal",
      Durability::Transient => "Transient",
      Durability::Persistent => "Persistent",
    }
    .to_string()
  });
  let p = q.presentation.map(|p| {
    format!(
      "(Build_presentation {} {} {})",
      match p.access_scope {
        PresentationAccessScope::Instance => "ScInstance",
        PresentationAccessScope::Topic => "ScTopic",
        PresentationAccessScope::Group => "ScGroup",
      },
      util::b(p.coherent_access),
      util::b(p.ordered_access)
    )
  });
  let dl = q.deadline.map(|x| util::z(x.0.to_ticks() as i128));
  let lb = q.latency_budget.map(|x| util::z(x.duration.to_ticks() as i128));
  let ow = q.ownership.map(|o| match o {
    Ownership::Shared => "Shared".to_string(),
    Ownership::Exclusive { strength } => format!("(Exclusive {})", util::z(strength as i128)),
  });
  let lv = q.liveliness.map(|l| {
    let (k, d) = match l {
      Liveliness::Automatic { lease_duration } => ("Automatic", lease_duration),
      Liveliness::ManualByParticipant { lease_duration } => ("ManualByParticipant", lease_duration),
      Liveliness::ManualByTopic { lease_duration } => ("ManualByTopic", lease_duration),
    };
    format!("(Build_liveliness {} {})", k, util::z(d.to_ticks() as i128))
  });
  let rl = q.reliability.map(|r| match r {
    Reliability::BestEffort => "BestEffort".to_string(),
    Reliability::Reliable { max_blocking_time } => {
      format!("(Reliable {})", util::z(max_blocking_time.to_ticks() as i128))
    }
  });
  let dor = q.destination_order.map(|d| {
    match d {
      DestinationOrder::ByReceptionTimestamp => "ByReception",
      DestinationOrder::BySourceTimeStamp => "BySource",
    }
    .to_string()
  });
  format!(
    "(Build_qos {} {} {} {} {} {} {} {})",
    util::opt(d),
    util::opt(p),
    util::opt(dl),
    util::opt(lb),
    util::opt(ow),
    util::opt(lv),
    util::opt(rl),
    util::opt(dor)
  )
}

fn coq_verdict(v: Option<QosPolicyId>) -> String {
  match v {
    None => "None".to_string(),
    Some(QosPolicyId::Durability) => "(Some PDurability)".into(),
    Some(QosPolicyId::Presentation) => "(Some PPresentation)".into(),
    Some(QosPolicyId::Deadline) => "(Some PDeadline)".into(),
    Some(QosPolicyId::LatencyBudget) => "(Some PLatencyBudget)".into(),
    Some(QosPolicyId::Ownership) => "(Some POwnership)".into(),
    Some(QosPolicyId::Liveliness) => "(Some PLiveliness)".into(),
    Some(QosPolicyId::Reliability) => "(Some PReliability)".into(),
    Some(QosPolicyId::DestinationOrder) => "(Some PDestinationOrder)".into(),
    // not expressible in the model: any such answer is reported as a disagreement
    Some(other) => format!("(Some (* {:?} *) PDurability)", other),
  }
}

/// Fixed corpus: boundary pairs derived from the case split of the proof (one per rule, on both
/// sides of the boundary) and the two pre-repair findings F3a/F3b.
fn corpus() -> Vec<(QosPolicies, QosPolicies)> {
  let s = |x: i64| Duration::from_ticks(x << 32);
  let n = QosPolicies::qos_none;
  let mut v = Vec::new();
  let lv = |l| {
    let mut q = n();
    q.liveliness = Some(l);
    q
  };
  let ow = |o| {
    let mut q = n();
    q.ownership = Some(o);
    q
  };
  // F3a: kind weaker than requested, lease shorter
  v.push((
    lv(Liveliness::Automatic { lease_duration: s(1) }),
    lv(Liveliness::ManualByTopic { lease_duration: s(10) }),
  ));
  v.push((
    lv(Liveliness::ManualByTopic { lease_duration: s(1) }),
    lv(Liveliness::Automatic { lease_duration: s(10) }),
  ));
  v.push((
    lv(Liveliness::ManualByTopic { lease_duration: s(10) }),
    lv(Liveliness::Automatic { lease_duration: s(1) }),
  ));
  v.push((
    lv(Liveliness::ManualByParticipant { lease_duration: Duration::INFINITE }),
    lv(Liveliness::ManualByParticipant { lease_duration: Duration::INFINITE }),
  ));
  // F3b: same kind, different strength
  v.push((ow(Ownership::Exclusive { strength: 5 }), ow(Ownership::Exclusive { strength: 0 })));
  v.push((ow(Ownership::Shared), ow(Ownership::Exclusive { strength: 0 })));
  v.push((ow(Ownership::Exclusive { strength: 0 }), ow(Ownership::Shared)));
  v
}

pub fn run(args: &Args) -> i32 {
  let mut out = CaseOut::new(
    args,
    "From Coq Require Import List ZArith.\nFrom RD Require Import Common.Corr C10.Model.\nImport ListNotations.\nOpen Scope Z_scope.",
    "check run obs_eqb ok",
    "case",
    "obs",
  );
  let mut idx = 0usize;
  let mut emit = |out: &mut CaseOut, idx: usize, off: &QosPolicies, req: &QosPolicies| {
    let v = off.compliance_failure_wrt(req);
    let both = |a: bool, c: bool| a && c;
    let mut tags = vec![format!("verdict:{:?}", v)];
    let mut shared = 0;
    for (name, a, c) in [
      ("durability", off.durability.is_some(), req.durability.is_some()),
      ("presentation", off.presentation.is_some(), req.presentation.is_some()),
      ("deadline", off.deadline.is_some(), req.deadline.is_some()),
      ("latency", off.latency_budget.is_some(), req.latency_budget.is_some()),
      ("ownership", off.ownership.is_some(), req.ownership.is_some()),
      ("liveliness", off.liveliness.is_some(), req.liveliness.is_some()),
      ("reliability", off.reliability.is_some(), req.reliability.is_some()),
      ("dest_order", off.destination_order.is_some(), req.destination_order.is_some()),
    ] {
      if both(a, c) {
        shared += 1;
        tags.push(format!("both:{}", name));
      }
    }
    tags.push(format!("policies_on_both_sides:{}", shared));
    out.push(
      idx,
      format!("({}, {})", coq_qos(off), coq_qos(req)),
      coq_verdict(v),
      &tags,
      shared >= 1, // non-trivial: at least one policy is specified by both sides
    );
  };
  for (off, req) in corpus() {
    if args.only.map_or(true, |o| o == idx) {
      emit(&mut out, idx, &off, &req);
    }
    idx += 1;
  }
  for _ in 0..args.n {
    if args.only.map_or(true, |o| o == idx) {
      let mut r = Rng::for_case(args.seed, idx);
      // density strata: sparse (single-policy cells), medium, dense (pairs of policies)
      let density = *r.pick(&[2u64, 4, 6, 8]);
      let off = gen_qos(&mut r, density);
      let mut req = gen_qos(&mut r, density);
      if r.chance(1, 4) {
        // requested = offered with one policy perturbed: probes each boundary from the equal side
        req = off.clone();
        match r.below(4) {
          0 => req.deadline = req.deadline.map(|d| Deadline(Duration::from_ticks(d.0.to_ticks().saturating_sub(1).max(0)))),
          1 => req.latency_budget = Some(LatencyBudget { duration: gen_duration(&mut r) }),
          2 => {
            req.liveliness = off.liveliness.map(|l| Liveliness::Automatic { lease_duration: l.duration() })
          }
          _ => req.ownership = Some(Ownership::Exclusive { strength: 77 }),
        }
      }
      emit(&mut out, idx, &off, &req);
    }
    idx += 1;
  }
  out.finish()
}
