// C19 driver: two real `AuthenticationBuiltin` instances (security feature) initialised from the
// identity files shipped in repo/examples/security_configuration_files plus the committed fixtures
// in harness/fixtures, driven through the three-message PKI-DH handshake by a transcription of
// SecureDiscovery::participant_stateless_message_read (secure_discovery.rs ~1591-1952: which plugin
// call is made in which DiscHandshakeState, state advanced only on the expected Ok outcome).
//
// A case is a script of deliveries `Deliver dst src alter`: take the latest message of class `src`
// (request / reply / final) that the honest parties produced, apply the alteration `alter`
// (single-field drop / byte flip / class change / certificate substitution / re-signing by a
// foreign-CA or insider key / attacker-chosen nonces and DH keys ...), hand it to `dst`.  After the
// script the three genuine messages are (re)delivered in order ("completion suffix").  Observed:
// outcome class of every delivery, final handshake-state class of both plugins, relation of the two
// shared secrets.  No random bytes appear in the observation.
use std::panic::{catch_unwind, AssertUnwindSafe};

use byteorder::BigEndian;
use bytes::Bytes;

use crate::{
  dds::qos::{policy, QosPolicyBuilder},
  discovery::spdp_participant_data::SpdpDiscoveredParticipantData,
  messages::{protocol_version::ProtocolVersion, vendor_id::VendorId},
  discovery::builtin_endpoint::BuiltinEndpointSet,
  security::{
    authentication::{
      authentication_builtin::DiscHandshakeState, Authentication, HandshakeHandle,
      HandshakeMessageToken, IdentityHandle, Sha256, ValidationOutcome,
    },
    types::{BinaryProperty, Property},
    AuthenticationBuiltin,
  },
  serialization::{pl_cdr_adapters::PlCdrSerialize, to_vec},
  structure::guid::{EntityId, GuidPrefix, GUID},
  RepresentationIdentifier,
};
use super::util::{self, Args, CaseOut, Rng};

// ---------------------------------------------------------------- identities
const CA_PEM: &str = include_str!(concat!(
  env!("CARGO_MANIFEST_DIR"),
  "/examples/security_configuration_files/identity_ca.cert.pem"
));
const P1_CERT: &str = include_str!(concat!(
  env!("CARGO_MANIFEST_DIR"),
  "/examples/security_configuration_files/cert.pem"
));
const P1_KEY: &str = include_str!(concat!(
  env!("CARGO_MANIFEST_DIR"),
  "/examples/security_configuration_files/key.pem"
));
const P2_CERT: &str = include_str!("../fixtures/p2_cert.pem");
const P2_KEY: &str = include_str!("../fixtures/p2_key.pem");
const P3_CERT: &str = include_str!("../fixtures/p3_cert.pem");
const P3_KEY: &str = include_str!("../fixtures/p3_key.pem");
const F_CERT: [&str; 3] = [
  include_str!("../fixtures/f1_cert.pem"),
  include_str!("../fixtures/f2_cert.pem"),
  include_str!("../fixtures/f3_cert.pem"),
];
const F_KEY: [&str; 3] = [
  include_str!("../fixtures/f1_key.pem"),
  include_str!("../fixtures/f2_key.pem"),
  include_str!("../fixtures/f3_key.pem"),
];
const SELF_CERT: [&str; 3] = [
  include_str!("../fixtures/self1_cert.pem"),
  include_str!("../fixtures/self2_cert.pem"),
  include_str!("../fixtures/self3_cert.pem"),
];

fn cert_of(id: usize) -> &'static str {
  [P1_CERT, P2_CERT, P3_CERT][id - 1]
}
fn key_of(id: usize) -> &'static str {
  [P1_KEY, P2_KEY, P3_KEY][id - 1]
}

// ---------------------------------------------------------------- case language (mirrors C19/Model.v)
#[derive(Clone, Copy, PartialEq, Eq, Debug)]
pub enum Who {
  A,
  B,
}
#[derive(Clone, Copy, PartialEq, Eq, Debug)]
pub enum Cls {
  Req,
  Rep,
  Fin,
}
#[derive(Clone, Copy, PartialEq, Eq, Debug)]
pub enum Field {
  Class,
  Cid,
  Cperm,
  Cpdata,
  Dsign,
  Kagree,
  HashC1,
  HashC2,
  Dh1,
  Dh2,
  Ch1,
  Ch2,
  Sig,
}
pub const FIELDS: [Field; 13] = [
  Field::Class,
  Field::Cid,
  Field::Cperm,
  Field::Cpdata,
  Field::Dsign,
  Field::Kagree,
  Field::HashC1,
  Field::HashC2,
  Field::Dh1,
  Field::Dh2,
  Field::Ch1,
  Field::Ch2,
  Field::Sig,
];
impl Field {
  fn name(self) -> &'static str {
    match self {
      Field::Class => "class_id",
      Field::Cid => "c.id",
      Field::Cperm => "c.perm",
      Field::Cpdata => "c.pdata",
      Field::Dsign => "c.dsign_algo",
      Field::Kagree => "c.kagree_algo",
      Field::HashC1 => "hash_c1",
      Field::HashC2 => "hash_c2",
      Field::Dh1 => "dh1",
      Field::Dh2 => "dh2",
      Field::Ch1 => "challenge1",
      Field::Ch2 => "challenge2",
      Field::Sig => "signature",
    }
  }
  fn coq(self) -> &'static str {
    match self {
      Field::Class => "FClass",
      Field::Cid => "FCid",
      Field::Cperm => "FCperm",
      Field::Cpdata => "FCpdata",
      Field::Dsign => "FDsign",
      Field::Kagree => "FKagree",
      Field::HashC1 => "FHashC1",
      Field::HashC2 => "FHashC2",
      Field::Dh1 => "FDh1",
      Field::Dh2 => "FDh2",
      Field::Ch1 => "FCh1",
      Field::Ch2 => "FCh2",
      Field::Sig => "FSig",
    }
  }
}
#[derive(Clone, Copy, PartialEq, Eq, Debug)]
pub enum Alter {
  Genuine,
  DropHashes,
  Drop(Field),
  Flip(Field),
  SetClass(Option<Cls>),
  CertForeign,
  CertSelf,
  CertInsider,
  PdataOther,
  ForgeForeign,
  ForgeInsiderSig,
  ForgeInsiderFull,
  Fresh(Field),
  PermRehash,
}
#[derive(Clone, Copy, PartialEq, Eq, Debug)]
pub struct Op {
  dst: Who,
  src: Cls,
  alter: Alter,
}

fn coq_cls(c: Cls) -> &'static str {
  match c {
    Cls::Req => "KReq",
    Cls::Rep => "KRep",
    Cls::Fin => "KFin",
  }
}
fn coq_alter(a: Alter) -> String {
  match a {
    Alter::Genuine => "AGenuine".into(),
    Alter::DropHashes => "ADropHashes".into(),
    Alter::Drop(f) => format!("(ADrop {})", f.coq()),
    Alter::Flip(f) => format!("(AFlip {})", f.coq()),
    Alter::SetClass(None) => "(ASetClass None)".into(),
    Alter::SetClass(Some(c)) => format!("(ASetClass (Some {}))", coq_cls(c)),
    Alter::CertForeign => "ACertForeign".into(),
    Alter::CertSelf => "ACertSelf".into(),
    Alter::CertInsider => "ACertInsider".into(),
    Alter::PdataOther => "APdataOther".into(),
    Alter::ForgeForeign => "AForgeForeign".into(),
    Alter::ForgeInsiderSig => "AForgeInsiderSig".into(),
    Alter::ForgeInsiderFull => "AForgeInsiderFull".into(),
    Alter::Fresh(f) => format!("(AFresh {})", f.coq()),
    Alter::PermRehash => "APermRehash".into(),
  }
}
fn coq_op(o: &Op) -> String {
  format!(
    "(Deliver {} {} {})",
    if o.dst == Who::A { "WA" } else { "WB" },
    coq_cls(o.src),
    coq_alter(o.alter)
  )
}

// ---------------------------------------------------------------- observations
#[derive(Clone, Copy, PartialEq, Eq, Debug)]
pub enum Res {
  NoMsg,
  Ignored,
  Resend,
  Err,
  OkPending,
  OkFinalMessage,
  Ok,
  Panic,
}
fn coq_res(r: Res) -> &'static str {
  match r {
    Res::NoMsg => "RNoMsg",
    Res::Ignored => "RIgnored",
    Res::Resend => "RResend",
    Res::Err => "RErr",
    Res::OkPending => "ROkPending",
    Res::OkFinalMessage => "ROkFinalMessage",
    Res::Ok => "ROk",
    Res::Panic => "RPanic",
  }
}

// ---------------------------------------------------------------- token surgery
fn getp(t: &HandshakeMessageToken, name: &str) -> Option<Bytes> {
  t.data_holder
    .binary_properties
    .iter()
    .find(|p| p.name == name)
    .map(|p| p.value.clone())
}
fn setp(t: &mut HandshakeMessageToken, name: &str, v: Bytes) {
  if let Some(p) = t
    .data_holder
    .binary_properties
    .iter_mut()
    .find(|p| p.name == name)
  {
    p.value = v;
  } else {
    t.data_holder
      .binary_properties
      .push(BinaryProperty::with_propagate(name, v));
  }
}
fn delp(t: &mut HandshakeMessageToken, name: &str) {
  t.data_holder.binary_properties.retain(|p| p.name != name);
}
fn has(t: &HandshakeMessageToken, name: &str) -> bool {
  getp(t, name).is_some()
}
fn ser_props(v: &[(&str, Bytes)]) -> Vec<u8> {
  let props: Vec<BinaryProperty> = v
    .iter()
    .map(|(n, b)| BinaryProperty::with_propagate(n, b.clone()))
    .collect();
  to_vec::<Vec<BinaryProperty>, BigEndian>(&props).expect("serialize properties")
}
/// hash(C) over the c.* fields currently in the token (as the plugin computes it)
fn hash_c(t: &HandshakeMessageToken) -> Bytes {
  let g = |n: &str| getp(t, n).unwrap_or_default();
  let h = Sha256::hash(&ser_props(&[
    ("c.id", g("c.id")),
    ("c.perm", g("c.perm")),
    ("c.pdata", g("c.pdata")),
    ("c.dsign_algo", g("c.dsign_algo")),
    ("c.kagree_algo", g("c.kagree_algo")),
  ]));
  Bytes::copy_from_slice(h.as_ref())
}
/// the byte string a reply / final signature covers, from the fields currently in the token
fn signed_content(t: &HandshakeMessageToken, cls: Cls) -> Vec<u8> {
  let g = |n: &str| getp(t, n).unwrap_or_default();
  match cls {
    Cls::Fin => ser_props(&[
      ("hash_c1", g("hash_c1")),
      ("challenge1", g("challenge1")),
      ("dh1", g("dh1")),
      ("challenge2", g("challenge2")),
      ("dh2", g("dh2")),
      ("hash_c2", g("hash_c2")),
    ]),
    _ => ser_props(&[
      ("hash_c2", g("hash_c2")),
      ("challenge2", g("challenge2")),
      ("dh2", g("dh2")),
      ("challenge1", g("challenge1")),
      ("dh1", g("dh1")),
      ("hash_c1", g("hash_c1")),
    ]),
  }
}
fn resign(t: &mut HandshakeMessageToken, cls: Cls, key_pem: &str) {
  if cls == Cls::Req {
    return; // requests carry no signature
  }
  let sig = crate::security::verif_sign_with_pem_key(key_pem.as_bytes(), &signed_content(t, cls))
    .expect("sign");
  setp(t, "signature", sig);
}
fn rehash(t: &mut HandshakeMessageToken, cls: Cls) {
  match cls {
    Cls::Req => {
      let h = hash_c(t);
      setp(t, "hash_c1", h)
    }
    Cls::Rep => {
      let h = hash_c(t);
      setp(t, "hash_c2", h)
    }
    Cls::Fin => {}
  }
}
fn attacker_dh() -> Bytes {
  let rng = ring::rand::SystemRandom::new();
  let k = ring::agreement::EphemeralPrivateKey::generate(&ring::agreement::ECDH_P256, &rng)
    .expect("ec key");
  Bytes::copy_from_slice(k.compute_public_key().expect("pub").as_ref())
}
fn attacker_nonce(r: &mut Rng) -> Bytes {
  let mut v = Vec::with_capacity(32);
  for _ in 0..4 {
    v.extend_from_slice(&r.next().to_be_bytes());
  }
  Bytes::from(v)
}
fn class_string(c: Option<Cls>) -> String {
  match c {
    Some(Cls::Req) => "DDS:Auth:PKI-DH:1.0+Req".into(),
    Some(Cls::Rep) => "DDS:Auth:PKI-DH:1.0+Reply".into(),
    Some(Cls::Fin) => "DDS:Auth:PKI-DH:1.0+Final".into(),
    None => "DDS:Auth:PKI-DH:1.0+Other".into(),
  }
}

struct World {
  ids: (usize, usize, usize), // initiator, responder, insider
  pdata: [Vec<u8>; 3],        // serialized participant data of identities 1..3 (adjusted GUIDs)
}

/// Applies `alter` to a copy of the genuine message `m` of class `cls` sent by identity `sender`.
fn apply_alter(
  w: &World,
  m: &HandshakeMessageToken,
  cls: Cls,
  sender: usize,
  alter: Alter,
  r: &mut Rng,
) -> HandshakeMessageToken {
  let mut t = m.clone();
  let insider = w.ids.2;
  match alter {
    Alter::Genuine => {}
    Alter::DropHashes => {
      delp(&mut t, "hash_c1");
      delp(&mut t, "hash_c2");
    }
    Alter::Drop(Field::Class) => t.data_holder.class_id = String::new(),
    Alter::Drop(f) => delp(&mut t, f.name()),
    Alter::Flip(Field::Class) => {
      let mut b = t.data_holder.class_id.clone().into_bytes();
      let n = b.len();
      b[n - 1] ^= 0x01;
      t.data_holder.class_id = String::from_utf8_lossy(&b).into_owned();
    }
    Alter::Flip(f) => {
      if let Some(v) = getp(&t, f.name()) {
        let mut v = v.to_vec();
        if v.is_empty() {
          v.push(1);
        } else {
          let pos = r.below(v.len() as u64) as usize;
          v[pos] ^= 0x01;
        }
        setp(&mut t, f.name(), Bytes::from(v));
      }
    }
    Alter::SetClass(c) => t.data_holder.class_id = class_string(c),
    Alter::CertForeign => {
      if has(&t, "c.id") {
        setp(&mut t, "c.id", Bytes::from(F_CERT[sender - 1]));
      }
    }
    Alter::CertSelf => {
      if has(&t, "c.id") {
        setp(&mut t, "c.id", Bytes::from(SELF_CERT[sender - 1]));
      }
    }
    Alter::CertInsider => {
      if has(&t, "c.id") {
        setp(&mut t, "c.id", Bytes::from(cert_of(insider)));
      }
    }
    Alter::PdataOther => {
      if has(&t, "c.pdata") {
        setp(&mut t, "c.pdata", Bytes::from(w.pdata[insider - 1].clone()));
      }
    }
    Alter::ForgeForeign => {
      // the foreign-CA holder of the sender's subject name rebuilds the message around its own
      // certificate: hashes recomputed, signature made with its own key
      if has(&t, "c.id") {
        setp(&mut t, "c.id", Bytes::from(F_CERT[sender - 1]));
      }
      rehash(&mut t, cls);
      resign(&mut t, cls, F_KEY[sender - 1]);
    }
    Alter::ForgeInsiderSig => resign(&mut t, cls, key_of(insider)),
    Alter::ForgeInsiderFull => {
      // a CA-issued third identity substitutes itself consistently: own certificate, own
      // participant data, own nonce / DH key, hashes recomputed, own signature
      if has(&t, "c.id") {
        setp(&mut t, "c.id", Bytes::from(cert_of(insider)));
        setp(&mut t, "c.pdata", Bytes::from(w.pdata[insider - 1].clone()));
      }
      match cls {
        Cls::Req => {
          setp(&mut t, "dh1", attacker_dh());
          setp(&mut t, "challenge1", attacker_nonce(r));
        }
        Cls::Rep => {
          setp(&mut t, "dh2", attacker_dh());
          setp(&mut t, "challenge2", attacker_nonce(r));
        }
        Cls::Fin => {}
      }
      rehash(&mut t, cls);
      resign(&mut t, cls, key_of(insider));
    }
    Alter::Fresh(f) => match f {
      Field::Dh1 | Field::Dh2 => {
        if has(&t, f.name()) {
          setp(&mut t, f.name(), attacker_dh());
        }
      }
      Field::Ch1 | Field::Ch2 => {
        if has(&t, f.name()) {
          setp(&mut t, f.name(), attacker_nonce(r));
        }
      }
      _ => {}
    },
    Alter::PermRehash => {
      if has(&t, "c.perm") {
        setp(&mut t, "c.perm", Bytes::from_static(b"<other permissions document/>"));
        rehash(&mut t, cls);
      }
    }
  }
  t
}

// ---------------------------------------------------------------- the two real plugins
struct Side {
  auth: AuthenticationBuiltin,
  local: IdentityHandle,
  remote: IdentityHandle,
  hs: Option<HandshakeHandle>,
  disc: DiscHandshakeState,
  pdata: Vec<u8>,
}

fn spdp(guid: GUID) -> SpdpDiscoveredParticipantData {
  SpdpDiscoveredParticipantData {
    updated_time: chrono::Utc::now(),
    protocol_version: ProtocolVersion::THIS_IMPLEMENTATION,
    vendor_id: VendorId::THIS_IMPLEMENTATION,
    expects_inline_qos: false,
    participant_guid: guid,
    metatraffic_unicast_locators: vec![],
    metatraffic_multicast_locators: vec![],
    default_unicast_locators: vec![],
    default_multicast_locators: vec![],
    available_builtin_endpoints: BuiltinEndpointSet::from_u32(0),
    lease_duration: None,
    manual_liveliness_count: 0,
    builtin_endpoint_qos: None,
    entity_name: None,
    identity_token: None,
    permissions_token: None,
    property: None,
    security_info: None,
  }
}

fn local_identity(id: usize) -> (AuthenticationBuiltin, IdentityHandle, GUID) {
  let prop = |n: &str, v: &str| Property {
    name: n.to_string(),
    value: format!("data:{}", v),
    propagate: false,
  };
  let qos = QosPolicyBuilder::new()
    .property(policy::Property {
      value: vec![
        prop("dds.sec.auth.identity_ca", CA_PEM),
        prop("dds.sec.auth.identity_certificate", cert_of(id)),
        prop("dds.sec.auth.private_key", key_of(id)),
      ],
      binary_value: vec![],
    })
    .build();
  let mut auth = AuthenticationBuiltin::new();
  let cand = GUID::new(GuidPrefix::new(&[id as u8; 12]), EntityId::PARTICIPANT);
  let (out, handle, guid) = auth
    .validate_local_identity(0, &qos, cand)
    .expect("validate_local_identity");
  assert_eq!(out, ValidationOutcome::Ok);
  (auth, handle, guid)
}

fn ser_pdata(guid: GUID) -> Vec<u8> {
  spdp(guid)
    .to_pl_cdr_bytes(RepresentationIdentifier::PL_CDR_BE)
    .expect("pdata")
    .to_vec()
}

/// transcription of SecureDiscovery::participant_stateless_message_read + handshake_on_pending_*
fn deliver(
  side: &mut Side,
  token: HandshakeMessageToken,
  pool: &mut [Option<HandshakeMessageToken>; 3],
) -> Res {
  let r = catch_unwind(AssertUnwindSafe(|| match side.disc {
    DiscHandshakeState::PendingRequestSend => Res::Ignored,
    DiscHandshakeState::PendingRequestMessage => {
      match side
        .auth
        .begin_handshake_reply(token, side.remote, side.local, side.pdata.clone())
      {
        Ok((ValidationOutcome::PendingHandshakeMessage, hs, reply)) => {
          side.hs = Some(hs);
          pool[1] = Some(reply);
          side.disc = DiscHandshakeState::PendingFinalMessage;
          Res::OkPending
        }
        Ok(_) => Res::Err,
        Err(_) => Res::Err,
      }
    }
    DiscHandshakeState::PendingReplyMessage => {
      match side.auth.process_handshake(token, side.hs.unwrap()) {
        Ok((ValidationOutcome::OkFinalMessage, Some(fin))) => {
          pool[2] = Some(fin);
          side.disc = DiscHandshakeState::CompletedWithFinalMessageSent;
          Res::OkFinalMessage
        }
        Ok((ValidationOutcome::Ok, _)) => Res::Ok,
        Ok(_) => Res::Err,
        Err(_) => Res::Err,
      }
    }
    DiscHandshakeState::PendingFinalMessage => {
      match side.auth.process_handshake(token, side.hs.unwrap()) {
        Ok((ValidationOutcome::Ok, None)) => {
          side.disc = DiscHandshakeState::CompletedWithFinalMessageReceived;
          Res::Ok
        }
        Ok((ValidationOutcome::OkFinalMessage, _)) => Res::OkFinalMessage,
        Ok(_) => Res::Err,
        Err(_) => Res::Err,
      }
    }
    DiscHandshakeState::CompletedWithFinalMessageSent => Res::Resend,
    DiscHandshakeState::CompletedWithFinalMessageReceived => Res::Ignored,
  }));
  r.unwrap_or(Res::Panic)
}

struct Outcome {
  res: Vec<Res>,
  completion: Vec<Res>,
  st_a: i64,
  st_b: i64,
  sec: &'static str,
}

fn run_script(ia: usize, ib: usize, script: &[Op], r: &mut Rng) -> Outcome {
  let insider = 6 - ia - ib;
  let (auth_a, la, guid_a) = local_identity(ia);
  let (auth_b, lb, guid_b) = local_identity(ib);
  let (_, _, guid_t) = local_identity(insider);
  let mut pdata: [Vec<u8>; 3] = [vec![], vec![], vec![]];
  pdata[ia - 1] = ser_pdata(guid_a);
  pdata[ib - 1] = ser_pdata(guid_b);
  pdata[insider - 1] = ser_pdata(guid_t);
  let w = World { ids: (ia, ib, insider), pdata };
  let mut a = Side {
    auth: auth_a,
    local: la,
    remote: 0,
    hs: None,
    disc: DiscHandshakeState::PendingRequestSend,
    pdata: w.pdata[ia - 1].clone(),
  };
  let mut b = Side {
    auth: auth_b,
    local: lb,
    remote: 0,
    hs: None,
    disc: DiscHandshakeState::PendingRequestSend,
    pdata: w.pdata[ib - 1].clone(),
  };
  // validate_remote_identity on both sides (start_authentication_with_remote)
  let tok_a = a.auth.get_identity_token(la).expect("token a");
  let tok_b = b.auth.get_identity_token(lb).expect("token b");
  let (oa, ra, _) = a
    .auth
    .validate_remote_identity(None, la, tok_b, guid_b.prefix)
    .expect("validate remote a");
  let (ob, rb, _) = b
    .auth
    .validate_remote_identity(None, lb, tok_a, guid_a.prefix)
    .expect("validate remote b");
  assert_eq!(oa, ValidationOutcome::PendingHandshakeRequest, "initiator must have the lower GUID");
  assert_eq!(ob, ValidationOutcome::PendingHandshakeMessage);
  a.remote = ra;
  b.remote = rb;
  b.disc = DiscHandshakeState::PendingRequestMessage;
  // try_sending_new_handshake_request_message
  let mut pool: [Option<HandshakeMessageToken>; 3] = [None, None, None];
  let (o, hs, req) = a
    .auth
    .begin_handshake_request(la, ra, a.pdata.clone())
    .expect("begin_handshake_request");
  assert_eq!(o, ValidationOutcome::PendingHandshakeMessage);
  a.hs = Some(hs);
  a.disc = DiscHandshakeState::PendingReplyMessage;
  pool[0] = Some(req);

  let mut one = |op: &Op, a: &mut Side, b: &mut Side, pool: &mut [Option<HandshakeMessageToken>; 3], r: &mut Rng| {
    let (k, sender) = match op.src {
      Cls::Req => (0, ia),
      Cls::Rep => (1, ib),
      Cls::Fin => (2, ia),
    };
    match pool[k].clone() {
      None => Res::NoMsg,
      Some(m) => {
        let t = apply_alter(&w, &m, op.src, sender, op.alter, r);
        deliver(if op.dst == Who::A { a } else { b }, t, pool)
      }
    }
  };
  let mut res = Vec::new();
  for op in script {
    res.push(one(op, &mut a, &mut b, &mut pool, r));
  }
  let mut completion = Vec::new();
  for op in [
    Op { dst: Who::B, src: Cls::Req, alter: Alter::Genuine },
    Op { dst: Who::A, src: Cls::Rep, alter: Alter::Genuine },
    Op { dst: Who::B, src: Cls::Fin, alter: Alter::Genuine },
  ] {
    completion.push(one(&op, &mut a, &mut b, &mut pool, r));
  }
  let st_a = a.auth.verif_handshake_state_class(ra).map_or(-1, |x| x as i64);
  let st_b = b.auth.verif_handshake_state_class(rb).map_or(-1, |x| x as i64);
  let sa = a.auth.get_shared_secret(ra).ok();
  let sb = b.auth.get_shared_secret(rb).ok();
  let sec = match (&sa, &sb) {
    (None, None) => "SecNone",
    (Some(_), None) => "SecOnlyA",
    (None, Some(_)) => "SecOnlyB",
    (Some(x), Some(y)) => {
      if x.shared_secret == y.shared_secret && x.challenge1 == y.challenge1 && x.challenge2 == y.challenge2 {
        "SecEqual"
      } else {
        "SecDiffer"
      }
    }
  };
  Outcome { res, completion, st_a, st_b, sec }
}

// ---------------------------------------------------------------- known-finding class (syntactic; = Model.known_class)
fn present(cls: Cls, f: Field) -> bool {
  match cls {
    Cls::Req => matches!(
      f,
      Field::Class | Field::Cid | Field::Cperm | Field::Cpdata | Field::Dsign | Field::Kagree | Field::HashC1 | Field::Dh1 | Field::Ch1
    ),
    Cls::Rep => true,
    Cls::Fin => matches!(
      f,
      Field::Class | Field::HashC1 | Field::HashC2 | Field::Dh1 | Field::Dh2 | Field::Ch1 | Field::Ch2 | Field::Sig
    ),
  }
}
/// alterations of a REQUEST that the responder cannot detect (the request is not signed)
fn undetectable_req(a: Alter) -> bool {
  matches!(
    a,
    Alter::Flip(Field::Dh1)
      | Alter::Flip(Field::Ch1)
      | Alter::Fresh(Field::Dh1)
      | Alter::Fresh(Field::Ch1)
      | Alter::PermRehash
  )
}
fn genuine_equiv(cls: Cls, a: Alter) -> bool {
  match a {
    Alter::Genuine | Alter::DropHashes => true,
    Alter::Drop(Field::HashC1) | Alter::Drop(Field::HashC2) => true,
    Alter::Drop(f) | Alter::Flip(f) => !present(cls, f),
    Alter::Fresh(f) => !(present(cls, f) && matches!(f, Field::Dh1 | Field::Dh2 | Field::Ch1 | Field::Ch2)),
    Alter::SetClass(c) => c == Some(cls),
    Alter::CertForeign | Alter::CertSelf | Alter::CertInsider | Alter::PdataOther | Alter::PermRehash => {
      cls == Cls::Fin
    }
    Alter::ForgeInsiderSig => cls == Cls::Req,
    Alter::ForgeForeign | Alter::ForgeInsiderFull => false,
  }
}
fn known_class(script: &[Op]) -> bool {
  for op in script {
    if op.dst == Who::B && op.src == Cls::Req {
      if genuine_equiv(Cls::Req, op.alter) {
        return false;
      }
      if undetectable_req(op.alter) {
        return true;
      }
    }
  }
  false
}

// ---------------------------------------------------------------- generation
fn gen_alter(r: &mut Rng, cls: Cls) -> Alter {
  match r.below(20) {
    0..=4 => {
      // single-field flip of a field the message has
      loop {
        let f = *r.pick(&FIELDS);
        if present(cls, f) {
          return Alter::Flip(f);
        }
      }
    }
    5..=7 => loop {
      let f = *r.pick(&FIELDS);
      if present(cls, f) {
        return Alter::Drop(f);
      }
    },
    8 => Alter::SetClass(*r.pick(&[None, Some(Cls::Req), Some(Cls::Rep), Some(Cls::Fin)])),
    9 => Alter::CertForeign,
    10 => Alter::CertSelf,
    11 => Alter::CertInsider,
    12 => Alter::PdataOther,
    13 => Alter::ForgeForeign,
    14 => Alter::ForgeInsiderSig,
    15 => Alter::ForgeInsiderFull,
    16 => Alter::Fresh(*r.pick(&[Field::Dh1, Field::Dh2, Field::Ch1, Field::Ch2])),
    17 => Alter::PermRehash,
    18 => Alter::DropHashes,
    _ => {
      // any field, also absent ones (no-op alterations must behave as genuine)
      let f = *r.pick(&FIELDS);
      if r.chance(1, 2) {
        Alter::Flip(f)
      } else {
        Alter::Drop(f)
      }
    }
  }
}
fn gen_script(r: &mut Rng) -> Vec<Op> {
  // a genuine handshake (request -> B, reply -> A, final -> B) with hostile deliveries injected at
  // random points; with some probability genuine steps are omitted / duplicated / reordered
  let genuine = [
    Op { dst: Who::B, src: Cls::Req, alter: Alter::Genuine },
    Op { dst: Who::A, src: Cls::Rep, alter: Alter::Genuine },
    Op { dst: Who::B, src: Cls::Fin, alter: Alter::Genuine },
  ];
  let mut s = Vec::new();
  let stop_after = r.below(4) as usize; // how many genuine steps are in the script itself
  for (i, g) in genuine.iter().enumerate() {
    let inject = match r.below(10) {
      0..=3 => 0,
      4..=7 => 1,
      8 => 2,
      _ => 3,
    };
    for _ in 0..inject {
      let src = if r.chance(2, 3) {
        g.src // alteration of the message that is due now
      } else {
        *r.pick(&[Cls::Req, Cls::Rep, Cls::Fin])
      };
      let dst = if r.chance(4, 5) {
        // to its proper destination
        if src == Cls::Rep {
          Who::A
        } else {
          Who::B
        }
      } else {
        *r.pick(&[Who::A, Who::B])
      };
      let alter = if r.chance(1, 8) { Alter::Genuine } else { gen_alter(r, src) };
      s.push(Op { dst, src, alter });
    }
    if i < stop_after {
      s.push(*g);
      if r.chance(1, 10) {
        s.push(*g); // duplicate (resend)
      }
    }
  }
  s
}

fn corpus() -> Vec<Vec<Op>> {
  let d = |dst, src, alter| Op { dst, src, alter };
  let g = [
    d(Who::B, Cls::Req, Alter::Genuine),
    d(Who::A, Cls::Rep, Alter::Genuine),
    d(Who::B, Cls::Fin, Alter::Genuine),
  ];
  let mut v: Vec<Vec<Op>> = Vec::new();
  v.push(vec![]); // honest handshake (completion suffix only)
  v.push(g.to_vec());
  // F10 witnesses: one forged reply, then the genuine one; one forged final, then the genuine one
  v.push(vec![g[0], d(Who::A, Cls::Rep, Alter::Flip(Field::Sig))]);
  v.push(vec![g[0], g[1], d(Who::B, Cls::Fin, Alter::Flip(Field::Sig))]);
  v.push(vec![g[0], d(Who::A, Cls::Rep, Alter::CertForeign)]);
  v.push(vec![g[0], d(Who::A, Cls::Rep, Alter::Flip(Field::Ch1))]);
  v.push(vec![g[0], d(Who::A, Cls::Req, Alter::Genuine)]); // wrong class of message (fall-through arm)
  v.push(vec![g[0], g[1], d(Who::B, Cls::Req, Alter::Genuine)]); // replayed request at the responder
  v.push(vec![g[0], d(Who::A, Cls::Rep, Alter::SetClass(None))]); // malformed token
  // every single alteration of every message, injected just before the genuine message is due
  for (i, cls) in [Cls::Req, Cls::Rep, Cls::Fin].iter().enumerate() {
    let dst = if *cls == Cls::Rep { Who::A } else { Who::B };
    let mut alters = vec![
      Alter::DropHashes,
      Alter::SetClass(None),
      Alter::SetClass(Some(Cls::Req)),
      Alter::SetClass(Some(Cls::Rep)),
      Alter::SetClass(Some(Cls::Fin)),
      Alter::CertForeign,
      Alter::CertSelf,
      Alter::CertInsider,
      Alter::PdataOther,
      Alter::ForgeForeign,
      Alter::ForgeInsiderSig,
      Alter::ForgeInsiderFull,
      Alter::Fresh(Field::Dh1),
      Alter::Fresh(Field::Dh2),
      Alter::Fresh(Field::Ch1),
      Alter::Fresh(Field::Ch2),
      Alter::PermRehash,
    ];
    for f in FIELDS {
      alters.push(Alter::Flip(f));
      alters.push(Alter::Drop(f));
    }
    for a in alters {
      let mut s: Vec<Op> = g[..i].to_vec();
      s.push(d(dst, *cls, a));
      v.push(s);
    }
  }
  // F11 witness: request with a substituted DH1 reaches B, B's (honest) reply reaches A
  v.push(vec![d(Who::B, Cls::Req, Alter::Fresh(Field::Dh1)), g[1]]);
  v.push(vec![d(Who::B, Cls::Req, Alter::Flip(Field::Dh1)), g[1], g[2]]);
  v
}

pub fn run(args: &Args) -> i32 {
  let mut out = CaseOut::new(
    args,
    "From Coq Require Import List ZArith.\nFrom RD Require Import Common.Corr C19.Model.\nImport ListNotations.\nOpen Scope Z_scope.",
    "check run obs_eqb ok",
    "case",
    "obs",
  );
  out.per_shard = 120;
  let pairs_all = [(1usize, 2usize), (1, 3), (2, 3)];
  // which identity of a pair is the initiator is decided by the certificate-derived GUIDs
  let guid_of = |id: usize| local_identity(id).2;
  let g = [guid_of(1), guid_of(2), guid_of(3)];
  let order = |x: usize, y: usize| if g[x - 1].prefix < g[y - 1].prefix { (x, y) } else { (y, x) };
  let mut idx = 0usize;
  let mut emit = |out: &mut CaseOut, idx: usize, ia: usize, ib: usize, script: &[Op], reject_only: bool, r: &mut Rng| {
    let o = run_script(ia, ib, script, r);
    let kf = known_class(script);
    let mut tags = vec![
      format!("len:{}", script.len()),
      format!("ids:{}-{}", ia, ib),
      format!("final:{}-{}-{}", o.st_a, o.st_b, o.sec),
      format!("known_class:{}", kf),
      format!("mode:{}", if reject_only { "reject_only" } else { "full" }),
    ];
    for (op, res) in script.iter().zip(o.res.iter()) {
      let a = coq_alter(op.alter);
      let kind = a.trim_matches(|c| c == '(' || c == ')').split(' ').next().unwrap_or("").to_string();
      tags.push(format!("op:{:?}<-{:?}:{}:{}", op.dst, op.src, kind, coq_res(*res)));
    }
    let hostile = script.iter().any(|op| !genuine_equiv(op.src, op.alter));
    let case = format!(
      "(Build_case {} {} {} {})",
      if reject_only { "MRejectOnly" } else { "MFull" },
      ia,
      ib,
      util::list(script.iter().map(coq_op))
    );
    let obs = format!(
      "(Build_obs {} {} {} {} {})",
      util::list(o.res.iter().map(|x| coq_res(*x).to_string())),
      util::list(o.completion.iter().map(|x| coq_res(*x).to_string())),
      o.st_a,
      o.st_b,
      o.sec
    );
    out.push_kf(
      idx,
      case,
      obs,
      &tags,
      hostile,
      if kf && !reject_only { "unauthenticated-request-accepted" } else { "" },
    );
  };
  let mut scripts: Vec<(usize, usize, Vec<Op>)> = Vec::new();
  for (k, s) in corpus().into_iter().enumerate() {
    let (x, y) = pairs_all[k % 3];
    let (ia, ib) = order(x, y);
    scripts.push((ia, ib, s));
  }
  let ncorpus = scripts.len();
  for k in 0..args.n {
    let mut r = Rng::for_case(args.seed, ncorpus + k);
    let (x, y) = *r.pick(&pairs_all);
    let (ia, ib) = order(x, y);
    scripts.push((ia, ib, gen_script(&mut r)));
  }
  for (k, (ia, ib, s)) in scripts.iter().enumerate() {
    // two case indices per script: 2k = full oracle, 2k+1 = reject-only oracle (emitted for
    // scripts of the known-finding class, so that the suppression of the completion requirement
    // never hides an acceptance of a forged message)
    let mut r = Rng::for_case(args.seed ^ 0x5bd1e995, k);
    if args.only.map_or(true, |o| o == 2 * k) {
      emit(&mut out, 2 * k, *ia, *ib, s, false, &mut r.clone());
    }
    if known_class(s) && args.only.map_or(true, |o| o == 2 * k + 1) {
      emit(&mut out, 2 * k + 1, *ia, *ib, s, true, &mut r);
    }
    idx = 2 * k + 2;
  }
  let _ = idx;
  out.finish()
}
