// C12 driver: participant lease / liveness histories on a real DiscoveryDB.
//
// Simulated time: DiscoveryDB stores Instants and participant_cleanup reads Instant::now(); the
// cfg-gated hook DiscoveryDB::verif_age(d) makes every stored life sign d older.  All Tick values
// are whole seconds, all leases lie on the half-second grid (or are INFINITE / default, the latter
// guarded by the generator), so the real time that passes while a history executes (asserted to
// be < 200 ms) can never flip a lease comparison.
use std::{
  collections::BTreeMap,
  panic::{catch_unwind, AssertUnwindSafe},
  time::{Duration as StdDuration, Instant},
};

use mio_extras::channel as mio_channel;

use crate::{
  dds::{
    qos::QosPolicies,
    statusevents::{sync_status_channel, LostReason},
  },
  discovery::{
    builtin_endpoint::BuiltinEndpointSet,
    discovery_db::DiscoveryDB,
    sedp_messages::{
      DiscoveredReaderData, DiscoveredWriterData, PublicationBuiltinTopicData, ReaderProxy,
      SubscriptionBuiltinTopicData, WriterProxy,
    },
    spdp_participant_data::SpdpDiscoveredParticipantData,
  },
  messages::{protocol_version::ProtocolVersion, vendor_id::VendorId},
  structure::{
    duration::Duration,
    guid::{EntityId, EntityKind, GuidPrefix, GUID},
  },
};
use super::util::{self, Args, CaseOut, Rng};

const S: i64 = 1 << 32; // ticks per second
const NS: i64 = 1_000_000_000;
const INF: i64 = i64::MAX;

#[derive(Clone, Debug)]
pub enum Op {
  Tick(i64), // ns
  Spdp(i64, Option<i64>),
  SpdpBad(i64),
  Alive(i64),
  Cleanup,
  Dispose(i64),
  EpAdd((bool, i64, i64), i64),
  EpDel((bool, i64, i64)),
}

#[derive(Clone, Debug)]
pub struct Params {
  pub np: i64,
  pub ne: i64,
  pub nt: i64,
  pub me: i64,
  pub dflt: i64,
  pub tol: i64,
}

pub fn prefix(p: i64) -> GuidPrefix {
  GuidPrefix::new(&[b'v', b'e', b'r', b'i', b'f', 0, 0, 0, 0, 0, 1, p as u8])
}
pub fn guid((w, p, e): (bool, i64, i64)) -> GUID {
  let kind = if w {
    EntityKind::WRITER_WITH_KEY_USER_DEFINED
  } else {
    EntityKind::READER_WITH_KEY_USER_DEFINED
  };
  GUID::new(prefix(p), EntityId::new([0, 1, e as u8], kind))
}
/// inverse of `guid`; anything unexpected maps to entity -1 (never equal to a model key)
pub fn unguid(g: GUID, np: i64) -> (bool, i64, i64) {
  let p = (0..np.max(0) + 8).find(|p| prefix(*p) == g.prefix).unwrap_or(-1);
  let k = g.entity_id.entity_kind;
  let w = k == EntityKind::WRITER_WITH_KEY_USER_DEFINED;
  let e = if g.entity_id.entity_key[0] == 0
    && g.entity_id.entity_key[1] == 1
    && (w || k == EntityKind::READER_WITH_KEY_USER_DEFINED)
  {
    g.entity_id.entity_key[2] as i64
  } else {
    -1
  };
  (w, p, e)
}
pub fn topic_name(t: i64) -> String {
  format!("verif_topic_{}", t)
}
fn untopic(s: &str, nt: i64) -> i64 {
  (0..nt).find(|t| topic_name(*t) == s).unwrap_or(-1)
}

pub fn spdp_data(p: i64, lease: Option<i64>, good_eid: bool) -> SpdpDiscoveredParticipantData {
  SpdpDiscoveredParticipantData {
    updated_time: chrono::Utc::now(),
    protocol_version: ProtocolVersion::THIS_IMPLEMENTATION,
    vendor_id: VendorId::THIS_IMPLEMENTATION,
    expects_inline_qos: false,
    participant_guid: GUID::new(
      prefix(p),
      if good_eid {
        EntityId::PARTICIPANT
      } else {
        EntityId::SPDP_BUILTIN_PARTICIPANT_WRITER
      },
    ),
    metatraffic_unicast_locators: vec![],
    metatraffic_multicast_locators: vec![],
    default_unicast_locators: vec![],
    default_multicast_locators: vec![],
    available_builtin_endpoints: BuiltinEndpointSet::from_u32(0),
    lease_duration: lease.map(Duration::from_ticks),
    manual_liveliness_count: 0,
    builtin_endpoint_qos: None,
    entity_name: None,
    identity_token: None,
    permissions_token: None,
    property: None,
    security_info: None,
  }
}

pub fn reader_data(k: (bool, i64, i64), t: i64, qos: &QosPolicies) -> DiscoveredReaderData {
  let g = guid(k);
  DiscoveredReaderData {
    reader_proxy: ReaderProxy::new(g, false, vec![], vec![]),
    subscription_topic_data: SubscriptionBuiltinTopicData::new(
      g,
      Some(GUID::new(prefix(k.1), EntityId::PARTICIPANT)),
      topic_name(t),
      "VerifType".to_string(),
      qos,
      None,
    ),
    content_filter: None,
  }
}

pub fn writer_data(k: (bool, i64, i64), t: i64, qos: &QosPolicies) -> DiscoveredWriterData {
  let g = guid(k);
  DiscoveredWriterData {
    last_updated: Instant::now(),
    writer_proxy: WriterProxy::new(g, vec![], vec![]),
    publication_topic_data: PublicationBuiltinTopicData::new_with_qos(
      g,
      Some(GUID::new(prefix(k.1), EntityId::PARTICIPANT)),
      topic_name(t),
      "VerifType".to_string(),
      qos,
      None,
    ),
  }
}

type Digest = (Vec<i64>, Vec<((bool, i64, i64), i64)>, Vec<((bool, i64, i64), i64)>);

fn digest(db: &DiscoveryDB, pa: &Params) -> Digest {
  let known: Vec<i64> = (0..pa.np)
    .filter(|p| db.find_participant_proxy(prefix(*p)).is_some())
    .collect();
  let mut act: BTreeMap<(i64, i64, bool), i64> = BTreeMap::new();
  for p in 0..pa.np {
    for t in 0..pa.nt {
      for d in db.readers_on_topic_and_participant(&topic_name(t), prefix(p)) {
        let (w, pp, e) = unguid(d.reader_proxy.remote_reader_guid, pa.np);
        // a reader query must answer readers of that participant only
        let e = if w || pp != p { -1 } else { e };
        act.insert((pp, e, w), t);
      }
      for d in db.writers_on_topic_and_participant(&topic_name(t), prefix(p)) {
        let (w, pp, e) = unguid(d.writer_proxy.remote_writer_guid, pa.np);
        let e = if !w || pp != p { -1 } else { e };
        act.insert((pp, e, w), t);
      }
    }
  }
  let (ra, wa) = db.verif_attic();
  let mut att: BTreeMap<(i64, i64, bool), i64> = BTreeMap::new();
  for (g, tn) in ra {
    let (w, p, e) = unguid(g, pa.np);
    att.insert((p, if w { -1 } else { e }, w), untopic(&tn, pa.nt));
  }
  for (g, tn) in wa {
    let (w, p, e) = unguid(g, pa.np);
    att.insert((p, if !w { -1 } else { e }, w), untopic(&tn, pa.nt));
  }
  let flat = |m: BTreeMap<(i64, i64, bool), i64>| {
    m.into_iter().map(|((p, e, w), t)| ((w, p, e), t)).collect::<Vec<_>>()
  };
  (known, flat(act), flat(att))
}

#[derive(Debug)]
enum Out {
  Unit,
  New(bool),
  Lost(Vec<(i64, i64, i64)>),
}

/// Executes one history on a fresh DiscoveryDB.  Returns per-op (output, digest) and the real
/// time the history took.
fn execute(pa: &Params, ops: &[Op]) -> (Vec<(Out, Digest)>, StdDuration) {
  let (topic_tx, _topic_rx) = mio_channel::sync_channel::<()>(4);
  let (status_tx, status_rx) = sync_status_channel(64).unwrap();
  let my_guid = GUID::new(prefix(pa.me), EntityId::PARTICIPANT);
  let mut db = DiscoveryDB::new(my_guid, topic_tx, status_tx);
  let none = QosPolicies::qos_none();
  let mut res = Vec::new();
  let t0 = Instant::now();
  for o in ops {
    let out = match o {
      Op::Tick(d) => {
        db.verif_age(StdDuration::new((*d / NS) as u64, (*d % NS) as u32));
        Out::Unit
      }
      Op::Spdp(p, l) => Out::New(db.update_participant(&spdp_data(*p, *l, true))),
      Op::SpdpBad(p) => Out::New(db.update_participant(&spdp_data(*p, None, false))),
      Op::Alive(p) => {
        db.participant_is_alive(prefix(*p));
        Out::Unit
      }
      Op::Cleanup => {
        let mut l: Vec<(i64, i64, i64)> = Vec::new();
        for (gp, reason) in db.participant_cleanup() {
          let p = (0..pa.np + 8).find(|p| prefix(*p) == gp).unwrap_or(-1);
          match reason {
            LostReason::Timeout { lease, elapsed } => {
              l.push((p, lease.to_ticks(), elapsed.to_ticks() >> 32))
            }
            LostReason::Disposed => l.push((p, -1, -1)),
          }
        }
        Out::Lost(l)
      }
      Op::Dispose(p) => {
        // Discovery::process_participant_dispose
        db.remove_participant(prefix(*p), true);
        Out::Unit
      }
      Op::EpAdd(k, t) => {
        if k.0 {
          db.update_publication(&writer_data(*k, *t, &none));
        } else {
          db.update_subscription(&reader_data(*k, *t, &none));
        }
        Out::Unit
      }
      Op::EpDel(k) => {
        if k.0 {
          db.remove_topic_writer(guid(*k));
        } else {
          db.remove_topic_reader(guid(*k));
        }
        Out::Unit
      }
    };
    while status_rx.try_recv().is_ok() {}
    res.push((out, digest(&db, pa)));
  }
  (res, t0.elapsed())
}

// ---------- Coq printing ----------
fn coq_key(k: &(bool, i64, i64)) -> String {
  format!("({}, {}, {})", util::b(k.0), util::z(k.1 as i128), util::z(k.2 as i128))
}
fn coq_op(o: &Op) -> String {
  match o {
    Op::Tick(d) => format!("Tick {}", util::z(*d as i128)),
    Op::Spdp(p, l) => format!("Spdp {} {}", util::z(*p as i128), util::opt(l.map(|x| util::z(x as i128)))),
    Op::SpdpBad(p) => format!("SpdpBad {}", util::z(*p as i128)),
    Op::Alive(p) => format!("Alive {}", util::z(*p as i128)),
    Op::Cleanup => "Cleanup".to_string(),
    Op::Dispose(p) => format!("Dispose {}", util::z(*p as i128)),
    Op::EpAdd(k, t) => format!("EpAdd {} {}", coq_key(k), util::z(*t as i128)),
    Op::EpDel(k) => format!("EpDel {}", coq_key(k)),
  }
}
fn coq_case(pa: &Params, ops: &[Op]) -> String {
  format!(
    "(Build_params {} {} {} {} {} {}, {})",
    pa.np,
    pa.ne,
    pa.nt,
    util::z(pa.me as i128),
    pa.dflt,
    pa.tol,
    util::list(ops.iter().map(coq_op))
  )
}
fn coq_kts(v: &[((bool, i64, i64), i64)]) -> String {
  util::list(v.iter().map(|(k, t)| format!("({}, {})", coq_key(k), util::z(*t as i128))))
}
fn coq_obs(tr: &[(Out, Digest)]) -> String {
  let items = tr.iter().map(|(o, d)| {
    let o = match o {
      Out::Unit => "OUnit".to_string(),
      Out::New(b) => format!("ONew {}", util::b(*b)),
      Out::Lost(l) => format!(
        "OLost {}",
        util::list(l.iter().map(|(p, le, el)| format!(
          "({}, {}, {})",
          util::z(*p as i128),
          util::z(*le as i128),
          util::z(*el as i128)
        )))
      ),
    };
    format!(
      "({}, Dg {} {} {})",
      o,
      util::list(d.0.iter().map(|p| util::z(*p as i128))),
      coq_kts(&d.1),
      coq_kts(&d.2)
    )
  });
  format!("(Some {})", util::list(items))
}

// ---------- generation ----------
fn half(j: i64) -> i64 {
  j * S + S / 2
}

/// Inserts a one-second Tick in front of every Cleanup at which some participant's elapsed time
/// would be closer than 1/4 s to its lease (only possible for whole-second leases, i.e. the
/// default lease), so that real execution time cannot flip the comparison.
fn guard(pa: &Params, ops: Vec<Op>) -> Vec<Op> {
  let mut out = Vec::new();
  let mut now: i128 = 0; // ns
  let mut last: BTreeMap<i64, (i128, i64)> = BTreeMap::new(); // p -> (time of sign, lease ticks)
  for o in ops {
    match &o {
      Op::Tick(d) => now += *d as i128,
      Op::Spdp(p, l) => {
        last.insert(*p, (now, l.unwrap_or(pa.dflt)));
      }
      Op::Alive(p) => {
        if let Some(e) = last.get_mut(p) {
          e.0 = now;
        }
      }
      Op::Cleanup => loop {
        let near = last.values().any(|(t, lease)| {
          let el_ticks = ((now - t) << 32) / NS as i128;
          (el_ticks - (*lease as i128 + pa.tol as i128)).abs() < (S / 4) as i128
        });
        if !near {
          break;
        }
        out.push(Op::Tick(NS));
        now += NS as i128;
      },
      _ => {}
    }
    out.push(o);
  }
  out
}

fn gen_lease(r: &mut Rng) -> Option<i64> {
  match r.below(16) {
    0 => None,
    1 => Some(INF),
    2 => Some(half(59)),
    3 => Some(half(60)),
    4 | 5 => Some(half(0)),
    _ => Some(half(r.range(0, 3))),
  }
}

fn gen_tick(r: &mut Rng, hostile: bool) -> i64 {
  let k = match r.below(if hostile { 14 } else { 12 }) {
    0 => 0,
    1..=5 => 1,
    6 | 7 => 2,
    8 => 3,
    9 => r.range(4, 9),
    10 => *r.pick(&[29, 57, 59, 61, 63, 120]),
    // sub-second steps on the quarter-second grid (leases are on the half-second grid and the guard
    // keeps every clean-up at least 1/4 s away from a lease boundary): liveliness assertions that
    // arrive less than a second after the previous sign of life (seeded change C12-A)
    11 => return *r.pick(&[NS / 4, NS / 2, 3 * NS / 4]),
    12 => 1_000_000,
    _ => *r.pick(&[(1i64 << 31) - 1, 1i64 << 31, (1i64 << 31) + 1]),
  };
  k * NS
}

fn gen_case(r: &mut Rng) -> (Params, Vec<Op>, bool) {
  let (dflt, tol) = DiscoveryDB::verif_lease_constants();
  let hostile = r.chance(1, 5);
  let np = 3;
  let ne = 2;
  let nt = 2;
  let pa = Params {
    np,
    ne,
    nt,
    me: if r.chance(1, 8) { r.range(0, np - 1) } else { np + 1 },
    dflt: dflt.to_ticks(),
    tol: tol.to_ticks(),
  };
  let n = r.range(6, if hostile { 24 } else { 18 });
  let mut ops = Vec::new();
  let mut announced: Vec<i64> = Vec::new();
  let key = |r: &mut Rng, p: i64| (r.chance(1, 2), p, r.range(0, ne - 1));
  for _ in 0..n {
    let any_p = r.range(0, np - 1);
    // structured stream: mostly talk about participants that were announced
    let p = if !hostile && !announced.is_empty() && r.chance(4, 5) {
      *r.pick(&announced)
    } else {
      any_p
    };
    let o = match r.below(100) {
      0..=23 => Op::Tick(gen_tick(r, hostile)),
      24..=41 => {
        if !announced.contains(&p) {
          announced.push(p);
        }
        Op::Spdp(p, gen_lease(r))
      }
      42..=51 => Op::Alive(p),
      52..=71 => Op::Cleanup,
      72..=76 => Op::Dispose(p),
      77..=91 => {
        let k = key(r, p);
        Op::EpAdd(k, r.range(0, nt - 1))
      }
      92..=96 => Op::EpDel(key(r, p)),
      _ => {
        if hostile {
          Op::SpdpBad(p)
        } else {
          Op::Cleanup
        }
      }
    };
    ops.push(o);
  }
  (pa.clone(), guard(&pa, ops), hostile)
}

/// Boundary histories from the case splits of the proofs and the findings.
fn corpus() -> Vec<(Params, Vec<Op>)> {
  let (dflt, tol) = DiscoveryDB::verif_lease_constants();
  let pa = Params { np: 3, ne: 2, nt: 2, me: 4, dflt: dflt.to_ticks(), tol: tol.to_ticks() };
  let t = |k: i64| Op::Tick(k * NS);
  let r0 = (false, 0, 0);
  let w0 = (true, 0, 1);
  let mut v: Vec<Vec<Op>> = Vec::new();
  // 0: both sides of the lease boundary
  v.push(vec![Op::Spdp(0, Some(half(1))), t(1), Op::Cleanup, t(1), Op::Cleanup, Op::Cleanup]);
  // 1: side-channel liveness keeps it alive for many leases, then silence drops it
  let mut h = vec![Op::Spdp(0, Some(half(1))), Op::EpAdd(r0, 0)];
  for _ in 0..6 {
    h.extend([t(1), Op::Alive(0), Op::Cleanup]);
  }
  h.extend([t(2), Op::Cleanup]);
  v.push(h);
  // 2: SPDP refresh keeps it alive; the lease of the last announcement counts
  v.push(vec![
    Op::Spdp(1, Some(half(0))),
    Op::Spdp(1, Some(half(2))),
    t(2),
    Op::Cleanup,
    Op::Spdp(1, Some(half(0))),
    t(1),
    Op::Cleanup,
  ]);
  // 3: dispose removes participant and endpoints at once, nothing comes back
  v.push(vec![
    Op::Spdp(0, Some(half(1))),
    Op::EpAdd(r0, 0),
    Op::EpAdd(w0, 1),
    Op::Dispose(0),
    Op::Cleanup,
    Op::Spdp(0, Some(half(1))),
  ]);
  // 4: timeout parks the endpoints, rediscovery restores exactly them
  v.push(vec![
    Op::Spdp(0, Some(half(1))),
    Op::Spdp(1, Some(INF)),
    Op::EpAdd(r0, 0),
    Op::EpAdd(w0, 1),
    Op::EpAdd((true, 1, 0), 1),
    t(2),
    Op::Cleanup,
    t(5),
    Op::Spdp(0, Some(half(1))),
  ]);
  // 5: timeout, then the participant's own dispose arrives, then a stray announcement:
  //    (finding) the parked endpoints must not come back
  v.push(vec![
    Op::Spdp(0, Some(half(1))),
    Op::EpAdd(r0, 1),
    Op::EpAdd(w0, 0),
    t(2),
    Op::Cleanup,
    Op::Dispose(0),
    Op::Spdp(0, Some(half(1))),
  ]);
  // 6: infinite lease
  v.push(vec![Op::Spdp(2, Some(INF)), t(1_000_000), Op::Cleanup, t((1 << 31) + 5), Op::Cleanup]);
  // 7: default lease (no lease advertised)
  v.push(vec![Op::Spdp(0, None), t(59), Op::Cleanup, t(2), Op::Cleanup]);
  // 8: one clean-up reports several participants, in GuidPrefix order
  v.push(vec![
    Op::Spdp(2, Some(half(0))),
    Op::Spdp(0, Some(half(1))),
    Op::Spdp(1, Some(half(3))),
    t(2),
    Op::Cleanup,
    t(2),
    Op::Cleanup,
  ]);
  // 9: liveness for an unknown / timed-out participant does nothing
  v.push(vec![
    Op::Alive(0),
    Op::Cleanup,
    Op::Spdp(0, Some(half(0))),
    t(1),
    Op::Cleanup,
    Op::Alive(0),
    Op::Cleanup,
  ]);
  // 10: endpoint re-announced while its participant is timed out, then rediscovery
  v.push(vec![
    Op::Spdp(0, Some(half(0))),
    Op::EpAdd(r0, 0),
    t(1),
    Op::Cleanup,
    Op::EpAdd(r0, 1),
    Op::Spdp(0, Some(half(0))),
  ]);
  // 11: endpoint disposed while its participant is timed out, then rediscovery
  v.push(vec![
    Op::Spdp(0, Some(half(0))),
    Op::EpAdd(w0, 0),
    t(1),
    Op::Cleanup,
    Op::EpDel(w0),
    Op::Spdp(0, Some(half(0))),
  ]);
  // 12: elapsed seconds wrap at 2^31 (as_secs() as i32)
  v.push(vec![Op::Spdp(0, Some(half(0))), t((1 << 31) - 1), Op::Cleanup]);
  v.push(vec![Op::Spdp(0, Some(half(0))), t(1 << 31), Op::Cleanup]);
  let mut res: Vec<(Params, Vec<Op>)> = v.into_iter().map(|h| (pa.clone(), guard(&pa, h))).collect();
  // 14: the local participant discovering itself is never "new"
  let me0 = Params { me: 0, ..pa.clone() };
  res.push((me0, vec![Op::Spdp(0, Some(INF)), Op::Spdp(1, None), t(100), Op::Cleanup, Op::Spdp(0, Some(INF))]));
  // 15: sub-second lease kept alive only by side-channel assertions every 250 ms (seeded change
  // C12-A: an assertion less than 1 s after the recorded sign must still refresh it)
  let q = |k: i64| Op::Tick(k * NS / 4);
  let mut h = vec![Op::Spdp(0, Some(half(0))), Op::EpAdd(r0, 0)];
  for _ in 0..5 {
    h.extend([q(1), Op::Alive(0), Op::Cleanup]);
  }
  h.extend([q(3), Op::Cleanup]);
  res.push((pa.clone(), guard(&pa, h)));
  res
}

pub fn run(args: &Args) -> i32 {
  let mut out = CaseOut::new(
    args,
    "From Coq Require Import List ZArith.\nFrom RD Require Import Common.Corr C12.Model.\nImport ListNotations.\nOpen Scope Z_scope.",
    "check run obs_eqb ok",
    "case",
    "obs",
  );
  out.per_shard = 125;
  let mut max_slack = StdDuration::ZERO;
  let mut emit = |out: &mut CaseOut, idx: usize, pa: &Params, ops: &[Op], stream: &str| -> bool {
    // retry when the machine hiccups: the slack must hold for the comparison to be meaningful
    let mut attempt = 0;
    let res = loop {
      let r = catch_unwind(AssertUnwindSafe(|| execute(pa, ops)));
      match r {
        Ok((tr, wall)) => {
          if wall < StdDuration::from_millis(200) {
            if wall > max_slack {
              max_slack = wall;
            }
            break Some(tr);
          }
          attempt += 1;
          if attempt >= 10 {
            eprintln!("c12: history {} took {:?} ten times in a row; slack not guaranteed", idx, wall);
            return false;
          }
        }
        Err(_) => break None,
      }
    };
    let mut tags = vec![format!("stream:{}", stream), format!("ops:{}", (ops.len() / 5) * 5)];
    let mut lost_any = false;
    let mut reappear = false;
    let mut was_lost: Vec<i64> = Vec::new();
    let obs = match &res {
      None => {
        tags.push("panic".into());
        "None (* the implementation panicked *)".to_string()
      }
      Some(tr) => {
        for (o, (out_, _)) in ops.iter().zip(tr.iter()) {
          tags.push(
            match o {
              Op::Tick(_) => "op:Tick",
              Op::Spdp(_, None) => "op:Spdp(default lease)",
              Op::Spdp(_, Some(INF)) => "op:Spdp(infinite)",
              Op::Spdp(..) => "op:Spdp",
              Op::SpdpBad(_) => "op:SpdpBad",
              Op::Alive(_) => "op:Alive",
              Op::Cleanup => "op:Cleanup",
              Op::Dispose(_) => "op:Dispose",
              Op::EpAdd(..) => "op:EpAdd",
              Op::EpDel(_) => "op:EpDel",
            }
            .to_string(),
          );
          match (o, out_) {
            (_, Out::Lost(l)) if !l.is_empty() => {
              lost_any = true;
              tags.push(format!("cleanup:lost{}", l.len()));
              was_lost.extend(l.iter().map(|x| x.0));
            }
            (_, Out::Lost(_)) => tags.push("cleanup:none".into()),
            (Op::Spdp(p, _), Out::New(true)) if was_lost.contains(p) => {
              reappear = true;
              tags.push("reappear".into());
            }
            (Op::Dispose(p), _) => was_lost.retain(|q| q != p),
            _ => {}
          }
        }
        coq_obs(tr)
      }
    };
    if reappear {
      tags.push("case:timeout+reappear".into());
    } else if lost_any {
      tags.push("case:timeout".into());
    } else {
      tags.push("case:no-timeout".into());
    }
    out.push(idx, coq_case(pa, ops), obs, &tags, lost_any);
    true
  };
  let mut idx = 0usize;
  for (pa, ops) in corpus() {
    if args.only.map_or(true, |o| o == idx) && !emit(&mut out, idx, &pa, &ops, "corpus") {
      return 3;
    }
    idx += 1;
  }
  for _ in 0..args.n {
    if args.only.map_or(true, |o| o == idx) {
      let mut r = Rng::for_case(args.seed, idx);
      let (pa, ops, hostile) = gen_case(&mut r);
      if !emit(&mut out, idx, &pa, &ops, if hostile { "hostile" } else { "structured" }) {
        return 3;
      }
    }
    idx += 1;
  }
  let (dflt, tol) = DiscoveryDB::verif_lease_constants();
  out.extra.push(("max_real_time_per_history_us".into(), format!("{}", max_slack.as_micros())));
  out.extra.push(("slack_bound_us".into(), "200000".into()));
  out.extra.push((
    "live_constants".into(),
    format!(
      "{{\"default_lease_ticks\": {}, \"tolerance_ticks\": {}}}",
      dflt.to_ticks(),
      tol.to_ticks()
    ),
  ));
  out.finish()
}
