// C16 driver: the real `CryptographicBuiltin` (security feature) of a sender and of up to three
// receivers, keys exchanged through the real crypto tokens; what the sender encodes is carried
// through the REAL framing — DATA / DATAFRAG submessage around an encoded payload, SEC_PREFIX /
// SEC_BODY / SEC_POSTFIX, SRTPS_PREFIX / ... / SRTPS_POSTFIX — serialised with the real
// `Message::write_to_vec`, parsed with the real `Message::read_from_buffer`, then decoded by the
// receiver's plugin.  Alterations are applied to the encoded elements before serialisation
// (single field / single byte classes).  AES-GCM output is not reproducible by a symbolic model,
// so what is compared with the Coq model is STRUCTURE (encoded lengths, padded length on the wire,
// transformation kind in the header, number of receiver-specific MACs) and the decode OUTCOME CLASS
// (success with exactly the original bytes / success with trailing pad / KeysNotFound /
// receiver-specific MAC failed / error / panic).  No key, IV, MAC or ciphertext byte is observed.
use std::panic::{catch_unwind, AssertUnwindSafe};

use bytes::Bytes;
use enumflags2::BitFlags;
use speedy::{Endianness, Writable};

use crate::{
  messages::{
    header::Header,
    submessages::{
      elements::{crypto_footer::CryptoFooter, parameter_list::ParameterList},
      secure_postfix::SecurePostfix,
      secure_prefix::SecurePrefix,
      submessage::SecuritySubmessage,
      submessage_flag::FromEndianness,
      submessages::{
        Data, DataFrag, SubmessageHeader, SubmessageKind, WriterSubmessage, DATAFRAG_Flags,
        DATA_Flags,
      },
    },
  },
  rtps::{Message, Submessage, SubmessageBody},
  security::{
    access_control::{
      EndpointSecurityAttributes, ParticipantSecurityAttributes, TopicSecurityAttributes,
    },
    authentication::{Challenge, SharedSecret, SharedSecretHandle},
    cryptographic::{
      cryptographic_plugin::{CryptoKeyExchange, CryptoKeyFactory, CryptoTransform},
      CryptoToken, DecodeOutcome, DecodedSubmessage, EncodedSubmessage,
    },
    types::{PluginSecurityAttributesMask, Property},
    CryptographicBuiltin,
  },
  structure::{
    guid::{EntityId, GuidPrefix},
    sequence_number::{FragmentNumber, SequenceNumber},
  },
};
use super::util::{self, Args, CaseOut, Rng};

#[derive(Clone, Copy, PartialEq, Eq, Debug)]
pub enum Level {
  Payload,
  Submsg,
  Message,
}
#[derive(Clone, Copy, PartialEq, Eq, Debug)]
pub enum Framing {
  Data,     // encoded payload inside a DATA submessage (payload level), DATA protected (other levels)
  DataFrag, // encoded fragment inside a DATAFRAG submessage
}
#[derive(Clone, Copy, PartialEq, Eq, Debug)]
pub enum Alter {
  None,
  Kind(u8),      // header transformation kind := another valid kind
  KindInvalid,   // header transformation kind := 0,0,0,9
  KeyId,         // one byte of the transformation key id
  SessionId,     // one byte of the session id (first 4 bytes of the IV)
  IvSuffix,      // one byte of the IV suffix
  Content,       // one byte of the protected content (plaintext under GMAC, ciphertext under GCM)
  ContentLen,    // GCM: the length word of CryptoContent
  CommonMac,     // one byte of the common MAC
  RsMacMine,     // one byte of the receiver-specific MAC meant for this receiver
  RsMacOther,    // one byte of a receiver-specific MAC meant for another receiver
  RsKeyIdMine,   // one byte of the key id tagging this receiver's MAC
  RsDropMine,    // this receiver's MAC removed from the list
  RsCount,       // the list length word changed
  Append,        // one byte appended (payload level)
  WrongMasterKey, // receiver registered the sender's token with one byte of the master key changed
  WrongSalt,     // ... one byte of the master salt changed
  OtherSender,   // receiver registered the tokens of a different sender under this sender's handle
  NotInList,     // this receiver is not in the sender's receiver list (no MAC for it)
}

fn coq_alter(a: Alter) -> String {
  match a {
    Alter::None => "ANone".into(),
    Alter::Kind(k) => format!("(AKind {})", k),
    Alter::KindInvalid => "AKindInvalid".into(),
    Alter::KeyId => "AKeyId".into(),
    Alter::SessionId => "ASessionId".into(),
    Alter::IvSuffix => "AIvSuffix".into(),
    Alter::Content => "AContent".into(),
    Alter::ContentLen => "AContentLen".into(),
    Alter::CommonMac => "ACommonMac".into(),
    Alter::RsMacMine => "ARsMacMine".into(),
    Alter::RsMacOther => "ARsMacOther".into(),
    Alter::RsKeyIdMine => "ARsKeyIdMine".into(),
    Alter::RsDropMine => "ARsDropMine".into(),
    Alter::RsCount => "ARsCount".into(),
    Alter::Append => "AAppend".into(),
    Alter::WrongMasterKey => "AWrongMasterKey".into(),
    Alter::WrongSalt => "AWrongSalt".into(),
    Alter::OtherSender => "AOtherSender".into(),
    Alter::NotInList => "ANotInList".into(),
  }
}

#[derive(Clone, Debug)]
pub struct Case {
  level: Level,
  kind: u8,          // 1 AES128_GMAC, 2 AES128_GCM, 3 AES256_GMAC, 4 AES256_GCM
  origin_auth: bool, // receiver-specific MACs (submessage / message level)
  len: usize,        // length of the serialized payload
  nrecv: usize,      // number of receivers in the sender's list (1..3); this receiver is the first
  framing: Framing,
  alter: Alter,
  pos: usize, // which byte of the field is changed (reduced modulo the field length)
}

fn is_gcm(kind: u8) -> bool {
  kind == 2 || kind == 4
}

// ---------------------------------------------------------------- plugin set-up
fn secret() -> SharedSecretHandle {
  SharedSecretHandle {
    shared_secret: SharedSecret::dummy(),
    challenge1: Challenge::dummy(),
    challenge2: Challenge::dummy(),
  }
}
fn keysize_props(kind: u8) -> Vec<Property> {
  vec![Property {
    name: "dds.sec.crypto.keysize".to_string(),
    value: if kind <= 2 { "128" } else { "256" }.to_string(),
    propagate: false,
  }]
}
fn participant_attrs(c: &Case) -> ParticipantSecurityAttributes {
  let mut a = ParticipantSecurityAttributes::empty();
  let mut mask = 0x8000_0000u32;
  if c.level == Level::Message {
    a.is_rtps_protected = true;
    if is_gcm(c.kind) {
      mask |= 0b0001;
    }
    if c.origin_auth {
      mask |= 0b1000;
    }
  }
  a.plugin_participant_attributes = PluginSecurityAttributesMask(mask);
  a
}
fn endpoint_attrs(c: &Case) -> EndpointSecurityAttributes {
  let mut a = EndpointSecurityAttributes::empty();
  a.topic_security_attributes = TopicSecurityAttributes::empty();
  let mut mask = 0x8000_0000u32;
  match c.level {
    Level::Submsg => {
      a.is_submessage_protected = true;
      if is_gcm(c.kind) {
        mask |= 0b001;
      }
      if c.origin_auth {
        mask |= 0b100;
      }
    }
    Level::Payload => {
      a.is_payload_protected = true;
      if is_gcm(c.kind) {
        mask |= 0b010;
      }
    }
    Level::Message => {}
  }
  a.plugin_endpoint_attributes = PluginSecurityAttributesMask(mask);
  a
}

struct Sender {
  p: CryptographicBuiltin,
  part: u32,
  writer: u32,
  remote_parts: Vec<u32>,
  remote_readers: Vec<u32>,
  part_tokens: Vec<Vec<CryptoToken>>,
  writer_tokens: Vec<Vec<CryptoToken>>,
}
struct Receiver {
  p: CryptographicBuiltin,
  part: u32,
  reader: u32,
  remote_part: u32,
  remote_writer: u32,
}

fn mk_sender(c: &Case, nrecv: usize) -> Sender {
  let mut p = CryptographicBuiltin::new();
  let part = p
    .register_local_participant(0, 0, &keysize_props(c.kind), participant_attrs(c))
    .expect("register_local_participant");
  let writer = p
    .register_local_datawriter(part, &keysize_props(c.kind), endpoint_attrs(c))
    .expect("register_local_datawriter");
  let mut s = Sender {
    p,
    part,
    writer,
    remote_parts: vec![],
    remote_readers: vec![],
    part_tokens: vec![],
    writer_tokens: vec![],
  };
  for _ in 0..nrecv {
    let rp = s
      .p
      .register_matched_remote_participant(part, 0, 0, secret())
      .expect("register_matched_remote_participant");
    let rr = s
      .p
      .register_matched_remote_datareader(writer, rp, secret(), false)
      .expect("register_matched_remote_datareader");
    s.part_tokens.push(
      s.p
        .create_local_participant_crypto_tokens(part, rp)
        .expect("participant tokens"),
    );
    s.writer_tokens.push(
      s.p
        .create_local_datawriter_crypto_tokens(writer, rr)
        .expect("writer tokens"),
    );
    s.remote_parts.push(rp);
    s.remote_readers.push(rr);
  }
  s
}

/// changes one byte inside the serialized key material of a token: field 0 = master salt,
/// field 1 = master sender key (CDR BE: kind[4] | len salt | key_id[4] | len key | ...)
fn corrupt_token(t: &mut CryptoToken, field: usize) {
  let bp = &mut t.data_holder.binary_properties[0];
  let mut v = bp.value.to_vec();
  let salt_len = u32::from_be_bytes([v[4], v[5], v[6], v[7]]) as usize;
  let off = if field == 0 { 8 } else { 8 + salt_len + 4 + 4 };
  v[off + 3] ^= 0x01;
  bp.value = Bytes::from(v);
}

fn mk_receiver(c: &Case, part_tokens: Vec<CryptoToken>, writer_tokens: Vec<CryptoToken>) -> Receiver {
  let mut p = CryptographicBuiltin::new();
  let part = p
    .register_local_participant(0, 0, &keysize_props(c.kind), participant_attrs(c))
    .expect("register_local_participant");
  let reader = p
    .register_local_datareader(part, &keysize_props(c.kind), endpoint_attrs(c))
    .expect("register_local_datareader");
  let remote_part = p
    .register_matched_remote_participant(part, 0, 0, secret())
    .expect("register_matched_remote_participant");
  let remote_writer = p
    .register_matched_remote_datawriter(reader, remote_part, secret())
    .expect("register_matched_remote_datawriter");
  p.set_remote_participant_crypto_tokens(part, remote_part, part_tokens)
    .expect("set participant tokens");
  p.set_remote_datawriter_crypto_tokens(reader, remote_writer, writer_tokens)
    .expect("set writer tokens");
  Receiver { p, part, reader, remote_part, remote_writer }
}

// ---------------------------------------------------------------- framing helpers
const PREFIX: [u8; 12] = [7; 12];
fn e_reader() -> EntityId {
  EntityId::new([0, 0, 2], crate::structure::guid::EntityKind::READER_NO_KEY_USER_DEFINED)
}
fn e_writer() -> EntityId {
  EntityId::new([0, 0, 1], crate::structure::guid::EntityKind::WRITER_NO_KEY_USER_DEFINED)
}
fn data_submessage(payload: Vec<u8>) -> Submessage {
  let data = Data {
    reader_id: e_reader(),
    writer_id: e_writer(),
    writer_sn: SequenceNumber::from(1i64),
    inline_qos: None,
    serialized_payload: Some(Bytes::from(payload)),
  };
  let flags: BitFlags<DATA_Flags> =
    BitFlags::<DATA_Flags>::from_endianness(Endianness::LittleEndian) | DATA_Flags::Data;
  Submessage {
    header: SubmessageHeader {
      kind: SubmessageKind::DATA,
      flags: flags.bits(),
      content_length: data.len_serialized() as u16,
    },
    body: SubmessageBody::Writer(WriterSubmessage::Data(data, flags)),
    original_bytes: None,
  }
}
fn datafrag_submessage(fragment: Vec<u8>, total: usize) -> Submessage {
  let df = DataFrag {
    reader_id: e_reader(),
    writer_id: e_writer(),
    writer_sn: SequenceNumber::from(1i64),
    fragment_starting_num: FragmentNumber::new(1),
    fragments_in_submessage: 1,
    data_size: total as u32,
    fragment_size: 1024,
    inline_qos: None,
    serialized_payload: Bytes::from(fragment),
  };
  let flags: BitFlags<DATAFRAG_Flags> =
    BitFlags::<DATAFRAG_Flags>::from_endianness(Endianness::LittleEndian);
  Submessage {
    header: SubmessageHeader {
      kind: SubmessageKind::DATA_FRAG,
      flags: flags.bits(),
      content_length: df.len_serialized() as u16,
    },
    body: SubmessageBody::Writer(WriterSubmessage::DataFrag(df, flags)),
    original_bytes: None,
  }
}
fn wire(subs: Vec<Submessage>, wire_len: &mut i64) -> Option<(usize, Message)> {
  wire_flip(subs, wire_len, None)
}
/// Like `wire`, but one bit of the serialized bytes is flipped before parsing: byte `off` (counted from the
/// submessage header) of submessage number `k`.  This alters what travels, not an element before serialisation: a
/// receiver that validates a MAC over anything but the received bytes accepts it (seeded change C16-B).
fn wire_flip(subs: Vec<Submessage>, wire_len: &mut i64, flip_at: Option<(usize, usize)>) -> Option<(usize, Message)> {
  let m = Message { header: Header::new(GuidPrefix::new(&PREFIX)), submessages: subs };
  let mut bytes = m.write_to_vec_with_ctx(Endianness::LittleEndian).ok()?;
  if let Some((k, off)) = flip_at {
    let mut pos = 20usize;
    for _ in 0..k {
      if pos + 4 > bytes.len() {
        return None;
      }
      let le = bytes[pos + 1] & 1 == 1;
      let l = if le { u16::from_le_bytes([bytes[pos + 2], bytes[pos + 3]]) } else { u16::from_be_bytes([bytes[pos + 2], bytes[pos + 3]]) };
      pos += 4 + l as usize;
    }
    if pos + off < bytes.len() {
      bytes[pos + off] ^= 0x01;
    }
  }
  let n = bytes.len();
  *wire_len = n as i64;
  Message::read_from_buffer(&Bytes::from(bytes)).ok().map(|m| (n, m))
}
fn payload_of(sm: &Submessage) -> Option<Vec<u8>> {
  match &sm.body {
    SubmessageBody::Writer(WriterSubmessage::Data(d, _)) => d.serialized_payload.as_ref().map(|b| b.to_vec()),
    SubmessageBody::Writer(WriterSubmessage::DataFrag(d, _)) => Some(d.serialized_payload.to_vec()),
    _ => None,
  }
}

fn flip(v: &mut [u8], start: usize, len: usize, pos: usize) {
  if len > 0 && start + len <= v.len() {
    v[start + pos % len] ^= 0x01;
  }
}

/// alterations of a CryptoFooter's bytes: common_mac[16] | count u32 BE | count x (key_id[4] | mac[16])
fn alter_footer(f: &mut Vec<u8>, a: Alter, pos: usize) {
  match a {
    Alter::CommonMac => flip(f, 0, 16, pos),
    Alter::RsMacMine => flip(f, 20 + 4, 16, pos),
    Alter::RsMacOther => flip(f, 20 + 20 + 4, 16, pos),
    Alter::RsKeyIdMine => flip(f, 20, 4, pos),
    Alter::RsDropMine => {
      if f.len() >= 40 {
        let n = u32::from_be_bytes([f[16], f[17], f[18], f[19]]);
        f.drain(20..40);
        f[16..20].copy_from_slice(&(n - 1).to_be_bytes());
      }
    }
    Alter::RsCount => {
      f[19] ^= 0x01;
    }
    _ => {}
  }
}
fn alter_header_bytes(h: &mut [u8], a: Alter, pos: usize) {
  // kind[4] | key_id[4] | session_id[4] | iv_suffix[8]
  match a {
    Alter::Kind(k) => h[3] = k,
    Alter::KindInvalid => h[3] = 9,
    Alter::KeyId => flip(h, 4, 4, pos),
    Alter::SessionId => flip(h, 8, 4, pos),
    Alter::IvSuffix => flip(h, 12, 8, pos),
    _ => {}
  }
}

#[derive(Debug)]
struct Obs {
  enc_ok: bool,
  enc_len: i64,   // payload level: length of the encoded payload; other levels: content bytes of the body submessage
  wire_len: i64,  // length of the serialized RTPS message
  hdr_kind: i64,  // transformation kind found in the crypto header
  nmacs: i64,     // number of receiver-specific MACs in the footer
  outcome: String,
}

fn run_case(c: &Case) -> Obs {
  let mut o = Obs { enc_ok: false, enc_len: -1, wire_len: -1, hdr_kind: -1, nmacs: -1, outcome: "OErr".into() };
  // NotInList: the sender's list holds only the other receivers
  let nrecv = c.nrecv.max(1);
  let s = mk_sender(c, nrecv + 1);
  // receiver index 0 is "this receiver"; with NotInList it is registered but left out of the list
  let mut pt = s.part_tokens[0].clone();
  let mut wt = s.writer_tokens[0].clone();
  let corrupt = |ts: &mut Vec<CryptoToken>, field| {
    if let Some(t) = ts.first_mut() {
      corrupt_token(t, field)
    }
  };
  match c.alter {
    Alter::WrongMasterKey => {
      // the token of the level under test is the first of the sequence (message/submessage key
      // material) or the last (payload key material when it differs)
      if c.level == Level::Message {
        corrupt(&mut pt, 1)
      } else if c.level == Level::Payload {
        if let Some(t) = wt.last_mut() {
          corrupt_token(t, 1)
        }
      } else {
        corrupt(&mut wt, 1)
      }
    }
    Alter::WrongSalt => {
      if c.level == Level::Message {
        corrupt(&mut pt, 0)
      } else if c.level == Level::Payload {
        if let Some(t) = wt.last_mut() {
          corrupt_token(t, 0)
        }
      } else {
        corrupt(&mut wt, 0)
      }
    }
    Alter::OtherSender => {
      let s2 = mk_sender(c, 1);
      pt = s2.part_tokens[0].clone();
      wt = s2.writer_tokens[0].clone();
    }
    _ => {}
  }
  let r = mk_receiver(c, pt, wt);
  let first = if c.alter == Alter::NotInList { 1 } else { 0 };
  let readers: Vec<u32> = s.remote_readers[first..first + nrecv].to_vec();
  let parts: Vec<u32> = s.remote_parts[first..first + nrecv].to_vec();
  let payload: Vec<u8> = (0..c.len).map(|i| (i as u8).wrapping_mul(7).wrapping_add(3)).collect();

  match c.level {
    Level::Payload => {
      let enc = match s.p.encode_serialized_payload(payload.clone(), s.writer) {
        Ok((e, _)) => e,
        Err(_) => return o,
      };
      o.enc_ok = true;
      o.enc_len = enc.len() as i64;
      o.hdr_kind = enc[3] as i64;
      o.nmacs = u32::from_be_bytes([enc[enc.len() - 4], enc[enc.len() - 3], enc[enc.len() - 2], enc[enc.len() - 1]]) as i64;
      let mut e = enc.clone();
      let n = e.len();
      match c.alter {
        Alter::Kind(_) | Alter::KindInvalid | Alter::KeyId | Alter::SessionId | Alter::IvSuffix => {
          alter_header_bytes(&mut e[0..20], c.alter, c.pos)
        }
        Alter::Content => {
          let (st, ln) = if is_gcm(c.kind) { (24, n - 44) } else { (20, n - 40) };
          flip(&mut e, st, ln, c.pos)
        }
        Alter::ContentLen => {
          if is_gcm(c.kind) {
            e[23] ^= 0x01
          }
        }
        Alter::CommonMac => flip(&mut e, n - 20, 16, c.pos),
        Alter::RsCount => e[n - 1] ^= 0x01,
        Alter::Append => e.push(0x5a),
        _ => {}
      }
      let sub = match c.framing {
        Framing::Data => data_submessage(e),
        Framing::DataFrag => datafrag_submessage(e, 2048),
      };
      let (wl, msg) = match wire(vec![sub], &mut o.wire_len) {
        Some(x) => x,
        None => {
          o.outcome = "OWireErr".into();
          return o;
        }
      };
      o.wire_len = wl as i64;
      let received = match msg.submessages.first().and_then(payload_of) {
        Some(p) => p,
        None => {
          o.outcome = "OWireErr".into();
          return o;
        }
      };
      let res = catch_unwind(AssertUnwindSafe(|| {
        r.p.decode_serialized_payload(received, ParameterList::new(), r.reader, r.remote_writer)
      }));
      o.outcome = match res {
        Err(_) => "OPanic".into(),
        Ok(Err(_)) => "OErr".into(),
        Ok(Ok(d)) => {
          if d == payload {
            "(OSuccess 0)".into()
          } else if d.len() > payload.len() && d[..payload.len()] == payload[..] && d[payload.len()..].iter().all(|b| *b == 0) {
            format!("(OSuccess {})", d.len() - payload.len())
          } else {
            "OWrongData".into()
          }
        }
      };
    }
    Level::Submsg => {
      let plain = data_submessage(payload.clone());
      let enc = match s.p.encode_datawriter_submessage(plain, s.writer, readers) {
        Ok(EncodedSubmessage::Encoded(a, b, c3)) => (a, b, c3),
        _ => return o,
      };
      o.enc_ok = true;
      let (mut pre, mut body, mut post) = enc;
      o.enc_len = body.header.content_length as i64;
      // element-level alterations before serialisation
      if let SubmessageBody::Security(SecuritySubmessage::SecurePrefix(p, _)) = &mut pre.body {
        o.hdr_kind = p.crypto_header.transformation_id.transformation_kind[3] as i64;
        let mut h = p.crypto_header.write_to_vec().unwrap_or_default();
        if h.len() == 20 {
          alter_header_bytes(&mut h, c.alter, c.pos);
          p.crypto_header.transformation_id.transformation_kind = [h[0], h[1], h[2], h[3]];
          p.crypto_header.transformation_id.transformation_key_id = [h[4], h[5], h[6], h[7]].into();
          p.crypto_header.plugin_crypto_header_extra.data = h[8..20].to_vec();
        }
      }
      if let SubmessageBody::Security(SecuritySubmessage::SecurePostfix(p, _)) = &mut post.body {
        let f = &mut p.crypto_footer.data;
        o.nmacs = u32::from_be_bytes([f[16], f[17], f[18], f[19]]) as i64;
        alter_footer(f, c.alter, c.pos);
        post.header.content_length = f.len() as u16;
      }
      let mut wire_alter: Option<(usize, usize)> = None;
      match (&mut body.body, c.alter) {
        (SubmessageBody::Security(SecuritySubmessage::SecureBody(b, _)), Alter::Content) => {
          let n = b.crypto_content.data.len();
          flip(&mut b.crypto_content.data, 0, n, c.pos)
        }
        (SubmessageBody::Writer(WriterSubmessage::Data(d, _)), Alter::Content) => {
          if c.pos % 2 == 1 {
            // sign-only protection: the DATA submessage travels in clear between prefix and postfix; alter one of its
            // received bytes that keeps it parseable: extraFlags (4, 5), readerId / writerId / writerSN (8..28)
            const OFFS: [usize; 22] = [4, 5, 8, 9, 10, 11, 12, 13, 14, 15, 16, 17, 18, 19, 20, 21, 22, 23, 24, 25, 26, 27];
            wire_alter = Some((1, OFFS[(c.pos / 2) % OFFS.len()]));
          } else if let Some(p) = d.serialized_payload.as_ref() {
            let mut v = p.to_vec();
            if v.is_empty() {
              d.writer_sn = SequenceNumber::from(2i64);
            } else {
              let n = v.len();
              flip(&mut v, 0, n, c.pos);
              d.serialized_payload = Some(Bytes::from(v));
            }
          }
        }
        _ => {}
      }
      let (wl, msg) = match wire_flip(vec![pre, body, post], &mut o.wire_len, wire_alter) {
        Some(x) => x,
        None => {
          o.outcome = "OWireErr".into();
          return o;
        }
      };
      o.wire_len = wl as i64;
      if msg.submessages.len() != 3 {
        o.outcome = "OWireErr".into();
        return o;
      }
      let mut it = msg.submessages.into_iter();
      let (a, b, c3) = (it.next().unwrap(), it.next().unwrap(), it.next().unwrap());
      let pre = match a.body {
        SubmessageBody::Security(SecuritySubmessage::SecurePrefix(p, _)) => p,
        _ => {
          o.outcome = "OWireErr".into();
          return o;
        }
      };
      let post = match c3.body {
        SubmessageBody::Security(SecuritySubmessage::SecurePostfix(p, _)) => p,
        _ => {
          o.outcome = "OWireErr".into();
          return o;
        }
      };
      let res = catch_unwind(AssertUnwindSafe(|| r.p.decode_submessage((pre, b, post), r.part, r.remote_part)));
      o.outcome = match res {
        Err(_) => "OPanic".into(),
        Ok(Err(_)) => "OErr".into(),
        Ok(Ok(DecodeOutcome::KeysNotFound(_))) => "OKeysNotFound".into(),
        Ok(Ok(DecodeOutcome::ValidatingReceiverSpecificMACFailed)) => "ORsMacFailed".into(),
        Ok(Ok(DecodeOutcome::ParticipantCryptoHandleNotFound(_))) => "OErr".into(),
        Ok(Ok(DecodeOutcome::Success(DecodedSubmessage::Writer(WriterSubmessage::Data(d, _), handles)))) => {
          let got = d.serialized_payload.map(|b| b.to_vec()).unwrap_or_default();
          let same_hdr = d.writer_sn == SequenceNumber::from(1i64) && handles == vec![r.reader];
          if !same_hdr {
            "OWrongData".into()
          } else if got == payload {
            "(OSuccess 0)".into()
          } else if got.len() > payload.len() && got[..payload.len()] == payload[..] && got[payload.len()..].iter().all(|x| *x == 0) {
            format!("(OSuccess {})", got.len() - payload.len())
          } else {
            "OWrongData".into()
          }
        }
        Ok(Ok(DecodeOutcome::Success(_))) => "OWrongData".into(),
      };
    }
    Level::Message => {
      let plain = Message {
        header: Header::new(GuidPrefix::new(&PREFIX)),
        submessages: vec![data_submessage(payload.clone())],
      };
      let enc = match s.p.encode_rtps_message(plain, s.part, parts) {
        Ok(m) => m,
        Err(_) => return o,
      };
      o.enc_ok = true;
      let mut subs = enc.submessages;
      let nsub = subs.len();
      o.enc_len = subs[1..nsub - 1].iter().map(|x| x.header.content_length as i64 + 4).sum();
      if let SubmessageBody::Security(SecuritySubmessage::SecureRTPSPrefix(p, _)) = &mut subs[0].body {
        o.hdr_kind = p.crypto_header.transformation_id.transformation_kind[3] as i64;
        let mut h = p.crypto_header.write_to_vec().unwrap_or_default();
        if h.len() == 20 {
          alter_header_bytes(&mut h, c.alter, c.pos);
          p.crypto_header.transformation_id.transformation_kind = [h[0], h[1], h[2], h[3]];
          p.crypto_header.transformation_id.transformation_key_id = [h[4], h[5], h[6], h[7]].into();
          p.crypto_header.plugin_crypto_header_extra.data = h[8..20].to_vec();
        }
      }
      if let SubmessageBody::Security(SecuritySubmessage::SecureRTPSPostfix(p, _)) = &mut subs[nsub - 1].body {
        let f = &mut p.crypto_footer.data;
        o.nmacs = u32::from_be_bytes([f[16], f[17], f[18], f[19]]) as i64;
        alter_footer(f, c.alter, c.pos);
        let fl = f.len() as u16;
        subs[nsub - 1].header.content_length = fl;
      }
      if c.alter == Alter::Content {
        let last = nsub - 2; // the DATA submessage (GMAC) or the SecureBody (GCM)
        match &mut subs[last].body {
          SubmessageBody::Security(SecuritySubmessage::SecureBody(b, _)) => {
            let n = b.crypto_content.data.len();
            flip(&mut b.crypto_content.data, 0, n, c.pos)
          }
          SubmessageBody::Writer(WriterSubmessage::Data(d, _)) => {
            if let Some(p) = d.serialized_payload.as_ref() {
              let mut v = p.to_vec();
              if v.is_empty() {
                d.writer_sn = SequenceNumber::from(2i64);
              } else {
                let n = v.len();
                flip(&mut v, 0, n, c.pos);
                d.serialized_payload = Some(Bytes::from(v));
              }
            }
          }
          _ => {}
        }
      }
      let (wl, msg) = match wire(subs, &mut o.wire_len) {
        Some(x) => x,
        None => {
          o.outcome = "OWireErr".into();
          return o;
        }
      };
      o.wire_len = wl as i64;
      let res = catch_unwind(AssertUnwindSafe(|| r.p.decode_rtps_message(msg, r.part, r.remote_part)));
      o.outcome = match res {
        Err(_) => "OPanic".into(),
        Ok(Err(_)) => "OErr".into(),
        Ok(Ok(DecodeOutcome::KeysNotFound(_))) => "OKeysNotFound".into(),
        Ok(Ok(DecodeOutcome::ValidatingReceiverSpecificMACFailed)) => "ORsMacFailed".into(),
        Ok(Ok(DecodeOutcome::ParticipantCryptoHandleNotFound(_))) => "OErr".into(),
        Ok(Ok(DecodeOutcome::Success(m))) => {
          let got = if m.submessages.len() == 1 { payload_of(&m.submessages[0]) } else { None };
          match got {
            Some(g) if g == payload => "(OSuccess 0)".into(),
            Some(g) if g.len() > payload.len() && g[..payload.len()] == payload[..] && g[payload.len()..].iter().all(|x| *x == 0) => {
              format!("(OSuccess {})", g.len() - payload.len())
            }
            _ => "OWrongData".into(),
          }
        }
      };
    }
  }
  o
}

fn applicable(c: &Case) -> bool {
  let rs = c.origin_auth && c.level != Level::Payload;
  match c.alter {
    Alter::Kind(k) => k != c.kind,
    Alter::ContentLen => is_gcm(c.kind) && c.level == Level::Payload,
    Alter::RsMacMine | Alter::RsKeyIdMine | Alter::RsDropMine | Alter::NotInList => rs,
    Alter::RsMacOther => rs && c.nrecv >= 2,
    Alter::RsCount => true,
    Alter::Append => c.level == Level::Payload,
    Alter::Content => c.level != Level::Payload || c.len > 0,
    _ => true,
  }
}

const ALTERS: [Alter; 21] = [
  Alter::None,
  Alter::Kind(1),
  Alter::Kind(2),
  Alter::Kind(3),
  Alter::Kind(4),
  Alter::KindInvalid,
  Alter::KeyId,
  Alter::SessionId,
  Alter::IvSuffix,
  Alter::Content,
  Alter::ContentLen,
  Alter::CommonMac,
  Alter::RsMacMine,
  Alter::RsMacOther,
  Alter::RsKeyIdMine,
  Alter::RsDropMine,
  Alter::RsCount,
  Alter::Append,
  Alter::WrongMasterKey,
  Alter::WrongSalt,
  Alter::OtherSender,
];

fn coq_case(c: &Case) -> String {
  format!(
    "(Build_case {} {} {} {} {} {} {} {})",
    match c.level {
      Level::Payload => "LPayload",
      Level::Submsg => "LSubmsg",
      Level::Message => "LMessage",
    },
    c.kind,
    util::b(c.origin_auth),
    c.len,
    c.nrecv,
    match c.framing {
      Framing::Data => "FData",
      Framing::DataFrag => "FDataFrag",
    },
    coq_alter(c.alter),
    c.pos
  )
}

pub fn run(args: &Args) -> i32 {
  let mut out = CaseOut::new(
    args,
    "From Coq Require Import List ZArith.\nFrom RD Require Import Common.Corr C16.Model C16.Run.\nImport ListNotations.\nOpen Scope Z_scope.",
    "check run obs_eqb ok",
    "case",
    "obs",
  );
  out.per_shard = 200;
  let mut cases: Vec<Case> = Vec::new();
  // fixed corpus: every (level, kind, origin authentication) x every length 0..=70 and around 1024,
  // unaltered (round trip through the real framing)
  for level in [Level::Payload, Level::Submsg, Level::Message] {
    for kind in 1..=4u8 {
      for oa in [false, true] {
        if level == Level::Payload && oa {
          continue;
        }
        for len in (0..=70usize).chain(1019..=1029) {
          cases.push(Case { level, kind, origin_auth: oa, len, nrecv: 1 + len % 3, framing: Framing::Data, alter: Alter::None, pos: 0 });
        }
      }
    }
  }
  // DATAFRAG framing of an encoded (last) fragment
  for kind in 1..=4u8 {
    for len in [0usize, 1, 2, 3, 4, 5, 6, 7, 8, 61, 62, 63, 64, 1021, 1022, 1023, 1024] {
      cases.push(Case { level: Level::Payload, kind, origin_auth: false, len, nrecv: 1, framing: Framing::DataFrag, alter: Alter::None, pos: 0 });
    }
  }
  // every alteration class x level x kind x origin authentication, at an aligned and (for the
  // upper levels, where framing does not matter) an unaligned length
  for level in [Level::Payload, Level::Submsg, Level::Message] {
    for kind in 1..=4u8 {
      for oa in [false, true] {
        if level == Level::Payload && oa {
          continue;
        }
        for a in ALTERS.iter().chain([Alter::NotInList].iter()) {
          for len in [16usize, 8, 0] {
            let c = Case { level, kind, origin_auth: oa, len, nrecv: 2, framing: Framing::Data, alter: *a, pos: len / 3 };
            if applicable(&c) && *a != Alter::None {
              cases.push(c);
            }
          }
        }
      }
    }
  }
  // sign-only submessage protection: every received byte of the DATA header that keeps it parseable is altered
  // (pos odd selects the wire-level alteration; see Level::Submsg in run_case), incl. the extraFlags octets a
  // re-serialisation would normalise (seeded change C16-B)
  for kind in 1..=4u8 {
    for oa in [false, true] {
      for j in 0..22usize {
        let c = Case { level: Level::Submsg, kind, origin_auth: oa, len: 12, nrecv: 2, framing: Framing::Data, alter: Alter::Content, pos: 2 * j + 1 };
        if applicable(&c) {
          cases.push(c);
        }
      }
    }
  }
  let ncorpus = cases.len();
  for k in 0..args.n {
    let mut r = Rng::for_case(args.seed, ncorpus + k);
    let level = *r.pick(&[Level::Payload, Level::Submsg, Level::Message]);
    let kind = r.range(1, 4) as u8;
    let oa = level != Level::Payload && r.chance(1, 2);
    let len = match r.below(10) {
      0..=5 => r.range(0, 70) as usize,
      6..=7 => r.range(1016, 1032) as usize,
      _ => r.range(0, 400) as usize,
    };
    let nrecv = r.range(1, 3) as usize;
    let framing = if level == Level::Payload && r.chance(1, 5) { Framing::DataFrag } else { Framing::Data };
    let mut c = Case { level, kind, origin_auth: oa, len, nrecv, framing, alter: Alter::None, pos: r.below(4096) as usize };
    if r.chance(3, 4) {
      for _ in 0..8 {
        c.alter = *r.pick(&ALTERS);
        if r.chance(1, 12) {
          c.alter = Alter::NotInList;
        }
        if applicable(&c) {
          break;
        }
        c.alter = Alter::None;
      }
    }
    cases.push(c);
  }
  for (idx, c) in cases.iter().enumerate() {
    if args.only.map_or(false, |o| o != idx) {
      continue;
    }
    let o = run_case(c);
    let tags = vec![
      format!("level:{:?}", c.level),
      format!("kind:{}", c.kind),
      format!("origin_auth:{}", c.origin_auth),
      format!("len_mod4:{}", c.len % 4),
      format!("framing:{:?}", c.framing),
      format!("alter:{}", coq_alter(c.alter).trim_matches(|x| x == '(' || x == ')').split(' ').next().unwrap_or("")),
      format!("outcome:{}", o.outcome.trim_matches(|x| x == '(' || x == ')').split(' ').next().unwrap_or("")),
    ];
    // known finding: GMAC-protected payload whose encoded length is not a multiple of 4
    let kf = if c.level == Level::Payload && !is_gcm(c.kind) && c.len % 4 != 0 && c.framing == Framing::Data {
      "gmac-payload-unaligned"
    } else {
      ""
    };
    out.push_kf(
      idx,
      coq_case(c),
      format!(
        "(Build_obs {} {} {} {} {} {})",
        util::b(o.enc_ok),
        util::z(o.enc_len as i128),
        util::z(o.wire_len as i128),
        util::z(o.hdr_kind as i128),
        util::z(o.nmacs as i128),
        o.outcome
      ),
      &tags,
      c.alter != Alter::None || c.len % 4 != 0,
      kf,
    );
  }
  out.finish()
}
