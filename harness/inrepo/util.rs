// Shared helpers: argument parsing, one splitmix64 PRNG, Coq term printing, case-file writer.
use std::{collections::BTreeMap, fmt::Write as _, fs, io::Write as _, path::PathBuf};

pub struct Args {
  pub seed: u64,
  pub n: usize,
  pub out: PathBuf,
  pub only: Option<usize>,
  pub tier: String,
  pub rest: BTreeMap<String, String>,
}

impl Args {
  pub fn parse(argv: &[String]) -> Args {
    let mut a = Args {
      seed: 1,
      n: 100,
      out: PathBuf::from("/verif/build/cases/tmp"),
      only: None,
      tier: "quick".to_string(),
      rest: BTreeMap::new(),
    };
    let mut i = 0;
    while i < argv.len() {
      let k = argv[i].as_str();
      let v = argv.get(i + 1).cloned().unwrap_or_default();
      match k {
        "--seed" => a.seed = v.parse().unwrap_or(1),
        "--n" => a.n = v.parse().unwrap_or(100),
        "--out" => a.out = PathBuf::from(v),
        "--only" => a.only = v.parse().ok(),
        "--tier" => a.tier = v,
        _ => {
          a.rest.insert(k.trim_start_matches("--").to_string(), v);
        }
      }
      i += 2;
    }
    a
  }
  pub fn get(&self, k: &str) -> Option<&str> {
    self.rest.get(k).map(|s| s.as_str())
  }
}

/// splitmix64; every random choice of a run derives from one state.
#[derive(Clone)]
pub struct Rng(pub u64);

impl Rng {
  pub fn new(seed: u64) -> Rng {
    Rng(seed.wrapping_mul(0x9E3779B97F4A7C15).wrapping_add(0xD1B54A32D192ED03))
  }
  /// Independent stream for case `idx` of run `seed` (so `--only idx` replays exactly).
  pub fn for_case(seed: u64, idx: usize) -> Rng {
    let mut r = Rng::new(seed ^ ((idx as u64).wrapping_mul(0xA24BAED4963EE407)));
    r.next();
    r
  }
  pub fn next(&mut self) -> u64 {
    self.0 = self.0.wrapping_add(0x9E3779B97F4A7C15);
    let mut z = self.0;
    z = (z ^ (z >> 30)).wrapping_mul(0xBF58476D1CE4E5B9);
    z = (z ^ (z >> 27)).wrapping_mul(0x94D049BB133111EB);
    z ^ (z >> 31)
  }
  pub fn below(&mut self, n: u64) -> u64 {
    if n == 0 {
      0
    } else {
      self.next() % n
    }
  }
  pub fn range(&mut self, lo: i64, hi: i64) -> i64 {
    // inclusive
    lo + self.below((hi - lo + 1) as u64) as i64
  }
  pub fn chance(&mut self, num: u64, den: u64) -> bool {
    self.below(den) < num
  }
  pub fn pick<'a, T>(&mut self, xs: &'a [T]) -> &'a T {
    &xs[self.below(xs.len() as u64) as usize]
  }
  pub fn shuffle<T>(&mut self, xs: &mut [T]) {
    for i in (1..xs.len()).rev() {
      let j = self.below(i as u64 + 1) as usize;
      xs.swap(i, j);
    }
  }
}

// ---------- Coq term printing ----------
pub fn z(i: i128) -> String {
  if i < 0 {
    format!("({})", i)
  } else {
    format!("{}", i)
  }
}
pub fn b(x: bool) -> &'static str {
  if x {
    "true"
  } else {
    "false"
  }
}
pub fn opt(x: Option<String>) -> String {
  match x {
    None => "None".to_string(),
    Some(s) => format!("(Some {})", s),
  }
}
pub fn list<I: IntoIterator<Item = String>>(xs: I) -> String {
  let v: Vec<String> = xs.into_iter().collect();
  format!("[{}]", v.join("; "))
}
pub fn bytes(xs: &[u8]) -> String {
  list(xs.iter().map(|x| format!("{}", x)))
}
pub fn pair(a: &str, c: &str) -> String {
  format!("({}, {})", a, c)
}

pub fn json_str(s: &str) -> String {
  let mut o = String::with_capacity(s.len() + 2);
  o.push('"');
  for c in s.chars() {
    match c {
      '"' => o.push_str("\\\""),
      '\\' => o.push_str("\\\\"),
      '\n' => o.push_str("\\n"),
      '\t' => o.push_str("\\t"),
      c if (c as u32) < 0x20 => {
        let _ = write!(o, "\\u{:04x}", c as u32);
      }
      c => o.push(c),
    }
  }
  o.push('"');
  o
}

/// Collects (case, observation) pairs as Coq terms and writes shard files
///   shard_<k>.v  : Definition c_i / o_i ...; Eval vm_compute in (check ...).
///   cases.txt    : idx \t case \t impl observation   (for replay files)
///   stats.json   : counts, tag histogram, samples
pub struct CaseOut {
  pub dir: PathBuf,
  pub header: String,    // Require lines + scopes
  pub check_expr: String, // e.g. "Corr.check C10.run C10.obs_eqb C10.ok"
  pub case_ty: String,
  pub obs_ty: String,
  pub per_shard: usize,
  items: Vec<(usize, String, String, String)>,
  tags: BTreeMap<String, u64>,
  distinct: std::collections::BTreeSet<u64>,
  nontrivial: std::collections::BTreeSet<u64>,
  pub extra: Vec<(String, String)>, // raw json key -> raw json value
}

fn fnv(s: &str) -> u64 {
  let mut h: u64 = 0xcbf29ce484222325;
  for b in s.as_bytes() {
    h ^= *b as u64;
    h = h.wrapping_mul(0x100000001b3);
  }
  h
}

impl CaseOut {
  pub fn new(args: &Args, header: &str, check_expr: &str, case_ty: &str, obs_ty: &str) -> CaseOut {
    let _ = fs::remove_dir_all(&args.out);
    fs::create_dir_all(&args.out).expect("mkdir out");
    CaseOut {
      dir: args.out.clone(),
      header: header.to_string(),
      check_expr: check_expr.to_string(),
      case_ty: case_ty.to_string(),
      obs_ty: obs_ty.to_string(),
      per_shard: 250,
      items: Vec::new(),
      tags: BTreeMap::new(),
      distinct: Default::default(),
      nontrivial: Default::default(),
      extra: Vec::new(),
    }
  }
  /// `nontrivial`: the case exercised a non-default branch by the property's stated rule.
  pub fn push(&mut self, idx: usize, case: String, obs: String, tags: &[String], nontrivial: bool) {
    self.push_kf(idx, case, obs, tags, nontrivial, "");
  }
  /// As `push`, with the name of the known-finding class (known_findings.json) this case belongs
  /// to syntactically ("" = none).  Only an oracle failure of a case in a listed class is
  /// reported as KNOWN-FINDING instead of VIOLATION.
  pub fn push_kf(
    &mut self,
    idx: usize,
    case: String,
    obs: String,
    tags: &[String],
    nontrivial: bool,
    kf: &str,
  ) {
    let h = fnv(&case) ^ fnv(&obs).rotate_left(17);
    self.distinct.insert(h);
    if nontrivial {
      self.nontrivial.insert(h);
    }
    for t in tags {
      *self.tags.entry(t.clone()).or_insert(0) += 1;
    }
    self.items.push((idx, case, obs, kf.to_string()));
  }
  pub fn tag(&mut self, t: &str) {
    *self.tags.entry(t.to_string()).or_insert(0) += 1;
  }
  pub fn len(&self) -> usize {
    self.items.len()
  }
  pub fn finish(self) -> i32 {
    let mut txt = fs::File::create(self.dir.join("cases.txt")).unwrap();
    for (idx, c, o, kf) in &self.items {
      writeln!(txt, "{}\t{}\t{}\t{}", idx, c, o, kf).unwrap();
    }
    let mut shard = 0;
    for chunk in self.items.chunks(self.per_shard.max(1)) {
      let mut f = fs::File::create(self.dir.join(format!("shard_{}.v", shard))).unwrap();
      writeln!(f, "{}", self.header).unwrap();
      for (idx, c, o, _) in chunk {
        writeln!(f, "Definition c_{} : {} := {}.", idx, self.case_ty, c).unwrap();
        writeln!(f, "Definition o_{} : {} := {}.", idx, self.obs_ty, o).unwrap();
      }
      let l: Vec<String> = chunk
        .iter()
        .map(|(idx, _, _, _)| format!("({}%N, c_{}, o_{})", idx, idx, idx))
        .collect();
      writeln!(
        f,
        "Definition cases := [{}].\nEval vm_compute in ({} cases).",
        l.join("; "),
        self.check_expr
      )
      .unwrap();
      shard += 1;
    }
    let mut s = String::new();
    let _ = write!(
      s,
      "{{\"evaluations\": {}, \"distinct\": {}, \"distinct_nontrivial\": {}, \"shards\": {}, \"tags\": {{",
      self.items.len(),
      self.distinct.len(),
      self.nontrivial.len(),
      shard
    );
    let t: Vec<String> = self
      .tags
      .iter()
      .map(|(k, v)| format!("{}: {}", json_str(k), v))
      .collect();
    s.push_str(&t.join(", "));
    s.push_str("}, \"samples\": [");
    let step = (self.items.len() / 4).max(1);
    let samples: Vec<String> = self
      .items
      .iter()
      .step_by(step)
      .take(5)
      .map(|(idx, c, o, _)| {
        format!(
          "{{\"index\": {}, \"case\": {}, \"impl_obs\": {}}}",
          idx,
          json_str(&trunc(c)),
          json_str(&trunc(o))
        )
      })
      .collect();
    s.push_str(&samples.join(", "));
    s.push(']');
    for (k, v) in &self.extra {
      let _ = write!(s, ", {}: {}", json_str(k), v);
    }
    s.push('}');
    fs::write(self.dir.join("stats.json"), s).unwrap();
    0
  }
}

fn trunc(s: &str) -> String {
  if s.len() > 600 {
    let mut e = 600;
    while !s.is_char_boundary(e) {
      e -= 1;
    }
    format!("{}…({} chars)", &s[..e], s.len())
  } else {
    s.to_string()
  }
}

// ---------- allocation probes (set by the harness binary; used by the C06 driver) ----------
static mut ALLOC_PROBE: Option<fn() -> u64> = None;
static mut LIVE_PROBE: Option<fn() -> i64> = None;
pub fn set_alloc_probe(f: fn() -> u64) {
  unsafe { ALLOC_PROBE = Some(f) }
}
pub fn set_live_probe(f: fn() -> i64) {
  unsafe { LIVE_PROBE = Some(f) }
}
pub fn allocated() -> u64 {
  unsafe { ALLOC_PROBE.map(|f| f()).unwrap_or(0) }
}
pub fn live() -> i64 {
  unsafe { LIVE_PROBE.map(|f| f()).unwrap_or(0) }
}

// ---------- a DomainParticipant for drivers that need one as a factory ----------
/// `DomainParticipant::new` can time out on a heavily loaded machine ("Discovery thread channel error: Timeout");
/// that is the environment, so the drivers retry instead of reporting it.  Domain ids used by drivers stay below 101
/// so that the RTPS well-known ports are outside the kernel's ephemeral port range.
pub fn participant(domain: u16) -> crate::DomainParticipant {
  let mut last = String::new();
  for attempt in 0..40u64 {
    match crate::DomainParticipant::new(domain) {
      Ok(dp) => return dp,
      Err(e) => last = format!("{e:?}"),
    }
    std::thread::sleep(std::time::Duration::from_millis(250 * (attempt + 1).min(8)));
  }
  panic!("DomainParticipant::new({domain}) failed 40 times: {last}");
}
