// C05 driver: fragmentation.
//   CSplit  : a real rtps::writer::Writer (data_max_size_serialized set per case) is handed one
//             sample through its command channel; the datagrams it tries to send are captured,
//             re-parsed with Message::read_from_buffer, and the DATA / DATAFRAG submessages are
//             the observation.
//   CHonest : DATAFRAG messages are produced by the real MessageBuilder::data_frag_msg, serialized,
//             re-parsed, and fed in a generated order (permuted, duplicated, interleaved, with
//             garbage collection in between) to real FragmentAssemblers, one per writer as
//             Reader::fragment_assembler_mutable does.
//             An arrival is either one fragment (AFrag: the message is built by the real
//             MessageBuilder::data_frag_msg) or several consecutive fragments in one DATAFRAG
//             (AFrags: fragments_in_submessage = c >= 1, as writers of other vendors send them; the
//             DataFrag value is built here from the sample's bytes, payload = concatenation of the
//             fragments' bytes, last one possibly short).  Both go through serialise + parse.
//   CRaw    : DataFrag structs with arbitrary field values are fed to real FragmentAssemblers.
// Observation per arrival: new_datafrag's result (None | Some bytes) and missing_frags_for(sn);
// a panic is an observation (APanic) and ends the case, as it ends the receive thread.
use std::{
  collections::BTreeMap,
  panic::{catch_unwind, AssertUnwindSafe},
  rc::Rc,
  sync::{Arc, Mutex},
};

use bytes::Bytes;
use enumflags2::BitFlags;
use mio_extras::channel as mio_channel;
use speedy::{Endianness, Writable};

use crate::{
  dds::{
    ddsdata::DDSData,
    typedesc::TypeDesc,
    with_key::simpledatareader::ReaderCommand,
    qos::{policy, QosPolicies, QosPolicyBuilder},
    statusevents::sync_status_channel,
    with_key::datawriter::WriteOptions,
  },
  messages::submessages::{
    elements::serialized_payload::SerializedPayload,
    submessages::{
      DataFrag, FromEndianness, SubmessageHeader, SubmessageKind, WriterSubmessage, DATAFRAG_Flags,
    },
  },
  network::udp_sender::UDPSender,
  polling::new_simple_timer,
  rtps::{
    fragment_assembler::FragmentAssembler,
    message_receiver::MessageReceiverState,
    reader::{Reader, ReaderIngredients},
    rtps_writer_proxy::RtpsWriterProxy,
    rtps_reader_proxy::RtpsReaderProxy,
    writer::{Writer, WriterCommand, WriterIngredients},
    Message, MessageBuilder, Submessage, SubmessageBody,
  },
  structure::{
    cache_change::CacheChange,
    dds_cache::{DDSCache, TopicCache},
    duration::Duration,
    guid::{EntityId, EntityKind, GuidPrefix, GUID},
    locator::Locator,
    sequence_number::{FragmentNumber, SequenceNumber},
    time::Timestamp,
  },
  RepresentationIdentifier,
};
use crate::mio_source;
use super::{
  capture,
  util::{self, Args, CaseOut, Rng},
};

// ---------------------------------------------------------------------------------------------
// case descriptions (printed as Coq terms of C05.Model)

#[derive(Clone)]
struct Sp {
  h: [u8; 4],
  value: Vec<u8>,
}
impl Sp {
  fn gen(r: &mut Rng, total_len: usize) -> Sp {
    // total_len = 4 + value length
    let rep = *r.pick(&[[0u8, 0u8], [0, 1], [0, 2], [0, 3], [0xab, 0xcd]]);
    let opts = if r.chance(3, 4) { [0u8, 0u8] } else { [r.below(256) as u8, r.below(256) as u8] };
    let n = total_len.saturating_sub(4);
    let mode = r.below(3);
    let value: Vec<u8> = (0..n)
      .map(|i| match mode {
        0 => (i % 251) as u8, // position-revealing
        1 => r.below(256) as u8,
        _ => (r.below(3) * 127) as u8,
      })
      .collect();
    Sp { h: [rep[0], rep[1], opts[0], opts[1]], value }
  }
  fn len(&self) -> usize {
    4 + self.value.len()
  }
  fn hv(&self) -> Vec<u8> {
    let mut v = self.h.to_vec();
    v.extend_from_slice(&self.value);
    v
  }
  fn coq(&self) -> String {
    format!(
      "(Build_spayload {} {} {} {} {})",
      self.h[0],
      self.h[1],
      self.h[2],
      self.h[3],
      util::bytes(&self.value)
    )
  }
  fn to_payload(&self) -> SerializedPayload {
    SerializedPayload {
      representation_identifier: RepresentationIdentifier { bytes: [self.h[0], self.h[1]] },
      representation_options: [self.h[2], self.h[3]],
      value: Bytes::from(self.value.clone()),
    }
  }
}

#[derive(Clone)]
struct RawFrag {
  sn: i64,
  start: u32,
  count: u16,
  data_size: u32,
  frag_size: u16,
  payload: Vec<u8>,
}
impl RawFrag {
  fn coq(&self) -> String {
    format!(
      "(Build_datafrag {} {} {} {} {} {})",
      util::z(self.sn as i128),
      self.start,
      self.count,
      self.data_size,
      self.frag_size,
      util::bytes(&self.payload)
    )
  }
  fn of(df: &DataFrag) -> RawFrag {
    RawFrag {
      sn: i64::from(df.writer_sn),
      start: u32::from(df.fragment_starting_num),
      count: df.fragments_in_submessage,
      data_size: df.data_size,
      frag_size: df.fragment_size,
      payload: df.serialized_payload.to_vec(),
    }
  }
  fn to_datafrag(&self, writer: usize) -> DataFrag {
    DataFrag {
      reader_id: EntityId::UNKNOWN,
      writer_id: writer_guid(writer).entity_id,
      writer_sn: SequenceNumber::new(self.sn),
      fragment_starting_num: FragmentNumber::new(self.start),
      fragments_in_submessage: self.count,
      data_size: self.data_size,
      fragment_size: self.frag_size,
      inline_qos: None,
      serialized_payload: Bytes::from(self.payload.clone()),
    }
  }
}

#[derive(Clone)]
enum Arrival {
  Frag { w: usize, sn: i64, k: u32 },
  // fragments k .. k+c-1 in one DATAFRAG
  Frags { w: usize, sn: i64, k: u32, c: u16 },
  Gc { w: usize, t: usize },
}
impl Arrival {
  fn coq(&self) -> String {
    match self {
      Arrival::Frag { w, sn, k } => format!("AFrag {} {} {}", w, sn, k),
      Arrival::Frags { w, sn, k, c } => format!("AFrags {} {} {} {}", w, sn, k, c),
      Arrival::Gc { w, t } => format!("AGc {} {}", w, t),
    }
  }
}

#[derive(Clone)]
enum RawOp {
  Frag { w: usize, df: RawFrag },
  Gc { w: usize, t: usize },
}
impl RawOp {
  fn coq(&self) -> String {
    match self {
      RawOp::Frag { w, df } => format!("OFrag {} {}", w, df.coq()),
      RawOp::Gc { w, t } => format!("OGc {} {}", w, t),
    }
  }
}

struct WDesc {
  fs: u16,
  samples: Vec<(i64, Sp)>,
}

enum Case {
  Split { dmax: usize, sp: Sp },
  Honest { ws: Vec<WDesc>, arr: Vec<Arrival> },
  Raw { ops: Vec<RawOp> },
  Reader { ws: Vec<WDesc>, arr: Vec<Arrival> },
}

enum AOut {
  Out(Option<Vec<u8>>, Vec<u32>),
  GcDone,
  Panic,
}
impl AOut {
  fn coq(&self) -> String {
    match self {
      AOut::Out(r, m) => format!(
        "AOut {} {}",
        util::opt(r.as_ref().map(|b| util::bytes(b))),
        util::list(m.iter().map(|x| x.to_string()))
      ),
      AOut::GcDone => "AGcDone".into(),
      AOut::Panic => "APanic".into(),
    }
  }
}

// Writers 0,1 (2,3; ...) live in two different participants and share their EntityId; writers 0,2
// (1,3; ...) share the participant and differ in the EntityId: whatever is keyed by only one half of
// the GUID mixes up their fragments (seeded change C05-2A).
fn writer_guid(w: usize) -> GUID {
  let mut prefix = *b"verifC05wrt0";
  prefix[11] = b'0' + (w % 2) as u8;
  GUID::new(
    GuidPrefix::new(&prefix),
    EntityId::new([0, 0, (w / 2) as u8], EntityKind::WRITER_WITH_KEY_USER_DEFINED),
  )
}

fn writer_index(g: GUID) -> usize {
  (0..256usize).find(|w| writer_guid(*w) == g).unwrap_or(999)
}

// ---------------------------------------------------------------------------------------------
// real assemblers, driven the way Reader::handle_datafrag_msg does

struct Assemblers {
  // Reader::fragment_assemblers
  map: BTreeMap<usize, FragmentAssembler>,
  // ts[i] = a time strictly after everything done by operations < i and not after anything done
  // by operation i (Timestamp::now() is the clock the code itself uses)
  ts: Vec<Timestamp>,
}

fn fresh_timestamp(after: Timestamp) -> Timestamp {
  loop {
    let t = Timestamp::now();
    if t > after {
      return t;
    }
    std::hint::spin_loop();
  }
}

impl Assemblers {
  fn new() -> Self {
    Assemblers { map: BTreeMap::new(), ts: Vec::new() }
  }
  fn tick(&mut self) {
    // strictly later than any Timestamp::now() taken inside the previous operation
    let t0 = fresh_timestamp(Timestamp::now());
    let t1 = fresh_timestamp(t0);
    self.ts.push(t1);
    // make sure the operation's own Timestamp::now() calls are >= t1 (they are: now() is read
    // after t1 was read) and that the next tick is strictly greater (fresh_timestamp above)
  }
  fn datafrag(&mut self, w: usize, df: &DataFrag, flags: BitFlags<DATAFRAG_Flags>) -> AOut {
    self.tick();
    let sn = df.writer_sn;
    let map = &mut self.map;
    let r = catch_unwind(AssertUnwindSafe(|| {
      // Reader::fragment_assembler_mutable
      let fa = map
        .entry(w)
        .or_insert_with(|| FragmentAssembler::new(df.fragment_size));
      let res = fa.new_datafrag(df, flags);
      let missing: Vec<u32> = fa.missing_frags_for(sn).map(u32::from).collect();
      (res, missing)
    }));
    match r {
      Err(_) => AOut::Panic,
      Ok((res, missing)) => {
        let bytes = res.map(|d| match d {
          DDSData::Data { serialized_payload } => {
            let mut v = serialized_payload.representation_identifier.bytes.to_vec();
            v.extend_from_slice(&serialized_payload.representation_options);
            v.extend_from_slice(&serialized_payload.value);
            v
          }
          // not reachable without the Key flag; printed as an impossible byte so that it shows up
          _ => vec![255, 255, 255, 255, 255],
        });
        AOut::Out(bytes, missing)
      }
    }
  }
  fn gc(&mut self, w: usize, t: usize) -> AOut {
    self.tick();
    let expire_before = self.ts[t.min(self.ts.len() - 1)];
    if let Some(fa) = self.map.get_mut(&w) {
      let r = catch_unwind(AssertUnwindSafe(|| fa.garbage_collect_before(expire_before)));
      if r.is_err() {
        return AOut::Panic;
      }
    }
    AOut::GcDone
  }
}

// DATAFRAG for fragment k of sample (w, sn) by the real message builder, through the wire format
fn make_datafrag_via_wire(
  w: usize,
  sn: i64,
  sp: &Sp,
  k: u32,
  fs: u16,
) -> Result<(DataFrag, BitFlags<DATAFRAG_Flags>), String> {
  let guid = writer_guid(w);
  let cc = CacheChange::new(
    guid,
    SequenceNumber::new(sn),
    WriteOptions::default(),
    DDSData::new(sp.to_payload()),
  );
  let endianness = Endianness::LittleEndian;
  let msg = MessageBuilder::new()
    .data_frag_msg(
      &cc,
      EntityId::UNKNOWN,
      guid,
      FragmentNumber::new(k),
      fs,
      sp.len() as u32,
      endianness,
      None,
    )
    .add_header_and_build(guid.prefix);
  let buf = msg
    .write_to_vec_with_ctx(endianness)
    .map_err(|e| format!("serialize: {e:?}"))?;
  let parsed = Message::read_from_buffer(&Bytes::from(buf)).map_err(|e| format!("parse: {e:?}"))?;
  for sm in parsed.submessages {
    if let SubmessageBody::Writer(WriterSubmessage::DataFrag(df, flags)) = sm.body {
      return Ok((df, flags));
    }
  }
  Err("no DATAFRAG in the built message".into())
}

// DATAFRAG carrying the c consecutive fragments k .. k+c-1 of sample (w, sn), as a writer that
// packs several fragments into one submessage sends it (RTPS 8.3.8.3): the DataFrag value is built
// here from the sample's bytes (payload = bytes (k-1)*fs .. min((k-1+c)*fs, len) of
// header ++ value), then serialised and parsed back like any received message.
fn make_datafrags_via_wire(
  w: usize,
  sn: i64,
  sp: &Sp,
  k: u32,
  c: u16,
  fs: u16,
) -> Result<(DataFrag, BitFlags<DATAFRAG_Flags>), String> {
  let guid = writer_guid(w);
  let hv = sp.hv();
  let from = (k as usize - 1) * fs as usize;
  let to = ((k as usize - 1 + c as usize) * fs as usize).min(hv.len());
  if k < 1 || c < 1 || from >= to {
    return Err("fragment range outside the sample".into());
  }
  let datafrag = DataFrag {
    reader_id: EntityId::UNKNOWN,
    writer_id: guid.entity_id,
    writer_sn: SequenceNumber::new(sn),
    fragment_starting_num: FragmentNumber::new(k),
    fragments_in_submessage: c,
    data_size: hv.len() as u32,
    fragment_size: fs,
    inline_qos: None,
    serialized_payload: Bytes::from(hv[from..to].to_vec()),
  };
  let endianness = Endianness::LittleEndian;
  let flags = BitFlags::<DATAFRAG_Flags>::from_endianness(endianness);
  let content_length = datafrag.len_serialized();
  if content_length > u16::MAX as usize {
    return Err("submessage too long".into());
  }
  let mut msg = MessageBuilder::new().add_header_and_build(guid.prefix);
  msg.add_submessage(Submessage {
    header: SubmessageHeader {
      kind: SubmessageKind::DATA_FRAG,
      flags: flags.bits(),
      content_length: content_length as u16,
    },
    body: SubmessageBody::Writer(WriterSubmessage::DataFrag(datafrag, flags)),
    original_bytes: None,
  });
  let buf = msg
    .write_to_vec_with_ctx(endianness)
    .map_err(|e| format!("serialize: {e:?}"))?;
  let parsed = Message::read_from_buffer(&Bytes::from(buf)).map_err(|e| format!("parse: {e:?}"))?;
  for sm in parsed.submessages {
    if let SubmessageBody::Writer(WriterSubmessage::DataFrag(df, flags)) = sm.body {
      return Ok((df, flags));
    }
  }
  Err("no DATAFRAG in the built message".into())
}

// the DATAFRAG of a fragment arrival, through the wire format (None for a GC event)
fn arrival_datafrag(
  ws: &[WDesc],
  a: &Arrival,
) -> Option<(usize, Result<(DataFrag, BitFlags<DATAFRAG_Flags>), String>)> {
  let (w, sn, k, c) = match a {
    Arrival::Frag { w, sn, k } => (*w, *sn, *k, None),
    Arrival::Frags { w, sn, k, c } => (*w, *sn, *k, Some(*c)),
    Arrival::Gc { .. } => return None,
  };
  let wd = &ws[w];
  let sp = &wd.samples.iter().find(|(s, _)| *s == sn).unwrap().1;
  Some((
    w,
    match c {
      None => make_datafrag_via_wire(w, sn, sp, k, wd.fs),
      Some(c) => make_datafrags_via_wire(w, sn, sp, k, c, wd.fs),
    },
  ))
}

fn frags_per_submessage_tags(arr: &[Arrival]) -> Vec<String> {
  let mut classes = [false; 3];
  for a in arr {
    match a {
      Arrival::Frag { .. } => classes[0] = true,
      Arrival::Frags { c, .. } => classes[if *c <= 1 { 0 } else if *c <= 3 { 1 } else { 2 }] = true,
      Arrival::Gc { .. } => {}
    }
  }
  ["1", "2-3", "4+"]
    .iter()
    .zip(classes)
    .filter(|(_, p)| *p)
    .map(|(n, _)| format!("frags_per_submessage:{}", n))
    .collect()
}

// ---------------------------------------------------------------------------------------------
// real Writer

struct WriterRig {
  writer: Writer,
  cmd: mio_channel::SyncSender<WriterCommand>,
  next_sn: i64,
  default_dmax: usize,
  // keep the receiving ends alive
  _keep: Box<dyn std::any::Any>,
}

impl WriterRig {
  fn new() -> WriterRig {
    let guid = writer_guid(200);
    let (cmd_tx, cmd_rx) = mio_channel::sync_channel::<WriterCommand>(16);
    let (status_tx, status_rx) = sync_status_channel(16).unwrap();
    let (pstatus_tx, pstatus_rx) = sync_status_channel(16).unwrap();
    let qos = QosPolicyBuilder::new()
      .reliability(policy::Reliability::Reliable { max_blocking_time: Duration::from_millis(100) })
      .history(policy::History::KeepAll)
      .build();
    let ing = WriterIngredients {
      guid,
      writer_command_receiver: cmd_rx,
      writer_command_receiver_waker: Arc::new(Mutex::new(None)),
      topic_name: "c05".to_string(),
      like_stateless: false,
      qos_policies: qos.clone(),
      status_sender: status_tx,
      security_plugins: None,
    };
    let udp = Rc::new(UDPSender::new(0).expect("UDPSender"));
    let mut writer = Writer::new(ing, udp, new_simple_timer(), pstatus_tx);
    // one matched reader with a (never used) unicast locator, so that messages are "sent"
    let mut rp = RtpsReaderProxy::new(
      GUID::new(
        GuidPrefix::new(b"verifC05rdr0"),
        EntityId::new([0, 0, 1], EntityKind::READER_WITH_KEY_USER_DEFINED),
      ),
      qos.clone(),
      false,
    );
    rp.unicast_locator_list = vec![Locator::from(std::net::SocketAddr::from(([10, 77, 77, 77], 7411)))];
    writer.update_reader_proxy(&rp, &qos);
    let default_dmax = writer.data_max_size_serialized;
    WriterRig {
      writer,
      cmd: cmd_tx,
      next_sn: 1,
      default_dmax,
      _keep: Box::new((status_rx, pstatus_rx)),
    }
  }

  /// Returns (sn used, observation term)
  fn send(&mut self, dmax: usize, sp: &Sp) -> (i64, String, usize, bool) {
    let sn = self.next_sn;
    self.next_sn += 1;
    self.writer.data_max_size_serialized = dmax;
    capture::enable();
    let _ = capture::drain();
    let cmd = WriterCommand::DDSData {
      ddsdata: DDSData::new(sp.to_payload()),
      write_options: WriteOptions::default(),
      sequence_number: SequenceNumber::new(sn),
    };
    self.cmd.try_send(cmd).ok();
    let w = &mut self.writer;
    let r = catch_unwind(AssertUnwindSafe(|| w.process_writer_command()));
    let grams = capture::drain();
    capture::disable();
    if r.is_err() {
      return (sn, "OWriterPanic".into(), 0, false);
    }
    let mut data: Option<Vec<u8>> = None;
    let mut n_data = 0;
    let mut frags: Vec<RawFrag> = Vec::new();
    let mut parse_errors = 0;
    for (_loc, g) in grams {
      match Message::read_from_buffer(&Bytes::from(g)) {
        Err(_) => parse_errors += 1,
        Ok(m) => {
          for sm in m.submessages {
            match sm.body {
              SubmessageBody::Writer(WriterSubmessage::Data(d, _)) if i64::from(d.writer_sn) == sn => {
                n_data += 1;
                data = Some(d.serialized_payload.map(|b| b.to_vec()).unwrap_or_default());
              }
              SubmessageBody::Writer(WriterSubmessage::DataFrag(df, _)) => {
                frags.push(RawFrag::of(&df));
              }
              _ => {}
            }
          }
        }
      }
    }
    if parse_errors > 0 || n_data > 1 {
      // not expressible: shows up as a disagreement
      return (sn, "OInvalid".into(), frags.len(), false);
    }
    let nf = frags.len();
    let obs = format!(
      "OSplit {} {}",
      util::opt(data.as_ref().map(|b| util::bytes(b))),
      util::list(frags.iter().map(|f| f.coq()))
    );
    (sn, obs, nf, data.is_some())
  }
}

// ---------------------------------------------------------------------------------------------
// real Reader: DATAFRAGs go through Reader::handle_datafrag_msg; the observation is what appears
// in the topic cache (Reader::process_received_data with its should_ignore_change guard)

struct ReaderRig {
  reader: Reader,
  topic_cache: Arc<Mutex<TopicCache>>,
  seen: std::collections::BTreeSet<Timestamp>, // keys of the topic cache entries already reported
  _keep: Box<dyn std::any::Any>,
}

impl ReaderRig {
  fn new(udp: Rc<UDPSender>, nwriters: usize, case_no: usize) -> ReaderRig {
    let mut qos = QosPolicies::qos_none();
    qos.history = Some(policy::History::KeepAll);
    qos.reliability = Some(policy::Reliability::Reliable { max_blocking_time: Duration::from_millis(100) });
    let topic_name = format!("c05_reader_{}", case_no);
    let mut cache = DDSCache::new();
    let topic_cache = cache.add_new_topic(topic_name.clone(), TypeDesc::new("c05".to_string()), &qos);
    let (notification_sender, notification_receiver) = mio_channel::sync_channel::<()>(1000);
    let (notification_event_source, notification_event_sender) = mio_source::make_poll_channel().unwrap();
    let (status_sender, status_receiver) = sync_status_channel(64).unwrap();
    let (pstatus_sender, pstatus_receiver) = sync_status_channel(64).unwrap();
    let (reader_command_sender, reader_command_receiver) = mio_channel::sync_channel::<ReaderCommand>(10);
    let ing = ReaderIngredients {
      guid: GUID::new(
        GuidPrefix::new(b"verifC05rdr1"),
        EntityId::new([0, 0, 9], EntityKind::READER_WITH_KEY_USER_DEFINED),
      ),
      notification_sender,
      status_sender,
      topic_name,
      topic_cache_handle: topic_cache.clone(),
      like_stateless: false,
      qos_policy: qos.clone(),
      data_reader_command_receiver: reader_command_receiver,
      data_reader_waker: Arc::new(Mutex::new(None)),
      poll_event_sender: notification_event_sender,
      security_plugins: None,
    };
    let mut reader = Reader::new(ing, udp, new_simple_timer(), pstatus_sender);
    for w in 0..nwriters {
      reader.update_writer_proxy(
        RtpsWriterProxy::new(writer_guid(w), vec![], vec![], EntityId::UNKNOWN),
        &qos,
      );
    }
    ReaderRig {
      reader,
      topic_cache,
      seen: Default::default(),
      _keep: Box::new((
        cache,
        notification_receiver,
        notification_event_source,
        status_receiver,
        pstatus_receiver,
        reader_command_sender,
      )),
    }
  }

  /// Feeds one DATAFRAG; returns the cache changes that appeared (writer index, sn, bytes).
  fn datafrag(&mut self, w: usize, df: &DataFrag, flags: BitFlags<DATAFRAG_Flags>) -> Result<Vec<(usize, i64, Vec<u8>)>, ()> {
    let mr_state = MessageReceiverState {
      source_guid_prefix: writer_guid(w).prefix,
      ..Default::default()
    };
    let reader = &mut self.reader;
    catch_unwind(AssertUnwindSafe(|| reader.handle_datafrag_msg(df, flags, &mr_state))).map_err(|_| ())?;
    let tc = self.topic_cache.lock().unwrap();
    let mut new = Vec::new();
    for (ts, cc) in tc.get_changes_in_range_best_effort(Timestamp::ZERO, Timestamp::INFINITE) {
      let key = (cc.writer_guid, i64::from(cc.sequence_number));
      // every cache change counts, also a second one for the same (writer, sn)
      if self.seen.insert(ts) {
        let bytes = match &cc.data_value {
          DDSData::Data { serialized_payload } => {
            let mut v = serialized_payload.representation_identifier.bytes.to_vec();
            v.extend_from_slice(&serialized_payload.representation_options);
            v.extend_from_slice(&serialized_payload.value);
            v
          }
          _ => vec![255, 255, 255, 255, 255],
        };
        new.push((writer_index(cc.writer_guid), key.1, bytes));
      }
    }
    Ok(new)
  }
}

// ---------------------------------------------------------------------------------------------
// generators

fn total_frags(data_size: u32, fs: u16) -> u32 {
  if fs == 0 {
    0
  } else {
    data_size / fs as u32 + u32::from(data_size % fs as u32 != 0)
  }
}

fn gen_honest(r: &mut Rng) -> (Vec<WDesc>, Vec<Arrival>, Vec<String>) {
  let nw = r.range(1, 3) as usize;
  let mut ws = Vec::new();
  let mut pool: Vec<Arrival> = Vec::new();
  let mut tags = Vec::new();
  // half of the honest cases contain DATAFRAGs that carry several fragments
  let multi = r.chance(1, 2);
  for w in 0..nw {
    let fs = *r.pick(&[4u16, 5, 7, 8, 12, 16, 31, 32, 64]);
    let ns = r.range(1, 3) as usize;
    let mut samples = Vec::new();
    let mut sn = r.range(1, 5);
    for _ in 0..ns {
      // strictly larger than fs (otherwise the writer sends DATA); every residue mod fs and mod 4
      let nfr = if r.chance(1, 4) { r.range(4, 11) as usize } else { r.range(1, 4) as usize };
      let len = match r.below(4) {
        0 => fs as usize * nfr + 1,
        1 => fs as usize * (nfr + 1),
        2 => fs as usize * (nfr + 1) - 1,
        _ => fs as usize + 1 + r.below(3 * fs as u64 + 8) as usize,
      };
      let sp = Sp::gen(r, len);
      let n = total_frags(sp.len() as u32, fs);
      let mode = r.below(10);
      let missing = 1 + (sn as u32 % n);
      if multi && r.chance(2, 3) {
        // several fragments per DATAFRAG: a random partition of 1..n into runs of consecutive
        // fragments, plus duplicated and overlapping runs
        let mut runs: Vec<(u32, u16)> = Vec::new();
        let mut k = 1u32;
        while k <= n {
          let rest = n - k + 1;
          let c = match r.below(4) {
            0 => 1,
            1 => r.range(2, 3) as u32,
            2 => r.range(4, 12) as u32,
            _ => r.range(1, rest as i64) as u32,
          }
          .min(rest);
          runs.push((k, c as u16));
          k += c;
        }
        let extra = r.below(4) as usize;
        for _ in 0..extra {
          if r.chance(1, 2) {
            let d = *r.pick(&runs); // duplicate
            runs.push(d);
          } else {
            let k = r.range(1, n as i64) as u32; // overlapping
            let c = r.range(1, (n - k + 1) as i64) as u16;
            runs.push((k, c));
          }
        }
        for (k, c) in runs {
          // mode 0: one fragment never arrives; otherwise everything arrives at least once
          if mode == 0 && k <= missing && missing < k + c as u32 {
            continue;
          }
          if c == 1 && r.chance(1, 2) {
            pool.push(Arrival::Frag { w, sn, k });
          } else {
            pool.push(Arrival::Frags { w, sn, k, c });
          }
        }
        if mode == 1 {
          // everything once more in one DATAFRAG: re-assembly after completion (assembler level)
          pool.push(Arrival::Frags { w, sn, k: 1, c: n as u16 });
        }
      } else {
        for k in 1..=n {
          // mode 0: one fragment never arrives; otherwise everything arrives at least once
          if mode == 0 && k == missing {
            continue;
          }
          pool.push(Arrival::Frag { w, sn, k });
          if r.chance(1, 3) {
            pool.push(Arrival::Frag { w, sn, k }); // duplicate
          }
        }
        if mode == 1 {
          // everything twice more: re-assembly after completion (assembler level)
          for k in 1..=n {
            pool.push(Arrival::Frag { w, sn, k });
          }
        }
      }
      samples.push((sn, sp));
      sn += r.range(1, 3);
    }
    tags.push(format!("honest:fs:{}", fs));
    ws.push(WDesc { fs, samples });
  }
  match r.below(4) {
    0 => {} // in order, sample after sample
    1 => pool.reverse(),
    _ => r.shuffle(&mut pool),
  }
  // garbage collection events
  let mut arr = Vec::new();
  let gc = r.chance(1, 3);
  for a in pool {
    if gc && r.chance(1, 8) {
      let i = arr.len();
      let t = match r.below(3) {
        0 => 0,
        1 => i,
        _ => r.below(i as u64 + 1) as usize,
      };
      arr.push(Arrival::Gc { w: r.below(nw as u64) as usize, t });
    }
    arr.push(a);
  }
  tags.push(format!("honest:writers:{}", nw));
  tags.push(format!("honest:gc:{}", gc));
  tags.extend(frags_per_submessage_tags(&arr));
  (ws, arr, tags)
}

fn gen_raw(r: &mut Rng) -> (Vec<RawOp>, Vec<String>) {
  let nops = r.range(1, 10) as usize;
  let mut ops = Vec::new();
  let mut tags = Vec::new();
  // a base shape most fragments are perturbations of, so that buffers exist and get hit
  let base_fs = *r.pick(&[1u16, 2, 3, 4, 8, 16]);
  let base_ds: u32 = match r.below(4) {
    0 => base_fs as u32,
    1 => base_fs as u32 * 2,
    2 => (base_fs as u32 * 3).saturating_sub(1).max(1),
    _ => r.range(0, 40) as u32,
  };
  for i in 0..nops {
    if r.chance(1, 10) {
      ops.push(RawOp::Gc { w: r.below(2) as usize, t: r.below(i as u64 + 1) as usize });
      continue;
    }
    let w = if r.chance(4, 5) { 0 } else { 1 };
    let sn = *r.pick(&[1i64, 1, 1, 2, 7]);
    let (mut fs, mut ds) = (base_fs, base_ds);
    if r.chance(1, 4) {
      fs = *r.pick(&[0u16, 1, 2, 3, 4, 8, 255, 256, 60000, 65535]);
    }
    if r.chance(1, 4) {
      ds = *r.pick(&[0u32, 1, 2, 3, 4, 5, 8, 10, 16, 17, 100, 255, 256, 1000, 3000]);
    }
    let total = total_frags(ds, fs);
    let start: u32 = match r.below(8) {
      0 => 0,
      1 => total,
      2 => total.wrapping_add(1),
      3 => u32::MAX,
      4 => r.below(12) as u32,
      _ => 1 + r.below(total.max(1) as u64) as u32,
    };
    let count: u16 = match r.below(8) {
      0 => 0,
      1 => 65535,
      2 => total.min(65535) as u16,
      3 => (total.min(65534) + 1) as u16,
      4 => r.below(6) as u16,
      _ => 1,
    };
    // payload length around what the fields announce
    let first0 = start.saturating_sub(1) as u64;
    let want = ((first0 + count as u64) * fs as u64).min(ds as u64).saturating_sub(first0 * fs as u64);
    let plen: u64 = match r.below(6) {
      0 => 0,
      1 => want.saturating_sub(1),
      2 => want + 1,
      3 => r.below(40),
      _ => want,
    }
    .min(1500);
    let payload: Vec<u8> = (0..plen).map(|j| (1 + (j + i as u64 * 16) % 250) as u8).collect();
    let df = RawFrag { sn, start, count, data_size: ds, frag_size: fs, payload };
    ops.push(RawOp::Frag { w, df });
  }
  tags.push(format!("raw:ops:{}", nops));
  tags.push(format!("raw:base_fs:{}", base_fs));
  (ops, tags)
}

/// Fixed corpus of assembler cases: the three pre-repair panics (F2a/F2b/F2c), boundary cases of
/// the validation, and small honest interleavings.
fn corpus_raw() -> Vec<(&'static str, Vec<RawOp>)> {
  let f = |sn: i64, start: u32, count: u16, data_size: u32, frag_size: u16, payload: Vec<u8>| RawFrag {
    sn,
    start,
    count,
    data_size,
    frag_size,
    payload,
  };
  let fr = |w: usize, df: RawFrag| RawOp::Frag { w, df };
  vec![
    // F2a: fragments_in_submessage far beyond the fragment count -> BitVec::set out of bounds
    ("F2a", vec![fr(0, f(1, 1, 65535, 8, 4, vec![1, 2, 3, 4, 5, 6, 7, 8]))]),
    // F2b: assembler created with fragment_size 60000, then a DATAFRAG with fragment_size 1 and a
    // late starting number -> to_before_byte - from_byte underflows
    (
      "F2b",
      vec![
        fr(0, f(1, 1, 1, 120000, 60000, vec![9; 8])),
        fr(0, f(2, 10, 1, 10, 1, vec![1])),
      ],
    ),
    // F2c: same sequence number again with a larger data_size -> from_byte beyond the buffer
    (
      "F2c",
      vec![
        fr(0, f(1, 1, 1, 8, 4, vec![1, 2, 3, 4])),
        fr(0, f(1, 4, 1, 16, 4, vec![1, 2, 3, 4])),
      ],
    ),
    // F2c': same sequence number with a different fragment_size
    (
      "F2c2",
      vec![
        fr(0, f(1, 1, 1, 8, 4, vec![1, 2, 3, 4])),
        fr(0, f(1, 8, 1, 8, 1, vec![1])),
      ],
    ),
    // validation boundaries
    ("start0", vec![fr(0, f(1, 0, 1, 8, 4, vec![1, 2, 3, 4]))]),
    ("count0", vec![fr(0, f(1, 1, 0, 8, 4, vec![]))]),
    ("fs0", vec![fr(0, f(1, 1, 1, 8, 0, vec![1, 2, 3, 4]))]),
    ("fs_gt_ds", vec![fr(0, f(1, 1, 1, 3, 4, vec![1, 2, 3]))]),
    ("start_eq_total", vec![fr(0, f(1, 2, 1, 8, 4, vec![5, 6, 7, 8])), fr(0, f(1, 1, 1, 8, 4, vec![1, 2, 3, 4]))]),
    ("start_gt_total", vec![fr(0, f(1, 3, 1, 8, 4, vec![5, 6, 7, 8]))]),
    ("span_eq_total", vec![fr(0, f(1, 1, 2, 8, 4, vec![1, 2, 3, 4, 5, 6, 7, 8]))]),
    ("span_gt_total", vec![fr(0, f(1, 2, 2, 8, 4, vec![1, 2, 3, 4, 5, 6, 7, 8]))]),
    ("short_payload", vec![fr(0, f(1, 1, 1, 8, 4, vec![1, 2, 3]))]),
    ("short_last", vec![fr(0, f(1, 2, 1, 7, 4, vec![5, 6])), fr(0, f(1, 2, 1, 7, 4, vec![5, 6, 7]))]),
    ("padded_last", vec![fr(0, f(1, 1, 1, 7, 4, vec![1, 2, 3, 4])), fr(0, f(1, 2, 1, 7, 4, vec![5, 6, 7, 0]))]),
    ("tiny_sample", vec![fr(0, f(1, 1, 1, 3, 1, vec![1])), fr(0, f(1, 2, 2, 3, 1, vec![2, 3]))]),
    ("u32max_start", vec![fr(0, f(1, u32::MAX, 65535, 8, 4, vec![1, 2, 3, 4]))]),
    (
      "two_writers_same_sn",
      vec![
        fr(0, f(1, 1, 1, 8, 4, vec![1, 2, 3, 4])),
        fr(1, f(1, 1, 1, 6, 3, vec![11, 12, 13])),
        fr(0, f(1, 2, 1, 8, 4, vec![5, 6, 7, 8])),
        fr(1, f(1, 2, 1, 6, 3, vec![14, 15, 16])),
      ],
    ),
    (
      "dup_after_complete",
      vec![
        fr(0, f(1, 1, 1, 8, 4, vec![1, 2, 3, 4])),
        fr(0, f(1, 2, 1, 8, 4, vec![5, 6, 7, 8])),
        fr(0, f(1, 2, 1, 8, 4, vec![5, 6, 7, 8])),
        fr(0, f(1, 1, 1, 8, 4, vec![1, 2, 3, 4])),
      ],
    ),
    (
      "gc_drops_then_restart",
      vec![
        fr(0, f(1, 1, 1, 8, 4, vec![1, 2, 3, 4])),
        RawOp::Gc { w: 0, t: 1 },
        fr(0, f(1, 2, 1, 8, 4, vec![5, 6, 7, 8])),
        RawOp::Gc { w: 0, t: 2 },
        fr(0, f(1, 1, 1, 8, 4, vec![1, 2, 3, 4])),
      ],
    ),
  ]
}

/// Fixed corpus of honest arrivals with several fragments per DATAFRAG: (name, fragment size,
/// sample length, runs (k, c)); c = 0 stands for a single-fragment DATAFRAG built by the real
/// MessageBuilder::data_frag_msg.
fn corpus_multi(default_dmax: usize) -> Vec<(&'static str, u16, usize, Vec<(u32, u16)>)> {
  let d = default_dmax.min(16000) as u16;
  vec![
    ("pairs_in_order", 4, 19, vec![(1, 2), (3, 2), (5, 1)]),
    ("whole_sample", 4, 19, vec![(1, 5)]),
    ("whole_sample_exact", 4, 20, vec![(1, 5)]),
    ("reversed", 4, 19, vec![(4, 2), (1, 3)]),
    ("last_two_first", 4, 18, vec![(4, 2), (2, 2), (1, 1)]),
    ("overlapping", 4, 19, vec![(2, 3), (1, 2), (4, 2)]),
    ("mixed_with_single", 4, 19, vec![(3, 0), (1, 2), (4, 2)]),
    ("duplicate_run", 4, 19, vec![(1, 3), (1, 3), (4, 2), (4, 2)]),
    ("incomplete", 4, 19, vec![(1, 2), (4, 2)]),
    ("reassembly_after_completion", 4, 19, vec![(1, 5), (1, 4), (5, 1)]),
    ("count_one_handbuilt", 4, 19, vec![(1, 1), (2, 1), (3, 1), (4, 1), (5, 1)]),
    ("fs1_long_run", 1, 9, vec![(1, 4), (5, 5)]),
    ("default_fs_pair_then_last", d, 2 * d as usize + 4, vec![(1, 2), (3, 1)]),
    ("default_fs_last_pair_first", d, 2 * d as usize + 4, vec![(2, 2), (1, 0)]),
  ]
}

// ---------------------------------------------------------------------------------------------

struct Rigs {
  writer: Option<WriterRig>,
  udp: Option<Rc<UDPSender>>,
  reader_cases: usize,
}

fn coq_wtable(ws: &[WDesc]) -> String {
  util::list(ws.iter().enumerate().map(|(w, wd)| {
    format!(
      "({}, ({}, {}))",
      w,
      wd.fs,
      util::list(wd.samples.iter().map(|(sn, sp)| format!("({}, {})", sn, sp.coq())))
    )
  }))
}

fn run_case(case: &Case, rigs: &mut Rigs) -> (String, String, Vec<String>, bool) {
  match case {
    Case::Reader { ws, arr } => {
      let udp = rigs
        .udp
        .get_or_insert_with(|| Rc::new(UDPSender::new(0).expect("UDPSender")))
        .clone();
      rigs.reader_cases += 1;
      let mut rr = ReaderRig::new(udp, ws.len(), rigs.reader_cases);
      let mut ds: Vec<String> = Vec::new();
      let mut delivered = 0;
      let mut broken = false;
      for a in arr {
        if let Some((w, built)) = arrival_datafrag(ws, a) {
          let r = match built {
            Ok((df, flags)) => rr.datafrag(w, &df, flags),
            Err(_) => Err(()),
          };
          match r {
            Err(()) => {
              broken = true;
              break;
            }
            Ok(new) => {
              if new.len() > 1 {
                broken = true; // more than one cache change for one DATAFRAG: not expressible
                break;
              }
              match new.first() {
                None => ds.push("None".into()),
                Some((w, sn, b)) => {
                  delivered += 1;
                  ds.push(format!("Some ({}, {}, {})", w, sn, util::bytes(b)));
                }
              }
            }
          }
        }
      }
      let c = format!("CReader {} {}", coq_wtable(ws), util::list(arr.iter().map(|a| a.coq())));
      let o = if broken { "OInvalid".to_string() } else { format!("ODeliv {}", util::list(ds)) };
      let tags = vec![
        "kind:reader".to_string(),
        format!("reader:arrivals:{}", arr.len() / 10 * 10),
        format!("reader:delivered:{}", delivered),
      ];
      (c, o, tags, delivered >= 1)
    }
    Case::Split { dmax, sp } => {
      let rig = rigs.writer.get_or_insert_with(WriterRig::new);
      let (sn, obs, nfrags, data) = rig.send(*dmax, sp);
      let len = sp.len();
      let mut tags = vec![
        "kind:split".to_string(),
        format!("split:dmax:{}", dmax),
        format!("split:nfrags:{}", if nfrags > 4 { ">4".to_string() } else { nfrags.to_string() }),
        format!("split:len_mod4:{}", len % 4),
        format!(
          "split:len_vs_fs:{}",
          if len % dmax == 0 {
            "multiple"
          } else if len % dmax == 1 {
            "multiple+1"
          } else if len % dmax == dmax - 1 {
            "multiple-1"
          } else {
            "other"
          }
        ),
      ];
      if data {
        tags.push("split:as_DATA".into());
      }
      if *dmax == rig.default_dmax {
        tags.push("split:writer_default_fragment_size".into());
      }
      (format!("CSplit {} {} {}", dmax, sn, sp.coq()), obs, tags, nfrags >= 2)
    }
    Case::Honest { ws, arr } => {
      let mut asm = Assemblers::new();
      let mut outs = Vec::new();
      let mut completed = 0;
      for a in arr {
        let o = match a {
          Arrival::Gc { w, t } => asm.gc(*w, *t),
          _ => match arrival_datafrag(ws, a) {
            Some((w, Ok((df, flags)))) => asm.datafrag(w, &df, flags),
            _ => AOut::Panic,
          },
        };
        let stop = matches!(o, AOut::Panic);
        if let AOut::Out(Some(_), _) = o {
          completed += 1;
        }
        outs.push(o);
        if stop {
          break;
        }
      }
      let c = format!("CHonest {} {}", coq_wtable(ws), util::list(arr.iter().map(|a| a.coq())));
      let o = format!("OAsm {}", util::list(outs.iter().map(|o| o.coq())));
      let tags = vec![
        "kind:honest".to_string(),
        format!("honest:arrivals:{}", arr.len() / 10 * 10),
        format!("honest:completed:{}", completed),
      ];
      (c, o, tags, completed >= 1)
    }
    Case::Raw { ops } => {
      let mut asm = Assemblers::new();
      let mut outs = Vec::new();
      let mut some = 0;
      let mut partial = 0;
      for op in ops {
        let o = match op {
          RawOp::Frag { w, df } => asm.datafrag(*w, &df.to_datafrag(*w), BitFlags::empty()),
          RawOp::Gc { w, t } => asm.gc(*w, *t),
        };
        let stop = matches!(o, AOut::Panic);
        match &o {
          AOut::Out(Some(_), _) => some += 1,
          AOut::Out(None, m) if !m.is_empty() => partial += 1,
          _ => {}
        }
        outs.push(o);
        if stop {
          break;
        }
      }
      let panicked = matches!(outs.last(), Some(AOut::Panic));
      let c = format!("CRaw {}", util::list(ops.iter().map(|o| o.coq())));
      let o = format!("OAsm {}", util::list(outs.iter().map(|o| o.coq())));
      let tags = vec![
        "kind:raw".to_string(),
        format!("raw:completed:{}", some),
        format!("raw:accepted_partial:{}", partial.min(3)),
        format!("raw:panicked:{}", panicked),
      ];
      (c, o, tags, some + partial >= 1)
    }
  }
}

pub fn run(args: &Args) -> i32 {
  std::panic::set_hook(Box::new(|_| {})); // panics are observations here, not noise
  let mut out = CaseOut::new(
    args,
    "From Coq Require Import List ZArith.\nFrom RD Require Import Common.Corr C05.Model.\nImport ListNotations.\nOpen Scope Z_scope.",
    "check run obs_eqb ok",
    "case",
    "obs",
  );
  out.per_shard = 60;
  let mut rig = Rigs { writer: None, udp: None, reader_cases: 0 };
  let mut idx = 0usize;
  let emit = |out: &mut CaseOut, rig: &mut Rigs, idx: usize, case: Case, extra: Vec<String>| {
    let (c, o, mut tags, nontrivial) = run_case(&case, rig);
    tags.extend(extra);
    out.push(idx, c, o, &tags, nontrivial);
  };
  let want = |idx: usize| args.only.map_or(true, |o| o == idx);

  // ---- fixed corpus 1: assembler boundary cases and the pre-repair panics
  for (name, ops) in corpus_raw() {
    if want(idx) {
      emit(&mut out, &mut rig, idx, Case::Raw { ops }, vec![format!("corpus:{}", name)]);
    }
    idx += 1;
  }
  // ---- fixed corpus 2: writer sweep.  Small fragment sizes: every payload length in
  // [max(4, fs-8), 3*fs+8]; the writer's own fragment size (read from a freshly built Writer):
  // the 17 lengths around each multiple, and (thorough tier) the whole interval.
  let default_dmax = {
    let r = rig.writer.get_or_insert_with(WriterRig::new);
    r.default_dmax
  };
  out.extra.push(("writer_default_fragment_size".into(), default_dmax.to_string()));
  let mut sweep: Vec<(usize, usize)> = Vec::new();
  for fs in [1usize, 2, 3, 4, 5, 8, 12, 16] {
    for len in fs.saturating_sub(8).max(4)..=3 * fs + 8 {
      sweep.push((fs, len));
    }
  }
  {
    let fs = default_dmax;
    if args.tier == "thorough" {
      for len in fs.saturating_sub(8).max(4)..=3 * fs + 8 {
        sweep.push((fs, len));
      }
    } else {
      for m in 1..=3 {
        for len in (m * fs).saturating_sub(8).max(4)..=m * fs + 8 {
          sweep.push((fs, len));
        }
      }
    }
  }
  for (fs, len) in sweep {
    if want(idx) {
      let mut r = Rng::for_case(args.seed, idx);
      let sp = Sp::gen(&mut r, len);
      emit(&mut out, &mut rig, idx, Case::Split { dmax: fs, sp }, vec!["corpus:split_sweep".into()]);
    }
    idx += 1;
  }

  // ---- fixed corpus 3: several fragments per DATAFRAG (fragments_in_submessage > 1), bare
  // assembler and real Reader: groupings of a 5-fragment sample with a short last fragment (in
  // order, reversed, overlapping, whole sample in one DATAFRAG, mixed with single fragments), and
  // the writer's own fragment size
  for (name, fs, len, runs) in corpus_multi(default_dmax) {
    for through_reader in [false, true] {
      if want(idx) {
        let mut r = Rng::for_case(args.seed, idx);
        let sp = Sp::gen(&mut r, len);
        let arr: Vec<Arrival> = runs
          .iter()
          .map(|&(k, c)| if c == 0 { Arrival::Frag { w: 0, sn: 3, k } } else { Arrival::Frags { w: 0, sn: 3, k, c } })
          .collect();
        let mut tags = vec![format!("corpus:multi:{}", name)];
        tags.extend(frags_per_submessage_tags(&arr));
        let ws = vec![WDesc { fs, samples: vec![(3, sp)] }];
        let case = if through_reader { Case::Reader { ws, arr } } else { Case::Honest { ws, arr } };
        emit(&mut out, &mut rig, idx, case, tags);
      }
      idx += 1;
    }
  }

  // ---- generated cases
  for _ in 0..args.n {
    if want(idx) {
      let mut r = Rng::for_case(args.seed, idx);
      let mut gtags: Vec<String> = Vec::new();
      let case = match r.below(10) {
        0 => {
          // writer, random fragment size and length in [fs-8, 3 fs + 8]
          let fs = if r.chance(1, 6) { default_dmax } else { r.range(1, 200) as usize };
          let len = r.range((fs as i64 - 8).max(4), 3 * fs as i64 + 8) as usize;
          Case::Split { dmax: fs, sp: Sp::gen(&mut r, len) }
        }
        1..=4 => {
          let (ws, arr, t) = gen_honest(&mut r);
          gtags = t;
          Case::Honest { ws, arr }
        }
        5 => {
          // the same traffic (without GC events, which are timer driven in the Reader) through
          // a real Reader
          let (ws, arr, t) = gen_honest(&mut r);
          gtags = t;
          let arr = arr.into_iter().filter(|a| !matches!(a, Arrival::Gc { .. })).collect();
          Case::Reader { ws, arr }
        }
        _ => {
          let (ops, t) = gen_raw(&mut r);
          gtags = t;
          Case::Raw { ops }
        }
      };
      emit(&mut out, &mut rig, idx, case, gtags);
    }
    idx += 1;
  }
  out.finish()
}
