// C20 driver.
//   CWriter : the C04 engine (a real rtps::writer::Writer, see c04.rs) with operation lists centred on
//             WriterCommand::WaitForAcknowledgments: readers matched reliably / best-effort, ACKNACK
//             bases at last-1 / last / last+1 around the call, reader loss before and after the call,
//             several calls (the writer has a single waiter slot).  Observation = the C04 observation
//             (signals delivered to each call's completion channel after every operation, digests).
//   CSync   : the real DataWriter::wait_for_acknowledgments of a DataWriter whose command channel
//             ends in a fake writer thread of this driver that answers as the case prescribes
//             (signal after d ms / never / drop the completion channel / command channel full).
//             Observation = Ok(true|false) and whether the call returned before max_wait elapsed.
use std::{
  collections::BTreeMap,
  sync::{Arc, Mutex},
  thread,
  time::{Duration as StdDuration, Instant},
};

use byteorder::LittleEndian;
use mio_extras::channel as mio_channel;
use serde::{Deserialize, Serialize};

use crate::{
  dds::{
    qos::{policy, QosPolicies},
    statusevents::sync_status_channel,
    with_key::datawriter::DataWriter,
  },
  discovery::discovery::DiscoveryCommand,
  rtps::writer::WriterCommand,
  serialization::CDRSerializerAdapter,
  structure::{
    duration::Duration,
    guid::{EntityId, EntityKind, GUID},
  },
  DomainParticipant, Keyed, TopicKind,
};
use super::{
  c04::{self, Cfg, GenState, Hist, Op},
  util::{self, Args, CaseOut, Rng},
};

#[derive(Serialize, Deserialize, Clone, Debug, PartialEq)]
struct Msg {
  key: i32,
  v: i32,
}
impl Keyed for Msg {
  type K = i32;
  fn key(&self) -> i32 {
    self.key
  }
}

// ---------------------------------------------------------------------------------------------
// writer cases

fn wr(r: &mut Rng) -> Op {
  Op::Write { single: None, bytes: vec![0, 1, 0, 0, r.below(256) as u8, 1, 2, 3] }
}

/// Structured scenario around one or more wait calls.
fn gen_wait_case(r: &mut Rng) -> (Cfg, Vec<Op>, Vec<String>) {
  let cfg = Cfg {
    hist: if r.chance(1, 2) { Hist::KeepLast(r.range(1, 10) as i32) } else { Hist::KeepAll },
    dur: *r.pick(&[0u8, 2]),
    dmax: 1024,
  };
  let n_rel = r.range(0, 3) as u8;
  let n_be = r.range(0, 2) as u8;
  let mut tags = vec![format!("reliable_readers:{}", n_rel), format!("best_effort_readers:{}", n_be)];
  let mut ops: Vec<Op> = Vec::new();
  let mut matched: Vec<(u8, bool)> = Vec::new();
  for i in 0..n_rel {
    ops.push(Op::Match { r: 1 + i, rel: true, dur: 0 });
    matched.push((1 + i, true));
  }
  for i in 0..n_be {
    ops.push(Op::Match { r: 4 + i, rel: false, dur: 0 });
    matched.push((4 + i, false));
  }
  let mut last = 0i64;
  let mut w = 1u32;
  let boundary = |r: &mut Rng, last: i64| -> i64 {
    match r.below(8) {
      0 => last - 1,
      1 | 2 => last,
      3 | 4 | 5 => last + 1,
      6 => last + 2,
      _ => r.range(0, last + 3),
    }
  };
  let rounds = r.range(1, 3);
  for _ in 0..rounds {
    for _ in 0..r.range(0, 4) {
      ops.push(wr(r));
      last += 1;
    }
    // acknowledgments before the call
    for (rd, _) in matched.clone() {
      if r.chance(1, 2) {
        let base = boundary(r, last);
        ops.push(Op::AckNack { r: rd, base, set: vec![], numbits: 0 });
      }
    }
    if r.chance(1, 6) && !matched.is_empty() {
      let (rd, _) = *r.pick(&matched);
      ops.push(Op::Lose { r: rd });
      matched.retain(|m| m.0 != rd);
      tags.push("loss_before_call".into());
    }
    ops.push(Op::WaitAck { w });
    w += 1;
    let until = last;
    // what happens while the call is pending
    for _ in 0..r.range(0, 8) {
      match r.below(10) {
        0 | 1 | 2 | 3 | 4 => {
          let rd = if matched.is_empty() || r.chance(1, 8) {
            *r.pick(&[1u8, 2, 3, 4, 5, 6])
          } else {
            r.pick(&matched).0
          };
          let base = boundary(r, until);
          ops.push(Op::AckNack { r: rd, base, set: vec![], numbits: 0 });
        }
        5 => {
          ops.push(wr(r));
          last += 1;
        }
        6 => {
          if !matched.is_empty() {
            let (rd, _) = *r.pick(&matched);
            ops.push(Op::Lose { r: rd });
            matched.retain(|m| m.0 != rd);
            tags.push("loss_after_call".into());
          }
        }
        7 => {
          let rd = *r.pick(&[1u8, 2, 3, 6]);
          let rel = r.chance(2, 3);
          ops.push(Op::Match { r: rd, rel, dur: 0 });
          if !matched.iter().any(|m| m.0 == rd) {
            matched.push((rd, rel));
          }
          tags.push("match_after_call".into());
        }
        8 => ops.push(Op::HbTick { manual: false }),
        _ => {
          if r.chance(1, 3) {
            ops.push(Op::WaitAck { w });
            w += 1;
            tags.push("second_call_while_pending".into());
          } else {
            ops.push(Op::CacheClean);
          }
        }
      }
    }
  }
  (cfg, ops, tags)
}

fn writer_corpus() -> Vec<(&'static str, Cfg, Vec<Op>)> {
  let cfg = Cfg { hist: Hist::KeepLast(5), dur: 2, dmax: 1024 };
  let w3 = || -> Vec<Op> {
    (0..3).map(|i| Op::Write { single: None, bytes: vec![0, 1, 0, 0, i, 1, 2, 3] }).collect()
  };
  let an = |r: u8, base: i64| Op::AckNack { r, base, set: vec![], numbits: 0 };
  let m = |r: u8, rel: bool| Op::Match { r, rel, dur: 0 };
  let mut v: Vec<(&'static str, Cfg, Vec<Op>)> = Vec::new();
  v.push(("no_reader", cfg.clone(), { let mut o = w3(); o.push(Op::WaitAck { w: 1 }); o }));
  v.push(("best_effort_only", cfg.clone(), { let mut o = vec![m(4, false)]; o.extend(w3()); o.push(Op::WaitAck { w: 1 }); o }));
  // boundary: base = last (not everything) vs last + 1 (everything)
  v.push(("base_last_then_last_plus_1", cfg.clone(), {
    let mut o = vec![m(1, true)];
    o.extend(w3());
    o.push(Op::WaitAck { w: 1 });
    o.push(an(1, 3));
    o.push(an(1, 4));
    o
  }));
  v.push(("already_acked_last_plus_1", cfg.clone(), {
    let mut o = vec![m(1, true)];
    o.extend(w3());
    o.push(an(1, 4));
    o.push(Op::WaitAck { w: 1 });
    o
  }));
  v.push(("already_acked_only_last", cfg.clone(), {
    let mut o = vec![m(1, true)];
    o.extend(w3());
    o.push(an(1, 3));
    o.push(Op::WaitAck { w: 1 });
    o.push(Op::Lose { r: 1 });
    o
  }));
  v.push(("two_readers_one_lost", cfg.clone(), {
    let mut o = vec![m(1, true), m(2, true), m(4, false)];
    o.extend(w3());
    o.push(Op::WaitAck { w: 1 });
    o.push(an(2, 4));
    o.push(an(4, 4));
    o.push(Op::Lose { r: 1 });
    o
  }));
  v.push(("second_call_takes_slot", cfg.clone(), {
    let mut o = vec![m(1, true)];
    o.extend(w3());
    o.push(Op::WaitAck { w: 1 });
    o.extend(w3());
    o.push(Op::WaitAck { w: 2 });
    o.push(an(1, 4));
    o.push(an(1, 7));
    o
  }));
  v.push(("ack_from_unmatched_reader", cfg.clone(), {
    let mut o = vec![m(1, true)];
    o.extend(w3());
    o.push(Op::WaitAck { w: 1 });
    o.push(an(2, 4));
    o.push(an(1, 4));
    o
  }));
  v.push(("empty_history_call", cfg.clone(), vec![m(1, true), Op::WaitAck { w: 1 }, an(1, 0), an(1, 1)]));
  v
}

// ---------------------------------------------------------------------------------------------
// synchronous wrapper cases

#[derive(Clone, Copy, Debug)]
enum Fake {
  Signal(u64),
  Never,
  Drop,
  Lost,
}
impl Fake {
  fn coq(&self) -> String {
    match self {
      Fake::Signal(d) => format!("(FSignal {})", d),
      Fake::Never => "FNever".into(),
      Fake::Drop => "FDrop".into(),
      Fake::Lost => "FLost".into(),
    }
  }
}

struct SyncRig {
  _dp: DomainParticipant,
  prefix: crate::structure::guid::GuidPrefix,
  publisher: crate::dds::pubsub::Publisher,
  topic: crate::dds::topic::Topic,
}

impl SyncRig {
  fn new() -> Option<SyncRig> {
    let dp = util::participant(94);
    let qos = QosPolicies::qos_none();
    let publisher = dp.create_publisher(&qos).ok()?;
    let topic = dp
      .create_topic("c20_topic".to_string(), "C20Msg".to_string(), &qos, TopicKind::WithKey)
      .ok()?;
    use crate::structure::entity::RTPSEntity;
    let prefix = dp.guid().prefix;
    Some(SyncRig { _dp: dp, prefix, publisher, topic })
  }

  fn run(&self, reliable: bool, max_wait_ms: u64, fake: Fake, n: u32) -> String {
    let mut qos = QosPolicies::qos_none();
    qos.reliability = Some(if reliable {
      policy::Reliability::Reliable { max_blocking_time: Duration::from_millis(100) }
    } else {
      policy::Reliability::BestEffort
    });
    let guid = GUID::new(
      self.prefix,
      EntityId::new([7, (n >> 8) as u8, n as u8], EntityKind::WRITER_WITH_KEY_USER_DEFINED),
    );
    let (cc_upload, cmd_rx) = mio_channel::sync_channel::<WriterCommand>(1);
    let (disc_tx, disc_rx) = mio_channel::sync_channel::<DiscoveryCommand>(8);
    let (_status_tx, status_rx) =
      sync_status_channel::<crate::dds::statusevents::DataWriterStatus>(4).unwrap();
    if let Fake::Lost = fake {
      // fill the command channel so that the wait command cannot be delivered
      let (tx, _rx) = sync_status_channel::<()>(1).unwrap();
      let _ = cc_upload.try_send(WriterCommand::WaitForAcknowledgments { all_acked: tx });
    }
    let dw = match DataWriter::<Msg, CDRSerializerAdapter<Msg, LittleEndian>>::new(
      self.publisher.clone(),
      self.topic.clone(),
      qos,
      guid,
      cc_upload,
      Arc::new(Mutex::new(None)),
      disc_tx,
      status_rx,
    ) {
      Ok(d) => d,
      Err(_) => return "(OSync SErr)".into(),
    };
    let hold = StdDuration::from_millis(max_wait_ms + 300);
    let faker = thread::spawn(move || {
      if let Fake::Lost = fake {
        thread::sleep(hold);
        drop(cmd_rx);
        return;
      }
      let t0 = Instant::now();
      loop {
        match cmd_rx.try_recv() {
          Ok(WriterCommand::WaitForAcknowledgments { all_acked }) => {
            match fake {
              Fake::Signal(d) => {
                thread::sleep(StdDuration::from_millis(d));
                let _ = all_acked.try_send(());
                thread::sleep(StdDuration::from_millis(20));
              }
              Fake::Never => thread::sleep(hold),
              Fake::Drop => drop(all_acked),
              Fake::Lost => {}
            }
            return;
          }
          Ok(_) => {}
          Err(_) => {
            if t0.elapsed() > hold {
              return;
            }
            thread::sleep(StdDuration::from_micros(200));
          }
        }
      }
    });
    let t0 = Instant::now();
    let res = dw.wait_for_acknowledgments(StdDuration::from_millis(max_wait_ms));
    let elapsed = t0.elapsed();
    let _ = faker.join();
    drop(dw);
    drop(disc_rx);
    // 2 ms of tolerance for the millisecond rounding of the poll timeout
    let early = elapsed + StdDuration::from_millis(2) < StdDuration::from_millis(max_wait_ms);
    match res {
      Ok(b) => format!("(OSync (SRes {} {}))", util::b(b), util::b(early)),
      Err(_) => "(OSync SErr)".into(),
    }
  }
}

pub fn run(args: &Args) -> i32 {
  let mut out = CaseOut::new(
    args,
    "From Coq Require Import List ZArith.\nFrom RD Require Import Common.Corr C04.Model C20.Model.\nImport ListNotations.\nOpen Scope Z_scope.",
    "check C20.Model.run C20.Model.obs_eqb C20.Model.ok",
    "C20.Model.case",
    "C20.Model.obs",
  );
  out.per_shard = 40;
  let mut idx = 0usize;
  let mut emit_writer = |out: &mut CaseOut, idx: usize, cfg: &Cfg, ops: &[Op], mut tags: Vec<String>| {
    let (obs, sums) = c04::exec_case(cfg, ops);
    let _ = c04::summarize(ops, &sums, &mut tags);
    let mut calls = 0;
    let mut signalled = 0;
    let mut immediate = 0;
    for (o, s) in ops.iter().zip(sums.iter()) {
      if let Op::WaitAck { w } = o {
        calls += 1;
        if s.signals.contains(w) {
          immediate += 1;
        }
      }
      signalled += s.signals.len();
    }
    tags.push(format!("calls:{}", calls.min(4)));
    tags.push(format!("signals:{}", signalled.min(4)));
    if immediate > 0 {
      tags.push("immediate_completion".into());
    }
    if signalled > immediate {
      tags.push("completion_by_ack_or_loss".into());
    }
    if calls > signalled {
      tags.push("call_left_pending_or_replaced".into());
    }
    tags.push("kind:writer".into());
    out.push(
      idx,
      format!("(CWriter {} {})", cfg.coq(), c04::ops_coq(ops)),
      format!("(OWriter {})", obs),
      &tags,
      calls > 0 && !matches!(sums.last(), None),
    );
  };
  for (name, cfg, ops) in writer_corpus() {
    if args.only.map_or(true, |o| o == idx) {
      emit_writer(&mut out, idx, &cfg, &ops, vec![format!("corpus:{}", name)]);
    }
    idx += 1;
  }
  // synchronous wrapper: fixed grid (wall-clock bound: every timeout case costs max_wait)
  let sync_cases: Vec<(bool, u64, Fake)> = vec![
    (false, 150, Fake::Never),
    (false, 150, Fake::Signal(0)),
    // margins of seconds between signal and deadline, so that a loaded machine cannot flip the outcome; a wait
    // that is signalled returns at once, so the long deadlines cost nothing
    (true, 5000, Fake::Signal(0)),
    (true, 5000, Fake::Signal(20)),
    (true, 6000, Fake::Signal(40)),
    (true, 100, Fake::Signal(2500)),
    (true, 120, Fake::Never),
    (true, 60, Fake::Never),
    (true, 120, Fake::Drop),
    (true, 120, Fake::Lost),
    (true, 0, Fake::Never),
    (true, 1, Fake::Never),
  ];
  let rig = SyncRig::new();
  for (i, (rel, mw, fake)) in sync_cases.iter().enumerate() {
    if args.only.map_or(true, |o| o == idx) {
      let obs = match &rig {
        Some(rig) => rig.run(*rel, *mw, *fake, i as u32),
        None => "(OSync SErr)".to_string(),
      };
      let tags = vec![
        "kind:sync".to_string(),
        format!("sync_fake:{:?}", fake).split('(').next().unwrap().to_string(),
        format!("sync_reliable:{}", rel),
        format!("sync_obs:{}", obs),
      ];
      out.push(
        idx,
        format!("(CSync {} {} {})", util::b(*rel), mw, fake.coq()),
        obs,
        &tags,
        *rel,
      );
    }
    idx += 1;
  }
  drop(rig);
  for k in 0..args.n {
    if args.only.map_or(true, |o| o == idx) {
      let mut r = Rng::for_case(args.seed, idx);
      let (cfg, ops, tags) =
        if k % 4 == 3 { c04::gen_case(&mut r, 14) } else { gen_wait_case(&mut r) };
      emit_writer(&mut out, idx, &cfg, &ops, tags);
    }
    idx += 1;
  }
  out.finish()
}
