// C06 driver: hostile datagrams into a real MessageReceiver (reliable Reader with two matched remote
// writers) and a real reliable Writer (history of three samples, one matched remote reader).
//
// Process structure: the parent process generates the cases and writes the case files; the cases
// are EXECUTED in a child process (same binary, env C06_CHILD=1) whose address space is capped with
// `ulimit -v`, so that a runaway allocation fails fast.  The child reports one line per case on
// stdout.  If the child dies (abort on allocation failure, stack overflow, ...) or stops making
// progress (watchdog), the parent records OCrash / OHang for the case that was running and
// restarts the child behind it.  Panics are caught in the child (catch_unwind) and reported as
// OCrash: nothing catches them in the real receive thread.
use std::{
  io::{BufRead, BufReader, Write as _},
  process::{Command, Stdio},
  sync::mpsc,
  thread,
  time::{Duration as StdDuration, Instant},
};

use bytes::Bytes;
use mio_extras::channel as mio_channel;

use crate::{
  dds::{
    ddsdata::DDSData,
    qos::{policy::*, QosPolicies, QosPolicyBuilder},
    with_key::datawriter::WriteOptions,
  },
  messages::submessages::{
    elements::serialized_payload::SerializedPayload,
    submessages::{AckSubmessage, InterpreterSubmessage, ReaderSubmessage},
  },
  rtps::{
    message::Message, message_receiver::MessageReceiver, rtps_reader_proxy::RtpsReaderProxy,
    rtps_writer_proxy::RtpsWriterProxy, writer::WriterCommand, SubmessageBody,
  },
  structure::{
    duration::Duration,
    guid::{EntityId, EntityKind, GuidPrefix, GUID},
    sequence_number::SequenceNumber,
  },
};
use super::{
  capture, mk,
  util::{self, Args, CaseOut, Rng},
};

// ---------- allocation probes (set by the harness binary, kept in util so that the binary does not depend on this driver) ----------
fn allocated() -> u64 {
  util::allocated()
}
fn live() -> i64 {
  util::live()
}

// ---------- wire encoder, independent of the implementation's serialiser ----------
pub const OWN: u8 = 9;
pub const E_READER: [u8; 4] = [0, 0, 1, 0x07];
pub const E_RWRITER: [u8; 4] = [0, 0, 2, 0x02]; // remote writer entity (on every source)
pub const E_LWRITER: [u8; 4] = [0, 0, 3, 0x02]; // local writer
pub const E_RREADER: [u8; 4] = [0, 0, 4, 0x07]; // remote reader (on source 1) matched to the local writer

#[derive(Clone, Debug)]
pub enum Sub {
  Heartbeat { first: i64, last: i64, count: i32, fin: bool },
  Gap { start: i64, base: i64, numbits: u32, words: Vec<u32> },
  Data { sn: i64, payload: Vec<u8> },
  DataFrag { sn: i64, start: u32, in_sub: u16, fsize: u16, total: u32, payload: Vec<u8> },
  AckNack { base: i64, numbits: u32, words: Vec<u32>, count: i32 },
  NackFrag { sn: i64, base: u32, numbits: u32, words: Vec<u32>, count: i32 },
  HeartbeatFrag { sn: i64, last_frag: u32, count: i32 },
  InfoTs { sec: u32, frac: u32 },
  InfoDst { who: u8 },
  InfoSrc { who: u8 },
  Raw { id: u8, flags: u8, body: Vec<u8>, len_field: Option<u16> }, // last submessage only
  Blob { bytes: Vec<u8> },                                           // a whole datagram
}

#[derive(Clone, Debug)]
pub struct Dgram {
  pub src: u8,
  pub subs: Vec<Sub>,
}

fn sn_bytes(sn: i64, out: &mut Vec<u8>) {
  out.extend_from_slice(&((sn >> 32) as i32).to_le_bytes());
  out.extend_from_slice(&(sn as u32).to_le_bytes());
}
fn pad4(v: &mut Vec<u8>) {
  while v.len() % 4 != 0 {
    v.push(0);
  }
}

fn sub_bytes(s: &Sub, out: &mut Vec<u8>) {
  let mut body = Vec::new();
  let (id, flags, len_override): (u8, u8, Option<u16>) = match s {
    Sub::Heartbeat { first, last, count, fin } => {
      body.extend_from_slice(&E_READER);
      body.extend_from_slice(&E_RWRITER);
      sn_bytes(*first, &mut body);
      sn_bytes(*last, &mut body);
      body.extend_from_slice(&count.to_le_bytes());
      (0x07, 1 | if *fin { 2 } else { 0 }, None)
    }
    Sub::Gap { start, base, numbits, words } => {
      body.extend_from_slice(&E_READER);
      body.extend_from_slice(&E_RWRITER);
      sn_bytes(*start, &mut body);
      sn_bytes(*base, &mut body);
      body.extend_from_slice(&numbits.to_le_bytes());
      for w in words {
        body.extend_from_slice(&w.to_le_bytes());
      }
      (0x08, 1, None)
    }
    Sub::Data { sn, payload } => {
      body.extend_from_slice(&0u16.to_le_bytes());
      body.extend_from_slice(&16u16.to_le_bytes());
      body.extend_from_slice(&E_READER);
      body.extend_from_slice(&E_RWRITER);
      sn_bytes(*sn, &mut body);
      body.extend_from_slice(payload);
      (0x15, 1 | 4, None) // E + D
    }
    Sub::DataFrag { sn, start, in_sub, fsize, total, payload } => {
      body.extend_from_slice(&0u16.to_le_bytes());
      body.extend_from_slice(&28u16.to_le_bytes());
      body.extend_from_slice(&E_READER);
      body.extend_from_slice(&E_RWRITER);
      sn_bytes(*sn, &mut body);
      body.extend_from_slice(&start.to_le_bytes());
      body.extend_from_slice(&in_sub.to_le_bytes());
      body.extend_from_slice(&fsize.to_le_bytes());
      body.extend_from_slice(&total.to_le_bytes());
      body.extend_from_slice(payload);
      (0x16, 1, None)
    }
    Sub::AckNack { base, numbits, words, count } => {
      body.extend_from_slice(&E_RREADER);
      body.extend_from_slice(&E_LWRITER);
      sn_bytes(*base, &mut body);
      body.extend_from_slice(&numbits.to_le_bytes());
      for w in words {
        body.extend_from_slice(&w.to_le_bytes());
      }
      body.extend_from_slice(&count.to_le_bytes());
      (0x06, 1, None)
    }
    Sub::NackFrag { sn, base, numbits, words, count } => {
      body.extend_from_slice(&E_RREADER);
      body.extend_from_slice(&E_LWRITER);
      sn_bytes(*sn, &mut body);
      body.extend_from_slice(&base.to_le_bytes());
      body.extend_from_slice(&numbits.to_le_bytes());
      for w in words {
        body.extend_from_slice(&w.to_le_bytes());
      }
      body.extend_from_slice(&count.to_le_bytes());
      (0x12, 1, None)
    }
    Sub::HeartbeatFrag { sn, last_frag, count } => {
      body.extend_from_slice(&E_READER);
      body.extend_from_slice(&E_RWRITER);
      sn_bytes(*sn, &mut body);
      body.extend_from_slice(&last_frag.to_le_bytes());
      body.extend_from_slice(&count.to_le_bytes());
      (0x13, 1, None)
    }
    Sub::InfoTs { sec, frac } => {
      body.extend_from_slice(&sec.to_le_bytes());
      body.extend_from_slice(&frac.to_le_bytes());
      (0x09, 1, None)
    }
    Sub::InfoDst { who } => {
      body.extend_from_slice(&[*who; 12]);
      (0x0e, 1, None)
    }
    Sub::InfoSrc { who } => {
      body.extend_from_slice(&[0, 0, 0, 0, 2, 4, 1, 18]);
      body.extend_from_slice(&[*who; 12]);
      (0x0c, 1, None)
    }
    Sub::Raw { id, flags, body: b, len_field } => {
      body.extend_from_slice(b);
      (*id, *flags, *len_field)
    }
    Sub::Blob { .. } => unreachable!(),
  };
  if len_override.is_none() {
    pad4(&mut body);
  }
  out.push(id);
  out.push(flags);
  let l = len_override.unwrap_or(body.len() as u16);
  out.extend_from_slice(&l.to_le_bytes());
  out.extend_from_slice(&body);
}

pub fn datagram(d: &Dgram) -> Vec<u8> {
  if let [Sub::Blob { bytes }] = d.subs.as_slice() {
    return bytes.clone();
  }
  let mut out = Vec::new();
  out.extend_from_slice(b"RTPS");
  out.extend_from_slice(&[2, 4, 1, 18]);
  out.extend_from_slice(&[d.src; 12]);
  for s in &d.subs {
    sub_bytes(s, &mut out);
  }
  out
}

/// 4-byte CDR_LE representation header + n bytes, padded to a multiple of 4
fn cdr_payload(n: usize) -> Vec<u8> {
  let mut v = vec![0, 1, 0, 0];
  v.extend((0..n).map(|i| (i * 7 + 1) as u8));
  pad4(&mut v);
  v
}

// ---------- the system under test ----------
struct Sut {
  mr: MessageReceiver,
  ack_rx: mio_channel::Receiver<(GuidPrefix, AckSubmessage)>,
  _live_rx: mio_channel::Receiver<GuidPrefix>,
  wk: mk::WriterKit,
  topic_cache: std::sync::Arc<std::sync::Mutex<crate::structure::dds_cache::TopicCache>>,
  _rk_rest: Box<dyn std::any::Any>,
}

fn reliable_qos() -> QosPolicies {
  QosPolicyBuilder::new()
    .reliability(Reliability::Reliable { max_blocking_time: Duration::from_millis(100) })
    .history(History::KeepAll)
    .build()
}

fn writer_guid(src: u8) -> GUID {
  GUID::new(
    GuidPrefix::new(&[src; 12]),
    EntityId::new([0, 0, 2], EntityKind::WRITER_WITH_KEY_USER_DEFINED),
  )
}
fn rreader_guid(src: u8) -> GUID {
  GUID::new(
    GuidPrefix::new(&[src; 12]),
    EntityId::new([0, 0, 4], EntityKind::READER_WITH_KEY_USER_DEFINED),
  )
}
fn reader_eid() -> EntityId {
  EntityId::new([0, 0, 1], EntityKind::READER_WITH_KEY_USER_DEFINED)
}

fn build_sut() -> Sut {
  let own = GuidPrefix::new(&[OWN; 12]);
  let (ack_tx, ack_rx) = mio_channel::sync_channel::<(GuidPrefix, AckSubmessage)>(4096);
  let (live_tx, live_rx) = mio_channel::sync_channel::<GuidPrefix>(100);
  let mut mr = MessageReceiver::new(own, ack_tx, live_tx, None);
  let rguid = GUID::new(own, reader_eid());
  let mut rk = mk::make_reader(rguid, "c06_topic", reliable_qos());
  for p in [1u8, 2] {
    let loc = crate::structure::locator::Locator::from(std::net::SocketAddr::from((
      [127, 0, 0, 1],
      17400 + p as u16,
    )));
    rk.reader.update_writer_proxy(
      RtpsWriterProxy::new(writer_guid(p), vec![loc], vec![], EntityId::UNKNOWN),
      &reliable_qos(),
    );
  }
  let topic_cache = rk.topic_cache.clone();
  let rest: Box<dyn std::any::Any> = Box::new((rk.status, rk.notification, rk.dds_cache, rk.cmd, rk.participant_status));
  mr.add_reader(rk.reader);
  let lw = GUID::new(own, EntityId::new([0, 0, 3], EntityKind::WRITER_WITH_KEY_USER_DEFINED));
  let mut wk = mk::make_writer(lw, "c06_wtopic", reliable_qos());
  let mut rp = RtpsReaderProxy::new(rreader_guid(1), reliable_qos(), false);
  rp.unicast_locator_list = vec![crate::structure::locator::Locator::from(std::net::SocketAddr::from((
    [127, 0, 0, 1],
    17499,
  )))];
  wk.writer.update_reader_proxy(&rp, &reliable_qos());
  // history: samples 1, 2 (one fragment each) and 3 (three fragments of the writer's fragment size)
  let fs = wk.writer.data_max_size_serialized;
  for (sn, n) in [(1i64, 8usize), (2, 40), (3, 2 * fs + 100)] {
    let payload = SerializedPayload::from_bytes(&Bytes::from(cdr_payload(n - 4))).unwrap();
    let cmd = WriterCommand::DDSData {
      ddsdata: DDSData::new(payload),
      write_options: WriteOptions::default(),
      sequence_number: SequenceNumber::new(sn),
    };
    wk.cmd.try_send(cmd).ok();
    wk.writer.process_writer_command();
  }
  capture::drain();
  Sut { mr, ack_rx, _live_rx: live_rx, wk, topic_cache, _rk_rest: rest }
}

impl Sut {
  /// what dp_event_loop does with one received datagram
  fn feed(&mut self, bytes: &[u8]) {
    self.mr.handle_received_packet(&Bytes::copy_from_slice(bytes));
    while let Ok((prefix, sub)) = self.ack_rx.try_recv() {
      self.wk.writer.handle_ack_nack(prefix, &sub);
    }
  }
  /// (writer source, sn) of the changes in the topic cache, in arrival order
  fn delivered(&self) -> Vec<(u8, i64)> {
    self
      .topic_cache
      .lock()
      .unwrap()
      .get_changes_in_range_best_effort(
        crate::structure::time::Timestamp::ZERO,
        crate::structure::time::Timestamp::now(),
      )
      .map(|(_, cc)| (cc.writer_guid.prefix.bytes[0], i64::from(cc.sequence_number)))
      .collect()
  }
}

/// the ACKNACKs among the captured datagrams: (destination source, base, set)
fn acknacks(dgs: &[(crate::structure::locator::Locator, Vec<u8>)]) -> Vec<(u8, i64, Vec<i64>)> {
  let mut res = Vec::new();
  for (_, b) in dgs {
    if let Ok(m) = Message::read_from_buffer(&Bytes::copy_from_slice(b)) {
      let mut dst = 0u8;
      for s in m.submessages {
        match s.body {
          SubmessageBody::Interpreter(InterpreterSubmessage::InfoDestination(d, _)) => {
            dst = d.guid_prefix.bytes[0]
          }
          SubmessageBody::Reader(ReaderSubmessage::AckNack(an, _)) => res.push((
            dst,
            i64::from(an.reader_sn_state.base()),
            an.reader_sn_state.iter().map(i64::from).collect(),
          )),
          _ => {}
        }
      }
    }
  }
  res
}

/// run-length encoded (maximal runs), as Model.rle
fn coq_bools(v: &[bool]) -> String {
  let mut runs: Vec<(usize, bool)> = Vec::new();
  for b in v {
    match runs.last_mut() {
      Some((n, x)) if x == b => *n += 1,
      _ => runs.push((1, *b)),
    }
  }
  util::list(runs.iter().map(|(n, b)| format!("({}, {})", n, util::b(*b))))
}
/// Lists are cut at 3000 elements (a state that large already disagrees with the model, and a
/// longer literal would overflow the stack of Coq's parser).
fn coq_zs(v: &[i64]) -> String {
  util::list(v.iter().take(3000).map(|x| util::z(*x as i128)))
}

fn digest(sut: &mut Sut) -> String {
  let deliv: Vec<(u8, i64)> = sut.delivered();
  let r = sut.mr.reader_mut(reader_eid()).unwrap();
  let (base, changes, hb) = r.verif_writer_proxy_digest(writer_guid(1)).unwrap();
  let mut bufs: Vec<(u8, Vec<(i64, usize, Vec<bool>)>)> = r
    .verif_assemblers_digest()
    .into_iter()
    .map(|(g, v)| (g.prefix.bytes[0], v))
    .collect();
  bufs.sort_by_key(|x| x.0);
  let (acked, unsent, frags) = sut.wk.writer.verif_reader_proxy_digest(rreader_guid(1)).unwrap();
  format!(
    "(Build_digest {} {} {} {} {} {} {} {})",
    util::z(base as i128),
    coq_zs(&changes),
    util::z(hb as i128),
    util::list(bufs.iter().map(|(w, v)| format!(
      "({}, {})",
      w,
      util::list(v.iter().map(|(sn, len, bm)| format!("({}, ({}, {}))", util::z(*sn as i128), len, coq_bools(bm))))
    ))),
    util::list(deliv.iter().map(|(w, sn)| format!("({}, {})", w, util::z(*sn as i128)))),
    util::z(acked as i128),
    coq_zs(&unsent),
    util::list(frags.iter().map(|(sn, bm)| format!("({}, {})", util::z(*sn as i128), coq_bools(bm))))
  )
}

struct CaseResult {
  outcomes: Vec<&'static str>, // per datagram: "Ok" | "Crash"
  parsed: Vec<bool>,           // per datagram: verdict of the real Message::read_from_buffer
  replies: Vec<(u8, i64, Vec<i64>)>,
  digest: Option<String>,
  w2_delivered: bool,
  w2_base: Option<i64>,
  max_alloc: u64,
  retained: i64,
  max_ms: u128,
}

fn run_case(dgs: &[Vec<u8>]) -> CaseResult {
  capture::enable();
  capture::drain();
  let mut sut = build_sut();
  let live0 = live();
  let mut res = CaseResult {
    outcomes: Vec::new(),
    parsed: Vec::new(),
    replies: Vec::new(),
    digest: None,
    w2_delivered: false,
    w2_base: None,
    max_alloc: 0,
    retained: 0,
    max_ms: 0,
  };
  let mut dead = false;
  for d in dgs {
    let a0 = allocated();
    let t0 = Instant::now();
    let r = std::panic::catch_unwind(std::panic::AssertUnwindSafe(|| sut.feed(d)));
    res.max_ms = res.max_ms.max(t0.elapsed().as_millis());
    res.max_alloc = res.max_alloc.max(allocated().saturating_sub(a0));
    res.replies.extend(acknacks(&capture::drain()));
    match r {
      Ok(()) => res.outcomes.push("Ok"),
      Err(_) => {
        res.outcomes.push("Crash");
        dead = true;
        break;
      }
    }
  }
  if !dead {
    res.retained = live() - live0;
    // the parser's verdicts (no effect on the state)
    for d in dgs {
      let p = std::panic::catch_unwind(|| Message::read_from_buffer(&Bytes::copy_from_slice(d)).is_ok());
      res.parsed.push(d.len() >= 20 && &d[0..4] == b"RTPS" && p.unwrap_or(false));
    }
    res.digest = Some(digest(&mut sut));
    // the participant must keep working: a well-behaved peer sends one sample + heartbeat
    let r = std::panic::catch_unwind(std::panic::AssertUnwindSafe(|| {
      sut.feed(&datagram(&Dgram {
        src: 2,
        subs: vec![
          Sub::Data { sn: 1, payload: cdr_payload(8) },
          Sub::Heartbeat { first: 1, last: 1, count: 1, fin: false },
        ],
      }));
      let w2 = acknacks(&capture::drain());
      (sut.delivered().contains(&(2, 1)), w2)
    }));
    match r {
      Ok((deliv, w2)) => {
        res.w2_delivered = deliv;
        res.w2_base = match w2.as_slice() {
          [(2, b, _)] => Some(*b),
          _ => None,
        };
      }
      Err(_) => res.outcomes.push("Crash"),
    }
  }
  while res.parsed.len() < dgs.len() {
    res.parsed.push(false);
  }
  capture::disable();
  res
}

// ---------- generation ----------
const EDGE: [i64; 24] = [
  i64::MIN,
  i64::MIN + 1,
  -(1 << 32),
  -2,
  -1,
  0,
  1,
  2,
  3,
  7,
  255,
  256,
  257,
  300,
  1000,
  (1 << 31) - 1,
  1 << 31,
  1 << 32,
  (1 << 32) + 1,
  1 << 40,
  i64::MAX - 65537,
  i64::MAX - 65536,
  i64::MAX - 1,
  i64::MAX,
];

fn edge(r: &mut Rng) -> i64 {
  match r.below(4) {
    0 => *r.pick(&EDGE),
    1 => r.range(0, 12),
    2 => r.pick(&EDGE).saturating_add(r.range(-2, 2)),
    _ => r.range(1, 600),
  }
}
fn edge_u32(r: &mut Rng) -> u32 {
  *r.pick(&[0u32, 1, 2, 3, 31, 32, 33, 255, 256, 257, 65535, 65536, 1 << 31, u32::MAX - 65537, u32::MAX - 65536, u32::MAX - 1, u32::MAX])
}
fn words(r: &mut Rng, numbits: u32) -> Vec<u32> {
  let n = ((numbits.min(512) + 31) / 32) as usize;
  (0..n)
    .map(|_| match r.below(4) {
      0 => 0,
      1 => u32::MAX,
      2 => 1 << r.below(32),
      _ => r.next() as u32,
    })
    .collect()
}
fn numbits(r: &mut Rng) -> u32 {
  if r.chance(7, 8) {
    *r.pick(&[0u32, 1, 2, 8, 31, 32, 33, 64, 100, 255, 256])
  } else {
    edge_u32(r)
  }
}

fn sub_known(s: &Sub) -> bool {
  match s {
    Sub::DataFrag { total, payload, .. } => (*total as u64) > 64 * payload.len() as u64 + 1024,
    Sub::Blob { bytes } => blob_known_datafrag(bytes) > 0,
    _ => false,
  }
}
fn sub_too_big(s: &Sub) -> bool {
  matches!(s, Sub::DataFrag { total, .. } if *total > 4195264)
}

fn gen_raw(r: &mut Rng) -> Sub {
  let n = r.range(0, 48) as usize;
  let mut body: Vec<u8> = (0..n).map(|_| if r.chance(1, 3) { 0 } else { r.next() as u8 }).collect();
  let id = *r.pick(&[0x01u8, 0x06, 0x07, 0x08, 0x09, 0x0c, 0x0d, 0x0e, 0x0f, 0x12, 0x13, 0x15, 0x16, 0x30, 0x31, 0x32, 0x33, 0x34, 0x80, 0x81, 0xff, 0x00, 0x02]);
  if r.chance(1, 2) && body.len() >= 12 {
    // plausible entity ids so that the submessage reaches a Reader / the Writer
    let off = if id == 0x15 || id == 0x16 { 4 } else { 0 };
    if id == 0x15 || id == 0x16 {
      body[2] = *r.pick(&[16u8, 28, 0, 15, 17, 255]);
      body[3] = *r.pick(&[0u8, 0, 0, 255]);
    }
    if body.len() >= off + 8 {
      let (a, b) = if id == 0x06 || id == 0x12 { (E_RREADER, E_LWRITER) } else { (E_READER, E_RWRITER) };
      body[off..off + 4].copy_from_slice(&a);
      body[off + 4..off + 8].copy_from_slice(&b);
    }
  }
  Sub::Raw {
    id,
    flags: if r.chance(1, 2) { r.next() as u8 } else { 1 | (r.next() as u8 & 0x0e) },
    body,
    len_field: if r.chance(1, 2) { Some(*r.pick(&[0u16, 1, 3, 4, 8, 12, 100, 65535])) } else { None },
  }
}

fn gen_sub(r: &mut Rng) -> Sub {
  match r.below(12) {
    0 | 1 => {
      let first = edge(r);
      let last = if r.chance(1, 2) { edge(r) } else { first.saturating_add(r.range(-2, 300)) };
      Sub::Heartbeat { first, last, count: r.range(-2, 1 << 20) as i32, fin: r.chance(1, 2) }
    }
    2 | 3 => {
      let start = edge(r);
      let base = if r.chance(1, 2) { edge(r) } else { start.saturating_add(r.range(-2, 300)) };
      let nb = numbits(r);
      Sub::Gap { start, base, numbits: nb, words: words(r, nb) }
    }
    4 => Sub::Data { sn: edge(r), payload: cdr_payload(r.range(0, 40) as usize) },
    5 | 6 => {
      let fsize = *r.pick(&[0u16, 1, 2, 4, 7, 8, 8, 8, 1024, 60000, 65535]);
      let payload = cdr_payload(r.range(0, 28) as usize);
      let total = match r.below(6) {
        0 => edge_u32(r),
        1 => (64 * payload.len() as u32 + 1024).saturating_add(r.range(-1, 1) as u32),
        _ => r.range(0, 80) as u32,
      };
      Sub::DataFrag {
        sn: if r.chance(3, 4) { r.range(1, 4) } else { edge(r) },
        start: if r.chance(3, 4) { r.range(0, 12) as u32 } else { edge_u32(r) },
        in_sub: *r.pick(&[0u16, 1, 1, 1, 2, 3, 255, 65535]),
        fsize,
        // keep the size of what the model has to evaluate (and the real code has to zero) sane
        total: if total > 4195264 { 300_000 } else { total },
        payload,
      }
    }
    7 | 8 => {
      let nb = numbits(r);
      Sub::AckNack { base: edge(r), numbits: nb, words: words(r, nb), count: r.range(-3, 1000) as i32 }
    }
    9 => {
      let nb = numbits(r);
      Sub::NackFrag {
        sn: if r.chance(3, 4) { r.range(1, 4) } else { edge(r) },
        base: if r.chance(1, 2) { r.range(0, 5) as u32 } else { edge_u32(r) },
        numbits: nb,
        words: words(r, nb),
        count: r.range(0, 100) as i32,
      }
    }
    10 => match r.below(4) {
      0 => Sub::HeartbeatFrag { sn: edge(r), last_frag: edge_u32(r), count: r.range(0, 100) as i32 },
      1 => Sub::InfoTs { sec: edge_u32(r), frac: edge_u32(r) },
      2 => Sub::InfoDst { who: *r.pick(&[0u8, OWN, OWN, 7]) },
      _ => Sub::InfoSrc { who: *r.pick(&[1u8, 1, 3, 4]) },
    },
    _ => Sub::Heartbeat { first: r.range(1, 5), last: r.range(0, 300), count: r.range(1, 1 << 20) as i32, fin: r.chance(1, 2) },
  }
}

/// hostile stream: 1-4 datagrams of 1-3 submessages with extreme field values
fn gen_hostile(r: &mut Rng) -> Vec<Dgram> {
  let ndg = r.range(1, 4) as usize;
  (0..ndg)
    .map(|_| {
      let ns = r.range(1, 3) as usize;
      let mut subs: Vec<Sub> = (0..ns).map(|_| gen_sub(r)).collect();
      if r.chance(1, 6) {
        subs.push(gen_raw(r));
      }
      Dgram { src: *r.pick(&[1u8, 1, 1, 1, 3]), subs }
    })
    .collect()
}

/// mostly valid traffic of writer 1 and of the remote reader: DATA in order with losses and
/// duplicates, a fragmented sample, HEARTBEATs, GAPs, ACKNACKs / NACKFRAGs with sane values
fn gen_valid(r: &mut Rng) -> Vec<Dgram> {
  let n = r.range(3, 14) as usize;
  let fs = *r.pick(&[4u16, 8, 8, 16]);
  let frag_sn = r.range(1, 6);
  let total = r.range(fs as i64 + 1, 6 * fs as i64) as u32;
  let nfr = (total + fs as u32 - 1) / fs as u32;
  let mut hbc = 0;
  let mut next_sn = 1i64;
  let mut out = Vec::new();
  for _ in 0..n {
    let mut subs = Vec::new();
    if r.chance(1, 4) {
      subs.push(Sub::InfoTs { sec: 1_700_000_000, frac: r.next() as u32 });
    }
    match r.below(9) {
      0..=2 => {
        if next_sn == frag_sn {
          next_sn += 1;
        }
        if !r.chance(1, 5) {
          subs.push(Sub::Data { sn: next_sn, payload: cdr_payload(r.range(0, 24) as usize) });
        }
        next_sn += 1;
      }
      3 | 4 => {
        let k = r.range(1, nfr as i64) as u32;
        let cnt = if r.chance(1, 4) { r.range(1, (nfr - k + 1) as i64) as u32 } else { 1 };
        let from = (k - 1) * fs as u32;
        let to = ((k - 1 + cnt) * fs as u32).min(total);
        let mut payload: Vec<u8> = (from..to).map(|i| if i < 4 { [0u8, 1, 0, 0][i as usize] } else { i as u8 }).collect();
        pad4(&mut payload);
        subs.push(Sub::DataFrag { sn: frag_sn, start: k, in_sub: cnt as u16, fsize: fs, total, payload });
      }
      5 => {
        hbc += 1;
        subs.push(Sub::Heartbeat { first: r.range(1, 2.max(next_sn - 3)), last: next_sn - 1 + r.range(0, 2), count: hbc, fin: r.chance(1, 2) });
      }
      6 => {
        let start = r.range(1, next_sn + 2);
        let base = start + r.range(0, 5);
        let nb = *r.pick(&[0u32, 3, 8, 32]);
        subs.push(Sub::Gap { start, base, numbits: nb, words: (0..(nb + 31) / 32).map(|_| r.next() as u32 & 0xf0f0_0000).collect() });
        next_sn = next_sn.max(base);
      }
      7 => {
        let nb = *r.pick(&[0u32, 2, 3]);
        subs.push(Sub::AckNack { base: r.range(1, 4), numbits: nb, words: (0..(nb + 31) / 32).map(|_| r.next() as u32).collect(), count: r.range(1, 100) as i32 });
      }
      _ => {
        subs.push(Sub::NackFrag { sn: r.range(1, 3), base: r.range(1, 3) as u32, numbits: 3, words: vec![r.next() as u32], count: 1 });
      }
    }
    if !subs.is_empty() {
      out.push(Dgram { src: 1, subs });
    }
  }
  out
}

/// Largest data_size announced by a DATA_FRAG submessage of a raw datagram that is out of
/// proportion to the payload it carries (the known-finding class, recognised on bytes with the
/// framing rules of Submessage::read_from_buffer); 0 if there is none.
fn blob_known_datafrag(b: &[u8]) -> u32 {
  let mut worst = 0u32;
  let mut pos = 20usize;
  while pos + 4 <= b.len() {
    let id = b[pos];
    let le = b[pos + 1] & 1 == 1;
    let rd16 = |o: usize| -> u16 {
      let x = [b[o], b[o + 1]];
      if le { u16::from_le_bytes(x) } else { u16::from_be_bytes(x) }
    };
    let mut len = rd16(pos + 2) as usize;
    if len == 0 && id != 0x01 && id != 0x09 {
      len = b.len() - pos - 4;
    }
    if pos + 4 + len > b.len() {
      break;
    }
    let body = &b[pos + 4..pos + 4 + len];
    if id == 0x16 && body.len() >= 32 {
      let x = [body[28], body[29], body[30], body[31]];
      let data_size = if le { u32::from_le_bytes(x) } else { u32::from_be_bytes(x) };
      let y = [body[2], body[3]];
      let oiq = if le { u16::from_le_bytes(y) } else { u16::from_be_bytes(y) } as usize;
      let payload = body.len().saturating_sub(4 + oiq);
      if data_size as u64 > 64 * payload as u64 + 1024 {
        worst = worst.max(data_size);
      }
    }
    pos += 4 + len;
  }
  worst
}

/// byte-level mutation / truncation of a well-formed datagram
fn gen_mutated(r: &mut Rng) -> Vec<Dgram> {
  let base = if r.chance(1, 2) { gen_valid(r) } else { gen_hostile(r) };
  base
    .iter()
    .map(|d| {
      let mut b = datagram(d);
      match r.below(5) {
        0 => {
          let k = r.below(b.len() as u64 + 1) as usize;
          b.truncate(k);
        }
        1 => {
          for _ in 0..r.range(1, 4) {
            let i = r.below(b.len() as u64) as usize;
            b[i] ^= 1 << r.below(8);
          }
        }
        2 => {
          for _ in 0..r.range(1, 3) {
            let i = r.below(b.len() as u64) as usize;
            b[i] = *r.pick(&[0u8, 1, 0x7f, 0x80, 0xff]);
          }
        }
        3 => {
          // corrupt a length field of the first submessage
          if b.len() >= 24 {
            let v = *r.pick(&[0u16, 1, 2, 3, 5, 0x7fff, 0xffff, (b.len() - 24) as u16 + 1, (b.len() as u16).wrapping_sub(25)]);
            b[22..24].copy_from_slice(&v.to_le_bytes());
          }
        }
        _ => {
          let extra = r.range(1, 9) as usize;
          b.extend((0..extra).map(|_| r.next() as u8));
        }
      }
      // the known-finding class is represented by structured cases; a mutant announcing more
      // than 16 MB would only slow the run down (the buffer is zeroed): cut it short instead
      if blob_known_datafrag(&b) > (1 << 24) {
        b.truncate(40);
      }
      Dgram { src: d.src, subs: vec![Sub::Blob { bytes: b }] }
    })
    .collect()
}

fn raw_data(flags: u8, oiq: u16, sn: i64, rest: &[u8]) -> Sub {
  let mut body = Vec::new();
  body.extend_from_slice(&0u16.to_le_bytes());
  body.extend_from_slice(&oiq.to_le_bytes());
  body.extend_from_slice(&E_READER);
  body.extend_from_slice(&E_RWRITER);
  sn_bytes(sn, &mut body);
  body.extend_from_slice(rest);
  let l = body.len() as u16;
  Sub::Raw { id: 0x15, flags, body, len_field: Some(l) }
}
fn param(pid: u16, len: u16, val: &[u8]) -> Vec<u8> {
  let mut v = Vec::new();
  v.extend_from_slice(&pid.to_le_bytes());
  v.extend_from_slice(&len.to_le_bytes());
  v.extend_from_slice(val);
  v
}

fn corpus() -> Vec<Vec<Dgram>> {
  let hb = |first, last, count| Sub::Heartbeat { first, last, count, fin: false };
  let d1 = |subs: Vec<Sub>| Dgram { src: 1, subs };
  let data = |sn| Sub::Data { sn, payload: cdr_payload(4) };
  let sentinel = param(1, 0, &[]);
  let mut v: Vec<Vec<Dgram>> = vec![
    vec![], // 0: no hostile traffic at all
    // F6: heartbeat advertising a huge range (eef2682)
    vec![d1(vec![hb(1, 1 << 40, 1)])],
    vec![d1(vec![hb(1, i64::MAX, 1)])],
    // numbers too large for overflow-free arithmetic (4e0d9c9)
    vec![d1(vec![hb(i64::MAX, i64::MAX, 1)]), d1(vec![data(i64::MAX)])],
    vec![d1(vec![hb(i64::MAX - 1, i64::MAX, 1)]), d1(vec![data(i64::MAX - 1)]), d1(vec![data(i64::MAX)])],
    vec![d1(vec![Sub::Gap { start: i64::MAX - 3, base: i64::MAX - 2, numbits: 32, words: vec![u32::MAX] }])],
    vec![d1(vec![Sub::AckNack { base: i64::MAX - 2, numbits: 32, words: vec![u32::MAX], count: 1 }])],
    vec![d1(vec![Sub::NackFrag { sn: 3, base: u32::MAX - 2, numbits: 32, words: vec![u32::MAX], count: 1 }])],
    vec![d1(vec![Sub::NackFrag { sn: 3, base: 0, numbits: 32, words: vec![u32::MAX], count: 1 }])],
    // just inside the accepted range
    vec![d1(vec![hb(i64::MAX - 65536, i64::MAX - 65536, 1)]), d1(vec![data(i64::MAX - 65536)]), d1(vec![hb(1, i64::MAX - 65536, 2)])],
    vec![d1(vec![Sub::Gap { start: i64::MAX - 65537, base: i64::MAX - 65536, numbits: 256, words: vec![u32::MAX; 8] }]), d1(vec![hb(1, 5, 1)])],
    vec![d1(vec![Sub::AckNack { base: i64::MAX - 65536, numbits: 256, words: vec![u32::MAX; 8], count: 1 }])],
    vec![d1(vec![Sub::NackFrag { sn: 3, base: u32::MAX - 65536, numbits: 256, words: vec![u32::MAX; 8], count: 1 }])],
    // F2: inconsistent DATAFRAG fields (67917b6)
    vec![d1(vec![Sub::DataFrag { sn: 1, start: 1, in_sub: 65535, fsize: 4, total: 8, payload: cdr_payload(4) }])],
    vec![
      d1(vec![Sub::DataFrag { sn: 1, start: 1, in_sub: 1, fsize: 60000, total: 120000, payload: cdr_payload(60000 - 4) }]),
      d1(vec![Sub::DataFrag { sn: 2, start: 10, in_sub: 1, fsize: 1, total: 10, payload: cdr_payload(0) }]),
    ],
    vec![
      d1(vec![Sub::DataFrag { sn: 1, start: 1, in_sub: 1, fsize: 8, total: 16, payload: cdr_payload(4) }]),
      d1(vec![Sub::DataFrag { sn: 1, start: 2, in_sub: 1, fsize: 8, total: 64, payload: cdr_payload(4) }]),
    ],
    vec![d1(vec![Sub::DataFrag { sn: 1, start: 0, in_sub: 1, fsize: 8, total: 16, payload: cdr_payload(4) }])],
    vec![d1(vec![Sub::DataFrag { sn: 1, start: 1, in_sub: 1, fsize: 0, total: 16, payload: cdr_payload(4) }])],
    // F6b: GAP above ack_base with a huge span (was: one map entry per sequence number)
    vec![d1(vec![Sub::Gap { start: 5, base: 5 + 300_000, numbits: 0, words: vec![] }])],
    vec![d1(vec![Sub::Gap { start: 5, base: 1 << 40, numbits: 0, words: vec![] }]), d1(vec![data(1), data(2), data(3), data(4)]), d1(vec![hb(1, 1 << 40, 1)])],
    vec![d1(vec![Sub::Gap { start: 2, base: i64::MAX - 65536, numbits: 256, words: vec![u32::MAX; 8] }])],
    // NACKFRAG generation for a sample of many tiny fragments (was: all missing numbers collected)
    vec![
      d1(vec![Sub::DataFrag { sn: 1, start: 1, in_sub: 1024, fsize: 1, total: 60000, payload: cdr_payload(1020) }]),
      d1(vec![hb(1, 1, 1)]),
      d1(vec![hb(1, 1, 2)]),
    ],
    // F7 (known finding): one small DATAFRAG makes the assembler allocate data_size bytes
    vec![d1(vec![Sub::DataFrag { sn: 1, start: 1, in_sub: 1, fsize: 1024, total: 8_000_000, payload: cdr_payload(1020) }])],
    vec![d1(vec![Sub::DataFrag { sn: 1, start: 1954, in_sub: 1, fsize: 1024, total: 2_000_001, payload: cdr_payload(0) }])],
    // a completed fragmented sample, then the same fragments again
    vec![
      d1(vec![Sub::DataFrag { sn: 1, start: 1, in_sub: 1, fsize: 8, total: 12, payload: cdr_payload(4) }]),
      d1(vec![Sub::DataFrag { sn: 1, start: 2, in_sub: 1, fsize: 8, total: 12, payload: vec![9, 9, 9, 9] }]),
      d1(vec![Sub::DataFrag { sn: 1, start: 2, in_sub: 1, fsize: 8, total: 12, payload: vec![9, 9, 9, 9] }]),
      d1(vec![hb(1, 1, 1)]),
    ],
    // INFO_DST to somebody else / INFO_SRC to an unmatched source: the rest must be ignored
    vec![d1(vec![Sub::InfoDst { who: 7 }, data(1), hb(1, 1, 1)]), d1(vec![Sub::InfoSrc { who: 3 }, data(1), Sub::DataFrag { sn: 1, start: 1, in_sub: 1, fsize: 8, total: 12, payload: cdr_payload(4) }])],
    // ACKNACK / NACKFRAG against the writer's real history
    vec![d1(vec![Sub::AckNack { base: 1, numbits: 8, words: vec![0xff00_0000], count: 1 }, Sub::NackFrag { sn: 3, base: 1, numbits: 8, words: vec![0xff00_0000], count: 2 }])],
    vec![d1(vec![Sub::AckNack { base: 4, numbits: 0, words: vec![], count: 1 }]), d1(vec![Sub::AckNack { base: 0, numbits: 256, words: vec![u32::MAX; 8], count: 2 }])],
    vec![d1(vec![Sub::NackFrag { sn: 1, base: 1, numbits: 256, words: vec![u32::MAX; 8], count: 1 }, Sub::NackFrag { sn: 4, base: 1, numbits: 1, words: vec![1 << 31], count: 2 }])],
    // INFO_REPLY claiming 2^32-1 locators (94dd595), other raw framing cases
    vec![d1(vec![Sub::Raw { id: 0x0f, flags: 1, body: vec![0xff, 0xff, 0xff, 0xff, 0, 0, 0, 0], len_field: None }])],
    vec![d1(vec![Sub::Raw { id: 0x0f, flags: 3, body: vec![0, 0, 0, 0, 0xff, 0xff, 0xff, 0x7f], len_field: None }])],
    vec![d1(vec![data(1), Sub::Raw { id: 0x07, flags: 1, body: vec![0; 28], len_field: Some(65535) }])],
    vec![d1(vec![data(1), Sub::Raw { id: 0x07, flags: 1, body: vec![0; 28], len_field: Some(0) }])],
    vec![d1(vec![data(1), Sub::Raw { id: 0x09, flags: 1, body: vec![], len_field: Some(0) }])],
    vec![d1(vec![data(1), Sub::Raw { id: 0x09, flags: 1, body: vec![1, 2, 3], len_field: Some(3) }])],
    vec![d1(vec![data(1), Sub::Raw { id: 0x0c, flags: 1, body: vec![1; 19], len_field: Some(19) }])],
    vec![d1(vec![data(1), Sub::Raw { id: 0x0e, flags: 1, body: vec![1; 11], len_field: Some(11) }])],
    vec![d1(vec![data(1), Sub::Raw { id: 0x01, flags: 1, body: vec![], len_field: Some(0) }])],
    vec![d1(vec![data(1), Sub::Raw { id: 0x80, flags: 1, body: vec![7; 16], len_field: None }])],
    vec![d1(vec![data(1), Sub::Raw { id: 0x55, flags: 0, body: vec![7; 16], len_field: None }])],
    // DATA: inline-QoS offset outside, parameter lengths, key hash / status info of wrong size,
    // payload shorter than the representation header
    vec![d1(vec![raw_data(1 | 2 | 4, 0xffff, 1, &[0; 8])])],
    vec![d1(vec![raw_data(1 | 2 | 4, 15, 1, &[0; 8])])],
    vec![d1(vec![raw_data(1 | 2 | 4, 20, 1, &[0; 8])])],
    vec![d1(vec![raw_data(1 | 2 | 4, 16, 1, &param(0x70, 0xffff, &[1, 2, 3, 4]))])],
    vec![d1(vec![raw_data(1 | 2, 16, 1, &[param(0x70, 4, &[1, 2, 3, 4]), sentinel.clone()].concat())])],
    vec![d1(vec![raw_data(1 | 2, 16, 1, &[param(0x70, 16, &[5; 16]), param(0x71, 1, &[1]), sentinel.clone()].concat())])],
    vec![d1(vec![raw_data(1 | 2, 16, 1, &[param(0x70, 16, &[5; 16]), param(0x71, 4, &[0, 0, 0, 3]), sentinel.clone()].concat())])],
    vec![d1(vec![raw_data(1 | 2 | 4, 16, 1, &[param(0x800f, 3, &[1, 2, 3]), sentinel.clone(), vec![0, 1, 0, 0, 1, 2, 3, 4]].concat())])],
    vec![d1(vec![raw_data(1 | 2 | 4, 16, 1, &[vec![0x70, 0, 0, 0].repeat(64), sentinel.clone(), vec![0, 1, 0, 0]].concat())])],
    vec![d1(vec![raw_data(1 | 4, 16, 1, &[])]), d1(vec![raw_data(1 | 4, 16, 2, &[0, 1])]), d1(vec![raw_data(1 | 4, 16, 3, &[0, 1, 0])])],
    vec![d1(vec![raw_data(1 | 4 | 8, 16, 1, &[0, 1, 0, 0, 1])]), d1(vec![raw_data(1 | 8, 16, 2, &[0, 1, 0, 0, 1])]), d1(vec![raw_data(1, 16, 3, &[0, 1, 0, 0, 1])])],
    // datagrams that are not RTPS messages
    vec![d1(vec![Sub::Blob { bytes: vec![] }]), d1(vec![Sub::Blob { bytes: b"RTPS".to_vec() }]), d1(vec![Sub::Blob { bytes: b"RTPX\x02\x04\x01\x12aaaaaaaaaaaa".to_vec() }]), d1(vec![Sub::Blob { bytes: b"RTPS\x02\x04\x01\x12DDSPINGxxxxx".to_vec() }]), d1(vec![Sub::Blob { bytes: b"RTPS\x02\x04\x01\x12\x01DDSPING".to_vec() }])],
    vec![d1(vec![Sub::Blob { bytes: [b"RTPS\x02\x04\x01\x12".to_vec(), vec![1; 12], vec![0x01, 0, 0, 0].repeat(2000)].concat() }])],
  ];
  // sequences in which the same bad datagram repeats many times
  let rep = |d: Dgram, n: usize| -> Vec<Dgram> { (0..n).map(|_| d.clone()).collect() };
  v.push(rep(d1(vec![Sub::Gap { start: 5, base: 1 << 40, numbits: 256, words: vec![u32::MAX; 8] }]), 1000));
  v.push(rep(d1(vec![hb(1, 1 << 40, 1)]), 1000));
  v.push(rep(d1(vec![Sub::DataFrag { sn: 1, start: 1, in_sub: 65535, fsize: 4, total: 8, payload: cdr_payload(4) }]), 1000));
  v.push(rep(d1(vec![Sub::DataFrag { sn: 7, start: 2, in_sub: 1, fsize: 8, total: 1500, payload: cdr_payload(4) }]), 1000));
  v.push(rep(d1(vec![Sub::AckNack { base: i64::MAX, numbits: 256, words: vec![u32::MAX; 8], count: 1 }, Sub::NackFrag { sn: 3, base: 2, numbits: 256, words: vec![u32::MAX; 8], count: 1 }]), 1000));
  v.push(rep(d1(vec![data(5)]), 1000));
  v.push((0..200).map(|i| d1(vec![hb(1, 300, i + 1)])).collect());
  v.push((0..200).map(|i| d1(vec![Sub::Gap { start: 3 + 600 * i, base: 500 + 600 * i, numbits: 0, words: vec![] }])).collect());
  v.push((0..200).map(|i| Dgram { src: 3, subs: vec![Sub::DataFrag { sn: 1 + i, start: 1, in_sub: 1, fsize: 8, total: 1000, payload: cdr_payload(4) }] }).collect());
  v
}

fn coq_words(w: &[u32]) -> String {
  util::list(w.iter().map(|x| format!("{}", x)))
}
fn coq_sub(s: &Sub, parsed: bool) -> String {
  let z = |x: i64| util::z(x as i128);
  match s {
    Sub::Heartbeat { first, last, count, fin } => {
      format!("(Heartbeat {} {} {} {})", z(*first), z(*last), z(*count as i64), util::b(*fin))
    }
    Sub::Gap { start, base, numbits, words } => format!("(Gap {} {} {} {})", z(*start), z(*base), numbits, coq_words(words)),
    Sub::Data { sn, payload } => format!("(Data {} {})", z(*sn), payload.len()),
    Sub::DataFrag { sn, start, in_sub, fsize, total, payload } => {
      format!("(DataFrag {} {} {} {} {} {})", z(*sn), start, in_sub, fsize, total, payload.len())
    }
    Sub::AckNack { base, numbits, words, count } => {
      format!("(AckNack {} {} {} {})", z(*base), numbits, coq_words(words), z(*count as i64))
    }
    Sub::NackFrag { sn, base, numbits, words, count } => {
      format!("(NackFrag {} {} {} {} {})", z(*sn), base, numbits, coq_words(words), z(*count as i64))
    }
    Sub::HeartbeatFrag { sn, last_frag, count } => format!("(HeartbeatFrag {} {} {})", z(*sn), last_frag, z(*count as i64)),
    Sub::InfoTs { sec, frac } => format!("(InfoTs {} {})", sec, frac),
    Sub::InfoDst { who } => format!("(InfoDst {})", who),
    Sub::InfoSrc { who } => format!("(InfoSrc {})", who),
    Sub::Raw { id, flags, body, len_field } => format!(
      "(Raw {} {} {} {} {})",
      id,
      flags,
      body.len(),
      util::opt(len_field.map(|l| format!("{}", l))),
      util::b(parsed)
    ),
    Sub::Blob { bytes } => format!("(Blob {} {})", bytes.len(), util::b(parsed)),
  }
}
fn coq_case(c: &[Dgram], parsed: &[bool]) -> String {
  // run-length encoded: consecutive identical datagrams are printed once with their count
  let terms: Vec<String> = c
    .iter()
    .enumerate()
    .map(|(i, d)| {
      format!(
        "(Build_dgram {} {})",
        d.src,
        util::list(d.subs.iter().map(|s| coq_sub(s, parsed.get(i).copied().unwrap_or(false))))
      )
    })
    .collect();
  let mut rl: Vec<(usize, &String)> = Vec::new();
  for t in &terms {
    match rl.last_mut() {
      Some((n, u)) if *u == t => *n += 1,
      _ => rl.push((1, t)),
    }
  }
  format!("(Build_case {})", util::list(rl.iter().map(|(n, t)| format!("({}, {})", n, t))))
}

fn sub_tag(s: &Sub) -> &'static str {
  match s {
    Sub::Heartbeat { .. } => "heartbeat",
    Sub::Gap { .. } => "gap",
    Sub::Data { .. } => "data",
    Sub::DataFrag { .. } => "datafrag",
    Sub::AckNack { .. } => "acknack",
    Sub::NackFrag { .. } => "nackfrag",
    Sub::HeartbeatFrag { .. } => "heartbeatfrag",
    Sub::InfoTs { .. } => "infots",
    Sub::InfoDst { .. } => "infodst",
    Sub::InfoSrc { .. } => "infosrc",
    Sub::Raw { .. } => "raw",
    Sub::Blob { .. } => "blob",
  }
}

fn all_cases(args: &Args) -> Vec<(usize, &'static str, Vec<Dgram>)> {
  let mut cases = Vec::new();
  let mut idx = 0;
  for c in corpus() {
    cases.push((idx, "corpus", c));
    idx += 1;
  }
  for _ in 0..args.n {
    let mut r = Rng::for_case(args.seed, idx);
    let (kind, c) = match r.below(10) {
      0..=4 => ("hostile", gen_hostile(&mut r)),
      5 | 6 => ("valid", gen_valid(&mut r)),
      7 => {
        // valid traffic with a hostile datagram in the middle
        let mut v = gen_valid(&mut r);
        let h = gen_hostile(&mut r);
        let at = r.below(v.len() as u64 + 1) as usize;
        for (k, d) in h.into_iter().enumerate() {
          v.insert(at + k, d);
        }
        ("mixed", v)
      }
      _ => ("mutated", gen_mutated(&mut r)),
    };
    // the known-finding class is represented by structured cases; uninterpreted bytes that
    // happen to announce a huge sample would only slow the run down (the buffer is zeroed)
    let mut c = c;
    for d in c.iter_mut() {
      if blob_known_datafrag(&datagram(d)) > (1 << 24) {
        d.subs.retain(|s| !matches!(s, Sub::Raw { .. }));
        if let [Sub::Blob { bytes }] = d.subs.as_mut_slice() {
          bytes.truncate(40);
        }
      }
    }
    cases.push((idx, kind, c));
    idx += 1;
  }
  cases
}

// ---------- child: executes cases, one result line per case ----------
fn child_main(args: &Args) -> i32 {
  std::panic::set_hook(Box::new(|info| {
    if std::env::var("C06_VERBOSE").is_ok() {
      eprintln!("{info}");
    }
  }));
  let from: usize = args.get("from").and_then(|s| s.parse().ok()).unwrap_or(0);
  let stdout = std::io::stdout();
  for (i, _kind, c) in all_cases(args) {
    if i < from || args.only.map_or(false, |o| o != i) {
      continue;
    }
    {
      let mut o = stdout.lock();
      writeln!(o, "S\t{}", i).unwrap();
      o.flush().unwrap();
    }
    let dgs: Vec<Vec<u8>> = c.iter().map(datagram).collect();
    let res = run_case(&dgs);
    let obs = format!(
      "(Build_obs {} {} {} {} {} {} {} {} {} 0)",
      util::list(res.outcomes.iter().map(|o| format!("O{}", o))),
      util::list(dgs.iter().map(|d| format!("{}", d.len()))),
      util::list(res.replies.iter().map(|(w, b, s)| format!("({}, {}, {})", w, util::z(*b as i128), coq_zs(s)))),
      util::opt(res.digest.clone()),
      util::b(res.w2_delivered),
      util::opt(res.w2_base.map(|b| util::z(b as i128))),
      res.max_alloc,
      util::z(res.retained as i128),
      res.max_ms
    );
    let clean = res.outcomes.iter().all(|o| *o == "Ok") && res.w2_delivered && res.w2_base == Some(2);
    let mut o = stdout.lock();
    writeln!(
      o,
      "R\t{}\t{}\t{}\t{}\t{}\t{}",
      i,
      res.parsed.iter().map(|b| if *b { '1' } else { '0' }).collect::<String>(),
      obs,
      res.max_alloc,
      if clean { 1 } else { 0 },
      res.max_ms
    )
    .unwrap();
    o.flush().unwrap();
  }
  0
}

// ---------- parent ----------
enum Ev {
  Line(String),
  Eof,
}

pub fn run(args: &Args) -> i32 {
  if std::env::var("C06_CHILD").is_ok() {
    return child_main(args);
  }
  let mut out = CaseOut::new(
    args,
    "From Coq Require Import List ZArith.\nFrom RD Require Import Common.Corr C06.Model.\nImport ListNotations.\nOpen Scope Z_scope.",
    "check_c C06.Model.run C06.Model.case_obs_eqb C06.Model.ok",
    "C06.Model.case",
    "C06.Model.obs",
  );
  out.per_shard = 60;
  let cases = all_cases(args);
  let wanted: Vec<usize> = cases.iter().map(|c| c.0).filter(|i| args.only.map_or(true, |o| o == *i)).collect();
  let exe = std::env::current_exe().unwrap();
  let vlimit_kb = args.get("vlimit-kb").unwrap_or("3000000").to_string();
  let mut results: std::collections::BTreeMap<usize, (String, String, u64, bool, u128)> = Default::default();
  let mut from = 0usize;
  let mut restarts = 0;
  let last = wanted.last().copied();
  while last.map_or(false, |l| from <= l) && restarts < 12 {
    let mut cmd = Command::new("sh");
    cmd
      .arg("-c")
      .arg(format!("ulimit -v {}; exec \"$0\" \"$@\"", vlimit_kb))
      .arg(&exe)
      .arg("c06")
      .args(["--seed", &args.seed.to_string(), "--n", &args.n.to_string(), "--tier", &args.tier])
      .args(["--out", args.out.to_str().unwrap(), "--from", &from.to_string()])
      .env("C06_CHILD", "1")
      .stdout(Stdio::piped());
    if let Some(o) = args.only {
      cmd.args(["--only", &o.to_string()]);
    }
    let mut child = match cmd.spawn() {
      Ok(c) => c,
      Err(e) => {
        eprintln!("cannot spawn the case executor: {e}");
        return 3;
      }
    };
    let stdout = child.stdout.take().unwrap();
    let (tx, rx) = mpsc::channel();
    thread::spawn(move || {
      for l in BufReader::new(stdout).lines() {
        match l {
          Ok(l) => {
            if tx.send(Ev::Line(l)).is_err() {
              return;
            }
          }
          Err(_) => break,
        }
      }
      let _ = tx.send(Ev::Eof);
    });
    let mut current: Option<usize> = None;
    let mut why = "";
    loop {
      match rx.recv_timeout(StdDuration::from_secs(20)) {
        Ok(Ev::Line(l)) => {
          let p: Vec<&str> = l.split('\t').collect();
          match p.as_slice() {
            ["S", i] => current = i.parse().ok(),
            ["R", i, parsed, obs, alloc, clean, ms] => {
              results.insert(
                i.parse().unwrap(),
                (parsed.to_string(), obs.to_string(), alloc.parse().unwrap_or(0), *clean == "1", ms.parse().unwrap_or(0)),
              );
              current = None;
            }
            _ => {}
          }
        }
        Ok(Ev::Eof) => {
          why = "Crash";
          break;
        }
        Err(_) => {
          why = "Hang";
          let _ = child.kill();
          break;
        }
      }
    }
    let status = child.wait();
    match current {
      Some(i) => {
        // the executor died or hung while case i was running
        eprintln!("c06: executor {} in case {} ({:?})", why, i, status);
        let c = &cases.iter().find(|c| c.0 == i).unwrap().2;
        let obs = format!(
          "(Build_obs [O{}] {} [] None false None 0 0 0 0)",
          why,
          util::list(c.iter().map(|d| format!("{}", datagram(d).len())))
        );
        results.insert(i, ("".to_string(), obs, 0, false, 0));
        from = i + 1;
        restarts += 1;
      }
      None => break,
    }
  }
  for (i, kind, c) in &cases {
    let Some((parsed, obs, alloc, clean, ms)) = results.get(i) else { continue };
    let parsed: Vec<bool> = parsed.chars().map(|ch| ch == '1').collect();
    let flat: Vec<&Sub> = c.iter().flat_map(|d| d.subs.iter()).collect();
    let known = flat.iter().any(|s| sub_known(s)) || c.iter().any(|d| blob_known_datafrag(&datagram(d)) > 0);
    // the known finding is the allocation only: anything else that goes wrong in such a case is
    // reported as a violation
    let kf = if known && *clean { "C06-datafrag-size" } else { "" };
    let mut tags: Vec<String> = vec![format!("kind:{}", kind)];
    let mut kinds: Vec<&str> = flat.iter().map(|s| sub_tag(s)).collect();
    kinds.sort();
    kinds.dedup();
    tags.extend(kinds.iter().map(|k| format!("sub:{}", k)));
    tags.push(format!("datagrams:{}", match c.len() { 0 => "0", 1 => "1", 2..=4 => "2-4", 5..=20 => "5-20", _ => ">20" }));
    tags.push(format!("outcome:{}", if obs.contains("OCrash") { "crash" } else if obs.contains("OHang") { "hang" } else { "ok" }));
    tags.push(format!("alloc_bucket:{}", match alloc { 0..=65535 => "<64K", 65536..=1048575 => "<1M", 1048576..=16777215 => "<16M", _ => ">=16M" }));
    tags.push(format!("ms_bucket:{}", match ms { 0..=9 => "<10", 10..=99 => "<100", 100..=999 => "<1000", _ => ">=1000" }));
    tags.push(format!("parsed:{}of{}", parsed.iter().filter(|b| **b).count().min(3), c.len().min(3)));
    if known {
      tags.push("known_class:C06-datafrag-size".to_string());
    }
    if flat.iter().any(|s| sub_too_big(s)) {
      tags.push("too_big_for_model".to_string());
    }
    let exact = !flat.iter().any(|s| sub_too_big(s))
      && c.iter().enumerate().all(|(k, d)| {
        !(parsed.get(k).copied().unwrap_or(false) && d.subs.iter().any(|s| matches!(s, Sub::Raw { .. } | Sub::Blob { .. })))
      });
    tags.push(format!("exact:{}", exact));
    out.push_kf(*i, coq_case(c, &parsed), obs.clone(), &tags, !c.is_empty(), kf);
  }
  out.finish()
}
