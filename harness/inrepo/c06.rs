// C06 driver: hostile datagrams into a real MessageReceiver (reliable Reader with two matched remote
// writers) and a real reliable Writer (one matched remote reader).  Every case runs on its own thread
// under a watchdog; panics are caught; bytes allocated while handling each datagram are measured by
// the counting allocator installed by the harness binary.
use std::{
  sync::mpsc,
  thread,
  time::{Duration as StdDuration, Instant},
};

use bytes::Bytes;
use mio_extras::channel as mio_channel;

use crate::{
  dds::qos::{policy::*, QosPolicies, QosPolicyBuilder},
  messages::submessages::submessages::AckSubmessage,
  rtps::{
    message::Message, message_receiver::MessageReceiver, rtps_reader_proxy::RtpsReaderProxy,
    rtps_writer_proxy::RtpsWriterProxy,
  },
  structure::{
    duration::Duration,
    guid::{EntityId, EntityKind, GuidPrefix, GUID},
  },
};
use super::{
  capture, mk,
  util::{self, Args, CaseOut, Rng},
};

// ---------- allocation probe (set by the harness binary) ----------
static mut ALLOC_PROBE: Option<fn() -> u64> = None;
pub fn set_alloc_probe(f: fn() -> u64) {
  unsafe { ALLOC_PROBE = Some(f) }
}
fn allocated() -> u64 {
  unsafe { ALLOC_PROBE.map(|f| f()).unwrap_or(0) }
}

// ---------- wire encoder, independent of the implementation's serialiser ----------
pub const P_OWN: [u8; 12] = [9; 12];
pub const P_W1: [u8; 12] = [1; 12];
pub const P_W2: [u8; 12] = [2; 12];
pub const E_READER: [u8; 4] = [0, 0, 1, 0x07];
pub const E_RWRITER: [u8; 4] = [0, 0, 2, 0x02]; // remote writer entity (on W1 and W2)
pub const E_LWRITER: [u8; 4] = [0, 0, 3, 0x02]; // local writer
pub const E_RREADER: [u8; 4] = [0, 0, 4, 0x07]; // remote reader (on W1) matched to local writer

#[derive(Clone, Debug)]
pub enum Sub {
  Heartbeat { first: i64, last: i64, count: i32, fin: bool },
  Gap { start: i64, base: i64, numbits: u32, words: Vec<u32> },
  Data { sn: i64, payload: Vec<u8> },
  DataFrag { sn: i64, start: u32, in_sub: u16, fsize: u16, total: u32, payload: Vec<u8> },
  AckNack { base: i64, numbits: u32, words: Vec<u32>, count: i32 },
  NackFrag { sn: i64, base: u32, numbits: u32, words: Vec<u32>, count: i32 },
  HeartbeatFrag { sn: i64, last_frag: u32, count: i32 },
  InfoTs { sec: u32, frac: u32 },
  Raw { id: u8, flags: u8, body: Vec<u8>, len_field: Option<u16> },
}

fn sn_bytes(sn: i64, out: &mut Vec<u8>) {
  out.extend_from_slice(&((sn >> 32) as i32).to_le_bytes());
  out.extend_from_slice(&(sn as u32).to_le_bytes());
}

fn sub_bytes(s: &Sub, out: &mut Vec<u8>) {
  let mut body = Vec::new();
  let (id, flags, len_override): (u8, u8, Option<u16>) = match s {
    Sub::Heartbeat { first, last, count, fin } => {
      body.extend_from_slice(&E_READER);
      body.extend_from_slice(&E_RWRITER);
      sn_bytes(*first, &mut body);
      sn_bytes(*last, &mut body);
      body.extend_from_slice(&count.to_le_bytes());
      (0x07, 1 | if *fin { 2 } else { 0 }, None)
    }
    Sub::Gap { start, base, numbits, words } => {
      body.extend_from_slice(&E_READER);
      body.extend_from_slice(&E_RWRITER);
      sn_bytes(*start, &mut body);
      sn_bytes(*base, &mut body);
      body.extend_from_slice(&numbits.to_le_bytes());
      for w in words {
        body.extend_from_slice(&w.to_le_bytes());
      }
      (0x08, 1, None)
    }
    Sub::Data { sn, payload } => {
      body.extend_from_slice(&0u16.to_le_bytes());
      body.extend_from_slice(&16u16.to_le_bytes());
      body.extend_from_slice(&E_READER);
      body.extend_from_slice(&E_RWRITER);
      sn_bytes(*sn, &mut body);
      body.extend_from_slice(payload);
      (0x15, 1 | 4, None) // E + D
    }
    Sub::DataFrag { sn, start, in_sub, fsize, total, payload } => {
      body.extend_from_slice(&0u16.to_le_bytes());
      body.extend_from_slice(&28u16.to_le_bytes());
      body.extend_from_slice(&E_READER);
      body.extend_from_slice(&E_RWRITER);
      sn_bytes(*sn, &mut body);
      body.extend_from_slice(&start.to_le_bytes());
      body.extend_from_slice(&in_sub.to_le_bytes());
      body.extend_from_slice(&fsize.to_le_bytes());
      body.extend_from_slice(&total.to_le_bytes());
      body.extend_from_slice(payload);
      (0x16, 1, None)
    }
    Sub::AckNack { base, numbits, words, count } => {
      body.extend_from_slice(&E_RREADER);
      body.extend_from_slice(&E_LWRITER);
      sn_bytes(*base, &mut body);
      body.extend_from_slice(&numbits.to_le_bytes());
      for w in words {
        body.extend_from_slice(&w.to_le_bytes());
      }
      body.extend_from_slice(&count.to_le_bytes());
      (0x06, 1, None)
    }
    Sub::NackFrag { sn, base, numbits, words, count } => {
      body.extend_from_slice(&E_RREADER);
      body.extend_from_slice(&E_LWRITER);
      sn_bytes(*sn, &mut body);
      body.extend_from_slice(&base.to_le_bytes());
      body.extend_from_slice(&numbits.to_le_bytes());
      for w in words {
        body.extend_from_slice(&w.to_le_bytes());
      }
      body.extend_from_slice(&count.to_le_bytes());
      (0x12, 1, None)
    }
    Sub::HeartbeatFrag { sn, last_frag, count } => {
      body.extend_from_slice(&E_READER);
      body.extend_from_slice(&E_RWRITER);
      sn_bytes(*sn, &mut body);
      body.extend_from_slice(&last_frag.to_le_bytes());
      body.extend_from_slice(&count.to_le_bytes());
      (0x13, 1, None)
    }
    Sub::InfoTs { sec, frac } => {
      body.extend_from_slice(&sec.to_le_bytes());
      body.extend_from_slice(&frac.to_le_bytes());
      (0x09, 1, None)
    }
    Sub::Raw { id, flags, body: b, len_field } => {
      body.extend_from_slice(b);
      (*id, *flags, *len_field)
    }
  };
  while body.len() % 4 != 0 && len_override.is_none() {
    body.push(0);
  }
  out.push(id);
  out.push(flags);
  let l = len_override.unwrap_or(body.len() as u16);
  out.extend_from_slice(&l.to_le_bytes());
  out.extend_from_slice(&body);
}

pub fn datagram(src: &[u8; 12], subs: &[Sub]) -> Vec<u8> {
  let mut out = Vec::new();
  out.extend_from_slice(b"RTPS");
  out.extend_from_slice(&[2, 4, 1, 18]);
  out.extend_from_slice(src);
  for s in subs {
    sub_bytes(s, &mut out);
  }
  out
}

fn cdr_payload(n: usize) -> Vec<u8> {
  let mut v = vec![0, 1, 0, 0];
  v.extend((0..n).map(|i| (i * 7 + 1) as u8));
  v
}

// ---------- the system under test ----------
struct Sut {
  mr: MessageReceiver,
  ack_rx: mio_channel::Receiver<(GuidPrefix, AckSubmessage)>,
  _live_rx: mio_channel::Receiver<GuidPrefix>,
  wk: mk::WriterKit,
  topic_cache: std::sync::Arc<std::sync::Mutex<crate::structure::dds_cache::TopicCache>>,
  _rk_rest: (
    crate::dds::statusevents::StatusChannelReceiver<crate::dds::statusevents::DataReaderStatus>,
    mio_channel::Receiver<()>,
    std::sync::Arc<std::sync::RwLock<crate::structure::dds_cache::DDSCache>>,
  ),
}

fn reliable_qos() -> QosPolicies {
  QosPolicyBuilder::new()
    .reliability(Reliability::Reliable { max_blocking_time: Duration::from_millis(100) })
    .history(History::KeepAll)
    .build()
}

fn build_sut() -> Sut {
  let own = GuidPrefix::new(&P_OWN);
  let (ack_tx, ack_rx) = mio_channel::sync_channel::<(GuidPrefix, AckSubmessage)>(100);
  let (live_tx, live_rx) = mio_channel::sync_channel::<GuidPrefix>(100);
  let mut mr = MessageReceiver::new(own, ack_tx, live_tx, None);
  let rguid = GUID::new(own, EntityId::new([0, 0, 1], EntityKind::READER_WITH_KEY_USER_DEFINED));
  let mut rk = mk::make_reader(rguid, "c06_topic", reliable_qos());
  for p in [P_W1, P_W2] {
    let wg = GUID::new(
      GuidPrefix::new(&p),
      EntityId::new([0, 0, 2], EntityKind::WRITER_WITH_KEY_USER_DEFINED),
    );
    let loc = crate::structure::locator::Locator::from(std::net::SocketAddr::from((
      [127, 0, 0, 1],
      17400 + p[0] as u16,
    )));
    rk.reader.update_writer_proxy(
      RtpsWriterProxy::new(wg, vec![loc], vec![], EntityId::UNKNOWN),
      &reliable_qos(),
    );
  }
  let topic_cache = rk.topic_cache.clone();
  let rest = (rk.status, rk.notification, rk.dds_cache);
  mr.add_reader(rk.reader);
  let lw = GUID::new(own, EntityId::new([0, 0, 3], EntityKind::WRITER_WITH_KEY_USER_DEFINED));
  let mut wk = mk::make_writer(lw, "c06_wtopic", reliable_qos());
  let rr = GUID::new(
    GuidPrefix::new(&P_W1),
    EntityId::new([0, 0, 4], EntityKind::READER_WITH_KEY_USER_DEFINED),
  );
  wk.writer
    .update_reader_proxy(&RtpsReaderProxy::new(rr, reliable_qos(), false), &reliable_qos());
  Sut { mr, ack_rx, _live_rx: live_rx, wk, topic_cache, _rk_rest: rest }
}

impl Sut {
  /// what dp_event_loop does with one received datagram
  fn feed(&mut self, bytes: &[u8]) {
    self.mr.handle_received_packet(&Bytes::copy_from_slice(bytes));
    while let Ok((prefix, sub)) = self.ack_rx.try_recv() {
      self.wk.writer.handle_ack_nack(prefix, &sub);
    }
  }
  fn cache_len(&self) -> usize {
    self
      .topic_cache
      .lock()
      .unwrap()
      .get_changes_in_range_best_effort(
        crate::structure::time::Timestamp::ZERO,
        crate::structure::time::Timestamp::now(),
      )
      .count()
  }
}

/// the ACKNACK the reader sent in reply (base, set bits), if any
fn last_acknack(dgs: &[(crate::structure::locator::Locator, Vec<u8>)]) -> Option<(i64, Vec<i64>)> {
  let mut res = None;
  for (_, b) in dgs {
    if let Ok(m) = Message::read_from_buffer(&Bytes::copy_from_slice(b)) {
      for s in m.submessages {
        if let crate::rtps::SubmessageBody::Reader(
          crate::messages::submessages::submessages::ReaderSubmessage::AckNack(an, _),
        ) = s.body
        {
          res = Some((
            i64::from(an.reader_sn_state.base()),
            an.reader_sn_state.iter().map(i64::from).collect(),
          ));
        }
      }
    }
  }
  res
}

#[derive(Debug, Clone)]
pub struct CaseResult {
  pub outcomes: Vec<&'static str>, // per hostile datagram: "Ok" | "Panic"
  pub max_alloc: u64,
  pub max_ms: u128,
  pub w1_base: Option<i64>,       // ACKNACK base answering the W1 probe heartbeat
  pub w2_delivered: bool,         // the well-behaved writer's sample reached the cache
  pub w2_base: Option<i64>,       // ... and was acknowledged
  pub hang: bool,
}

fn run_case(dgs: Vec<Vec<u8>>, probe_last: i64) -> CaseResult {
  let (tx, rx) = mpsc::channel();
  let n = dgs.len();
  thread::spawn(move || {
    capture::enable();
    let mut sut = build_sut();
    let mut outcomes = Vec::new();
    let mut max_alloc = 0;
    let mut max_ms = 0;
    let mut dead = false;
    for d in &dgs {
      let a0 = allocated();
      let t0 = Instant::now();
      let r = std::panic::catch_unwind(std::panic::AssertUnwindSafe(|| sut.feed(d)));
      max_ms = max_ms.max(t0.elapsed().as_millis());
      max_alloc = max_alloc.max(allocated().saturating_sub(a0));
      let _ = tx.send(None);
      match r {
        Ok(()) => outcomes.push("Ok"),
        Err(_) => {
          outcomes.push("Panic");
          dead = true;
          break;
        }
      }
    }
    capture::drain();
    let mut res = CaseResult {
      outcomes,
      max_alloc,
      max_ms,
      w1_base: None,
      w2_delivered: false,
      w2_base: None,
      hang: false,
    };
    if !dead {
      // the participant must keep working: W1's state is probed with a non-final heartbeat,
      // and a well-behaved peer W2 sends one sample + heartbeat
      let r = std::panic::catch_unwind(std::panic::AssertUnwindSafe(|| {
        sut.feed(&datagram(
          &P_W1,
          &[Sub::Heartbeat { first: 1, last: probe_last, count: i32::MAX, fin: false }],
        ));
        let w1 = last_acknack(&capture::drain());
        let before = sut.cache_len();
        sut.feed(&datagram(
          &P_W2,
          &[
            Sub::Data { sn: 1, payload: cdr_payload(8) },
            Sub::Heartbeat { first: 1, last: 1, count: 1, fin: false },
          ],
        ));
        let w2 = last_acknack(&capture::drain());
        (w1, sut.cache_len() > before, w2)
      }));
      if let Ok((w1, deliv, w2)) = r {
        res.w1_base = w1.map(|x| x.0);
        res.w2_delivered = deliv;
        res.w2_base = w2.map(|x| x.0);
      } else {
        res.outcomes.push("Panic");
      }
    }
    let _ = tx.send(Some(res));
  });
  // watchdog: 4 s without progress = hang
  let mut done = 0;
  loop {
    match rx.recv_timeout(StdDuration::from_secs(6)) {
      Ok(Some(r)) => return r,
      Ok(None) => done += 1,
      Err(_) => {
        let mut outcomes = vec!["Ok"; done.min(n)];
        outcomes.push("Hang");
        return CaseResult {
          outcomes,
          max_alloc: 0,
          max_ms: 6000,
          w1_base: None,
          w2_delivered: false,
          w2_base: None,
          hang: true,
        };
      }
    }
  }
}

// ---------- generation ----------
const EDGE: [i64; 22] = [
  i64::MIN,
  i64::MIN + 1,
  -(1 << 32),
  -2,
  -1,
  0,
  1,
  2,
  3,
  7,
  255,
  256,
  257,
  300,
  1000,
  (1 << 31) - 1,
  1 << 31,
  1 << 32,
  (1 << 32) + 1,
  1 << 40,
  i64::MAX - 1,
  i64::MAX,
];

fn edge(r: &mut Rng) -> i64 {
  match r.below(4) {
    0 => *r.pick(&EDGE),
    1 => r.range(0, 12),
    2 => r.pick(&EDGE).saturating_add(r.range(-2, 2)),
    _ => r.range(1, 600),
  }
}
fn edge_u32(r: &mut Rng) -> u32 {
  *r.pick(&[0u32, 1, 2, 3, 31, 32, 33, 255, 256, 257, 65535, 65536, 1 << 31, u32::MAX - 1, u32::MAX])
}
fn words(r: &mut Rng, numbits: u32) -> Vec<u32> {
  let n = ((numbits.min(512) + 31) / 32) as usize;
  (0..n)
    .map(|_| match r.below(4) {
      0 => 0,
      1 => u32::MAX,
      2 => 1 << r.below(32),
      _ => r.next() as u32,
    })
    .collect()
}

/// Known-finding classes (syntactic, on the case itself).
fn kf_class(subs: &[Sub]) -> &'static str {
  for s in subs {
    match s {
      // GAP whose [start, base) range is inserted element by element (irrelevant_changes_range,
      // else-branch): cost proportional to base - start
      Sub::Gap { start, base, .. } if *start >= 1 && *base >= 1 && base.saturating_sub(*start) > 100_000 => {
        return "C06-gap-span"
      }
      // one DATAFRAG makes the assembler allocate sampleSize bytes
      Sub::DataFrag { total, .. } if *total > 4_000_000 => return "C06-datafrag-size",
      _ => {}
    }
  }
  ""
}

fn gen_sub(r: &mut Rng, spans_small: bool) -> Sub {
  let clamp = |x: i64, lo: i64| if spans_small { x.clamp(lo, lo.saturating_add(2000)) } else { x };
  match r.below(10) {
    0 | 1 => {
      let first = edge(r);
      let last = if r.chance(1, 2) { clamp(edge(r), first.saturating_sub(2)) } else { first.saturating_add(r.range(-2, 300)) };
      Sub::Heartbeat { first, last, count: r.range(1, 1 << 20) as i32, fin: r.chance(1, 2) }
    }
    2 | 3 => {
      let start = edge(r);
      let base = if r.chance(1, 2) { clamp(edge(r), start.saturating_sub(2)) } else { start.saturating_add(r.range(-2, 300)) };
      let numbits = if r.chance(3, 4) { r.range(0, 256) as u32 } else { edge_u32(r) };
      Sub::Gap { start, base, numbits, words: words(r, numbits) }
    }
    4 => Sub::Data { sn: edge(r), payload: cdr_payload(r.range(0, 40) as usize) },
    5 => {
      let fsize = *r.pick(&[0u16, 1, 4, 7, 8, 1024, 60000, 65535]);
      let total = if r.chance(3, 4) { r.range(0, 64) as u32 } else { edge_u32(r) };
      Sub::DataFrag {
        sn: edge(r),
        start: if r.chance(3, 4) { r.range(0, 20) as u32 } else { edge_u32(r) },
        in_sub: *r.pick(&[0u16, 1, 2, 3, 255, 65535]),
        fsize,
        total: if spans_small { total.min(3_000_000) } else { total },
        payload: cdr_payload(r.range(0, 24) as usize),
      }
    }
    6 | 7 => {
      let numbits = if r.chance(3, 4) { r.range(0, 256) as u32 } else { edge_u32(r) };
      Sub::AckNack { base: edge(r), numbits, words: words(r, numbits), count: r.range(-3, 1000) as i32 }
    }
    8 => {
      let numbits = if r.chance(3, 4) { r.range(0, 256) as u32 } else { edge_u32(r) };
      Sub::NackFrag { sn: edge(r), base: edge_u32(r), numbits, words: words(r, numbits), count: r.range(0, 100) as i32 }
    }
    _ => match r.below(3) {
      0 => Sub::HeartbeatFrag { sn: edge(r), last_frag: edge_u32(r), count: r.range(0, 100) as i32 },
      1 => Sub::InfoTs { sec: edge_u32(r), frac: edge_u32(r) },
      _ => {
        let n = r.range(0, 40) as usize;
        Sub::Raw {
          id: *r.pick(&[0x01u8, 0x06, 0x07, 0x08, 0x09, 0x0c, 0x0d, 0x0e, 0x0f, 0x12, 0x13, 0x15, 0x16, 0x30, 0x31, 0x32, 0x33, 0x80, 0xff]),
          flags: r.next() as u8,
          body: (0..n).map(|_| r.next() as u8).collect(),
          len_field: if r.chance(1, 2) { Some(*r.pick(&[0u16, 1, 3, 4, 8, 100, 65535])) } else { None },
        }
      }
    },
  }
}

fn coq_words(w: &[u32]) -> String {
  util::list(w.iter().map(|x| format!("{}", x)))
}
fn coq_sub(s: &Sub) -> String {
  match s {
    Sub::Heartbeat { first, last, count, fin } => format!(
      "(Heartbeat {} {} {} {})",
      util::z(*first as i128),
      util::z(*last as i128),
      util::z(*count as i128),
      util::b(*fin)
    ),
    Sub::Gap { start, base, numbits, words } => format!(
      "(Gap {} {} {} {})",
      util::z(*start as i128),
      util::z(*base as i128),
      numbits,
      coq_words(words)
    ),
    Sub::Data { sn, payload } => format!("(Data {} {})", util::z(*sn as i128), payload.len()),
    Sub::DataFrag { sn, start, in_sub, fsize, total, payload } => format!(
      "(DataFrag {} {} {} {} {} {})",
      util::z(*sn as i128),
      start,
      in_sub,
      fsize,
      total,
      payload.len()
    ),
    Sub::AckNack { base, numbits, words, count } => format!(
      "(AckNack {} {} {} {})",
      util::z(*base as i128),
      numbits,
      coq_words(words),
      util::z(*count as i128)
    ),
    Sub::NackFrag { sn, base, numbits, words, count } => format!(
      "(NackFrag {} {} {} {} {})",
      util::z(*sn as i128),
      base,
      numbits,
      coq_words(words),
      util::z(*count as i128)
    ),
    Sub::HeartbeatFrag { sn, last_frag, count } => {
      format!("(HeartbeatFrag {} {} {})", util::z(*sn as i128), last_frag, util::z(*count as i128))
    }
    Sub::InfoTs { sec, frac } => format!("(InfoTs {} {})", sec, frac),
    Sub::Raw { id, flags, body, len_field } => format!(
      "(Raw {} {} {} {})",
      id,
      flags,
      body.len(),
      util::opt(len_field.map(|l| format!("{}", l)))
    ),
  }
}

fn corpus() -> Vec<Vec<Vec<Sub>>> {
  let hb = |first, last, count| Sub::Heartbeat { first, last, count, fin: false };
  vec![
    // F6: heartbeat advertising a huge range (was: loop over the whole range)
    vec![vec![hb(1, 1 << 40, 1)]],
    vec![vec![hb(1, i64::MAX, 1)]],
    vec![vec![hb(i64::MAX, i64::MAX, 1)], vec![Sub::Data { sn: i64::MAX, payload: cdr_payload(4) }]],
    vec![vec![hb(i64::MAX - 1, i64::MAX, 1)], vec![Sub::Data { sn: i64::MAX - 1, payload: cdr_payload(4) }], vec![Sub::Data { sn: i64::MAX, payload: cdr_payload(4) }]],
    // number sets whose elements overflow the number type
    vec![vec![Sub::Gap { start: i64::MAX - 3, base: i64::MAX - 2, numbits: 32, words: vec![u32::MAX] }]],
    vec![vec![Sub::AckNack { base: i64::MAX - 2, numbits: 32, words: vec![u32::MAX], count: 1 }]],
    vec![vec![Sub::NackFrag { sn: 1, base: u32::MAX - 2, numbits: 32, words: vec![u32::MAX], count: 1 }]],
    vec![vec![Sub::NackFrag { sn: 1, base: 0, numbits: 32, words: vec![u32::MAX], count: 1 }]],
    // F2: inconsistent DATAFRAG fields
    vec![vec![Sub::DataFrag { sn: 1, start: 1, in_sub: 65535, fsize: 4, total: 8, payload: cdr_payload(4) }]],
    vec![
      vec![Sub::DataFrag { sn: 1, start: 1, in_sub: 1, fsize: 60000, total: 120000, payload: cdr_payload(8) }],
      vec![Sub::DataFrag { sn: 2, start: 10, in_sub: 1, fsize: 1, total: 10, payload: cdr_payload(1) }],
    ],
    vec![
      vec![Sub::DataFrag { sn: 1, start: 1, in_sub: 1, fsize: 8, total: 16, payload: cdr_payload(4) }],
      vec![Sub::DataFrag { sn: 1, start: 2, in_sub: 1, fsize: 8, total: 64, payload: cdr_payload(4) }],
    ],
    vec![vec![Sub::DataFrag { sn: 1, start: 0, in_sub: 1, fsize: 8, total: 16, payload: cdr_payload(4) }]],
    vec![vec![Sub::DataFrag { sn: 1, start: 1, in_sub: 1, fsize: 0, total: 16, payload: cdr_payload(4) }]],
    // known findings (kept small enough to run): GAP span, DATAFRAG sample size
    vec![vec![Sub::Gap { start: 5, base: 5 + 300_000, numbits: 0, words: vec![] }]],
    vec![vec![Sub::DataFrag { sn: 1, start: 1, in_sub: 1, fsize: 1024, total: 8_000_000, payload: cdr_payload(1020) }]],
  ]
}

pub fn run(args: &Args) -> i32 {
  let mut out = CaseOut::new(
    args,
    "From Coq Require Import List ZArith.\nFrom RD Require Import Common.Corr C06.Model.\nImport ListNotations.\nOpen Scope Z_scope.",
    "check_c C06.Model.run C06.Model.case_obs_eqb C06.Model.ok",
    "C06.Model.case",
    "C06.Model.obs",
  );
  // quiet panic messages of the (expected-to-be-caught) hostile cases
  std::panic::set_hook(Box::new(|info| {
    if thread::current().name() == Some("main") || std::env::var("C06_VERBOSE").is_ok() {
      eprintln!("{info}");
    }
  }));
  let mut cases: Vec<(usize, Vec<Vec<Sub>>)> = Vec::new();
  let mut idx = 0;
  for c in corpus() {
    cases.push((idx, c));
    idx += 1;
  }
  for _ in 0..args.n {
    let mut r = Rng::for_case(args.seed, idx);
    let ndg = r.range(1, 4) as usize;
    let mut c = Vec::new();
    for _ in 0..ndg {
      let ns = r.range(1, 3) as usize;
      c.push((0..ns).map(|_| gen_sub(&mut r, true)).collect::<Vec<_>>());
    }
    cases.push((idx, c));
    idx += 1;
  }
  if let Some(o) = args.only {
    cases.retain(|(i, _)| *i == o);
  }
  let mut hangs = 0;
  for (i, c) in &cases {
    let flat: Vec<Sub> = c.iter().flatten().cloned().collect();
    let kf = kf_class(&flat);
    if hangs >= 3 {
      break; // do not burn the machine: each hang leaves a spinning thread behind
    }
    let dgs: Vec<Vec<u8>> = c.iter().map(|subs| datagram(&P_W1, subs)).collect();
    let total_bytes: usize = dgs.iter().map(|d| d.len()).sum();
    let res = run_case(dgs, 3);
    if res.hang {
      hangs += 1;
    }
    let mut tags: Vec<String> = flat
      .iter()
      .map(|s| {
        format!(
          "sub:{}",
          match s {
            Sub::Heartbeat { .. } => "heartbeat",
            Sub::Gap { .. } => "gap",
            Sub::Data { .. } => "data",
            Sub::DataFrag { .. } => "datafrag",
            Sub::AckNack { .. } => "acknack",
            Sub::NackFrag { .. } => "nackfrag",
            Sub::HeartbeatFrag { .. } => "heartbeatfrag",
            Sub::InfoTs { .. } => "infots",
            Sub::Raw { .. } => "raw",
          }
        )
      })
      .collect();
    tags.push(format!("outcome:{}", res.outcomes.last().copied().unwrap_or("none")));
    tags.push(format!("alloc_bucket:{}", match res.max_alloc { 0..=65535 => "<64K", 65536..=1048575 => "<1M", 1048576..=16777215 => "<16M", _ => ">=16M" }));
    tags.push(format!("w2_delivered:{}", res.w2_delivered));
    if !kf.is_empty() {
      tags.push(format!("known_class:{}", kf));
    }
    let case = format!(
      "(Build_case {} {})",
      util::list(c.iter().map(|subs| util::list(subs.iter().map(coq_sub)))),
      total_bytes
    );
    let obs = format!(
      "(Build_obs {} {} {} {} {} {})",
      util::list(res.outcomes.iter().map(|o| format!("O{}", o))),
      res.max_alloc,
      res.max_ms,
      util::opt(res.w1_base.map(|b| util::z(b as i128))),
      util::b(res.w2_delivered),
      util::opt(res.w2_base.map(|b| util::z(b as i128)))
    );
    out.push_kf(*i, case, obs, &tags, true, kf);
  }
  out.finish()
}
