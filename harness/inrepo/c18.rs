// C18 driver: the builtin access-control plugin's decision functions on generated permissions /
// governance documents (built directly as structs AND parsed from rendered XML AND, for a subset,
// signed with the shipped Permissions CA key and loaded by the real validate_local_permissions),
// glob::Pattern table tie, DomainIds::matches, find_grant / find_rule, and the S/MIME signature
// verifier on every alteration class of a signed document.
use std::{
  fs,
  panic::{catch_unwind, AssertUnwindSafe},
  path::{Path, PathBuf},
  process::Command,
};

use chrono::{DateTime, Utc};
use glob::Pattern;

use crate::{
  dds::qos::{policy, QosPolicies, QosPolicyBuilder},
  discovery::{
    sedp_messages::{
      DiscoveredReaderData, DiscoveredWriterData, PublicationBuiltinTopicData, ReaderProxy,
      SubscriptionBuiltinTopicData, TopicBuiltinTopicData, WriterProxy,
    },
  },
  security::{
    access_control::{
      access_control_builtin::{verif::*, AccessControlBuiltin},
      LocalEntityAccessControl, ParticipantAccessControl, RemoteEntityAccessControl,
    },
    authentication::authentication_builtin::AuthenticationBuiltin,
    types::Property,
    PublicationBuiltinTopicDataSecure, SecurityResult, SubscriptionBuiltinTopicDataSecure,
  },
  structure::guid::{EntityId, EntityKind, GuidPrefix, GUID},
};
use super::util::{self, Args, CaseOut, Rng};

// ------------------------------------------------------------------ abstract documents

#[derive(Clone, Debug)]
enum ADom {
  Value(u16),
  Range(u16, u16),
  Min(u16),
  Max(u16),
}
#[derive(Clone, Debug)]
struct ACrit {
  topics: Vec<String>,
  partitions: Vec<String>,
  tags: Vec<(String, String)>,
}
#[derive(Clone, Debug)]
struct ARule {
  allow: bool,
  domains: Vec<ADom>,
  publish: Vec<ACrit>,
  subscribe: Vec<ACrit>,
  relay: Vec<ACrit>,
}
#[derive(Clone, Debug)]
struct AGrant {
  subject: i64,
  not_before: i64,
  not_after: i64,
  rules: Vec<ARule>,
  default_allow: bool,
  time_fmt: u8, // how the validity is written in XML: 0 = no zone, 1 = Z, 2 = +02:00
}
#[derive(Clone, Debug)]
struct ATopicRule {
  expr: String,
  read: bool,
  write: bool,
}
#[derive(Clone, Debug)]
struct ADomainRule {
  domains: Vec<ADom>,
  topic_rules: Vec<ATopicRule>,
}

const SUBJECTS: [&str; 5] = [
  "CN=participant1_common_name,O=Example Organization", // = subject of the shipped cert.pem
  "CN=participant2_common_name,O=Example Organization",
  "CN=verif_subject_2",
  "CN=participant1_common_name",
  "O=Example Organization,CN=participant1_common_name",
];

/// nominal "now" of the check_* cases: every generated validity window either contains
/// [NOW - 1 year, NOW + 1 year] or is disjoint from it, and the real clock is asserted to be inside.
const NOW: i64 = 1_800_000_000;
const YEAR: i64 = 31_536_000;

// ------------------------------------------------------------------ Coq printing

fn cstr(s: &str) -> String {
  util::list(s.chars().map(|c| format!("{}", c as u32)))
}
fn cstrs(v: &[String]) -> String {
  util::list(v.iter().map(|s| cstr(s)))
}
fn cdom(d: &ADom) -> String {
  match d {
    ADom::Value(v) => format!("DValue {}", v),
    ADom::Range(a, b) => format!("DRange {} {}", a, b),
    ADom::Min(a) => format!("DMin {}", a),
    ADom::Max(a) => format!("DMax {}", a),
  }
}
fn cdoms(v: &[ADom]) -> String {
  util::list(v.iter().map(cdom))
}
fn ccrit(c: &ACrit) -> String {
  format!(
    "(Build_criterion {} {} {})",
    cstrs(&c.topics),
    cstrs(&c.partitions),
    util::list(c.tags.iter().map(|(n, v)| format!("({}, {})", cstr(n), cstr(v))))
  )
}
fn ccrits(v: &[ACrit]) -> String {
  util::list(v.iter().map(ccrit))
}
fn crule(r: &ARule) -> String {
  format!(
    "(Build_rule {} {} {} {} {})",
    if r.allow { "Allow" } else { "Deny" },
    cdoms(&r.domains),
    ccrits(&r.publish),
    ccrits(&r.subscribe),
    ccrits(&r.relay)
  )
}
fn cgrant(g: &AGrant) -> String {
  format!(
    "(Build_grant {} {} {} {} {})",
    util::z(g.subject as i128),
    util::z(g.not_before as i128),
    util::z(g.not_after as i128),
    util::list(g.rules.iter().map(crule)),
    if g.default_allow { "Allow" } else { "Deny" }
  )
}
fn cdoc(d: &[AGrant]) -> String {
  util::list(d.iter().map(cgrant))
}
fn cdrule(d: &ADomainRule) -> String {
  format!(
    "(Build_domain_rule {} {})",
    cdoms(&d.domains),
    util::list(d.topic_rules.iter().map(|t| format!(
      "(Build_topic_rule {} {} {})",
      cstr(&t.expr),
      util::b(t.read),
      util::b(t.write)
    )))
  )
}

// ------------------------------------------------------------------ direct construction

fn dom(d: &ADom) -> DomainIds {
  match d {
    ADom::Value(v) => DomainIds::Value(*v),
    ADom::Range(a, b) => DomainIds::Range(*a, *b),
    ADom::Min(a) => DomainIds::Min(*a),
    ADom::Max(a) => DomainIds::Max(*a),
  }
}
fn pats(v: &[String]) -> Option<Vec<Pattern>> {
  v.iter().map(|s| Pattern::new(s).ok()).collect()
}
fn crit(c: &ACrit) -> Option<Criterion> {
  Some(Criterion::verif_new(pats(&c.topics)?, pats(&c.partitions)?, c.tags.clone()))
}
fn crits(v: &[ACrit]) -> Option<Vec<Criterion>> {
  v.iter().map(crit).collect()
}
fn rule(r: &ARule) -> Option<Rule> {
  Some(Rule {
    verdict: if r.allow { AllowOrDeny::Allow } else { AllowOrDeny::Deny },
    domains: r.domains.iter().map(dom).collect(),
    publish: crits(&r.publish)?,
    subscribe: crits(&r.subscribe)?,
    relay: crits(&r.relay)?,
  })
}
fn ts(secs: i64) -> DateTime<Utc> {
  DateTime::<Utc>::from_timestamp(secs, 0).expect("timestamp in range")
}
fn grant(g: &AGrant) -> Option<Grant> {
  Some(Grant {
    subject_name: DistinguishedName::parse(SUBJECTS[g.subject as usize]).expect("subject DN"),
    validity: ts(g.not_before)..ts(g.not_after),
    rules: g.rules.iter().map(rule).collect::<Option<Vec<_>>>()?,
    default_action: if g.default_allow { AllowOrDeny::Allow } else { AllowOrDeny::Deny },
  })
}
fn permissions(d: &[AGrant]) -> Option<DomainParticipantPermissions> {
  Some(DomainParticipantPermissions::verif_new(
    d.iter().map(grant).collect::<Option<Vec<_>>>()?,
  ))
}
fn domain_rule(d: &ADomainRule) -> Option<DomainRule> {
  Some(DomainRule {
    domains: d.domains.iter().map(dom).collect(),
    allow_unauthenticated_participants: false,
    enable_join_access_control: true,
    discovery_protection_kind: ProtectionKind::None,
    liveliness_protection_kind: ProtectionKind::None,
    rtps_protection_kind: ProtectionKind::None,
    topic_access_rules: d
      .topic_rules
      .iter()
      .map(|t| {
        Some(TopicRule {
          topic_expression: Pattern::new(&t.expr).ok()?,
          enable_discovery_protection: false,
          enable_liveliness_protection: false,
          enable_read_access_control: t.read,
          enable_write_access_control: t.write,
          metadata_protection_kind: ProtectionKind::None,
          data_protection_kind: BasicProtectionKind::None,
        })
      })
      .collect::<Option<Vec<_>>>()?,
  })
}

// ------------------------------------------------------------------ XML rendering

fn xml_safe(s: &str) -> bool {
  !s.is_empty() && s.chars().all(|c| c.is_ascii_graphic() && c != '<' && c != '>' && c != '&')
}
fn xdoms(v: &[ADom]) -> String {
  let mut o = String::from("<domains>");
  for d in v {
    match d {
      ADom::Value(v) => o.push_str(&format!("<id>{}</id>", v)),
      ADom::Range(a, b) => {
        o.push_str(&format!("<id_range><min>{}</min><max>{}</max></id_range>", a, b))
      }
      ADom::Min(a) => o.push_str(&format!("<id_range><min>{}</min></id_range>", a)),
      ADom::Max(a) => o.push_str(&format!("<id_range><max>{}</max></id_range>", a)),
    }
  }
  o.push_str("</domains>");
  o
}
fn xcrit(tag: &str, c: &ACrit) -> String {
  let mut o = format!("<{}>\n<topics>", tag);
  for t in &c.topics {
    o.push_str(&format!("<topic>{}</topic>", t));
  }
  o.push_str("</topics>\n");
  if !c.partitions.is_empty() {
    o.push_str("<partitions>");
    for p in &c.partitions {
      o.push_str(&format!("<partition>{}</partition>", p));
    }
    o.push_str("</partitions>\n");
  }
  if !c.tags.is_empty() {
    o.push_str("<data_tags>");
    for (n, v) in &c.tags {
      o.push_str(&format!("<tag><name>{}</name><value>{}</value></tag>", n, v));
    }
    o.push_str("</data_tags>\n");
  }
  o.push_str(&format!("</{}>\n", tag));
  o
}
fn xrule(r: &ARule) -> String {
  let tag = if r.allow { "allow_rule" } else { "deny_rule" };
  let mut o = format!("<{}>\n{}\n", tag, xdoms(&r.domains));
  for c in &r.publish {
    o.push_str(&xcrit("publish", c));
  }
  for c in &r.subscribe {
    o.push_str(&xcrit("subscribe", c));
  }
  for c in &r.relay {
    o.push_str(&xcrit("relay", c));
  }
  o.push_str(&format!("</{}>\n", tag));
  o
}
fn xtime(secs: i64, fmt: u8) -> String {
  match fmt {
    0 => ts(secs).format("%Y-%m-%dT%H:%M:%S").to_string(),
    1 => ts(secs).format("%Y-%m-%dT%H:%M:%SZ").to_string(),
    _ => format!("{}+02:00", ts(secs + 7200).format("%Y-%m-%dT%H:%M:%S")),
  }
}
fn xdoc(d: &[AGrant]) -> String {
  let mut o = String::from(
    "<?xml version=\"1.0\" encoding=\"UTF-8\"?>\n<dds xmlns:xsi=\"http://www.w3.org/2001/XMLSchema-instance\" xsi:noNamespaceSchemaLocation=\"http://www.omg.org/spec/DDS-Security/20170901/omg_shared_ca_permissions.xsd\">\n<permissions>\n",
  );
  for (i, g) in d.iter().enumerate() {
    o.push_str(&format!(
      "<grant name=\"g{}\">\n<subject_name>{}</subject_name>\n<validity><not_before>{}</not_before><not_after>{}</not_after></validity>\n",
      i,
      SUBJECTS[g.subject as usize],
      xtime(g.not_before, g.time_fmt),
      xtime(g.not_after, g.time_fmt)
    ));
    for r in &g.rules {
      o.push_str(&xrule(r));
    }
    o.push_str(&format!(
      "<default>{}</default>\n</grant>\n",
      if g.default_allow { "ALLOW" } else { "DENY" }
    ));
  }
  o.push_str("</permissions>\n</dds>\n");
  o
}
fn xgov(rules: &[ADomainRule]) -> String {
  let mut o = String::from(
    "<?xml version=\"1.0\" encoding=\"UTF-8\"?>\n<dds xmlns:xsi=\"http://www.w3.org/2001/XMLSchema-instance\" xsi:noNamespaceSchemaLocation=\"http://www.omg.org/spec/DDS-SECURITY/20170901/omg_shared_ca_governance.xsd\">\n<domain_access_rules>\n",
  );
  for d in rules {
    o.push_str(&format!(
      "<domain_rule>\n{}\n<allow_unauthenticated_participants>false</allow_unauthenticated_participants>\n<enable_join_access_control>true</enable_join_access_control>\n<discovery_protection_kind>NONE</discovery_protection_kind>\n<liveliness_protection_kind>NONE</liveliness_protection_kind>\n<rtps_protection_kind>NONE</rtps_protection_kind>\n<topic_access_rules>\n",
      xdoms(&d.domains)
    ));
    for t in &d.topic_rules {
      o.push_str(&format!(
        "<topic_rule><topic_expression>{}</topic_expression><enable_discovery_protection>false</enable_discovery_protection><enable_liveliness_protection>false</enable_liveliness_protection><enable_read_access_control>{}</enable_read_access_control><enable_write_access_control>{}</enable_write_access_control><metadata_protection_kind>NONE</metadata_protection_kind><data_protection_kind>NONE</data_protection_kind></topic_rule>\n",
        t.expr, t.read, t.write
      ));
    }
    o.push_str("</topic_access_rules>\n</domain_rule>\n");
  }
  o.push_str("</domain_access_rules>\n</dds>\n");
  o
}
fn crit_xml_ok(c: &ACrit) -> bool {
  !c.topics.is_empty()
    && c.topics.iter().all(|s| xml_safe(s))
    && c.partitions.iter().all(|s| xml_safe(s))
    && c.tags.iter().all(|(n, v)| xml_safe(n) && xml_safe(v))
}
fn rule_xml_ok(r: &ARule) -> bool {
  !r.domains.is_empty()
    && r.publish.iter().chain(r.subscribe.iter()).chain(r.relay.iter()).all(crit_xml_ok)
}
fn doc_xml_ok(d: &[AGrant]) -> bool {
  !d.is_empty() && d.iter().all(|g| !g.rules.is_empty() && g.rules.iter().all(rule_xml_ok))
}
fn drule_xml_ok(d: &ADomainRule) -> bool {
  !d.domains.is_empty() && !d.topic_rules.is_empty() && d.topic_rules.iter().all(|t| xml_safe(&t.expr))
}

// ------------------------------------------------------------------ signing (openssl CLI)

pub struct Signer {
  pub work: PathBuf,
  pub cfg: PathBuf,
  n: usize,
  pub ca_pem: String,
  pub wrong_ca_pem: String,
  pub id_cert_pem: String,
}
impl Signer {
  pub fn new(args: &Args) -> Signer {
    // <verif>/build/c18_work  (args.out = <verif>/build/cases/<ID>[...])
    let build = args
      .out
      .parent()
      .and_then(Path::parent)
      .map(Path::to_path_buf)
      .unwrap_or_else(|| args.out.clone());
    let leaf = args.out.file_name().map(|s| s.to_string_lossy().to_string()).unwrap_or_default();
    let work = build.join(format!("sign_work_{}", leaf));
    let _ = fs::remove_dir_all(&work);
    fs::create_dir_all(&work).expect("mkdir work");
    let cfg = Path::new(env!("CARGO_MANIFEST_DIR")).join("examples/security_configuration_files");
    let rd = |n: &str| fs::read_to_string(cfg.join(n)).expect("example file");
    Signer {
      work,
      ca_pem: rd("permissions_ca.cert.pem"),
      wrong_ca_pem: rd("identity_ca.cert.pem"),
      id_cert_pem: rd("cert.pem"),
      cfg,
      n: 0,
    }
  }
  /// openssl smime -sign -text with the shipped Permissions CA key (as sign-test-configurations.sh)
  pub fn sign(&mut self, xml: &str) -> Vec<u8> {
    self.n += 1;
    let inp = self.work.join(format!("doc{}.xml", self.n));
    let outp = self.work.join(format!("doc{}.p7s", self.n));
    fs::write(&inp, xml).expect("write xml");
    let st = Command::new("openssl")
      .args(["smime", "-sign", "-text", "-in"])
      .arg(&inp)
      .arg("-out")
      .arg(&outp)
      .arg("-signer")
      .arg(self.cfg.join("permissions_ca.cert.pem"))
      .arg("-inkey")
      .arg(self.cfg.join("permissions_ca_private_key.pem"))
      .arg("-passin")
      .arg(format!("file:{}", self.cfg.join("password").display()))
      .output()
      .expect("run openssl");
    if !st.status.success() {
      panic!("openssl smime -sign failed: {}", String::from_utf8_lossy(&st.stderr));
    }
    let out = fs::read(&outp).expect("read p7s");
    let _ = fs::remove_file(&inp);
    let _ = fs::remove_file(&outp);
    out
  }
}

// ------------------------------------------------------------------ running the real checks

#[derive(Clone, Copy, Debug, PartialEq)]
enum Api {
  CreateDatawriter,
  CreateDatareader,
  CreateTopic,
  RemoteDatawriter,
  RemoteDatareader,
  RemoteTopic,
}
const APIS: [Api; 6] = [
  Api::CreateDatawriter,
  Api::CreateDatareader,
  Api::CreateTopic,
  Api::RemoteDatawriter,
  Api::RemoteDatareader,
  Api::RemoteTopic,
];

fn err_name(msg: &str) -> &'static str {
  if msg.contains("Could not find a permissions document") {
    "EPermDoc"
  } else if msg.contains("Could not find a valid grant") {
    "ENoGrant"
  } else if msg.contains("Could not find a domain rule") {
    "ENoDomainRule"
  } else {
    "EOther"
  }
}
fn dres_b(r: SecurityResult<bool>) -> String {
  match r {
    Ok(b) => format!("(DOk {})", util::b(b)),
    Err(e) => format!("(DErr {})", err_name(&e.msg)),
  }
}

fn call_api(ac: &AccessControlBuiltin, h: u32, api: Api, domain: u16, topic: &str) -> String {
  let qos = QosPolicies::qos_none();
  let g = GUID::new(
    GuidPrefix::new(&[7; 12]),
    EntityId::new([0, 0, 1], EntityKind::WRITER_WITH_KEY_USER_DEFINED),
  );
  let res = catch_unwind(AssertUnwindSafe(|| match api {
    Api::CreateDatawriter => dres_b(ac.check_create_datawriter(h, domain, topic.to_string(), &qos)),
    Api::CreateDatareader => dres_b(ac.check_create_datareader(h, domain, topic.to_string(), &qos)),
    Api::CreateTopic => dres_b(ac.check_create_topic(h, domain, topic.to_string(), &qos)),
    Api::RemoteDatawriter => {
      let dwd = DiscoveredWriterData {
        last_updated: std::time::Instant::now(),
        writer_proxy: WriterProxy::new(g, vec![], vec![]),
        publication_topic_data: PublicationBuiltinTopicData::new_with_qos(
          g,
          None,
          topic.to_string(),
          "VerifType".to_string(),
          &qos,
          None,
        ),
      };
      let p = PublicationBuiltinTopicDataSecure { discovered_writer_data: dwd, data_tags: None };
      dres_b(ac.check_remote_datawriter(h, domain, &p))
    }
    Api::RemoteDatareader => {
      let drd = DiscoveredReaderData {
        reader_proxy: ReaderProxy::new(g, false, vec![], vec![]),
        subscription_topic_data: SubscriptionBuiltinTopicData::new(
          g,
          None,
          topic.to_string(),
          "VerifType".to_string(),
          &qos,
          None,
        ),
        content_filter: None,
      };
      let s = SubscriptionBuiltinTopicDataSecure { discovered_reader_data: drd, data_tags: None };
      match ac.check_remote_datareader(h, domain, &s) {
        Ok((a, b)) => format!("(DOk2 {} {})", util::b(a), util::b(b)),
        Err(e) => format!("(DErr {})", err_name(&e.msg)),
      }
    }
    Api::RemoteTopic => {
      let t = TopicBuiltinTopicData::new(None, topic.to_string(), "VerifType".to_string(), &qos);
      dres_b(ac.check_remote_topic(h, domain, &t))
    }
  }));
  res.unwrap_or_else(|_| "DPanic".to_string())
}

/// a domain id inside the (possibly empty) id set, for validate_local_permissions' find_rule
fn a_dom_member(ds: &[ADom]) -> Option<u16> {
  ds.iter().find_map(|d| match d {
    ADom::Value(v) => Some(*v),
    ADom::Range(a, b) => {
      if a <= b {
        Some(*a)
      } else {
        None
      }
    }
    ADom::Min(a) => Some(*a),
    ADom::Max(a) => Some(*a),
  })
}

struct CheckCase {
  doc: Option<Vec<AGrant>>,
  dr: Option<ADomainRule>,
  subject: i64,
  api: Api,
  domain: u16,
  topic: String,
}

fn run_check(c: &CheckCase, full: bool, signer: &mut Signer, tags: &mut Vec<String>) -> String {
  let subject = DistinguishedName::parse(SUBJECTS[c.subject as usize]).unwrap();
  // (a) documents built directly as structs
  let direct = {
    let p = match &c.doc {
      None => Some(None),
      Some(d) => permissions(d).map(Some),
    };
    let r = match &c.dr {
      None => Some(None),
      Some(d) => domain_rule(d).map(Some),
    };
    match (p, r) {
      (Some(p), Some(r)) => {
        let mut ac = AccessControlBuiltin::new();
        let h = ac.verif_install(subject.clone(), p, r);
        call_api(&ac, h, c.api, c.domain, &c.topic)
      }
      _ => "DParse".to_string(),
    }
  };
  // (b) documents rendered to XML and parsed by the real from_xml functions
  let xml_possible =
    c.doc.as_ref().map_or(true, |d| doc_xml_ok(d)) && c.dr.as_ref().map_or(true, drule_xml_ok);
  let xml = if !xml_possible {
    tags.push("xml_path:not_renderable".into());
    "DNotRun".to_string()
  } else {
    let p = match &c.doc {
      None => Ok(None),
      Some(d) => {
        catch_unwind(AssertUnwindSafe(|| DomainParticipantPermissions::from_xml(&xdoc(d)).map(Some)))
          .unwrap_or_else(|_| panic_marker())
      }
    };
    let r = match &c.dr {
      None => Ok(None),
      Some(d) => DomainGovernanceDocument::from_xml(&xgov(&[d.clone()]))
        .map(|g| g.verif_rules().first().cloned()),
    };
    match (p, r) {
      (Ok(p), Ok(r)) => {
        let mut ac = AccessControlBuiltin::new();
        let h = ac.verif_install(subject.clone(), p, r);
        tags.push("xml_path:run".into());
        call_api(&ac, h, c.api, c.domain, &c.topic)
      }
      (p, r) => {
        tags.push("xml_path:parse_error".into());
        // pattern errors surface as ConfigError; anything else is reported as such
        let msg = format!("{:?} {:?}", p.err(), r.err());
        if msg.contains("Pattern") || msg.contains("pattern") || msg.contains("wildcards") {
          "DParse".to_string()
        } else {
          eprintln!("c18: unexpected XML parse error: {}", msg);
          "(DErr EOther)".to_string()
        }
      }
    }
  };
  // (c) documents signed with the Permissions CA key and loaded by validate_local_permissions
  let full_res = if full
    && xml_possible
    && c.subject == 0
    && matches!(c.api, Api::CreateDatawriter | Api::CreateDatareader | Api::CreateTopic)
    && c.doc.is_some()
    && c.dr.is_some()
    && c.dr.as_ref().and_then(|d| a_dom_member(&d.domains)).is_some()
    && direct != "DParse"
  {
    let d = c.doc.as_ref().unwrap();
    let dr = c.dr.as_ref().unwrap();
    let gov_p7s = signer.sign(&xgov(&[dr.clone()]));
    let perm_p7s = signer.sign(&xdoc(d));
    let props = vec![
      ("dds.sec.access.permissions_ca", format!("data:{}", signer.ca_pem)),
      ("dds.sec.access.governance", format!("data:{}", String::from_utf8_lossy(&gov_p7s))),
      ("dds.sec.access.permissions", format!("data:{}", String::from_utf8_lossy(&perm_p7s))),
      ("dds.sec.auth.identity_certificate", format!("data:{}", signer.id_cert_pem)),
    ];
    let qos = QosPolicyBuilder::new()
      .property(policy::Property {
        value: props
          .into_iter()
          .map(|(n, v)| Property { name: n.to_string(), value: v, propagate: false })
          .collect(),
        binary_value: vec![],
      })
      .build();
    let auth = AuthenticationBuiltin::new();
    let mut ac = AccessControlBuiltin::new();
    let vdomain = a_dom_member(&dr.domains).unwrap();
    match catch_unwind(AssertUnwindSafe(|| ac.validate_local_permissions(&auth, 1, vdomain, &qos))) {
      Ok(Ok(h)) => {
        tags.push("full_path:run".into());
        call_api(&ac, h, c.api, c.domain, &c.topic)
      }
      Ok(Err(e)) if e.msg.contains("not found in the permissions document") => {
        // no currently valid grant for the identity: the participant is refused as a whole
        tags.push("full_path:validate_refused_no_valid_grant".into());
        "DNotRun".to_string()
      }
      Ok(Err(e)) => {
        eprintln!("c18: validate_local_permissions failed: {}", e.msg);
        tags.push("full_path:validate_error".into());
        "(DErr EOther)".to_string()
      }
      Err(_) => "DPanic".to_string(),
    }
  } else {
    "DNotRun".to_string()
  };
  format!("(ODecision {} {} {})", direct, xml, full_res)
}

fn panic_marker<T>() -> Result<T, crate::security::config::ConfigError> {
  Err(crate::security::config::ConfigError::Other("panic in from_xml".to_string()))
}

// ------------------------------------------------------------------ generators

const TOPICS: [&str; 12] = [
  "Square", "Sq1", "Circle", "Cir", "rt/a", "rt/a/b", "rq/x/_action/cancel_goalRequest", "P1", "x",
  "ab", "rt/", "T-1",
];

fn gen_topic(r: &mut Rng) -> String {
  if r.chance(1, 12) {
    // builtin names are exempt from the permission check
    r.pick(&["DCPSParticipant", "DCPSPublicationsSecure", "DCPSTopic", "DCPSParticipantVolatileMessageSecure"])
      .to_string()
  } else {
    r.pick(&TOPICS).to_string()
  }
}

/// a pattern derived from a name (so that it often matches), or a hostile one
fn gen_pattern(r: &mut Rng, hostile: bool) -> String {
  if hostile && r.chance(1, 3) {
    return r
      .pick(&[
        "**", "a**", "***", "[", "[!]", "[a", "[]]", "[!]]", "[a-", "[z-a]", "**/x", "rt/**", "**/**/b",
        "rt/**/b", "**a", "[!", "rt/[", "*[", "?[]", "[a-c-e]", "[--0]", "[!-]", "[!!]", "[a!]",
      ])
      .to_string();
  }
  let base: Vec<char> = r.pick(&TOPICS).chars().collect();
  match r.below(8) {
    0 => base.iter().collect(),
    1 => "*".to_string(),
    2 => {
      // prefix*
      let k = r.below(base.len() as u64 + 1) as usize;
      format!("{}*", base[..k].iter().collect::<String>())
    }
    3 => {
      // *suffix
      let k = r.below(base.len() as u64 + 1) as usize;
      format!("*{}", base[k..].iter().collect::<String>())
    }
    4 => {
      // one char replaced by ?
      let mut b = base.clone();
      let k = r.below(b.len() as u64) as usize;
      b[k] = '?';
      b.iter().collect()
    }
    5 => {
      // one char replaced by a class (containing it, a range around it, or its negation)
      let k = r.below(base.len() as u64) as usize;
      let c = base[k];
      let cls = match r.below(4) {
        0 => format!("[{}]", c),
        1 => format!("[!{}]", c),
        2 => format!("[{}-{}]", (c as u8).saturating_sub(1) as char, ((c as u8) + 1) as char),
        _ => format!("[!a-c]"),
      };
      let cls = if cls.chars().all(|c| c.is_ascii_graphic() && c != '<' && c != '&' && c != '>') {
        cls
      } else {
        format!("[{}]", c)
      };
      format!(
        "{}{}{}",
        base[..k].iter().collect::<String>(),
        cls,
        base[k + 1..].iter().collect::<String>()
      )
    }
    6 => {
      // middle replaced by *
      let a = r.below(base.len() as u64 + 1) as usize;
      let b = a + r.below((base.len() - a) as u64 + 1) as usize;
      format!(
        "{}*{}",
        base[..a].iter().collect::<String>(),
        base[b..].iter().collect::<String>()
      )
    }
    _ => {
      let mut b = base.clone();
      if !b.is_empty() {
        b.pop();
      }
      b.iter().collect()
    }
  }
}

fn gen_dom(r: &mut Rng) -> ADom {
  let v = *r.pick(&[0u16, 0, 0, 1, 2, 5, 10, 100, 232, 65535]);
  match r.below(6) {
    0 | 1 | 2 => ADom::Value(v),
    3 => {
      let w = *r.pick(&[0u16, 1, 2, 5, 10, 100, 65535]);
      ADom::Range(v, w) // may be empty (lo > hi)
    }
    4 => ADom::Min(v),
    _ => ADom::Max(v),
  }
}
fn gen_doms(r: &mut Rng) -> Vec<ADom> {
  (0..r.range(1, 3)).map(|_| gen_dom(r)).collect()
}

fn gen_crit(r: &mut Rng, hostile: bool, with_partitions: bool) -> ACrit {
  let topics = (0..r.range(1, 3)).map(|_| gen_pattern(r, hostile)).collect();
  let partitions = if with_partitions && r.chance(1, 3) {
    (0..r.range(1, 2))
      .map(|_| r.pick(&["P1", "P*", "*", "A_partition", "?", "[!x]*"]).to_string())
      .collect()
  } else {
    vec![]
  };
  let tags = if r.chance(1, 8) {
    vec![("aTagName1".to_string(), "aTagValue1".to_string())]
  } else {
    vec![]
  };
  ACrit { topics, partitions, tags }
}
fn gen_rule(r: &mut Rng, hostile: bool) -> ARule {
  let mut g = |r: &mut Rng| -> Vec<ACrit> {
    (0..*r.pick(&[0i64, 1, 1, 1, 2])).map(|_| gen_crit(r, hostile, true)).collect()
  };
  ARule {
    allow: r.chance(1, 2),
    domains: gen_doms(r),
    publish: g(r),
    subscribe: g(r),
    relay: if r.chance(1, 3) { g(r) } else { vec![] },
  }
}
/// validity windows relative to the nominal NOW: 0 valid, 1 expired, 2 not yet valid, 3 empty
fn gen_window(r: &mut Rng) -> (i64, i64) {
  let y = |r: &mut Rng, lo: i64, hi: i64| r.range(lo, hi) * YEAR + r.range(0, 86_399);
  match *r.pick(&[0u8, 0, 0, 0, 1, 2, 3]) {
    0 => (NOW - y(r, 2, 20), NOW + y(r, 2, 100)),
    1 => (NOW - y(r, 10, 20), NOW - y(r, 2, 9)),
    2 => (NOW + y(r, 2, 9), NOW + y(r, 10, 100)),
    _ => (NOW + y(r, 2, 9), NOW - y(r, 2, 9)),
  }
}
fn gen_grant(r: &mut Rng, hostile: bool) -> AGrant {
  let (nb, na) = gen_window(r);
  AGrant {
    subject: *r.pick(&[0i64, 0, 0, 1, 2, 3, 4]),
    not_before: nb,
    not_after: na,
    rules: (0..r.range(1, 4)).map(|_| gen_rule(r, hostile)).collect(),
    default_allow: r.chance(1, 3),
    time_fmt: r.below(3) as u8,
  }
}
fn gen_doc(r: &mut Rng, hostile: bool) -> Vec<AGrant> {
  (0..r.range(1, 3)).map(|_| gen_grant(r, hostile)).collect()
}
fn gen_drule(r: &mut Rng, hostile: bool) -> ADomainRule {
  ADomainRule {
    domains: gen_doms(r),
    topic_rules: (0..r.range(1, 3))
      .map(|_| ATopicRule {
        expr: gen_pattern(r, hostile),
        read: r.chance(2, 3),
        write: r.chance(2, 3),
      })
      .collect(),
  }
}

fn gen_glob_pair(r: &mut Rng) -> (String, String) {
  if r.chance(1, 2) {
    // raw strings over a small alphabet rich in metacharacters
    let pa = ['a', 'b', 'c', '/', '*', '?', '[', ']', '!', '-', '*', 'a'];
    let sa = ['a', 'b', 'c', '/', '-', ']', '!', 'a', 'b'];
    let p: String = (0..r.range(0, 8)).map(|_| *r.pick(&pa)).collect();
    let s: String = (0..r.range(0, 6)).map(|_| *r.pick(&sa)).collect();
    (p, s)
  } else {
    let p = gen_pattern(r, true);
    let mut s: Vec<char> = r.pick(&TOPICS).chars().collect();
    if r.chance(1, 3) && !s.is_empty() {
      let k = r.below(s.len() as u64) as usize;
      match r.below(3) {
        0 => {
          s.remove(k);
        }
        1 => s.insert(k, *r.pick(&['a', '/', 'Z', 'é'])),
        _ => s[k] = *r.pick(&['a', '/', 'Z', ']']),
      }
    }
    (p, s.into_iter().collect())
  }
}

// ------------------------------------------------------------------ individual case kinds

fn emit_glob(out: &mut CaseOut, idx: usize, p: &str, s: &str) {
  let res = catch_unwind(AssertUnwindSafe(|| Pattern::new(p).ok().map(|pt| pt.matches(s))));
  let (obs, tag) = match res {
    Ok(None) => ("(OGlob None)".to_string(), "glob:pattern_error"),
    Ok(Some(b)) => (
      format!("(OGlob (Some {}))", util::b(b)),
      if b { "glob:match" } else { "glob:no_match" },
    ),
    Err(_) => ("OPanic".to_string(), "glob:panic"),
  };
  out.push(
    idx,
    format!("(CGlob {} {})", cstr(p), cstr(s)),
    obs,
    &["kind:glob".to_string(), tag.to_string()],
    p.contains(|c| "*?[".contains(c)),
  );
}

fn emit_domain(out: &mut CaseOut, idx: usize, d: &ADom, i: u16) {
  let b = dom(d).matches(i);
  out.push(
    idx,
    format!("(CDomain ({}) {})", cdom(d), i),
    format!("(OBool {})", util::b(b)),
    &["kind:domain_ids".to_string(), format!("domain_ids:{}", util::b(b))],
    true,
  );
}

fn emit_find_grant(out: &mut CaseOut, idx: usize, d: &[AGrant], subject: i64, now: i64) {
  let mut tags = vec!["kind:find_grant".to_string()];
  let subj = DistinguishedName::parse(SUBJECTS[subject as usize]).unwrap();
  let mut results = Vec::new();
  if let Some(p) = permissions(d) {
    let k = p
      .find_grant(&subj, &ts(now))
      .map(|g| p.verif_grants().iter().position(|x| std::ptr::eq(x, g)).unwrap() as i128);
    results.push(format!("(OIndex {})", util::opt(k.map(util::z))));
  } else {
    results.push("OParse".to_string());
  }
  if doc_xml_ok(d) {
    match DomainParticipantPermissions::from_xml(&xdoc(d)) {
      Ok(p) => {
        let k = p
          .find_grant(&subj, &ts(now))
          .map(|g| p.verif_grants().iter().position(|x| std::ptr::eq(x, g)).unwrap() as i128);
        results.push(format!("(OIndex {})", util::opt(k.map(util::z))));
        tags.push("xml_path:run".into());
      }
      Err(_) => results.push("OParse".to_string()),
    }
  }
  let obs = if results.iter().all(|x| *x == results[0]) {
    results[0].clone()
  } else {
    eprintln!("c18: direct and XML path disagree on find_grant: {:?}", results);
    "OPanic".to_string()
  };
  tags.push(format!("find_grant:{}", if obs.contains("Some") { "found" } else { "none_or_error" }));
  out.push(
    idx,
    format!("(CFindGrant {} {} {})", cdoc(d), util::z(subject as i128), util::z(now as i128)),
    obs,
    &tags,
    d.len() > 1,
  );
}

fn emit_find_rule(out: &mut CaseOut, idx: usize, gov: &[ADomainRule], domain: u16) {
  let mut tags = vec!["kind:find_rule".to_string()];
  let obs = if gov.iter().all(drule_xml_ok) && !gov.is_empty() {
    match DomainGovernanceDocument::from_xml(&xgov(gov)) {
      Ok(g) => {
        let k = g
          .find_rule(domain)
          .map(|r| g.verif_rules().iter().position(|x| std::ptr::eq(x, r)).unwrap() as i128);
        tags.push(format!("find_rule:{}", if k.is_some() { "found" } else { "none" }));
        format!("(OIndex {})", util::opt(k.map(util::z)))
      }
      Err(_) => {
        tags.push("find_rule:parse_error".into());
        "OParse".to_string()
      }
    }
  } else {
    return;
  };
  out.push(
    idx,
    format!("(CFindRule {} {})", util::list(gov.iter().map(cdrule)), domain),
    obs,
    &tags,
    gov.len() > 1,
  );
}

#[derive(Clone, Copy, Debug)]
enum Act {
  Publish,
  Subscribe,
  Relay,
}

fn emit_applicable(
  out: &mut CaseOut,
  idx: usize,
  ru: &ARule,
  act: Act,
  domain: u16,
  topic: &str,
  partitions: &[String],
  qtags: &[(String, String)],
) {
  let mut tags = vec!["kind:rule_applicable".to_string()];
  let a = match act {
    Act::Publish => Action::Publish,
    Act::Subscribe => Action::Subscribe,
    Act::Relay => Action::Relay,
  };
  let parts: Vec<&str> = partitions.iter().map(|s| s.as_str()).collect();
  let tg: Vec<(&str, &str)> = qtags.iter().map(|(n, v)| (n.as_str(), v.as_str())).collect();
  let mut results = Vec::new();
  match rule(ru) {
    Some(rr) => {
      let b = catch_unwind(AssertUnwindSafe(|| rr.is_applicable(a, domain, topic, &parts, &tg)));
      results.push(match b {
        Ok(b) => format!("(OBool {})", util::b(b)),
        Err(_) => "OPanic".to_string(),
      });
    }
    None => results.push("OParse".to_string()),
  }
  if rule_xml_ok(ru) {
    let g = AGrant {
      subject: 2,
      not_before: 0,
      not_after: 1,
      rules: vec![ru.clone()],
      default_allow: false,
      time_fmt: 0,
    };
    match DomainParticipantPermissions::from_xml(&xdoc(&[g])) {
      Ok(p) => {
        let rr = &p.verif_grants()[0].rules[0];
        let b = rr.is_applicable(a, domain, topic, &parts, &tg);
        results.push(format!("(OBool {})", util::b(b)));
        tags.push("xml_path:run".into());
      }
      Err(_) => results.push("OParse".to_string()),
    }
  }
  let obs = if results.iter().all(|x| *x == results[0]) {
    results[0].clone()
  } else {
    eprintln!("c18: direct and XML path disagree on is_applicable: {:?}", results);
    "OPanic".to_string()
  };
  tags.push(format!("applicable:{}", obs));
  tags.push(format!("query_partitions:{}", partitions.len().min(3)));
  let q = format!(
    "(Build_query {} {} {} {})",
    domain,
    cstr(topic),
    cstrs(partitions),
    util::list(qtags.iter().map(|(n, v)| format!("({}, {})", cstr(n), cstr(v))))
  );
  out.push(
    idx,
    format!("(CApplicable {} {:?} {})", crule(ru), act, q),
    obs,
    &tags,
    true,
  );
}

fn emit_check(out: &mut CaseOut, idx: usize, c: &CheckCase, full: bool, signer: &mut Signer) {
  let mut tags = vec!["kind:check".to_string(), format!("api:{:?}", c.api)];
  let obs = run_check(c, full, signer, &mut tags);
  let first = obs.split(' ').skip(1).take(2).collect::<Vec<_>>().join(" ");
  tags.push(format!("verdict:{}", first.trim_matches(|c| c == '(' || c == ')')));
  tags.push(format!("grants:{}", c.doc.as_ref().map_or(0, |d| d.len())));
  let nontrivial = c.doc.as_ref().map_or(false, |d| d.iter().any(|g| g.rules.len() > 1));
  out.push(
    idx,
    format!(
      "(CCheck {} {} {} {} {:?} {} {})",
      util::opt(c.doc.as_ref().map(|d| cdoc(d))),
      util::opt(c.dr.as_ref().map(cdrule)),
      util::z(c.subject as i128),
      util::z(NOW as i128),
      c.api,
      c.domain,
      cstr(&c.topic)
    ),
    obs,
    &tags,
    nontrivial,
  );
}

// ---- signed documents ----

fn hdr_end(text: &str, from: usize) -> usize {
  let a = text[from..].find("\r\n\r\n").map(|p| from + p + 4);
  let b = text[from..].find("\n\n").map(|p| from + p + 2);
  match (a, b) {
    (Some(a), Some(b)) => a.min(b),
    (Some(a), None) => a,
    (None, Some(b)) => b,
    (None, None) => panic!("no header end"),
  }
}
fn split_p7s(doc: &[u8]) -> (usize, usize, usize, usize) {
  // (content_start, content_end, b64_start, b64_end) byte offsets
  let text = String::from_utf8_lossy(doc).to_string();
  let b1 = text.find("\n------").expect("first boundary") + 1;
  let content_start = hdr_end(&text, b1);
  let b2 = content_start + text[content_start..].find("\n------").expect("second boundary");
  let sig_start = hdr_end(&text, b2 + 1);
  let b3 = sig_start + text[sig_start..].find("\n------").expect("closing boundary");
  (content_start, b2, sig_start, b3)
}

fn verify_doc(doc: &[u8], ca_pem: &str, expect_xml: Option<&str>) -> (bool, bool, &'static str) {
  let res = catch_unwind(AssertUnwindSafe(|| {
    let ca = Certificate::from_pem(ca_pem).expect("CA cert");
    match SignedDocument::from_bytes(doc) {
      Err(_) => (false, true, "mime"),
      Ok(sd) => match sd.verify_signature(&ca) {
        Err(_) => (false, true, "signature"),
        Ok(content) => {
          let got = String::from_utf8_lossy(content.as_ref()).replace("\r\n", "\n");
          let same = match expect_xml {
            Some(x) => {
              got.trim_end() == format!("Content-Type: text/plain\n\n{}", x.replace("\r\n", "\n")).trim_end()
            }
            None => true,
          };
          (true, same, "accepted")
        }
      },
    }
  }));
  res.unwrap_or((false, true, "panic"))
}

fn emit_signed(out: &mut CaseOut, idx: &mut usize, args: &Args, signer: &mut Signer, r: &mut Rng) {
  let doc_a_xml = xdoc(&gen_doc(r, false));
  let doc_b_xml = xgov(&[gen_drule(r, false)]);
  let a = signer.sign(&doc_a_xml);
  let b = signer.sign(&doc_b_xml);
  let ca = signer.ca_pem.clone();
  let wrong = signer.wrong_ca_pem.clone();
  let shipped_perm = fs::read(signer.cfg.join("permissions.p7s")).expect("permissions.p7s");
  let shipped_gov = fs::read(signer.cfg.join("governance.p7s")).expect("governance.p7s");
  let mut push = |out: &mut CaseOut, alt: &str, doc: &[u8], cert: &str, xml: Option<&str>, note: &str| {
    if args.only.map_or(true, |o| o == *idx) {
      let (acc, same, stage) = verify_doc(doc, cert, xml);
      out.push(
        *idx,
        format!("(CSigned {})", alt),
        format!("(OSigned {} {})", util::b(acc), util::b(same)),
        &[
          "kind:signed".to_string(),
          format!("signed:{}:{}", alt, stage),
          format!("signed_variant:{}", note),
        ],
        alt != "Genuine",
      );
    }
    *idx += 1;
  };
  push(out, "Genuine", &a, &ca, Some(&doc_a_xml), "generated_permissions");
  push(out, "Genuine", &b, &ca, Some(&doc_b_xml), "generated_governance");
  push(out, "Genuine", &shipped_perm, &ca, None, "shipped_permissions");
  push(out, "Genuine", &shipped_gov, &ca, None, "shipped_governance");
  push(out, "WrongCa", &a, &wrong, None, "identity_ca");
  push(out, "WrongCa", &b, &wrong, None, "identity_ca");
  let (cs, ce, ss, se) = split_p7s(&a);
  let (cs_b, ce_b, ss_b, se_b) = split_p7s(&b);
  // one content byte changed (alphanumeric positions, replaced by a different alphanumeric)
  let alnum: Vec<usize> = (cs..ce).filter(|i| a[*i].is_ascii_alphanumeric()).collect();
  for k in 0..12 {
    let pos = if k == 0 { alnum[0] } else if k == 1 { *alnum.last().unwrap() } else { *r.pick(&alnum) };
    let mut d = a.clone();
    d[pos] = if d[pos] == b'a' { b'b' } else { b'a' };
    push(out, "ContentFlip", &d, &ca, None, "alnum_byte");
  }
  // content byte inserted / removed
  {
    let mut d = a.clone();
    d.insert(alnum[alnum.len() / 2], b'x');
    push(out, "ContentFlip", &d, &ca, None, "byte_inserted");
    let mut d = a.clone();
    d.remove(alnum[alnum.len() / 2]);
    push(out, "ContentFlip", &d, &ca, None, "byte_removed");
    // white space / line-end bytes inserted INSIDE a token (never next to an existing line end, where the S/MIME
    // canonicalisation LF -> CRLF legitimately makes them disappear): the line-end conversion before the digest must
    // not swallow them (seeded change C18-A)
    let inner: Vec<usize> = (cs + 1..ce - 1)
      .filter(|i| a[*i].is_ascii_alphanumeric() && a[*i - 1].is_ascii_alphanumeric() && a[*i + 1].is_ascii_alphanumeric())
      .collect();
    for (k, byte) in [b'\r', b'\r', b'\n', b' ', b'\t', 0u8].iter().enumerate() {
      let pos = if k == 0 { inner[inner.len() / 3] } else { *r.pick(&inner) };
      let mut d = a.clone();
      d.insert(pos, *byte);
      push(out, "ContentFlip", &d, &ca, None, &format!("byte_inserted_0x{:02x}", byte));
    }
    // a second CR in front of an existing CR LF (if the content has CR LF line ends)
    if let Some(pos) = (cs..ce - 1).find(|i| a[*i] == b'\r' && a[*i + 1] == b'\n') {
      let mut d = a.clone();
      d.insert(pos, b'\r');
      push(out, "ContentFlip", &d, &ca, None, "cr_before_crlf");
    }
  }
  // one base64 character of the signature value (the tail of the SignedData) changed
  let b64: Vec<usize> = (ss..se).filter(|i| a[*i].is_ascii_alphanumeric() || a[*i] == b'+' || a[*i] == b'/').collect();
  let n = b64.len();
  for k in 0..12 {
    let off = if k == 0 { 8 } else if k == 1 { 90 } else { r.range(8, 90) as usize };
    let pos = b64[n - 1 - off];
    let mut d = a.clone();
    d[pos] = if d[pos] == b'A' { b'B' } else { b'A' };
    push(out, "SignatureFlip", &d, &ca, None, "signature_value_or_signed_attrs");
  }
  // content of A with the signature of B and vice versa
  {
    let mut d = Vec::new();
    d.extend_from_slice(&a[..ss]);
    d.extend_from_slice(&b[ss_b..se_b]);
    d.extend_from_slice(&a[se..]);
    push(out, "SwappedSignature", &d, &ca, None, "content_A_signature_B");
    let mut d = Vec::new();
    d.extend_from_slice(&b[..ss_b]);
    d.extend_from_slice(&a[ss..se]);
    d.extend_from_slice(&b[se_b..]);
    push(out, "SwappedSignature", &d, &ca, None, "content_B_signature_A");
    let mut d = Vec::new();
    d.extend_from_slice(&a[..cs]);
    d.extend_from_slice(&b[cs_b..ce_b]);
    d.extend_from_slice(&a[ce..]);
    push(out, "SwappedSignature", &d, &ca, None, "content_swapped_in");
  }
  // proper prefixes cut inside the content or inside the signature
  for k in 0..10 {
    let cut = match k {
      0 => cs + 1,
      1 => ce - 2,
      2 => ss + 4,
      3 => b64[n - 9],
      _ => {
        if r.chance(1, 2) {
          r.range(cs as i64 + 1, ce as i64 - 2) as usize
        } else {
          r.range(ss as i64 + 4, b64[n - 9] as i64) as usize
        }
      }
    };
    push(out, "Truncated", &a[..cut], &ca, None, if cut < ce { "cut_in_content" } else { "cut_in_signature" });
  }
}

// ------------------------------------------------------------------ corpus

fn crit1(topic: &str, partitions: &[&str]) -> ACrit {
  ACrit {
    topics: vec![topic.to_string()],
    partitions: partitions.iter().map(|s| s.to_string()).collect(),
    tags: vec![],
  }
}
fn grant1(subject: i64, window: (i64, i64), rules: Vec<ARule>, default_allow: bool) -> AGrant {
  AGrant { subject, not_before: window.0, not_after: window.1, rules, default_allow, time_fmt: 1 }
}
fn rule1(allow: bool, publish: Vec<ACrit>, subscribe: Vec<ACrit>, relay: Vec<ACrit>) -> ARule {
  ARule { allow, domains: vec![ADom::Value(0)], publish, subscribe, relay }
}
const VALID: (i64, i64) = (NOW - 3 * YEAR, NOW + 50 * YEAR);
const EXPIRED: (i64, i64) = (NOW - 9 * YEAR, NOW - 3 * YEAR);

fn corpus_checks() -> Vec<CheckCase> {
  let mut v = Vec::new();
  let gov = |expr: &str, read: bool, write: bool| ADomainRule {
    domains: vec![ADom::Range(0, 100)],
    topic_rules: vec![ATopicRule { expr: expr.to_string(), read, write }],
  };
  let mut staged: Vec<(Option<Vec<AGrant>>, Option<ADomainRule>, i64, String)> = Vec::new();
  let mut add = |doc: Option<Vec<AGrant>>, dr: Option<ADomainRule>, subject: i64, topic: &str| {
    staged.push((doc, dr, subject, topic.to_string()));
  };
  // D1: allow rule restricted to partition P1; the entity has no partition (= default partition "")
  add(
    Some(vec![grant1(
      0,
      VALID,
      vec![rule1(true, vec![crit1("T-1", &["P1"])], vec![crit1("T-1", &["P1"])], vec![])],
      false,
    )]),
    Some(gov("*", true, true)),
    0,
    "T-1",
  );
  // same with a deny rule for partition P1 in front of an allow-all rule
  add(
    Some(vec![grant1(
      0,
      VALID,
      vec![
        rule1(false, vec![crit1("T-1", &["P1"])], vec![crit1("T-1", &["P1"])], vec![]),
        rule1(true, vec![crit1("*", &[])], vec![crit1("*", &[])], vec![]),
      ],
      false,
    )]),
    Some(gov("*", true, true)),
    0,
    "T-1",
  );
  // partition expression "*" covers the default partition
  add(
    Some(vec![grant1(0, VALID, vec![rule1(true, vec![crit1("T-1", &["*"])], vec![crit1("T-1", &["P1", "*"])], vec![])], false)]),
    Some(gov("*", true, true)),
    0,
    "T-1",
  );
  // D2: the only grant has expired; the governance document leaves the topic unprotected
  add(
    Some(vec![grant1(0, EXPIRED, vec![rule1(true, vec![crit1("*", &[])], vec![crit1("*", &[])], vec![])], true)]),
    Some(gov("Sq*", false, false)),
    0,
    "Square",
  );
  // ... unprotected for reading only
  add(
    Some(vec![grant1(0, EXPIRED, vec![rule1(true, vec![crit1("*", &[])], vec![crit1("*", &[])], vec![])], true)]),
    Some(gov("Sq*", false, true)),
    0,
    "Square",
  );
  // no grant for the subject at all, protected topic
  add(
    Some(vec![grant1(1, VALID, vec![rule1(true, vec![crit1("*", &[])], vec![crit1("*", &[])], vec![])], true)]),
    Some(gov("*", true, true)),
    0,
    "Square",
  );
  // first-match: deny Square before allow Sq*; and the reverse order
  let deny_sq = rule1(false, vec![crit1("Square", &[])], vec![crit1("Square", &[])], vec![]);
  let allow_sq = rule1(true, vec![crit1("Sq*", &[])], vec![crit1("Sq*", &[])], vec![crit1("*", &[])]);
  add(Some(vec![grant1(0, VALID, vec![deny_sq.clone(), allow_sq.clone()], false)]), Some(gov("*", true, true)), 0, "Square");
  add(Some(vec![grant1(0, VALID, vec![allow_sq.clone(), deny_sq.clone()], false)]), Some(gov("*", true, true)), 0, "Square");
  // relay only
  add(
    Some(vec![grant1(0, VALID, vec![rule1(true, vec![], vec![], vec![crit1("Square", &[])])], false)]),
    Some(gov("*", true, true)),
    0,
    "Square",
  );
  // no topic rule for the topic: permissions are consulted
  add(Some(vec![grant1(0, VALID, vec![allow_sq.clone()], false)]), Some(gov("Circle", false, false)), 0, "Square");
  // first governance topic rule wins
  add(
    Some(vec![grant1(0, VALID, vec![deny_sq.clone()], false)]),
    Some(ADomainRule {
      domains: vec![ADom::Min(0)],
      topic_rules: vec![
        ATopicRule { expr: "Sq?are".into(), read: true, write: true },
        ATopicRule { expr: "*".into(), read: false, write: false },
      ],
    }),
    0,
    "Square",
  );
  // expired grant first, valid grant second (the second one counts); other subject's grant first
  add(
    Some(vec![
      grant1(0, EXPIRED, vec![deny_sq.clone()], false),
      grant1(1, VALID, vec![deny_sq.clone()], false),
      grant1(0, VALID, vec![allow_sq.clone()], false),
    ]),
    Some(gov("*", true, true)),
    0,
    "Square",
  );
  // subject names differing only in RDN order / by a prefix are different subjects
  add(Some(vec![grant1(4, VALID, vec![allow_sq.clone()], true), grant1(3, VALID, vec![allow_sq.clone()], true)]), Some(gov("*", true, true)), 0, "Square");
  // handle without permissions document / without domain rule
  add(None, Some(gov("*", true, true)), 0, "Square");
  add(None, Some(gov("*", false, false)), 0, "Square");
  add(Some(vec![grant1(0, VALID, vec![allow_sq.clone()], false)]), None, 0, "Square");
  // a pattern that does not compile anywhere in the document rejects the document
  add(Some(vec![grant1(0, VALID, vec![rule1(true, vec![crit1("a**", &[])], vec![], vec![])], true)]), Some(gov("*", true, true)), 0, "Square");
  add(Some(vec![grant1(0, VALID, vec![allow_sq.clone()], true)]), Some(gov("[", true, true)), 0, "Square");
  for (doc, dr, subject, topic) in staged {
    for api in APIS {
      v.push(CheckCase { doc: doc.clone(), dr: dr.clone(), subject, api, domain: 0, topic: topic.clone() });
    }
  }
  // builtin topic names
  for t in [
    "DCPSParticipant",
    "DCPSParticipantMessage",
    "DCPSParticipantMessageSecure",
    "DCPSParticipantSecure",
    "DCPSParticipantStatelessMessage",
    "DCPSParticipantVolatileMessageSecure",
    "DCPSPublication",
    "DCPSPublicationsSecure",
    "DCPSSubscription",
    "DCPSSubscriptionsSecure",
    "DCPSTopic",
  ] {
    v.push(CheckCase { doc: None, dr: None, subject: 0, api: Api::CreateDatawriter, domain: 0, topic: t.to_string() });
    v.push(CheckCase {
      doc: Some(vec![grant1(0, VALID, vec![deny_sq.clone()], false)]),
      dr: Some(gov("*", true, true)),
      subject: 0,
      api: Api::RemoteDatareader,
      domain: 0,
      topic: t.to_string(),
    });
  }
  // domain id outside the rule's domains
  for (d, q) in [(ADom::Range(1, 5), 0u16), (ADom::Range(1, 5), 5), (ADom::Min(7), 6), (ADom::Max(7), 8), (ADom::Max(7), 7)] {
    let mut ru = allow_sq.clone();
    ru.domains = vec![d];
    v.push(CheckCase {
      doc: Some(vec![grant1(0, VALID, vec![ru], false)]),
      dr: Some(gov("*", true, true)),
      subject: 0,
      api: Api::CreateDatawriter,
      domain: q,
      topic: "Square".to_string(),
    });
  }
  v
}

fn corpus_globs() -> Vec<(&'static str, &'static str)> {
  vec![
    ("", ""), ("", "a"), ("*", ""), ("*", "abc"), ("?", ""), ("?", "a"), ("?", "ab"), ("a*b", "ab"),
    ("a*b", "axxb"), ("a*b", "axxbc"), ("*a", "b"), ("*a*", "bab"), ("**", "abc"), ("**", ""),
    ("**", "a/b"), ("**/x", "a/b/x"), ("**/x", "x"), ("**/x", "ax"), ("rt/**", "rt/a/b"),
    ("rt/**", "rt/"), ("rt/**", "rt"), ("a**", "abc"), ("***", "a"), ("**/**", "a"), ("**/**/b", "a/b"),
    ("a/**b", "a/b"), ("[a]", "a"), ("[!a]", "a"), ("[!a]", "b"), ("[]]", "]"), ("[!]]", "]"),
    ("[!]]", "a"), ("[", "["), ("[!]", "!"), ("[a", "a"), ("[a-c]", "b"), ("[a-c]", "d"), ("[c-a]", "b"),
    ("[a-]", "-"), ("[-a]", "-"), ("[a-c-e]", "d"), ("[a-c-e]", "-"), ("[--0]", "."), ("[!-]", "-"),
    ("[a!]", "!"), ("[!!]", "!"), ("[*]", "*"), ("[*]", "a"), ("[?]", "?"), ("a[", "a["), ("*[a]", "xa"),
    ("rt/*", "rt/chatter"), ("rq/*/_action/cancel_goalRequest", "rq/x/_action/cancel_goalRequest"),
    ("rq/*Request", "rq/x/y/zRequest"), ("Sq*", "Square"), ("Sq*", "sq"), ("*?*", ""), ("*?*", "a"),
    ("a*a*a", "aaaa"), ("a*a*a", "aa"), ("*a*b*c", "xaxbxc"), ("*a*b*c", "xaxcxb"), ("é", "é"), ("?", "é"),
    ("[à-ü]", "é"), ("/**", "/a"), ("**/", "a/"), ("**/", "a"), ("*/**", "a/b"), ("?/**", "a/b/c"),
  ]
}

pub fn run(args: &Args) -> i32 {
  let mut out = CaseOut::new(
    args,
    "From Coq Require Import List ZArith.\nFrom RD Require Import Common.Corr C18.Glob C18.Model.\nImport ListNotations.\nOpen Scope Z_scope.",
    "check run obs_eqb ok",
    "case",
    "obs",
  );
  out.per_shard = 120;
  let real_now = Utc::now().timestamp();
  if (real_now - NOW).abs() > 300 * 86_400 {
    eprintln!("c18: the machine clock ({real_now}) is too far from the nominal NOW of the generated validity windows");
    return 3;
  }
  let mut signer = Signer::new(args);
  let want = |idx: usize| args.only.map_or(true, |o| o == idx);
  let mut idx = 0usize;

  // ---- fixed corpus ----
  for c in corpus_checks() {
    if want(idx) {
      emit_check(&mut out, idx, &c, true, &mut signer);
    }
    idx += 1;
  }
  for (p, s) in corpus_globs() {
    if want(idx) {
      emit_glob(&mut out, idx, p, s);
    }
    idx += 1;
  }
  for (d, i) in [
    (ADom::Value(0), 0u16), (ADom::Value(0), 1), (ADom::Value(65535), 65535), (ADom::Range(3, 5), 2),
    (ADom::Range(3, 5), 3), (ADom::Range(3, 5), 5), (ADom::Range(3, 5), 6), (ADom::Range(5, 3), 4),
    (ADom::Range(4, 4), 4), (ADom::Min(7), 6), (ADom::Min(7), 7), (ADom::Min(0), 0), (ADom::Min(7), 65535),
    (ADom::Max(7), 7), (ADom::Max(7), 8), (ADom::Max(0), 0), (ADom::Max(65535), 65535),
  ] {
    if want(idx) {
      emit_domain(&mut out, idx, &d, i);
    }
    idx += 1;
  }
  // validity window boundaries (find_grant with an explicit instant): start inclusive, end exclusive
  {
    let allow_all = rule1(true, vec![crit1("*", &[])], vec![crit1("*", &[])], vec![]);
    let d = vec![
      grant1(1, (1000, 2000), vec![allow_all.clone()], false),
      grant1(0, (1000, 2000), vec![allow_all.clone()], false),
      grant1(0, (2000, 3000), vec![allow_all.clone()], true),
      grant1(0, (500, 5000), vec![allow_all.clone()], true),
    ];
    for now in [999i64, 1000, 1001, 1999, 2000, 2001, 2999, 3000, 4999, 5000, 499, 500] {
      for subject in [0i64, 1, 2] {
        if want(idx) {
          emit_find_grant(&mut out, idx, &d, subject, now);
        }
        idx += 1;
      }
    }
  }
  // partitions / data tags at the Rule level (the entry points always pass none)
  {
    let tagged = ACrit {
      topics: vec!["Sq*".into()],
      partitions: vec![],
      tags: vec![("aTagName1".into(), "aTagValue1".into()), ("aTagName2".into(), "aTagValue2".into())],
    };
    let rules = vec![
      rule1(true, vec![crit1("Square", &["P1", "Q*"])], vec![crit1("Square", &[])], vec![crit1("*", &["*"])]),
      rule1(false, vec![crit1("Square", &["P1"])], vec![tagged.clone()], vec![]),
    ];
    let part_sets: Vec<Vec<String>> = vec![
      vec![],
      vec!["".into()],
      vec!["P1".into()],
      vec!["P1".into(), "Q2".into()],
      vec!["P1".into(), "X".into()],
      vec!["X".into()],
      vec!["".into(), "P1".into()],
    ];
    let tag_sets: Vec<Vec<(String, String)>> = vec![
      vec![],
      vec![("aTagName1".into(), "aTagValue1".into())],
      vec![("aTagName1".into(), "aTagValue2".into())],
      vec![("aTagName1".into(), "aTagValue1".into()), ("aTagName2".into(), "aTagValue2".into())],
      vec![("aTagName1".into(), "aTagValue1".into()), ("other".into(), "x".into())],
    ];
    for ru in &rules {
      for act in [Act::Publish, Act::Subscribe, Act::Relay] {
        for ps in &part_sets {
          for tg in &tag_sets {
            if want(idx) {
              emit_applicable(&mut out, idx, ru, act, 0, "Square", ps, tg);
            }
            idx += 1;
          }
        }
      }
    }
  }
  // ---- signed documents: every alteration class ----
  {
    let mut r = Rng::for_case(args.seed, 0x5167);
    emit_signed(&mut out, &mut idx, args, &mut signer, &mut r);
  }

  // ---- generated cases ----
  for _ in 0..args.n {
    if want(idx) {
      let mut r = Rng::for_case(args.seed, idx);
      match r.below(20) {
        0..=5 => {
          let (p, s) = gen_glob_pair(&mut r);
          emit_glob(&mut out, idx, &p, &s);
        }
        6 => {
          let d = gen_dom(&mut r);
          let i = *r.pick(&[0u16, 1, 2, 3, 5, 9, 10, 11, 99, 100, 101, 232, 65534, 65535]);
          emit_domain(&mut out, idx, &d, i);
        }
        7 => {
          let hostile = r.chance(1, 6);
          let mut d = gen_doc(&mut r, hostile);
          // windows around a probe instant
          let now = NOW + r.range(-5, 5);
          for g in d.iter_mut() {
            if r.chance(1, 2) {
              g.not_before = now + r.range(-2, 1);
              g.not_after = now + r.range(-1, 2);
            }
          }
          let subject = *r.pick(&[0i64, 0, 1, 2, 3, 4]);
          emit_find_grant(&mut out, idx, &d, subject, now);
        }
        8 => {
          let hostile = r.chance(1, 8);
          let gov: Vec<ADomainRule> = (0..r.range(1, 4)).map(|_| gen_drule(&mut r, hostile)).collect();
          let domain = *r.pick(&[0u16, 1, 2, 5, 10, 100, 232, 65535]);
          emit_find_rule(&mut out, idx, &gov, domain); // (skips unrenderable documents)
        }
        9 | 10 => {
          let hostile = r.chance(1, 8);
          let ru = gen_rule(&mut r, hostile);
          let act = *r.pick(&[Act::Publish, Act::Subscribe, Act::Relay]);
          let domain = *r.pick(&[0u16, 0, 1, 2, 5, 10, 100]);
          let topic = r.pick(&TOPICS).to_string();
          let parts: Vec<String> = (0..*r.pick(&[0i64, 0, 1, 1, 2]))
            .map(|_| r.pick(&["", "P1", "P2", "A_partition", "x"]).to_string())
            .collect();
          let tg: Vec<(String, String)> = if r.chance(1, 4) {
            vec![("aTagName1".to_string(), r.pick(&["aTagValue1", "other"]).to_string())]
          } else {
            vec![]
          };
          emit_applicable(&mut out, idx, &ru, act, domain, &topic, &parts, &tg);
        }
        _ => {
          let hostile = r.chance(1, 8);
          let doc = if r.chance(1, 25) { None } else { Some(gen_doc(&mut r, hostile)) };
          let dr = if r.chance(1, 25) { None } else { Some(gen_drule(&mut r, hostile)) };
          let c = CheckCase {
            doc,
            dr,
            subject: *r.pick(&[0i64, 0, 0, 0, 1, 2, 3, 4]),
            api: *r.pick(&APIS),
            domain: *r.pick(&[0u16, 0, 0, 1, 2, 5, 10, 100]),
            topic: gen_topic(&mut r),
          };
          let full = idx % 8 == 0;
          emit_check(&mut out, idx, &c, full, &mut signer);
        }
      }
    }
    idx += 1;
  }
  let _ = fs::remove_dir_all(&signer.work);
  out.finish()
}
