// C11 driver: discovery-event histories on real Readers, Writers, a real DiscoveryDB and the real
// dp_event_loop notification handlers (called through cfg-gated wrappers, no running loop).
//
// The part of Discovery (src/discovery/discovery.rs) that turns DB operations into notifications
// needs a live DomainParticipant and is reproduced here statement by statement:
//   handle_subscription_reader / handle_publication_reader   (Announce, Dispose)
//   participant_cleanup                                       (Timeout)
//   process_participant_dispose                               (PDispose)
//   process_discovered_participant_data                       (PFound; the re-announcement of the
//       restored endpoints is the crate function discovery::rediscovery_notifications, shared
//       with Discovery)
use std::{
  collections::{BTreeMap, HashMap},
  panic::{catch_unwind, AssertUnwindSafe},
  sync::{Arc, Mutex, RwLock},
  time::Duration as StdDuration,
};

use mio_extras::channel as mio_channel;

use crate::{
  dds::{
    qos::{policy, QosPolicies, QosPolicyId},
    statusevents::{
      sync_status_channel, DataReaderStatus, DataWriterStatus, DomainParticipantStatusEvent,
      StatusChannelReceiver,
    },
    typedesc::TypeDesc,
    with_key::simpledatareader::ReaderCommand,
  },
  discovery::{discovery::DiscoveryCommand, discovery_db::DiscoveryDB},
  mio_source,
  rtps::{
    constant::*,
    dp_event_loop::{DPEventLoop, DomainInfo, EventLoopCommand},
    reader::ReaderIngredients,
    writer::{WriterCommand, WriterIngredients},
  },
  structure::{
    dds_cache::DDSCache,
    duration::Duration,
    guid::{EntityId, EntityKind, GuidPrefix, GUID},
  },
};
use super::{
  c12::{guid, prefix, reader_data, spdp_data, topic_name, unguid, writer_data},
  capture,
  util::{self, Args, CaseOut, Rng},
};

type Key = (bool, i64, i64); // is_writer, participant, entity
type Qos = (i64, i64); // reliability level 0/1, durability level 0..3

#[derive(Clone, Debug)]
pub enum Op {
  Announce(Key, i64, Qos),
  Dispose(Key),
  Timeout(i64),
  PDispose(i64),
  PFound(i64),
}

#[derive(Clone, Debug)]
pub struct Params {
  np: i64,
  ne: i64,
  nt: i64,
  locals: Vec<(bool, i64, Qos)>, // is_writer, topic, qos
}

fn qos_of(q: Qos) -> QosPolicies {
  let mut r = QosPolicies::qos_none();
  r.reliability = Some(if q.0 == 0 {
    policy::Reliability::BestEffort
  } else {
    policy::Reliability::Reliable { max_blocking_time: Duration::ZERO }
  });
  r.durability = Some(match q.1 {
    0 => policy::Durability::Volatile,
    1 => policy::Durability::TransientLocal,
    2 => policy::Durability::Transient,
    _ => policy::Durability::Persistent,
  });
  r
}

#[derive(Debug, Clone, PartialEq)]
enum Ev {
  Matched(i64, i64, i64, i64, Key),
  Incompat(i64, i64, i64, Key),
}

enum StatusRx {
  R(StatusChannelReceiver<DataReaderStatus>),
  W(StatusChannelReceiver<DataWriterStatus>),
}

fn policy_num(p: QosPolicyId) -> i64 {
  match p {
    QosPolicyId::Durability => 0,
    QosPolicyId::Reliability => 1,
    _ => 99,
  }
}

struct World {
  ev: DPEventLoop,
  db: Arc<RwLock<DiscoveryDB>>,
  locals: Vec<(EntityId, StatusRx)>,
  // channel ends that must stay alive
  _keep: Vec<Box<dyn std::any::Any>>,
  part_rx: StatusChannelReceiver<DomainParticipantStatusEvent>,
}

const ME: i64 = 100;
const LEASE_S: i64 = 10;

fn build(pa: &Params) -> World {
  let mut keep: Vec<Box<dyn std::any::Any>> = Vec::new();
  let (_add_r_tx, add_r_rx) = mio_channel::channel::<ReaderIngredients>();
  let (_rem_r_tx, rem_r_rx) = mio_channel::channel::<GUID>();
  let (_add_w_tx, add_w_rx) = mio_channel::channel::<WriterIngredients>();
  let (_rem_w_tx, rem_w_rx) = mio_channel::channel::<GUID>();
  let (_stop_tx, stop_rx) = mio_channel::channel::<EventLoopCommand>();
  let (_dn_tx, dn_rx) = mio_channel::channel();
  let (dc_tx, dc_rx) = mio_channel::sync_channel::<DiscoveryCommand>(64);
  let (live_tx, live_rx) = mio_channel::sync_channel::<GuidPrefix>(8);
  let (part_tx, part_rx) = sync_status_channel::<DomainParticipantStatusEvent>(256).unwrap();
  let (topic_tx, topic_rx) = mio_channel::sync_channel::<()>(4);
  let dds_cache = Arc::new(RwLock::new(DDSCache::new()));
  let my_guid = GUID::new(prefix(ME), EntityId::PARTICIPANT);
  let db = Arc::new(RwLock::new(DiscoveryDB::new(my_guid, topic_tx, part_tx.clone())));
  let mut ev = DPEventLoop::new(
    DomainInfo { domain_participant_guid: my_guid, domain_id: 0, participant_id: 0 },
    dds_cache.clone(),
    HashMap::new(),
    db.clone(),
    prefix(ME),
    TokenReceiverPair { token: ADD_READER_TOKEN, receiver: add_r_rx },
    TokenReceiverPair { token: REMOVE_READER_TOKEN, receiver: rem_r_rx },
    TokenReceiverPair { token: ADD_WRITER_TOKEN, receiver: add_w_rx },
    TokenReceiverPair { token: REMOVE_WRITER_TOKEN, receiver: rem_w_rx },
    stop_rx,
    dn_rx,
    dc_tx,
    live_tx,
    part_tx,
    None,
  );
  keep.push(Box::new((_add_r_tx, _rem_r_tx, _add_w_tx, _rem_w_tx, _stop_tx, _dn_tx)));
  keep.push(Box::new((dc_rx, live_rx, topic_rx)));
  let mut locals = Vec::new();
  for (i, (lw, lt, lq)) in pa.locals.iter().enumerate() {
    let qos = qos_of(*lq);
    if *lw {
      let eid = EntityId::new([0, 2, i as u8], EntityKind::WRITER_WITH_KEY_USER_DEFINED);
      let (cmd_tx, cmd_rx) = mio_channel::sync_channel::<WriterCommand>(10);
      let (st_tx, st_rx) = sync_status_channel::<DataWriterStatus>(256).unwrap();
      ev.verif_add_local_writer(WriterIngredients {
        guid: GUID::new(prefix(ME), eid),
        writer_command_receiver: cmd_rx,
        writer_command_receiver_waker: Arc::new(Mutex::new(None)),
        topic_name: topic_name(*lt),
        like_stateless: false,
        qos_policies: qos,
        status_sender: st_tx,
        security_plugins: None,
      });
      keep.push(Box::new(cmd_tx));
      locals.push((eid, StatusRx::W(st_rx)));
    } else {
      let eid = EntityId::new([0, 2, i as u8], EntityKind::READER_WITH_KEY_USER_DEFINED);
      let (n_tx, n_rx) = mio_channel::sync_channel::<()>(100);
      let (pe_src, pe_tx) = mio_source::make_poll_channel().unwrap();
      let (st_tx, st_rx) = sync_status_channel::<DataReaderStatus>(256).unwrap();
      let (cmd_tx, cmd_rx) = mio_channel::sync_channel::<ReaderCommand>(10);
      let tc = dds_cache.write().unwrap().add_new_topic(
        topic_name(*lt),
        TypeDesc::new("VerifType".to_string()),
        &qos,
      );
      ev.verif_add_local_reader(ReaderIngredients {
        guid: GUID::new(prefix(ME), eid),
        notification_sender: n_tx,
        status_sender: st_tx,
        topic_name: topic_name(*lt),
        topic_cache_handle: tc,
        like_stateless: false,
        qos_policy: qos,
        data_reader_command_receiver: cmd_rx,
        data_reader_waker: Arc::new(Mutex::new(None)),
        poll_event_sender: pe_tx,
        security_plugins: None,
      });
      keep.push(Box::new((n_rx, pe_src, cmd_tx)));
      locals.push((eid, StatusRx::R(st_rx)));
    }
  }
  World { ev, db, locals, _keep: keep, part_rx }
}

type Digest = (Vec<i64>, Vec<Key>, Vec<Key>, Vec<Vec<Key>>);

fn sort_keys(mut v: Vec<Key>) -> Vec<Key> {
  v.sort_by_key(|(w, p, e)| (*p, *e, *w));
  v
}

fn digest(w: &World, pa: &Params) -> Digest {
  let db = w.db.read().unwrap();
  let known: Vec<i64> =
    (0..pa.np).filter(|p| db.find_participant_proxy(prefix(*p)).is_some()).collect();
  let mut act = Vec::new();
  for p in 0..pa.np {
    for t in 0..pa.nt {
      for d in db.readers_on_topic_and_participant(&topic_name(t), prefix(p)) {
        act.push(unguid(d.reader_proxy.remote_reader_guid, pa.np));
      }
      for d in db.writers_on_topic_and_participant(&topic_name(t), prefix(p)) {
        act.push(unguid(d.writer_proxy.remote_writer_guid, pa.np));
      }
    }
  }
  let (ra, wa) = db.verif_attic();
  let att: Vec<Key> = ra.iter().chain(wa.iter()).map(|(g, _)| unguid(*g, pa.np)).collect();
  let matched = w
    .locals
    .iter()
    .map(|(eid, _)| {
      sort_keys(
        w.ev
          .verif_matched(*eid)
          .unwrap_or_default()
          .into_iter()
          .map(|g| unguid(g, pa.np))
          .collect(),
      )
    })
    .collect();
  (known, sort_keys(act), sort_keys(att), matched)
}

fn drain(w: &World, np: i64) -> Vec<Vec<Ev>> {
  while w.part_rx.try_recv().is_ok() {}
  w.locals
    .iter()
    .map(|(_, rx)| {
      let mut v = Vec::new();
      match rx {
        StatusRx::R(rx) => {
          while let Ok(s) = rx.try_recv() {
            v.push(match s {
              DataReaderStatus::SubscriptionMatched { total, current, writer } => Ev::Matched(
                total.count() as i64,
                total.count_change() as i64,
                current.count() as i64,
                current.count_change() as i64,
                unguid(writer, np),
              ),
              DataReaderStatus::RequestedIncompatibleQos { count, last_policy_id, writer, .. } => {
                Ev::Incompat(
                  count.count() as i64,
                  count.count_change() as i64,
                  policy_num(last_policy_id),
                  unguid(writer, np),
                )
              }
              _ => Ev::Incompat(-1, -1, -1, (false, -1, -1)),
            });
          }
        }
        StatusRx::W(rx) => {
          while let Ok(s) = rx.try_recv() {
            v.push(match s {
              DataWriterStatus::PublicationMatched { total, current, reader } => Ev::Matched(
                total.count() as i64,
                total.count_change() as i64,
                current.count() as i64,
                current.count_change() as i64,
                unguid(reader, np),
              ),
              DataWriterStatus::OfferedIncompatibleQos { count, last_policy_id, reader, .. } => {
                Ev::Incompat(
                  count.count() as i64,
                  count.count_change() as i64,
                  policy_num(last_policy_id),
                  unguid(reader, np),
                )
              }
              _ => Ev::Incompat(-1, -1, -1, (false, -1, -1)),
            });
          }
        }
      }
      v
    })
    .collect()
}

#[derive(Debug)]
enum Out {
  Unit,
  New(bool),
  Lost(Vec<i64>),
}

fn pindex(gp: GuidPrefix, np: i64) -> i64 {
  (0..np + 8).find(|p| prefix(*p) == gp).unwrap_or(-1)
}

fn execute(pa: &Params, ops: &[Op]) -> Vec<(Out, Vec<Vec<Ev>>, Digest)> {
  use DiscoveryNotificationType::*;
  capture::enable();
  let mut w = build(pa);
  let mut res = Vec::new();
  let mut announce_no: u64 = 0;
  for o in ops {
    let out = match o {
      // Discovery::handle_subscription_reader / handle_publication_reader, Sample::Value
      Op::Announce(k, t, q) => {
        // Locators are not part of the premise "keeps the QoS it was announced with": every
        // announcement carries different locator lists (0, 1 or 2 unicast, 0 or 1 multicast), so a
        // re-announcement of a matched endpoint that has "moved" must still be a no-op for the
        // matched sets and counts (seeded change C11-2A).
        announce_no += 1;
        let loc = |i: u64| -> crate::structure::locator::Locator {
          std::net::SocketAddr::from(([127, 0, 0, 1], 7400 + ((announce_no * 7 + i) % 2000) as u16)).into()
        };
        let uni: Vec<_> = (0..announce_no % 3).map(loc).collect();
        let multi: Vec<_> = (0..(announce_no / 3) % 2).map(|i| loc(i + 5)).collect();
        if k.0 {
          let mut wd = writer_data(*k, *t, &qos_of(*q));
          wd.writer_proxy.unicast_locator_list = uni;
          wd.writer_proxy.multicast_locator_list = multi;
          let d = w.db.write().unwrap().update_publication(&wd);
          w.ev.verif_discovery_notification(WriterUpdated { discovered_writer_data: d });
        } else {
          let mut rd = reader_data(*k, *t, &qos_of(*q));
          rd.reader_proxy.unicast_locator_list = uni;
          rd.reader_proxy.multicast_locator_list = multi;
          let d = w.db.write().unwrap().update_subscription(&rd);
          w.ev.verif_discovery_notification(ReaderUpdated { discovered_reader_data: d });
        }
        Out::Unit
      }
      // ... Sample::Dispose
      Op::Dispose(k) => {
        if k.0 {
          w.db.write().unwrap().remove_topic_writer(guid(*k));
          w.ev.verif_discovery_notification(WriterLost { writer_guid: guid(*k) });
        } else {
          w.db.write().unwrap().remove_topic_reader(guid(*k));
          w.ev.verif_discovery_notification(ReaderLost { reader_guid: guid(*k) });
        }
        Out::Unit
      }
      // p stays silent for longer than its lease while everybody else keeps talking, then
      // Discovery::participant_cleanup
      Op::Timeout(p) => {
        let removed = {
          let mut db = w.db.write().unwrap();
          db.verif_age(StdDuration::from_secs(LEASE_S as u64 + 1));
          for q in 0..pa.np {
            if q != *p {
              db.participant_is_alive(prefix(q));
            }
          }
          db.participant_cleanup()
        };
        let mut l = Vec::new();
        for (gp, _reason) in removed {
          w.ev.verif_discovery_notification(ParticipantLost { guid_prefix: gp });
          l.push(pindex(gp, pa.np));
        }
        Out::Lost(l)
      }
      // Discovery::process_participant_dispose
      Op::PDispose(p) => {
        w.db.write().unwrap().remove_participant(prefix(*p), true);
        w.ev.verif_discovery_notification(ParticipantLost { guid_prefix: prefix(*p) });
        Out::Unit
      }
      // Discovery::process_discovered_participant_data
      Op::PFound(p) => {
        let data = spdp_data(*p, Some(LEASE_S << 32), true);
        let was_new = w.db.write().unwrap().update_participant(&data);
        w.ev.verif_discovery_notification(ParticipantUpdated { guid_prefix: prefix(*p) });
        if was_new {
          // handle_topic_reader / handle_subscription_reader / handle_publication_reader
          // (Some(p)): they take *unread* samples of the built-in readers; there are none here.
          // Then the endpoints restored from the attic are announced again (the function is
          // the one Discovery calls).
          let notes = crate::discovery::discovery::rediscovery_notifications(
            &mut w.db.write().unwrap(),
            prefix(*p),
          );
          for n in notes {
            w.ev.verif_discovery_notification(n);
          }
        }
        Out::New(was_new)
      }
    };
    let evs = drain(&w, pa.np);
    res.push((out, evs, digest(&w, pa)));
  }
  drop(w);
  capture::drain();
  capture::disable();
  res
}

// ---------- Coq printing ----------
fn coq_key(k: &Key) -> String {
  format!("({}, {}, {})", util::b(k.0), util::z(k.1 as i128), util::z(k.2 as i128))
}
fn coq_qos(q: &Qos) -> String {
  format!("(Q {} {})", q.0, q.1)
}
fn coq_op(o: &Op) -> String {
  match o {
    Op::Announce(k, t, q) => format!("Announce {} {} {}", coq_key(k), t, coq_qos(q)),
    Op::Dispose(k) => format!("Dispose {}", coq_key(k)),
    Op::Timeout(p) => format!("Timeout {}", p),
    Op::PDispose(p) => format!("PDispose {}", p),
    Op::PFound(p) => format!("PFound {}", p),
  }
}
fn coq_case(pa: &Params, ops: &[Op]) -> String {
  format!(
    "(Build_params {} {} {} {}, {})",
    pa.np,
    pa.ne,
    pa.nt,
    util::list(pa.locals.iter().map(|(w, t, q)| format!("Build_lcfg {} {} {}", util::b(*w), t, coq_qos(q)))),
    util::list(ops.iter().map(coq_op))
  )
}
fn coq_keys(v: &[Key]) -> String {
  util::list(v.iter().map(coq_key))
}
fn coq_ev(e: &Ev) -> String {
  match e {
    Ev::Matched(a, b, c, d, k) => format!(
      "EvMatched {} {} {} {} {}",
      util::z(*a as i128),
      util::z(*b as i128),
      util::z(*c as i128),
      util::z(*d as i128),
      coq_key(k)
    ),
    Ev::Incompat(a, b, c, k) => format!(
      "EvIncompat {} {} {} {}",
      util::z(*a as i128),
      util::z(*b as i128),
      util::z(*c as i128),
      coq_key(k)
    ),
  }
}
fn coq_obs(tr: &[(Out, Vec<Vec<Ev>>, Digest)]) -> String {
  let items = tr.iter().map(|(o, evs, d)| {
    let o = match o {
      Out::Unit => "OUnit".to_string(),
      Out::New(b) => format!("ONew {}", util::b(*b)),
      Out::Lost(l) => format!("OLost {}", util::list(l.iter().map(|p| util::z(*p as i128)))),
    };
    format!(
      "({}, {}, Dg {} {} {} {})",
      o,
      util::list(evs.iter().map(|l| util::list(l.iter().map(coq_ev)))),
      util::list(d.0.iter().map(|p| util::z(*p as i128))),
      coq_keys(&d.1),
      coq_keys(&d.2),
      util::list(d.3.iter().map(|l| coq_keys(l)))
    )
  });
  format!("(Some {})", util::list(items))
}

// ---------- generation ----------
fn gen_qos(r: &mut Rng) -> Qos {
  (r.range(0, 1), *r.pick(&[0, 0, 1, 1, 2, 3]))
}

fn gen_case(r: &mut Rng) -> (Params, Vec<Op>, bool) {
  let hostile = r.chance(1, 6);
  let np = 3;
  let ne = 2;
  let nt = 2;
  let nl = r.range(2, 4);
  let mut locals = Vec::new();
  for i in 0..nl {
    // at least one reader and one writer
    let lw = if i == 0 { true } else if i == 1 { false } else { r.chance(1, 2) };
    locals.push((lw, r.range(0, nt - 1), gen_qos(r)));
  }
  let pa = Params { np, ne, nt, locals };
  // the (topic, QoS) every remote endpoint keeps: property premise
  let mut data: BTreeMap<Key, (i64, Qos)> = BTreeMap::new();
  for p in 0..np {
    for e in 0..ne {
      for w in [false, true] {
        // bias towards the topics/QoS of the local endpoints so that matches happen
        let (_, lt, lq) = *r.pick(&pa.locals);
        let t = if r.chance(2, 3) { lt } else { r.range(0, nt - 1) };
        let q = if r.chance(1, 2) { lq } else { gen_qos(r) };
        data.insert((w, p, e), (t, q));
      }
    }
  }
  let n = r.range(8, 26);
  let mut ops = Vec::new();
  // structured stream: participants are usually discovered before their endpoints
  let mut found: Vec<i64> = Vec::new();
  let mut parked: Vec<Key> = Vec::new(); // endpoints of participants that timed out
  let mut live: Vec<Key> = Vec::new();
  for _ in 0..n {
    let p = r.range(0, np - 1);
    let k: Key = (r.chance(1, 2), p, r.range(0, ne - 1));
    let roll = r.below(100);
    let o = if roll < 40 {
      // announce / re-announce
      let k = if !hostile && !found.is_empty() && r.chance(5, 6) {
        (k.0, *r.pick(&found), k.2)
      } else {
        k
      };
      let (t, q) = data[&k];
      if hostile && r.chance(1, 4) {
        Op::Announce(k, r.range(0, nt - 1), gen_qos(r)) // QoS change: outside the premise
      } else {
        Op::Announce(k, t, q)
      }
    } else if roll < 52 {
      let k = if !live.is_empty() && r.chance(3, 4) { *r.pick(&live) } else { k };
      if !hostile && parked.contains(&k) {
        Op::PFound(k.1)
      } else {
        Op::Dispose(k)
      }
    } else if roll < 72 {
      Op::PFound(p)
    } else if roll < 88 {
      let p = if !found.is_empty() && r.chance(4, 5) { *r.pick(&found) } else { p };
      Op::Timeout(p)
    } else {
      Op::PDispose(p)
    };
    match &o {
      Op::Announce(k, ..) => {
        if !live.contains(k) {
          live.push(*k)
        }
      }
      Op::Dispose(k) => live.retain(|x| x != k),
      Op::PFound(p) => {
        if !found.contains(p) {
          found.push(*p)
        }
        let back: Vec<Key> = parked.iter().filter(|k| k.1 == *p).cloned().collect();
        parked.retain(|k| k.1 != *p);
        for k in back {
          if !live.contains(&k) {
            live.push(k)
          }
        }
      }
      Op::Timeout(p) => {
        if found.contains(p) {
          found.retain(|x| x != p);
          let gone: Vec<Key> = live.iter().filter(|k| k.1 == *p).cloned().collect();
          live.retain(|k| k.1 != *p);
          parked.extend(gone);
        }
      }
      Op::PDispose(p) => {
        found.retain(|x| x != p);
        live.retain(|k| k.1 != *p);
        parked.retain(|k| k.1 != *p);
      }
    }
    ops.push(o);
  }
  (pa, ops, hostile)
}

fn corpus() -> Vec<(Params, Vec<Op>)> {
  let rel: Qos = (1, 0);
  let be: Qos = (0, 0);
  let tl: Qos = (1, 1);
  let pa = Params {
    np: 3,
    ne: 2,
    nt: 2,
    // writer (reliable, volatile) t0; reader (reliable, volatile) t0; reader (best effort) t1;
    // writer (best effort, volatile) t0
    locals: vec![(true, 0, rel), (false, 0, rel), (false, 1, be), (true, 0, be)],
  };
  let r00: Key = (false, 0, 0);
  let w00: Key = (true, 0, 0);
  let r01: Key = (false, 0, 1);
  let w01: Key = (true, 0, 1);
  let w10: Key = (true, 1, 0);
  let mut v: Vec<Vec<Op>> = Vec::new();
  // 0: announce, re-announce (no second event), dispose, dispose again
  v.push(vec![
    Op::PFound(0),
    Op::Announce(r00, 0, rel),
    Op::Announce(r00, 0, rel),
    Op::Announce(w00, 0, rel),
    Op::Announce(w00, 0, rel),
    Op::Dispose(r00),
    Op::Dispose(r00),
    Op::Dispose(w00),
  ]);
  // 1: incompatible in both directions: remote reader wants reliable from a best-effort writer
  //    (local writer 3), remote writer offers best effort to a reliable reader (local reader 1);
  //    durability: remote reader wants transient-local from volatile writers
  v.push(vec![
    Op::PFound(0),
    Op::Announce(r00, 0, rel),
    Op::Announce(w00, 0, be),
    Op::Announce(r01, 0, tl),
    Op::Announce(w00, 0, be),
    Op::Announce(w01, 1, be),
  ]);
  // 2: participant time-out unmatches all its endpoints together, other participant untouched
  v.push(vec![
    Op::PFound(0),
    Op::PFound(1),
    Op::Announce(r00, 0, rel),
    Op::Announce(r01, 0, be),
    Op::Announce(w00, 0, rel),
    Op::Announce(w10, 0, rel),
    Op::Timeout(0),
    Op::Timeout(0),
  ]);
  // 3: time-out then rediscovery: the endpoints learned before are known again (finding:
  //    without a re-announcement they stayed unmatched); then the remote re-announces
  v.push(vec![
    Op::PFound(0),
    Op::Announce(r00, 0, rel),
    Op::Announce(w00, 0, rel),
    Op::Announce(w01, 0, be),
    Op::Timeout(0),
    Op::PFound(0),
    Op::Announce(r00, 0, rel),
    Op::Announce(w00, 0, rel),
  ]);
  // 4: participant dispose, rediscovery brings nothing back, fresh announcements match again
  v.push(vec![
    Op::PFound(0),
    Op::Announce(r00, 0, rel),
    Op::Announce(w00, 0, rel),
    Op::PDispose(0),
    Op::PFound(0),
    Op::Announce(r00, 0, rel),
  ]);
  // 5: endpoints announced before their participant is known; time-out of an unknown
  //    participant is not an event
  v.push(vec![Op::Announce(r00, 0, rel), Op::Timeout(0), Op::PFound(0), Op::Timeout(0), Op::PFound(0)]);
  // 6: totals keep growing over match / unmatch cycles
  v.push(vec![
    Op::PFound(1),
    Op::Announce(w10, 0, rel),
    Op::Dispose(w10),
    Op::Announce(w10, 0, rel),
    Op::Timeout(1),
    Op::PFound(1),
    Op::PDispose(1),
    Op::Announce(w10, 0, rel),
  ]);
  // 7: re-announcement while the participant is timed out, then rediscovery (no double match)
  v.push(vec![
    Op::PFound(0),
    Op::Announce(r00, 0, rel),
    Op::Timeout(0),
    Op::Announce(r00, 0, rel),
    Op::PFound(0),
  ]);
  // 8: outside the premise: endpoint disposed while its participant is timed out
  v.push(vec![Op::PFound(0), Op::Announce(r00, 0, rel), Op::Timeout(0), Op::Dispose(r00), Op::PFound(0)]);
  // 9: outside the premise: QoS changes from compatible to incompatible
  v.push(vec![Op::PFound(0), Op::Announce(w00, 0, rel), Op::Announce(w00, 0, be)]);
  v.into_iter().map(|h| (pa.clone(), h)).collect()
}

pub fn run(args: &Args) -> i32 {
  let mut out = CaseOut::new(
    args,
    "From Coq Require Import List ZArith.\nFrom RD Require Import Common.Corr C11.Model.\nImport ListNotations.\nOpen Scope Z_scope.",
    "check run obs_eqb ok",
    "case",
    "obs",
  );
  out.per_shard = 100;
  // C10 "same verdict on both sides": (offered, requested) -> verdict seen by a local reader
  // (Reader::update_writer_proxy) and by a local writer (Writer::update_reader_proxy)
  let mut verdicts: BTreeMap<(Qos, Qos), (Option<i64>, Option<i64>)> = BTreeMap::new();
  let mut disagreements = 0u64;
  let mut emit = |out: &mut CaseOut, idx: usize, pa: &Params, ops: &[Op], stream: &str| {
    let res = catch_unwind(AssertUnwindSafe(|| execute(pa, ops)));
    let mut tags = vec![format!("stream:{}", stream), format!("ops:{}", (ops.len() / 5) * 5)];
    let mut nontrivial = false;
    let obs = match &res {
      Err(_) => {
        capture::disable();
        tags.push("panic".into());
        "None (* the implementation panicked *)".to_string()
      }
      Ok(tr) => {
        let mut lost_then_found: Vec<i64> = Vec::new();
        for (o, (out_, evs, _)) in ops.iter().zip(tr.iter()) {
          tags.push(
            match o {
              Op::Announce(..) => "op:Announce",
              Op::Dispose(_) => "op:Dispose",
              Op::Timeout(_) => "op:Timeout",
              Op::PDispose(_) => "op:PDispose",
              Op::PFound(_) => "op:PFound",
            }
            .to_string(),
          );
          match (o, out_) {
            (Op::Timeout(_), Out::Lost(l)) if !l.is_empty() => {
              tags.push("timeout:effective".into());
              lost_then_found.extend(l.iter());
            }
            (Op::PFound(p), Out::New(true)) if lost_then_found.contains(p) => {
              tags.push("rediscovery-after-timeout".into());
              lost_then_found.retain(|q| q != p);
            }
            (Op::PDispose(p), _) => lost_then_found.retain(|q| q != p),
            _ => {}
          }
          for (i, l) in evs.iter().enumerate() {
            for e in l {
              nontrivial = true;
              match e {
                Ev::Matched(_, _, _, c, _) => tags.push(format!("ev:Matched{:+}", c)),
                Ev::Incompat(_, _, pol, _) => tags.push(format!("ev:Incompatible(policy {})", pol)),
              }
              // both-sides verdict bookkeeping (only for single announcements)
              if let Op::Announce(k, _, q) = o {
                let (lw, _, lq) = pa.locals[i];
                let (off, req) = if lw { (lq, *q) } else { (*q, lq) };
                let verdict = match e {
                  Ev::Matched(..) => -1,
                  Ev::Incompat(_, _, pol, _) => *pol,
                };
                let slot = verdicts.entry((off, req)).or_insert((None, None));
                let side = if lw { &mut slot.1 } else { &mut slot.0 };
                if let Some(old) = side {
                  if *old != verdict {
                    disagreements += 1;
                  }
                }
                *side = Some(verdict);
                let _ = k;
              }
            }
          }
        }
        coq_obs(tr)
      }
    };
    out.push(idx, coq_case(pa, ops), obs, &tags, nontrivial);
  };
  let mut idx = 0usize;
  for (pa, ops) in corpus() {
    if args.only.map_or(true, |o| o == idx) {
      emit(&mut out, idx, &pa, &ops, "corpus");
    }
    idx += 1;
  }
  for _ in 0..args.n {
    if args.only.map_or(true, |o| o == idx) {
      let mut r = Rng::for_case(args.seed, idx);
      let (pa, ops, hostile) = gen_case(&mut r);
      emit(&mut out, idx, &pa, &ops, if hostile { "hostile" } else { "structured" });
    }
    idx += 1;
  }
  let mut both = 0u64;
  for ((_off, _req), (rs, ws)) in &verdicts {
    if let (Some(a), Some(b)) = (rs, ws) {
      both += 1;
      if a != b {
        disagreements += 1;
      }
    }
  }
  out.extra.push(("c10_same_verdict_pairs_seen_on_both_sides".into(), format!("{}", both)));
  out.extra.push(("c10_same_verdict_disagreements".into(), format!("{}", disagreements)));
  let rc = out.finish();
  if disagreements > 0 {
    eprintln!("c11: reader side and writer side disagree on {} (offered, requested) pairs", disagreements);
    return 4;
  }
  rc
}
