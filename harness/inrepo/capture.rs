// UDP capture: when enabled on the current thread, UDPSender::send_to_locator hands the datagram
// here instead of the socket.
use std::cell::RefCell;

use crate::structure::locator::Locator;

thread_local! {
  static SINK: RefCell<Option<Vec<(Locator, Vec<u8>)>>> = RefCell::new(None);
}

pub fn enable() {
  SINK.with(|s| *s.borrow_mut() = Some(Vec::new()));
}
pub fn disable() {
  SINK.with(|s| *s.borrow_mut() = None);
}
pub fn drain() -> Vec<(Locator, Vec<u8>)> {
  SINK.with(|s| match s.borrow_mut().as_mut() {
    Some(v) => std::mem::take(v),
    None => Vec::new(),
  })
}
/// true = datagram consumed (do not send).
pub fn intercept(buffer: &[u8], locator: &Locator) -> bool {
  SINK.with(|s| match s.borrow_mut().as_mut() {
    Some(v) => {
      v.push((*locator, buffer.to_vec()));
      true
    }
    None => false,
  })
}
