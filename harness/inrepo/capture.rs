// UDP capture: when enabled on the current thread, UDPSender::send_to_locator hands the datagram
// here instead of the socket.
use std::cell::RefCell;

use crate::structure::locator::Locator;

thread_local! {
  static SINK: RefCell<Option<Vec<(Locator, Vec<u8>)>>> = RefCell::new(None);
}

pub fn enable() {
  SINK.with(|s| *s.borrow_mut() = Some(Vec::new()));
}
pub fn disable() {
  SINK.with(|s| *s.borrow_mut() = None);
}
pub fn drain() -> Vec<(Locator, Vec<u8>)> {
  SINK.with(|s| match s.borrow_mut().as_mut() {
    Some(v) => std::mem::take(v),
    None => Vec::new(),
  })
}
/// true = datagram consumed (do not send).
pub fn intercept(buffer: &[u8], locator: &Locator) -> bool {
  if lossy(locator) {
    return true;
  }
  SINK.with(|s| match s.borrow_mut().as_mut() {
    Some(v) => {
      v.push((*locator, buffer.to_vec()));
      true
    }
    None => false,
  })
}

// ---- datagram loss policy (process-wide, keyed by RTPS domain id derived from the destination port)
use std::sync::atomic::{AtomicU32, AtomicU64, Ordering};

const ZERO32: AtomicU32 = AtomicU32::new(0);
pub static LOSS_PERMILLE: [AtomicU32; 256] = [ZERO32; 256];
static LOSS_CTR: AtomicU64 = AtomicU64::new(0x1234_5678);
pub static DROPPED: AtomicU64 = AtomicU64::new(0);

pub fn set_loss(domain: u16, permille: u32) {
  LOSS_PERMILLE[(domain as usize) % 256].store(permille, Ordering::Relaxed);
}

fn domain_of(locator: &Locator) -> Option<usize> {
  let port = match locator {
    Locator::UdpV4(a) => a.port(),
    Locator::UdpV6(a) => a.port(),
    _ => return None,
  };
  if port < 7400 {
    return None;
  }
  Some(((port - 7400) / 250) as usize % 256)
}

/// true = drop this datagram.
pub fn lossy(locator: &Locator) -> bool {
  let d = match domain_of(locator) {
    Some(d) => d,
    None => return false,
  };
  let rate = LOSS_PERMILLE[d].load(Ordering::Relaxed);
  if rate == 0 {
    return false;
  }
  let mut z = LOSS_CTR.fetch_add(0x9E3779B97F4A7C15, Ordering::Relaxed);
  z = (z ^ (z >> 30)).wrapping_mul(0xBF58476D1CE4E5B9);
  z = (z ^ (z >> 27)).wrapping_mul(0x94D049BB133111EB);
  z ^= z >> 31;
  let drop = (z % 1000) < rate as u64;
  if drop {
    DROPPED.fetch_add(1, Ordering::Relaxed);
  }
  drop
}
