// C04 driver (also the engine of C20): a real rtps::writer::Writer outside a participant, a capture
// UDPSender, timers fired through Writer::verif_fire, ACKNACKs parsed from hand-made wire bytes,
// readers matched / lost through update_reader_proxy / reader_lost.  After every operation the
// captured datagrams are re-parsed with Message::read_from_buffer and printed together with a state
// digest (history bounds and retrievable sequence numbers, every reader proxy, the ack waiter) and
// the completion signals delivered to the WaitForAcknowledgments channels.
use std::{
  collections::BTreeMap,
  panic::{catch_unwind, AssertUnwindSafe},
};

use bytes::Bytes;
use enumflags2::BitFlags;
use speedy::{Endianness, Readable};

use crate::{
  dds::{
    ddsdata::DDSData,
    qos::{policy, QosPolicies, QosPolicyBuilder},
    statusevents::{sync_status_channel, StatusChannelReceiver},
    with_key::datawriter::{WriteOptions, WriteOptionsBuilder},
  },
  messages::submessages::{
    elements::serialized_payload::SerializedPayload,
    submessages::{
      AckNack, AckSubmessage, InterpreterSubmessage, WriterSubmessage, HEARTBEAT_Flags,
    },
  },
  rtps::{
    rtps_reader_proxy::RtpsReaderProxy,
    writer::{TimedEvent, WriterCommand},
    Message, SubmessageBody,
  },
  structure::{
    duration::Duration,
    guid::{EntityId, EntityKind, GuidPrefix, GUID},
    locator::Locator,
    sequence_number::SequenceNumber,
    time::Timestamp,
  },
  RepresentationIdentifier,
};
use super::{
  capture, mk,
  util::{self, Args, CaseOut, Rng},
};

pub const RLIMIT: i64 = 32; // `resource_limit` local of Writer::handle_cache_cleaning

#[derive(Clone, Debug)]
pub enum Hist {
  Unset,
  KeepAll,
  KeepLast(i32),
}

#[derive(Clone, Debug)]
pub struct Cfg {
  pub hist: Hist,
  pub dur: u8, // 0 unspecified, 1 Volatile, 2 TransientLocal
  pub dmax: usize,
}

#[derive(Clone, Debug)]
pub enum Op {
  Write { single: Option<u8>, bytes: Vec<u8> },
  AckNack { r: u8, base: i64, set: Vec<i64>, numbits: u32 },
  Match { r: u8, rel: bool, dur: u8 },
  Lose { r: u8 },
  HbTick { manual: bool },
  CacheClean,
  RepairTick { r: u8 },
  FragsTick { r: u8 },
  WaitAck { w: u32 },
}

impl Cfg {
  pub fn coq(&self) -> String {
    let h = match self.hist {
      Hist::Unset => "HNone".to_string(),
      Hist::KeepAll => "HKeepAll".to_string(),
      Hist::KeepLast(d) => format!("(HKeepLast {})", util::z(d as i128)),
    };
    format!("(Build_cfg {} {} {} {})", h, self.dur, self.dmax, RLIMIT)
  }
  pub fn depth(&self) -> i64 {
    match self.hist {
      Hist::Unset => 1,
      Hist::KeepAll => RLIMIT,
      Hist::KeepLast(d) => {
        if d < 0 {
          RLIMIT
        } else {
          (d as i64).min(RLIMIT)
        }
      }
    }
  }
}

/// list of integers as a Coq term; runs of consecutive numbers are printed as `zr lo hi`
/// (Model.zr) so that long ascending sets stay short on the page
fn zlist(v: &[i64]) -> String {
  let mut parts: Vec<String> = Vec::new();
  let mut plain: Vec<String> = Vec::new();
  let mut i = 0;
  while i < v.len() {
    let mut j = i;
    while j + 1 < v.len() && v[j + 1] == v[j] + 1 {
      j += 1;
    }
    if j - i + 1 >= 4 {
      if !plain.is_empty() {
        parts.push(format!("[{}]", plain.join("; ")));
        plain.clear();
      }
      parts.push(format!("zr {} {}", util::z(v[i] as i128), util::z(v[j] as i128)));
    } else {
      for k in i..=j {
        plain.push(util::z(v[k] as i128));
      }
    }
    i = j + 1;
  }
  if !plain.is_empty() || parts.is_empty() {
    parts.push(format!("[{}]", plain.join("; ")));
  }
  if parts.len() == 1 && parts[0].starts_with('[') {
    parts.pop().unwrap()
  } else {
    format!("({})", parts.join(" ++ "))
  }
}

impl Op {
  pub fn coq(&self) -> String {
    match self {
      Op::Write { single, bytes } => format!(
        "Write {} {}",
        util::opt(single.map(|g| g.to_string())),
        util::bytes(bytes)
      ),
      Op::AckNack { r, base, set, .. } => {
        format!("AckNack {} {} {}", r, util::z(*base as i128), zlist(set))
      }
      Op::Match { r, rel, dur } => format!("Match {} {} {}", r, util::b(*rel), dur),
      Op::Lose { r } => format!("Lose {}", r),
      Op::HbTick { manual } => format!("HbTick {}", util::b(*manual)),
      Op::CacheClean => "CacheClean".to_string(),
      Op::RepairTick { r } => format!("RepairTick {}", r),
      Op::FragsTick { r } => format!("FragsTick {}", r),
      Op::WaitAck { w } => format!("WaitAck {}", w),
    }
  }
  pub fn kind(&self) -> &'static str {
    match self {
      Op::Write { single: None, .. } => "Write",
      Op::Write { single: Some(_), .. } => "WriteSingle",
      Op::AckNack { .. } => "AckNack",
      Op::Match { .. } => "Match",
      Op::Lose { .. } => "Lose",
      Op::HbTick { .. } => "HbTick",
      Op::CacheClean => "CacheClean",
      Op::RepairTick { .. } => "RepairTick",
      Op::FragsTick { .. } => "FragsTick",
      Op::WaitAck { .. } => "WaitAck",
    }
  }
}

pub fn ops_coq(ops: &[Op]) -> String {
  util::list(ops.iter().map(|o| o.coq()))
}

pub fn case_coq(cfg: &Cfg, ops: &[Op]) -> String {
  format!("({}, {})", cfg.coq(), util::list(ops.iter().map(|o| o.coq())))
}

// ---------------------------------------------------------------------------------------------
// identities

pub fn writer_guid() -> GUID {
  GUID::new(
    GuidPrefix::new(&[0x57; 12]),
    EntityId::new([0, 0, 9], EntityKind::WRITER_WITH_KEY_USER_DEFINED),
  )
}
pub fn reader_guid(r: u8) -> GUID {
  GUID::new(
    GuidPrefix::new(&[r; 12]),
    EntityId::new([0, 0, r], EntityKind::READER_WITH_KEY_USER_DEFINED),
  )
}
fn reader_locator(r: u8) -> Locator {
  Locator::from(std::net::SocketAddr::from(([10, 77, 77, 10 + r], 7411)))
}
fn reader_of_prefix(p: GuidPrefix) -> i64 {
  for r in 0..=20u8 {
    if GuidPrefix::new(&[r; 12]) == p {
      return r as i64;
    }
  }
  -1
}
fn reader_of_entity(e: EntityId) -> Option<i64> {
  if e == EntityId::UNKNOWN {
    return None;
  }
  for r in 0..=20u8 {
    if reader_guid(r).entity_id == e {
      return Some(r as i64);
    }
  }
  Some(-1)
}
fn reader_of_locator(l: &Locator) -> i64 {
  for r in 0..=20u8 {
    if reader_locator(r) == *l {
      return r as i64;
    }
  }
  -1
}

fn durability_of(d: u8) -> Option<policy::Durability> {
  match d {
    0 => None,
    1 => Some(policy::Durability::Volatile),
    2 => Some(policy::Durability::TransientLocal),
    _ => Some(policy::Durability::Transient),
  }
}

pub fn writer_qos(cfg: &Cfg) -> QosPolicies {
  let mut q = QosPolicies::qos_none();
  q.reliability =
    Some(policy::Reliability::Reliable { max_blocking_time: Duration::from_millis(100) });
  q.durability = durability_of(cfg.dur);
  q.history = match cfg.hist {
    Hist::Unset => None,
    Hist::KeepAll => Some(policy::History::KeepAll),
    Hist::KeepLast(d) => Some(policy::History::KeepLast { depth: d }),
  };
  q
}
pub fn reader_qos(rel: bool, dur: u8) -> QosPolicies {
  let mut q = QosPolicies::qos_none();
  q.reliability = Some(if rel {
    policy::Reliability::Reliable { max_blocking_time: Duration::from_millis(100) }
  } else {
    policy::Reliability::BestEffort
  });
  q.durability = durability_of(dur);
  q
}

/// ACKNACK built from wire bytes (any base, any bitmap), parsed by the real deserializer.
pub fn make_acknack(r: u8, base: i64, set: &[i64], numbits: u32) -> Option<AckNack> {
  let mut body: Vec<u8> = Vec::new();
  body.extend_from_slice(&[0, 0, r, 0x07]); // reader entity id (READER_WITH_KEY_USER_DEFINED)
  body.extend_from_slice(&[0, 0, 9, 0x02]); // writer entity id
  body.extend_from_slice(&((base >> 32) as i32).to_le_bytes());
  body.extend_from_slice(&(base as u32).to_le_bytes());
  body.extend_from_slice(&numbits.to_le_bytes());
  let nwords = ((numbits + 31) / 32) as usize;
  let mut words = vec![0u32; nwords];
  for sn in set {
    let pos = sn - base;
    if pos >= 0 && (pos as u32) < numbits {
      words[(pos / 32) as usize] |= 1u32 << (31 - (pos % 32));
    }
  }
  for w in words {
    body.extend_from_slice(&w.to_le_bytes());
  }
  body.extend_from_slice(&1i32.to_le_bytes()); // count
  AckNack::read_from_buffer_with_ctx(Endianness::LittleEndian, &body).ok()
}

// ---------------------------------------------------------------------------------------------
// observation

#[derive(Default, Clone)]
pub struct StepSummary {
  pub n_dgrams: usize,
  pub n_data: usize,
  pub n_frag: usize,
  pub n_gap: usize,
  pub n_hb: usize,
  pub signals: Vec<u32>,
  pub hist_len: usize,
  pub first: i64,
  pub last: i64,
  pub parse_errors: usize,
  pub aw_pending: Option<usize>,
}

fn coq_sub(sm: &crate::rtps::Submessage, sum: &mut StepSummary) -> Option<String> {
  match &sm.body {
    SubmessageBody::Interpreter(InterpreterSubmessage::InfoDestination(d, _)) => {
      Some(format!("SInfoDst {}", util::z(reader_of_prefix(d.guid_prefix) as i128)))
    }
    SubmessageBody::Interpreter(InterpreterSubmessage::InfoTimestamp(..)) => None,
    SubmessageBody::Interpreter(_) => Some("SInfoDst (-2)".to_string()),
    SubmessageBody::Writer(WriterSubmessage::Gap(g, _)) => {
      sum.n_gap += 1;
      let set: Vec<i64> = g.gap_list.iter().map(i64::from).collect();
      Some(format!(
        "SGap {} {} {} {}",
        util::z(reader_of_entity(g.reader_id).unwrap_or(-3) as i128),
        util::z(i64::from(g.gap_start) as i128),
        util::z(i64::from(g.gap_list.base()) as i128),
        zlist(&set)
      ))
    }
    SubmessageBody::Writer(WriterSubmessage::Data(d, _)) => {
      sum.n_data += 1;
      let bytes = d.serialized_payload.as_ref().map(|b| b.to_vec()).unwrap_or_default();
      Some(format!(
        "SData {} {} {}",
        util::opt(reader_of_entity(d.reader_id).map(|x| util::z(x as i128))),
        util::z(i64::from(d.writer_sn) as i128),
        util::bytes(&bytes)
      ))
    }
    SubmessageBody::Writer(WriterSubmessage::DataFrag(df, _)) => {
      sum.n_frag += 1;
      Some(format!(
        "SFrag {} {} {} {} {} {}",
        util::opt(reader_of_entity(df.reader_id).map(|x| util::z(x as i128))),
        util::z(i64::from(df.writer_sn) as i128),
        u32::from(df.fragment_starting_num),
        df.data_size,
        df.fragment_size,
        util::bytes(&df.serialized_payload)
      ))
    }
    SubmessageBody::Writer(WriterSubmessage::Heartbeat(h, flags)) => {
      sum.n_hb += 1;
      Some(format!(
        "SHb {} {} {} {} {} {}",
        util::opt(reader_of_entity(h.reader_id).map(|x| util::z(x as i128))),
        util::z(i64::from(h.first_sn) as i128),
        util::z(i64::from(h.last_sn) as i128),
        util::z(h.count as i128),
        util::b(flags.contains(HEARTBEAT_Flags::Final)),
        util::b(flags.contains(HEARTBEAT_Flags::Liveliness))
      ))
    }
    // anything else is not expressible in the model: shows up as a disagreement
    _ => Some("SInfoDst (-9)".to_string()),
  }
}

pub struct Rig {
  pub kit: mk::WriterKit,
  pub cfg: Cfg,
  pub next_sn: i64,
  pub waiters: Vec<(u32, StatusChannelReceiver<()>)>,
  last_ts: Timestamp,
}

impl Rig {
  pub fn new(cfg: &Cfg) -> Rig {
    let mut kit = mk::make_writer(writer_guid(), "c04_topic", writer_qos(cfg));
    kit.writer.data_max_size_serialized = cfg.dmax;
    Rig { kit, cfg: cfg.clone(), next_sn: 1, waiters: Vec::new(), last_ts: Timestamp::now() }
  }

  fn apply(&mut self, op: &Op) {
    match op {
      Op::Write { single, bytes } => {
        // the history buffer is keyed by Timestamp::now(): make sure the clock has moved
        loop {
          let t = Timestamp::now();
          if t != self.last_ts {
            self.last_ts = t;
            break;
          }
        }
        let sn = self.next_sn;
        self.next_sn += 1;
        let sp = SerializedPayload {
          representation_identifier: RepresentationIdentifier { bytes: [bytes[0], bytes[1]] },
          representation_options: [bytes[2], bytes[3]],
          value: Bytes::from(bytes[4..].to_vec()),
        };
        let wo = match single {
          Some(g) => WriteOptionsBuilder::new().to_single_reader(reader_guid(*g)).build(),
          None => WriteOptions::default(),
        };
        let _ = self.kit.cmd.try_send(WriterCommand::DDSData {
          ddsdata: DDSData::new(sp),
          write_options: wo,
          sequence_number: SequenceNumber::new(sn),
        });
        self.kit.writer.process_writer_command();
        loop {
          let t = Timestamp::now();
          if t != self.last_ts {
            self.last_ts = t;
            break;
          }
        }
      }
      Op::AckNack { r, base, set, numbits } => {
        if let Some(an) = make_acknack(*r, *base, set, *numbits) {
          self
            .kit
            .writer
            .handle_ack_nack(reader_guid(*r).prefix, &AckSubmessage::AckNack(an));
        }
      }
      Op::Match { r, rel, dur } => {
        let q = reader_qos(*rel, *dur);
        let mut rp = RtpsReaderProxy::new(reader_guid(*r), q.clone(), false);
        rp.unicast_locator_list = vec![reader_locator(*r)];
        self.kit.writer.update_reader_proxy(&rp, &q);
      }
      Op::Lose { r } => self.kit.writer.reader_lost(reader_guid(*r)),
      Op::HbTick { manual } => self.kit.writer.handle_heartbeat_tick(*manual),
      Op::CacheClean => self.kit.writer.verif_fire(TimedEvent::CacheCleaning),
      Op::RepairTick { r } => self
        .kit
        .writer
        .verif_fire(TimedEvent::SendRepairData { to_reader: reader_guid(*r) }),
      Op::FragsTick { r } => self
        .kit
        .writer
        .verif_fire(TimedEvent::SendRepairFrags { to_reader: reader_guid(*r) }),
      Op::WaitAck { w } => {
        let (tx, rx) = sync_status_channel::<()>(1).expect("status channel");
        self.waiters.push((*w, rx));
        let _ = self.kit.cmd.try_send(WriterCommand::WaitForAcknowledgments { all_acked: tx });
        self.kit.writer.process_writer_command();
      }
    }
  }

  fn digest(&self, sum: &mut StepSummary) -> String {
    let (first, last, hist) = self.kit.writer.verif_history();
    sum.hist_len = hist.len();
    sum.first = first;
    sum.last = last;
    let proxies: Vec<String> = self
      .kit
      .writer
      .verif_reader_proxies()
      .iter()
      .map(|p| {
        let unsent: Vec<i64> = p.unsent_changes_debug().iter().map(|s| i64::from(*s)).collect();
        let gap: Vec<i64> = p.get_pending_gap().iter().map(|s| i64::from(*s)).collect();
        let frags = util::list(p.verif_frags_requested().iter().map(|(sn, bv)| {
          format!("({}, {})", util::z(*sn as i128), util::list(bv.iter().map(|b| util::b(*b).to_string())))
        }));
        format!(
          "(Build_pdig {} {} {} {} {} {} {})",
          util::z(reader_of_prefix(p.remote_reader_guid.prefix) as i128),
          util::b(p.qos().is_reliable()),
          util::z(i64::from(p.all_acked_before) as i128),
          zlist(&unsent),
          zlist(&gap),
          util::b(p.repair_mode),
          frags
        )
      })
      .collect();
    let aw = self.kit.writer.verif_ack_waiter().map(|(until, pend)| {
      sum.aw_pending = Some(pend.len());
      let ids: Vec<i64> = pend.iter().map(|g| reader_of_prefix(g.prefix)).collect();
      format!("({}, {})", util::z(until as i128), zlist(&ids))
    });
    format!(
      "(Build_digest {} {} {} {} {})",
      util::z(first as i128),
      util::z(last as i128),
      zlist(&hist),
      util::list(proxies),
      util::opt(aw)
    )
  }

  /// Executes one operation on the real Writer; Err = the code panicked.
  pub fn step(&mut self, op: &Op) -> Result<(String, StepSummary), ()> {
    capture::enable();
    let _ = capture::drain();
    let r = catch_unwind(AssertUnwindSafe(|| self.apply(op)));
    let grams = capture::drain();
    capture::disable();
    if r.is_err() {
      return Err(());
    }
    let mut sum = StepSummary::default();
    let mut dg: Vec<String> = Vec::new();
    for (loc, g) in grams {
      sum.n_dgrams += 1;
      match Message::read_from_buffer(&Bytes::from(g)) {
        Err(_) => {
          sum.parse_errors += 1;
          dg.push(format!("({}, [SInfoDst (-8)])", util::z(reader_of_locator(&loc) as i128)));
        }
        Ok(m) => {
          let subs: Vec<String> =
            m.submessages.iter().filter_map(|sm| coq_sub(sm, &mut sum)).collect();
          dg.push(format!("({}, {})", util::z(reader_of_locator(&loc) as i128), util::list(subs)));
        }
      }
    }
    let mut sig: Vec<u32> = Vec::new();
    for (w, rx) in &self.waiters {
      while rx.try_recv().is_ok() {
        sig.push(*w);
      }
    }
    sig.sort();
    sum.signals = sig.clone();
    let digest = self.digest(&mut sum);
    Ok((
      format!(
        "(Build_sobs {} {} {})",
        util::list(dg),
        util::list(sig.iter().map(|w| w.to_string())),
        digest
      ),
      sum,
    ))
  }
}

/// Runs a whole case on a fresh Writer. Returns the observation term and the per-step summaries.
pub fn exec_case(cfg: &Cfg, ops: &[Op]) -> (String, Vec<StepSummary>) {
  let mut rig = Rig::new(cfg);
  let mut obs: Vec<String> = Vec::new();
  let mut sums = Vec::new();
  for (i, op) in ops.iter().enumerate() {
    match rig.step(op) {
      Ok((o, s)) => {
        obs.push(o);
        sums.push(s);
      }
      Err(()) => return (format!("(ObsPanic {})", i), sums),
    }
  }
  (format!("(Obs {})", util::list(obs)), sums)
}

// ---------------------------------------------------------------------------------------------
// generators

pub fn gen_bytes(r: &mut Rng, dmax: usize) -> Vec<u8> {
  // header (CDR_LE) ++ value; total length a multiple of 4; sometimes larger than dmax
  let words = if dmax <= 64 && r.chance(1, 4) {
    (dmax / 4) as i64 + r.range(1, 3)
  } else {
    r.range(1, (dmax as i64 / 4).max(1).min(4))
  };
  let mut v = vec![0u8, 1, 0, 0];
  for _ in 1..words.max(1) {
    for _ in 0..4 {
      v.push(r.below(256) as u8);
    }
  }
  v
}

/// The writer-visible state the generator steers by (kept by the driver, not read from the code).
pub struct GenState {
  pub last: i64,
  pub matched: BTreeMap<u8, (bool, i64)>, // reader -> (reliable, last acked base sent)
  pub next_w: u32,
}

pub fn gen_acknack(r: &mut Rng, g: &GenState, rd: u8) -> Op {
  let last = g.last;
  let prev = g.matched.get(&rd).map(|x| x.1).unwrap_or(1);
  let base = match r.below(12) {
    0 => 0,
    1 => 1,
    2 => last - 1,
    3 | 4 => last,
    5 | 6 | 7 => last + 1,
    8 => last + 2,
    9 => prev,
    10 => r.range(1, (last + 1).max(1)),
    _ => {
      if r.chance(1, 4) {
        last + r.range(3, 400)
      } else {
        r.range(prev.min(last + 1).max(1), (last + 1).max(1))
      }
    }
  }
  .max(-1);
  let (set, numbits) = match r.below(6) {
    0 | 1 => (vec![], 0u32),
    2 => (vec![base], 1),
    3 => {
      // everything from base up to last is missing
      let hi = last.min(base + 255);
      ((base..=hi).collect::<Vec<i64>>(), (hi - base + 1).max(0) as u32)
    }
    4 => {
      let nb = *r.pick(&[8u32, 32, 33, 255, 256]);
      let mut s = Vec::new();
      for i in 0..nb as i64 {
        if r.chance(1, 5) || i == nb as i64 - 1 {
          s.push(base + i);
        }
      }
      (s, nb)
    }
    _ => {
      let nb = r.range(1, 12) as u32;
      let mut s = Vec::new();
      for i in 0..nb as i64 {
        if r.chance(1, 2) {
          s.push(base + i);
        }
      }
      (s, nb)
    }
  };
  let set: Vec<i64> = set.into_iter().filter(|s| *s >= base && *s < base + numbits as i64).collect();
  Op::AckNack { r: rd, base, set, numbits }
}

pub fn gen_cfg(r: &mut Rng) -> Cfg {
  let hist = match r.below(10) {
    0 => Hist::Unset,
    1 | 2 => Hist::KeepAll,
    3 => Hist::KeepLast(*r.pick(&[1, 2, 31, 32, 33, 40])),
    _ => Hist::KeepLast(r.range(1, 40) as i32),
  };
  Cfg { hist, dur: *r.pick(&[0u8, 1, 2, 2]), dmax: *r.pick(&[8usize, 8, 12, 16, 1024]) }
}

/// population: 0 none, 1 best-effort only, 2 reliable only, 3 mixed, 4 volatile late joiner
pub fn gen_case(r: &mut Rng, wait_weight: u64) -> (Cfg, Vec<Op>, Vec<String>) {
  let cfg = gen_cfg(r);
  let population = r.below(5);
  let mut tags = vec![
    format!("population:{}", ["none", "best_effort", "reliable", "mixed", "late_joiner"][population as usize]),
    format!("history:{}", match cfg.hist { Hist::Unset => "unset", Hist::KeepAll => "keep_all", Hist::KeepLast(_) => "keep_last" }),
    format!("writer_durability:{}", cfg.dur),
    format!("dmax:{}", cfg.dmax),
  ];
  let mut g = GenState { last: 0, matched: BTreeMap::new(), next_w: 1 };
  let mut ops: Vec<Op> = Vec::new();
  let long = r.chance(1, 12);
  let n = if long { r.range(120, 330) } else { r.range(6, 70) } as usize;
  if long {
    tags.push("long_case".to_string());
  }
  let rdur = |r: &mut Rng| *r.pick(&[0u8, 1, 2, 2]);
  let do_match = |r: &mut Rng, g: &mut GenState, ops: &mut Vec<Op>, rd: u8, rel: bool, dur: u8| {
    ops.push(Op::Match { r: rd, rel, dur });
    let compatible = !(cfg.dur > 0 && dur > 0 && cfg.dur < dur);
    if compatible {
      let e = g.matched.entry(rd).or_insert((rel, 1));
      e.0 = rel;
    }
    let _ = r;
  };
  // initial population
  match population {
    1 => {
      for rd in 1..=r.range(1, 2) as u8 {
        let d = rdur(r);
        do_match(r, &mut g, &mut ops, rd, false, d);
      }
    }
    2 => {
      for rd in 1..=r.range(1, 3) as u8 {
        let d = rdur(r);
        do_match(r, &mut g, &mut ops, rd, true, d);
      }
    }
    3 => {
      let d = rdur(r);
      do_match(r, &mut g, &mut ops, 1, true, d);
      let d = rdur(r);
      do_match(r, &mut g, &mut ops, 2, false, d);
      if r.chance(1, 2) {
        let d = rdur(r);
        do_match(r, &mut g, &mut ops, 3, true, d);
      }
    }
    _ => {}
  }
  let late_at = if population == 4 { r.range(2, n as i64 - 1) as usize } else { usize::MAX };
  for i in 0..n {
    if i == late_at {
      let rel = r.chance(3, 4);
      let d = *r.pick(&[0u8, 1, 1, 2]);
      do_match(r, &mut g, &mut ops, 1, rel, d);
      continue;
    }
    let any_reader = *r.pick(&[1u8, 2, 3, 4]);
    let matched: Vec<u8> = g.matched.keys().copied().collect();
    let some_matched = if matched.is_empty() { any_reader } else { *r.pick(&matched) };
    let w_write = if long { 60 } else { 30 };
    let total = w_write + 18 + 14 + 10 + 4 + 4 + 4 + 3 + wait_weight;
    let mut x = r.below(total);
    if x < w_write {
      let single = if r.chance(1, 6) {
        Some(if r.chance(3, 4) { some_matched } else { any_reader })
      } else {
        None
      };
      ops.push(Op::Write { single, bytes: gen_bytes(r, cfg.dmax) });
      g.last += 1;
      continue;
    }
    x -= w_write;
    if x < 18 {
      let rd = if r.chance(9, 10) { some_matched } else { any_reader };
      let op = gen_acknack(r, &g, rd);
      if let Op::AckNack { base, .. } = &op {
        if let Some(e) = g.matched.get_mut(&rd) {
          e.1 = *base;
        }
      }
      ops.push(op);
      continue;
    }
    x -= 18;
    if x < 14 {
      // a burst of repair ticks for one reader
      let rd = if r.chance(9, 10) { some_matched } else { any_reader };
      for _ in 0..r.range(1, 4) {
        ops.push(Op::RepairTick { r: rd });
      }
      continue;
    }
    x -= 14;
    if x < 10 {
      ops.push(Op::CacheClean);
      continue;
    }
    x -= 10;
    if x < 4 {
      ops.push(Op::HbTick { manual: r.chance(1, 4) });
      continue;
    }
    x -= 4;
    if x < 4 {
      ops.push(Op::FragsTick { r: some_matched });
      continue;
    }
    x -= 4;
    if x < 4 {
      if population == 0 && r.chance(3, 4) {
        ops.push(Op::CacheClean);
        continue;
      }
      let rel = match population {
        1 => false,
        2 => true,
        _ => r.chance(1, 2),
      };
      let d = rdur(r);
      do_match(r, &mut g, &mut ops, any_reader, rel, d);
      continue;
    }
    x -= 4;
    if x < 3 {
      let rd = if r.chance(3, 4) { some_matched } else { any_reader };
      ops.push(Op::Lose { r: rd });
      g.matched.remove(&rd);
      continue;
    }
    ops.push(Op::WaitAck { w: g.next_w });
    g.next_w += 1;
  }
  // always end with a cleaning round so that the bound is judged
  ops.push(Op::CacheClean);
  (cfg, ops, tags)
}

// ---------------------------------------------------------------------------------------------
// fixed corpus (boundary cases of the proofs, defect witnesses)

fn w(n: usize) -> Vec<Op> {
  (0..n).map(|i| Op::Write { single: None, bytes: vec![0, 1, 0, 0, i as u8, 1, 2, 3] }).collect()
}
fn ws(g: u8) -> Op {
  Op::Write { single: Some(g), bytes: vec![0, 1, 0, 0, 9, 9, 9, g] }
}
fn an(r: u8, base: i64, set: &[i64]) -> Op {
  let numbits = set.iter().map(|s| s - base + 1).max().unwrap_or(0).max(0) as u32;
  Op::AckNack { r, base, set: set.to_vec(), numbits }
}

pub fn corpus() -> Vec<(&'static str, Cfg, Vec<Op>)> {
  let kl = |d: i32| Cfg { hist: Hist::KeepLast(d), dur: 2, dmax: 1024 };
  let mut v: Vec<(&'static str, Cfg, Vec<Op>)> = Vec::new();
  // F5: no reader at all / only best-effort readers: history must still be trimmed to the depth
  {
    let mut ops = w(6);
    ops.push(Op::CacheClean);
    v.push(("F5_no_reader", kl(2), ops));
  }
  {
    let mut ops = vec![Op::Match { r: 1, rel: false, dur: 0 }];
    ops.extend(w(6));
    ops.push(Op::CacheClean);
    ops.extend(w(3));
    ops.push(Op::CacheClean);
    v.push(("F5_best_effort_only", kl(2), ops));
  }
  {
    // mixed: the best-effort reader must not hold back cleaning, the reliable one must
    let mut ops =
      vec![Op::Match { r: 1, rel: true, dur: 2 }, Op::Match { r: 2, rel: false, dur: 0 }];
    ops.extend(w(8));
    ops.push(an(1, 5, &[]));
    ops.push(Op::CacheClean);
    v.push(("F5_mixed", kl(2), ops));
  }
  {
    // a reader that acknowledges beyond last_seq must not stop cleaning
    let mut ops = vec![Op::Match { r: 1, rel: true, dur: 2 }];
    ops.extend(w(6));
    ops.push(an(1, 500, &[]));
    ops.push(Op::CacheClean);
    ops.extend(w(4));
    ops.push(Op::CacheClean);
    v.push(("ack_beyond_last", kl(2), ops));
  }
  {
    // KeepAll with the resource limit, 40 samples, everything acknowledged
    let mut ops = vec![Op::Match { r: 1, rel: true, dur: 2 }];
    ops.extend(w(40));
    ops.push(an(1, 41, &[]));
    ops.push(Op::CacheClean);
    v.push(("keep_all_limit", Cfg { hist: Hist::KeepAll, dur: 2, dmax: 1024 }, ops));
  }
  {
    // single-reader sample, late joining TransientLocal reader asks for it
    let ops = vec![
      Op::Match { r: 2, rel: true, dur: 2 },
      w(1).remove(0),
      ws(2),
      w(1).remove(0),
      Op::Match { r: 1, rel: true, dur: 2 },
      an(1, 1, &[1, 2, 3]),
      Op::RepairTick { r: 1 },
      Op::RepairTick { r: 1 },
      Op::RepairTick { r: 1 },
      Op::RepairTick { r: 1 },
      Op::HbTick { manual: false },
    ];
    v.push(("single_reader_late_joiner", kl(10), ops));
  }
  {
    // single-reader sample while both are matched: pending gap route
    let ops = vec![
      Op::Match { r: 1, rel: true, dur: 2 },
      Op::Match { r: 2, rel: true, dur: 2 },
      ws(2),
      w(1).remove(0),
      ws(3),
      an(1, 1, &[1, 2]),
      Op::RepairTick { r: 1 },
      Op::RepairTick { r: 1 },
      Op::RepairTick { r: 2 },
      Op::RepairTick { r: 2 },
      Op::RepairTick { r: 2 },
    ];
    v.push(("single_reader_pending_gap", kl(10), ops));
  }
  {
    // sparse pending gaps: {1, 301}, first unsent 301 while the reader is still at base 1
    let mut ops = vec![
      Op::Match { r: 1, rel: true, dur: 2 },
      Op::Match { r: 2, rel: true, dur: 2 },
      ws(2),
      an(1, 1, &[]),
      Op::RepairTick { r: 1 },
    ];
    ops.extend(w(299));
    for _ in 0..299 {
      ops.push(Op::RepairTick { r: 1 });
    }
    ops.push(ws(2));
    ops.push(an(1, 1, &[]));
    ops.push(Op::RepairTick { r: 1 });
    ops.push(an(1, 301, &[301]));
    ops.push(Op::RepairTick { r: 1 });
    v.push(("sparse_pending_gap_256", Cfg { hist: Hist::KeepAll, dur: 2, dmax: 1024 }, ops));
  }
  {
    // volatile late joiner: everything before the match is GAPped; request below first_seq
    let mut ops = w(5);
    ops.push(Op::CacheClean);
    ops.push(Op::Match { r: 1, rel: true, dur: 1 });
    ops.extend(w(2));
    ops.push(an(1, 1, &[1, 2, 3, 4, 5, 6, 7]));
    for _ in 0..4 {
      ops.push(Op::RepairTick { r: 1 });
    }
    v.push(("volatile_late_joiner", kl(2), ops));
  }
  {
    // request for samples already removed: GAP before first_seq
    let mut ops = vec![Op::Match { r: 1, rel: true, dur: 2 }];
    ops.extend(w(6));
    ops.push(an(1, 7, &[]));
    ops.push(Op::CacheClean);
    ops.push(Op::Lose { r: 1 });
    ops.push(Op::Match { r: 1, rel: true, dur: 2 });
    ops.push(an(1, 1, &[1, 2, 3, 4, 5, 6]));
    for _ in 0..4 {
      ops.push(Op::RepairTick { r: 1 });
    }
    v.push(("request_removed", kl(2), ops));
  }
  {
    // fragmented repair, frags tick
    let big = Op::Write { single: None, bytes: (0..20u8).map(|i| if i == 1 { 1 } else if i < 4 { 0 } else { i }).collect() };
    let ops = vec![
      Op::Match { r: 1, rel: true, dur: 2 },
      big.clone(),
      Op::Write { single: Some(1), bytes: (0..12u8).map(|i| if i == 1 { 1 } else if i < 4 { 0 } else { i }).collect() },
      an(1, 1, &[1, 2]),
      Op::RepairTick { r: 1 },
      Op::FragsTick { r: 1 },
      Op::RepairTick { r: 1 },
      Op::FragsTick { r: 1 },
      Op::FragsTick { r: 1 },
    ];
    v.push(("fragmented_repair", Cfg { hist: Hist::KeepLast(5), dur: 2, dmax: 8 }, ops));
  }
  {
    // wait for acknowledgments around the boundary base = last / last + 1
    let mut ops = vec![Op::Match { r: 1, rel: true, dur: 2 }, Op::Match { r: 2, rel: false, dur: 0 }];
    ops.extend(w(3));
    ops.push(Op::WaitAck { w: 1 });
    ops.push(an(1, 3, &[3]));
    ops.push(an(1, 4, &[]));
    ops.push(Op::WaitAck { w: 2 });
    ops.push(w(1).remove(0));
    ops.push(Op::WaitAck { w: 3 });
    ops.push(Op::Lose { r: 1 });
    v.push(("wait_ack_boundary", kl(5), ops));
  }
  {
    // depth 0 / negative depth
    let mut ops = w(4);
    ops.push(Op::CacheClean);
    v.push(("depth_zero", kl(0), ops.clone()));
    v.push(("depth_negative", kl(-1), ops));
  }
  v
}

pub fn summarize(ops: &[Op], sums: &[StepSummary], tags: &mut Vec<String>) -> bool {
  let mut kinds: BTreeMap<&'static str, usize> = BTreeMap::new();
  for o in ops {
    *kinds.entry(o.kind()).or_insert(0) += 1;
  }
  for (k, _) in &kinds {
    tags.push(format!("has_op:{}", k));
  }
  tags.push(format!("ops:{}", match ops.len() { 0..=10 => "<=10", 11..=40 => "11-40", 41..=100 => "41-100", _ => ">100" }));
  let mut removed = false;
  let mut repaired = false;
  let mut prev_len = 0usize;
  let (mut data, mut frag, mut gap, mut hb, mut sig) = (0, 0, 0, 0, 0);
  for (o, s) in ops.iter().zip(sums.iter()) {
    if matches!(o, Op::CacheClean) && s.hist_len < prev_len {
      removed = true;
    }
    if matches!(o, Op::RepairTick { .. }) && s.n_dgrams > 0 {
      repaired = true;
    }
    prev_len = s.hist_len;
    data += s.n_data;
    frag += s.n_frag;
    gap += s.n_gap;
    hb += s.n_hb;
    sig += s.signals.len();
  }
  if removed {
    tags.push("cleaning_removed_samples".into());
  }
  if repaired {
    tags.push("repair_tick_sent".into());
  }
  for (n, v) in [("DATA", data), ("DATAFRAG", frag), ("GAP", gap), ("HEARTBEAT", hb), ("signal", sig)] {
    if v > 0 {
      tags.push(format!("emitted:{}", n));
    }
  }
  if let Some(s) = sums.last() {
    tags.push(format!("final_history:{}", match s.hist_len { 0 => "0", 1..=5 => "1-5", 6..=32 => "6-32", _ => ">32" }));
  }
  removed || repaired
}

pub const HEADER: &str = "From Coq Require Import List ZArith.\nFrom RD Require Import Common.Corr C04.Model.\nImport ListNotations.\nOpen Scope Z_scope.";

pub fn run(args: &Args) -> i32 {
  let mut out = CaseOut::new(args, HEADER, "check run obs_eqb ok", "case", "obs");
  out.per_shard = 40;
  let mut idx = 0usize;
  for (name, cfg, ops) in corpus() {
    if args.only.map_or(true, |o| o == idx) {
      let (obs, sums) = exec_case(&cfg, &ops);
      let mut tags = vec![format!("corpus:{}", name)];
      let nt = summarize(&ops, &sums, &mut tags);
      out.push(idx, case_coq(&cfg, &ops), obs, &tags, nt);
    }
    idx += 1;
  }
  for _ in 0..args.n {
    if args.only.map_or(true, |o| o == idx) {
      let mut r = Rng::for_case(args.seed, idx);
      let (cfg, ops, mut tags) = gen_case(&mut r, 2);
      let (obs, sums) = exec_case(&cfg, &ops);
      let nt = summarize(&ops, &sums, &mut tags);
      out.push(idx, case_coq(&cfg, &ops), obs, &tags, nt);
    }
    idx += 1;
  }
  out.finish()
}
