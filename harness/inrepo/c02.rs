// C02 driver: a real rtps::Writer and a real rtps::Reader (each behind its own MessageReceiver)
// joined by the UDP capture hook.  Every datagram either side tries to send is collected into the
// in-flight list; the case's ops deliver / drop / duplicate the i-th in-flight datagram (delivery =
// MessageReceiver::handle_received_packet on the raw bytes, ACKNACK / NACKFRAG forwarded to
// Writer::handle_ack_nack the way dp_event_loop does) and fire the writer's timed events through
// cfg-gated wrappers.  After the faulty prefix the fault-free macro step `round` of C02.Model is
// executed with the real objects until two consecutive rounds are silent.
// Observation per op and per round: the datagrams sent (re-parsed with Message::read_from_buffer:
// kinds, SNs, fragment numbers, sets, counts) and a digest of both ends.
use std::{
  collections::BTreeSet,
  panic::{catch_unwind, AssertUnwindSafe},
  sync::atomic::Ordering,
};

use bytes::Bytes;
use mio_extras::channel as mio_channel;

use crate::{
  dds::{
    ddsdata::DDSData,
    qos::{policy, QosPolicies, QosPolicyBuilder},
    with_key::datawriter::WriteOptions,
  },
  messages::submessages::{
    elements::serialized_payload::SerializedPayload,
    submessages::{AckSubmessage, ReaderSubmessage, WriterSubmessage},
  },
  rtps::{
    message::Message, message_receiver::MessageReceiver, rtps_reader_proxy::RtpsReaderProxy,
    rtps_writer_proxy::RtpsWriterProxy, writer::WriterCommand, SubmessageBody,
  },
  structure::{
    duration::Duration,
    guid::{EntityId, EntityKind, GuidPrefix, GUID},
    locator::Locator,
    sequence_number::SequenceNumber,
    time::Timestamp,
  },
  RepresentationIdentifier,
};
use super::{
  capture, mk,
  util::{self, Args, CaseOut, Rng},
};

const FRAG_SIZE: usize = 64;
const W_PORT: u16 = 17402;
const R_PORT: u16 = 17401;

fn wguid() -> GUID {
  GUID::new(
    GuidPrefix::new(b"verifC02wrtr"),
    EntityId::new([0, 0, 2], EntityKind::WRITER_WITH_KEY_USER_DEFINED),
  )
}
fn rguid() -> GUID {
  GUID::new(
    GuidPrefix::new(b"verifC02rdr0"),
    EntityId::new([0, 0, 1], EntityKind::READER_WITH_KEY_USER_DEFINED),
  )
}
fn loc(port: u16) -> Locator {
  Locator::from(std::net::SocketAddr::from(([127, 0, 0, 1], port)))
}

// ---------------------------------------------------------------------------------------------
// model terms

#[derive(Clone, Debug, PartialEq)]
enum Sub {
  Data(i64),
  Frag(i64, i64, i64),
  Hb(i64, i64, i64),
  Gap(i64, i64, Vec<i64>),
  Ack(i64, Vec<i64>, i64),
  NackFrag(i64, i64, Vec<i64>, i64),
  Unparsed,
}
fn zl(v: &[i64]) -> String {
  util::list(v.iter().map(|x| util::z(*x as i128)))
}
impl Sub {
  fn coq(&self) -> String {
    let z = |x: &i64| util::z(*x as i128);
    match self {
      Sub::Data(sn) => format!("SData {}", z(sn)),
      Sub::Frag(sn, f, nf) => format!("SFrag {} {} {}", z(sn), z(f), z(nf)),
      Sub::Hb(a, b, c) => format!("SHb {} {} {}", z(a), z(b), z(c)),
      Sub::Gap(a, b, l) => format!("SGap {} {} {}", z(a), z(b), zl(l)),
      Sub::Ack(a, l, c) => format!("SAck {} {} {}", z(a), zl(l), z(c)),
      Sub::NackFrag(sn, a, l, c) => format!("SNackFrag {} {} {} {}", z(sn), z(a), zl(l), z(c)),
      // not expressible in the model: shows up as a disagreement
      Sub::Unparsed => "SData (-1)".into(),
    }
  }
}
fn dgram_coq(d: &[Sub]) -> String {
  util::list(d.iter().map(|s| s.coq()))
}
fn dgrams_coq(ds: &[Vec<Sub>]) -> String {
  util::list(ds.iter().map(|d| dgram_coq(d)))
}

fn parse(bytes: &[u8]) -> Vec<Sub> {
  let m = match Message::read_from_buffer(&Bytes::copy_from_slice(bytes)) {
    Ok(m) => m,
    Err(_) => return vec![Sub::Unparsed],
  };
  let mut v = Vec::new();
  for sm in m.submessages {
    match sm.body {
      SubmessageBody::Writer(WriterSubmessage::Data(d, _)) => v.push(Sub::Data(i64::from(d.writer_sn))),
      SubmessageBody::Writer(WriterSubmessage::DataFrag(df, _)) => {
        // one fragment per submessage is all this writer ever sends; anything else is
        // reported as it is (fragment number = starting number, extra ones as extra subs)
        for k in 0..df.fragments_in_submessage as i64 {
          v.push(Sub::Frag(
            i64::from(df.writer_sn),
            u32::from(df.fragment_starting_num) as i64 + k,
            u32::from(df.total_number_of_fragments()) as i64,
          ));
        }
      }
      SubmessageBody::Writer(WriterSubmessage::Heartbeat(h, _)) => {
        v.push(Sub::Hb(i64::from(h.first_sn), i64::from(h.last_sn), h.count as i64))
      }
      SubmessageBody::Writer(WriterSubmessage::Gap(g, _)) => v.push(Sub::Gap(
        i64::from(g.gap_start),
        i64::from(g.gap_list.base()),
        g.gap_list.iter().map(i64::from).collect(),
      )),
      SubmessageBody::Writer(WriterSubmessage::HeartbeatFrag(..)) => v.push(Sub::Unparsed),
      SubmessageBody::Reader(ReaderSubmessage::AckNack(a, _)) => v.push(Sub::Ack(
        i64::from(a.reader_sn_state.base()),
        a.reader_sn_state.iter().map(i64::from).collect(),
        a.count as i64,
      )),
      SubmessageBody::Reader(ReaderSubmessage::NackFrag(n, _)) => v.push(Sub::NackFrag(
        i64::from(n.writer_sn),
        u32::from(n.fragment_number_state.base()) as i64,
        n.fragment_number_state
          .iter()
          .map(|f| u32::from(f) as i64)
          .collect(),
        n.count as i64,
      )),
      _ => {} // INFO_TS, INFO_DST
    }
  }
  v
}

#[derive(Clone, Debug)]
enum Op {
  Write(i64),
  HbTick,
  RepairTick,
  RepairFragsTick,
  CacheClean,
  Deliver(usize),
  Drop(usize),
  Dup(usize),
  FragGc,
}
impl Op {
  fn coq(&self) -> String {
    match self {
      Op::Write(nf) => format!("OWrite {}", nf),
      Op::HbTick => "OHbTick".into(),
      Op::RepairTick => "ORepairTick".into(),
      Op::RepairFragsTick => "ORepairFragsTick".into(),
      Op::CacheClean => "OCacheClean".into(),
      Op::Deliver(i) => format!("ODeliver {}", i),
      Op::Drop(i) => format!("ODrop {}", i),
      Op::Dup(i) => format!("ODup {}", i),
      Op::FragGc => "OFragGC".into(),
    }
  }
  fn kind(&self) -> &'static str {
    match self {
      Op::Write(1) => "write_data",
      Op::Write(_) => "write_frag",
      Op::HbTick => "hbtick",
      Op::RepairTick => "repairtick",
      Op::RepairFragsTick => "repairfragstick",
      Op::CacheClean => "cacheclean",
      Op::Deliver(0) => "deliver_head",
      Op::Deliver(_) => "deliver_reordered",
      Op::Drop(_) => "drop",
      Op::Dup(_) => "dup",
      Op::FragGc => "fraggc",
    }
  }
}

fn fmap_coq(m: &[(i64, Vec<bool>)]) -> String {
  util::list(m.iter().map(|(sn, bv)| {
    format!(
      "({}, {})",
      util::z(*sn as i128),
      util::list(bv.iter().map(|b| util::b(*b).to_string()))
    )
  }))
}

#[derive(Clone, Debug, Default)]
struct Digest {
  first: i64,
  last: i64,
  whbc: i64,
  aab: i64,
  unsent: Vec<i64>,
  gap: Vec<i64>,
  repair: bool,
  frq: Vec<(i64, Vec<bool>)>,
  base: i64,
  known: Vec<i64>,
  rhbc: i64,
  anc: i64,
  asm: Vec<(i64, Vec<bool>)>,
  got: Vec<i64>,
  net: i64,
}
impl Digest {
  fn coq(&self) -> String {
    let z = |x: i64| util::z(x as i128);
    format!(
      "(mkD {} {} {} {} {} {} {} {} {} {} {} {} {} {} {})",
      z(self.first),
      z(self.last),
      z(self.whbc),
      z(self.aab),
      zl(&self.unsent),
      zl(&self.gap),
      util::b(self.repair),
      fmap_coq(&self.frq),
      z(self.base),
      zl(&self.known),
      z(self.rhbc),
      z(self.anc),
      fmap_coq(&self.asm),
      zl(&self.got),
      z(self.net)
    )
  }
  fn frags_requested(&self) -> bool {
    self.frq.iter().any(|(_, bv)| bv.iter().any(|b| *b))
  }
}

// ---------------------------------------------------------------------------------------------
// the system under test

struct Sut {
  wk: mk::WriterKit,
  mr_r: MessageReceiver, // owns the Reader
  mr_w: MessageReceiver, // receiving side of the writer's participant
  ack_rx: mio_channel::Receiver<(GuidPrefix, AckSubmessage)>,
  topic_cache: std::sync::Arc<std::sync::Mutex<crate::structure::dds_cache::TopicCache>>,
  inflight: Vec<(bool, Vec<u8>)>, // (to_writer, bytes)
  next_sn: i64,
  _keep: Box<dyn std::any::Any>,
}

fn build(depth: i32) -> Sut {
  let wqos = QosPolicyBuilder::new()
    .reliability(policy::Reliability::Reliable { max_blocking_time: Duration::from_millis(100) })
    .history(policy::History::KeepLast { depth })
    .build();
  let rqos = QosPolicyBuilder::new()
    .reliability(policy::Reliability::Reliable { max_blocking_time: Duration::from_millis(100) })
    .history(policy::History::KeepAll)
    .resource_limits(policy::ResourceLimits {
      max_samples: 1_000_000,
      max_instances: 1_000_000,
      max_samples_per_instance: 1_000_000,
    })
    .build();
  let mut wk = mk::make_writer(wguid(), "c02_topic", wqos.clone());
  wk.writer.data_max_size_serialized = FRAG_SIZE;
  let mut rp = RtpsReaderProxy::new(rguid(), rqos.clone(), false);
  rp.unicast_locator_list = vec![loc(R_PORT)];
  wk.writer.update_reader_proxy(&rp, &rqos);

  let mut rk = mk::make_reader(rguid(), "c02_topic", rqos.clone());
  rk.reader.update_writer_proxy(
    RtpsWriterProxy::new(wguid(), vec![loc(W_PORT)], vec![], EntityId::UNKNOWN),
    &wqos,
  );
  let topic_cache = rk.topic_cache.clone();

  let (ack_tx_r, ack_rx_r) = mio_channel::sync_channel::<(GuidPrefix, AckSubmessage)>(1000);
  let (live_tx_r, live_rx_r) = mio_channel::sync_channel::<GuidPrefix>(1000);
  let mut mr_r = MessageReceiver::new(rguid().prefix, ack_tx_r, live_tx_r, None);
  mr_r.add_reader(rk.reader);

  let (ack_tx, ack_rx) = mio_channel::sync_channel::<(GuidPrefix, AckSubmessage)>(1000);
  let (live_tx, live_rx) = mio_channel::sync_channel::<GuidPrefix>(1000);
  let mr_w = MessageReceiver::new(wguid().prefix, ack_tx, live_tx, None);

  let keep: Box<dyn std::any::Any> = Box::new((
    rk.status,
    rk.participant_status,
    rk.dds_cache,
    rk.notification,
    rk.cmd,
    ack_rx_r,
    live_rx_r,
    live_rx,
  ));
  Sut { wk, mr_r, mr_w, ack_rx, topic_cache, inflight: Vec::new(), next_sn: 1, _keep: keep }
}

impl Sut {
  /// collect what was "sent" since the last call; returns the parsed datagrams in sending order
  fn collect(&mut self) -> Vec<Vec<Sub>> {
    let mut out = Vec::new();
    for (l, bytes) in capture::drain() {
      let port = match l {
        Locator::UdpV4(a) => a.port(),
        Locator::UdpV6(a) => a.port(),
        _ => 0,
      };
      out.push(parse(&bytes));
      self.inflight.push((port == W_PORT, bytes));
    }
    out
  }

  fn feed(&mut self, to_writer: bool, bytes: &[u8]) {
    let b = Bytes::copy_from_slice(bytes);
    if to_writer {
      self.mr_w.handle_received_packet(&b);
      // dp_event_loop: ACKNACK_MESSAGE_TO_LOCAL_WRITER
      while let Ok((prefix, sub)) = self.ack_rx.try_recv() {
        self.wk.writer.handle_ack_nack(prefix, &sub);
      }
    } else {
      self.mr_r.handle_received_packet(&b);
    }
  }

  fn apply(&mut self, op: &Op) {
    match op {
      Op::Write(nf) => {
        // total serialized payload size = 4 (header) + value; nf fragments of FRAG_SIZE bytes
        let total = if *nf <= 1 { 24 } else { FRAG_SIZE * (*nf as usize - 1) + 8 };
        let sn = self.next_sn;
        self.next_sn += 1;
        let value: Vec<u8> = (0..total - 4).map(|i| ((i as i64 * 7 + sn) % 251) as u8).collect();
        let payload = SerializedPayload {
          representation_identifier: RepresentationIdentifier::CDR_LE,
          representation_options: [0, 0],
          value: Bytes::from(value),
        };
        let _ = self.wk.cmd.try_send(WriterCommand::DDSData {
          ddsdata: DDSData::new(payload),
          write_options: WriteOptions::default(),
          sequence_number: SequenceNumber::new(sn),
        });
        self.wk.writer.process_writer_command();
      }
      Op::HbTick => self.wk.writer.handle_heartbeat_tick(false),
      Op::RepairTick => self.wk.writer.verif_c02_repair_tick(rguid()),
      Op::RepairFragsTick => self.wk.writer.verif_c02_repair_frags_tick(rguid()),
      Op::CacheClean => self.wk.writer.verif_c02_cache_clean(),
      Op::Deliver(i) => {
        if *i < self.inflight.len() {
          let (tw, b) = self.inflight.remove(*i);
          self.feed(tw, &b);
        }
      }
      Op::Drop(i) => {
        if *i < self.inflight.len() {
          self.inflight.remove(*i);
        }
      }
      Op::Dup(i) => {
        if *i < self.inflight.len() {
          let (tw, b) = self.inflight[*i].clone();
          self.feed(tw, &b);
        }
      }
      Op::FragGc => {
        let rid = rguid().entity_id;
        if let Some(reader) = self.mr_r.reader_mut(rid) {
          reader.verif_c02_gc_fragments();
        }
      }
    }
  }

  fn digest(&mut self) -> Digest {
    let mut d = Digest::default();
    let w = &self.wk.writer;
    let (first, last) = w.verif_c02_history_bounds();
    d.first = first;
    d.last = last;
    d.whbc = w.heartbeat_message_counter.load(Ordering::SeqCst) as i64;
    if let Some(rp) = w.verif_c02_reader_proxy(rguid()) {
      d.aab = i64::from(rp.all_acked_before);
      d.repair = rp.repair_mode;
      let (u, g, f) = rp.verif_c02_digest();
      d.unsent = u;
      d.gap = g;
      d.frq = f;
    } else {
      d.aab = -1;
    }
    let rid = rguid().entity_id;
    if let Some(reader) = self.mr_r.reader_mut(rid) {
      if let Some(wp) = reader.verif_c02_writer_proxy(wguid()) {
        let (base, known) = wp.verif_c02_digest();
        d.base = base;
        d.known = known;
        d.rhbc = wp.received_heartbeat_count as i64;
        d.anc = wp.sent_ack_nack_count as i64;
      } else {
        d.base = -1;
      }
      d.asm = reader.verif_c02_assembly_buffers(wguid());
    }
    let tc = self.topic_cache.lock().unwrap();
    let mut got: BTreeSet<i64> = BTreeSet::new();
    for (_, cc) in tc.get_changes_in_range_best_effort(Timestamp::ZERO, Timestamp::now()) {
      if cc.writer_guid == wguid() {
        got.insert(i64::from(cc.sequence_number));
      }
    }
    d.got = got.into_iter().collect();
    d.net = self.inflight.len() as i64;
    d
  }

  fn flush(&mut self, sent: &mut Vec<Vec<Sub>>) {
    let n = self.inflight.len();
    for _ in 0..n {
      self.apply(&Op::Deliver(0));
      sent.extend(self.collect());
    }
  }

  /// C02.Model.round with the real objects; returns the datagrams sent during the round
  fn round(&mut self) -> Vec<Vec<Sub>> {
    let mut sent = Vec::new();
    self.apply(&Op::HbTick);
    sent.extend(self.collect());
    self.flush(&mut sent);
    self.flush(&mut sent);
    self.flush(&mut sent);
    // SendRepairData re-arms itself while repair_mode is set
    let mut guard = 0;
    while self.digest().repair && guard < 100_000 {
      self.apply(&Op::RepairTick);
      sent.extend(self.collect());
      guard += 1;
    }
    // SendRepairFrags re-arms itself while repair_frags_requested()
    guard = 0;
    while self.digest().frags_requested() && guard < 100_000 {
      self.apply(&Op::RepairFragsTick);
      sent.extend(self.collect());
      guard += 1;
    }
    self.flush(&mut sent);
    sent
  }
}

// ---------------------------------------------------------------------------------------------
// cases

#[derive(Clone, Debug)]
enum Plan {
  Fixed(Vec<Op>),
  Random { writes: usize, max_nf: i64, len: usize, mode: u64, loss: u64, dup: u64, reorder: u64 },
}

struct CaseSpec {
  depth: i32,
  plan: Plan,
  max_rounds: usize,
  name: String,
}

fn is_kind(d: &[u8], pred: &dyn Fn(&Sub) -> bool) -> bool {
  parse(d).iter().any(|s| pred(s))
}

struct Outcome {
  case: String,
  obs: String,
  tags: Vec<String>,
  nontrivial: bool,
}

fn run_case(spec: &CaseSpec, r: &mut Rng) -> Outcome {
  capture::enable();
  let _ = capture::drain();
  let mut sut = build(spec.depth);
  let _ = capture::drain();
  let mut ops: Vec<Op> = Vec::new();
  let mut steps: Vec<String> = Vec::new();
  let mut tags: BTreeSet<String> = BTreeSet::new();
  tags.insert(format!("scenario:{}", spec.name));
  let mut panicked = false;
  let mut lost = 0usize;

  let mut exec = |sut: &mut Sut, op: Op, ops: &mut Vec<Op>, steps: &mut Vec<String>, tags: &mut BTreeSet<String>| -> bool {
    tags.insert(format!("op:{}", op.kind()));
    let res = catch_unwind(AssertUnwindSafe(|| {
      sut.apply(&op);
      let sent = sut.collect();
      let d = sut.digest();
      (sent, d)
    }));
    ops.push(op);
    match res {
      Ok((sent, d)) => {
        if sent.iter().flatten().any(|x| matches!(x, Sub::Gap(..))) {
          tags.insert("sent:gap".into());
        }
        if sent.iter().flatten().any(|x| matches!(x, Sub::NackFrag(..))) {
          tags.insert("sent:nackfrag".into());
        }
        steps.push(format!("({}, {})", dgrams_coq(&sent), d.coq()));
        true
      }
      Err(_) => false,
    }
  };

  match &spec.plan {
    Plan::Fixed(l) => {
      for op in l {
        if let Op::Drop(_) = op {
          lost += 1;
        }
        if !exec(&mut sut, op.clone(), &mut ops, &mut steps, &mut tags) {
          panicked = true;
          break;
        }
      }
    }
    Plan::Random { writes, max_nf, len, mode, loss, dup, reorder } => {
      let mut writes_left = *writes;
      let frag_victim = 1 + r.below(3) as i64; // the fragment number that keeps getting lost (mode 3)
      // mode 5: the first ACKNACK that requests something stays in flight until the end of the
      // prefix and is delivered after a cache cleaning (stale, lower base)
      let mut pinned: Option<Vec<u8>> = None;
      for stepno in 0..*len {
        if *mode == 5 && pinned.is_none() {
          pinned = sut
            .inflight
            .iter()
            .find(|(tw, b)| *tw && is_kind(b, &|s| matches!(s, Sub::Ack(_, bits, _) if !bits.is_empty())))
            .map(|(_, b)| b.clone());
        }
        let free: Vec<usize> = (0..sut.inflight.len())
          .filter(|i| pinned.as_ref().map_or(true, |p| &sut.inflight[*i].1 != p))
          .collect();
        let n = free.len();
        // in the second half of "blackout then clear" nothing is lost
        let phase2 = stepno * 2 >= *len;
        let choice = r.below(100);
        let tail = *len - stepno; // steps left
        let op = if *mode == 5 && tail <= 6 {
          match tail {
            6 => Op::CacheClean,
            5 => match pinned.as_ref().and_then(|p| sut.inflight.iter().position(|(_, b)| b == p)) {
              Some(i) => Op::Deliver(i),
              None => Op::HbTick,
            },
            _ => Op::RepairTick,
          }
        } else if writes_left > 0 && (choice < 18 || n == 0 && choice < 50) {
          writes_left -= 1;
          let nf = if *max_nf <= 1 || r.chance(1, 2) { 1 } else { r.range(2, *max_nf) };
          Op::Write(nf)
        } else if choice < 26 {
          Op::HbTick
        } else if choice < 34 {
          Op::RepairTick
        } else if choice < 40 {
          Op::RepairFragsTick
        } else if choice < 43 {
          Op::CacheClean
        } else if choice < 45 && *max_nf > 1 {
          Op::FragGc
        } else if n == 0 {
          Op::HbTick
        } else {
          let i = free[if r.below(100) < *reorder { r.below(n as u64) as usize } else { 0 }];
          let (to_writer, bytes) = sut.inflight[i].clone();
          let lose = match *mode {
            // uniform loss
            0 => r.below(100) < *loss,
            // every ACKNACK / NACKFRAG is lost, the rest mostly arrives
            1 => to_writer || r.below(100) < *loss / 4,
            // everything is lost, then nothing
            2 => !phase2,
            // the same fragment number is lost again and again
            3 => is_kind(&bytes, &|s| matches!(s, Sub::Frag(_, f, _) if *f == frag_victim)) || r.below(100) < *loss / 4,
            // every DATA / DATAFRAG is lost in the first half (only heartbeats arrive)
            4 => !phase2 && is_kind(&bytes, &|s| matches!(s, Sub::Data(_) | Sub::Frag(..))),
            // a stale ACKNACK is kept back; little other loss
            _ => r.below(100) < *loss / 8,
          };
          if lose {
            lost += 1;
            Op::Drop(i)
          } else if r.below(100) < *dup {
            Op::Dup(i)
          } else {
            Op::Deliver(i)
          }
        };
        if !exec(&mut sut, op, &mut ops, &mut steps, &mut tags) {
          panicked = true;
          break;
        }
      }
    }
  }

  // fault-free suffix
  let mut rounds: Vec<String> = Vec::new();
  let mut silent_in_a_row = 0;
  let mut converged_round: Option<usize> = None;
  if !panicked {
    while rounds.len() < spec.max_rounds && (silent_in_a_row < 2 || rounds.len() < 3) {
      let res = catch_unwind(AssertUnwindSafe(|| {
        let sent = sut.round();
        let d = sut.digest();
        (sent, d)
      }));
      match res {
        Ok((sent, d)) => {
          if sent.is_empty() {
            silent_in_a_row += 1;
          } else {
            silent_in_a_row = 0;
          }
          if converged_round.is_none() && d.base == d.last + 1 {
            converged_round = Some(rounds.len() + 1);
          }
          rounds.push(format!("({}, {})", dgrams_coq(&sent), d.coq()));
        }
        Err(_) => {
          panicked = true;
          break;
        }
      }
    }
  }
  capture::drain();
  capture::disable();

  tags.insert(format!("lost_datagrams:{}", match lost { 0 => "0", 1..=3 => "1-3", 4..=10 => "4-10", _ => ">10" }));
  tags.insert(format!("rounds:{}", rounds.len().min(9)));
  tags.insert(format!("converged_in_round:{}", converged_round.map_or("never".to_string(), |c| c.min(9).to_string())));
  let nwrites = ops.iter().filter(|o| matches!(o, Op::Write(_))).count();
  tags.insert(format!("writes:{}", match nwrites { 0 => "0", 1..=3 => "1-3", 4..=12 => "4-12", 13..=256 => "13-256", _ => ">256" }));
  if panicked {
    tags.insert("panic".into());
    // a panic is not expressible as an observation of the model: one impossible step
    steps.push("([[SData (-1)]], d_init)".into());
  }
  let case = format!(
    "(mkCase {} {} {})",
    spec.depth,
    util::list(ops.iter().map(|o| o.coq())),
    rounds.len()
  );
  let obs = format!("(mkObs {} {})", util::list(steps), util::list(rounds));
  Outcome { case, obs, tags: tags.into_iter().collect(), nontrivial: lost > 0 && nwrites > 0 }
}

fn corpus(thorough: bool) -> Vec<CaseSpec> {
  use Op::*;
  let mut v = Vec::new();
  let mut fixed = |name: &str, depth: i32, ops: Vec<Op>| {
    v.push(CaseSpec { depth, plan: Plan::Fixed(ops), max_rounds: 40, name: name.to_string() })
  };
  fixed("nothing_written", 1, vec![]);
  fixed("no_loss_data", 1, vec![Write(1), Deliver(0), Deliver(0), Write(1), Deliver(0), Deliver(0)]);
  fixed("no_loss_frag", 1, vec![Write(3), Deliver(0), Deliver(0), Deliver(0), Deliver(0), Deliver(0)]);
  fixed("all_lost", 2, vec![Write(1), Drop(0), Write(3), Drop(0), Drop(0), Drop(0), Drop(0), Write(1), Drop(0)]);
  // F8 (fixed by 437a824): the same fragment is lost twice
  fixed(
    "same_fragment_lost_twice",
    1,
    vec![
      Write(3), Deliver(0), Drop(0), Deliver(0), Deliver(0), // frag 2 lost; HB answered
      Deliver(0), Deliver(0), // NACKFRAG, ACKNACK reach the writer
      RepairTick, // resends all three fragments
      Deliver(0), Drop(0), Deliver(0), // frag 2 lost again
      RepairTick, RepairFragsTick, // repair_mode off; second copy of the fragments
      Deliver(0), Drop(0), Deliver(0), // frag 2 lost a third time
      Write(1), Deliver(0),
    ],
  );
  // all ACKNACKs lost for a while
  fixed(
    "acknacks_lost",
    1,
    vec![
      Write(1), Drop(0), HbTick, Deliver(0), Drop(0), HbTick, Deliver(0), Drop(0), Write(2), Drop(0), Drop(0),
      Deliver(0), Drop(0), Drop(0), HbTick, Deliver(0), Drop(0),
    ],
  );
  // stale ACKNACK (lower base) arrives after a newer one and after cache cleaning: the writer is
  // asked for sequence numbers below first_seq and answers with the "everything before" GAP
  fixed(
    "stale_acknack_after_cleaning",
    1,
    vec![
      Write(1), Drop(0), Write(1), Drop(0), Write(1), Drop(0),
      HbTick, Deliver(0), // ACKNACK A1 = base 1 {1,2,3}: stays in flight (index 0) until the end
      HbTick, Deliver(1), Deliver(1), // second heartbeat, ACKNACK A2 processed
      RepairTick, RepairTick, RepairTick, RepairTick, // DATA 1,2,3; repair_mode off
      Deliver(1), Deliver(1), Deliver(1), // the reader has everything
      HbTick, Deliver(1), Deliver(1), // ACKNACK base 4 processed: all acknowledged
      CacheClean, // depth 1: first_seq = 3
      Deliver(0), // the stale A1: all_acked_before back to 1, 1..3 requested again
      RepairTick, // 1 < first_seq: GAP [1,3)
      RepairTick, // DATA 3
      Deliver(0), Deliver(0),
    ],
  );
  fixed(
    "duplicates_and_reordering",
    5,
    vec![
      Write(2), Write(1), Write(4), Dup(7), Dup(2), Deliver(5), Dup(0), Deliver(0), Dup(0), Deliver(3), Drop(0),
      HbTick, Dup(2), Dup(2), Deliver(2), RepairTick, RepairFragsTick, RepairFragsTick, CacheClean,
    ],
  );
  // repair timers fired with nothing to do / frags requested for a sample already complete
  fixed(
    "idle_timers",
    1,
    vec![RepairTick, RepairFragsTick, CacheClean, HbTick, Write(2), RepairTick, RepairFragsTick, RepairFragsTick, Deliver(0), Deliver(0), Deliver(0)],
  );
  // the reader's fragment garbage collection drops a partially received sample: it is requested
  // again in full through the ACKNACK bitmap (this was the only rescue before NACKFRAG worked)
  fixed(
    "fragment_gc_of_partial_sample",
    1,
    vec![
      Write(4), Deliver(0), Drop(0), Deliver(0), Drop(0), Deliver(0), // frags 1,3 arrive; HB answered
      Deliver(0), Deliver(0), RepairTick, RepairTick, // NACKFRAG + ACKNACK; all four resent ...
      Drop(0), Drop(0), Drop(0), Drop(0), // ... and lost
      FragGc, // the partial sample is forgotten
      HbTick, Deliver(4), // answered with a plain ACKNACK bitmap now
      FragGc,
    ],
  );
  // a 12-fragment sample: the frags worker sends 8 per tick
  fixed("twelve_fragments", 1, vec![Write(12), Drop(0), Drop(0), Drop(0), Deliver(9), Deliver(0), Deliver(0), RepairTick]);
  // more outstanding sequence numbers than the 256 window of an ACKNACK (258 in the quick tier, 300
  // and 270 mixed in the thorough tier).  unsent_changes keeps every pushed SN until it is
  // acknowledged, so a first repair cycle (all of it lost) has to empty it before the window matters.
  let nbig = if thorough { 300 } else { 258 };
  let mut big = Vec::new();
  for _ in 0..nbig {
    big.push(Write(1));
    big.push(Drop(0));
  }
  big.extend([HbTick, Deliver(0), Deliver(0)]);
  for _ in 0..nbig + 1 {
    big.push(RepairTick);
  }
  for _ in 0..nbig {
    big.push(Drop(0));
  }
  v.push(CaseSpec { depth: 3, plan: Plan::Fixed(big), max_rounds: 40, name: "window_256_exceeded".into() });
  if thorough {
    let mut big = Vec::new();
    let n = 270;
    let mut dgrams = 0;
    for k in 0..n {
      let nf = if k % 50 == 7 { 3 } else { 1 };
      big.push(Write(nf));
      dgrams += if nf == 1 { 1 } else { nf + 1 };
    }
    for _ in 0..dgrams {
      big.push(Drop(0));
    }
    big.extend([HbTick, Deliver(0), Deliver(0)]);
    for _ in 0..n + 1 {
      big.push(RepairTick);
    }
    for _ in 0..10 {
      big.push(RepairFragsTick);
    }
    for _ in 0..(n + 6 * 3 * 2) {
      big.push(Drop(0));
    }
    v.push(CaseSpec { depth: 32, plan: Plan::Fixed(big), max_rounds: 40, name: "window_256_exceeded_mixed".into() });
  }
  v
}

pub fn run(args: &Args) -> i32 {
  let mut out = CaseOut::new(
    args,
    "From Coq Require Import List ZArith.\nFrom RD Require Import Common.Corr C02.Model.\nImport ListNotations.\nOpen Scope Z_scope.",
    "check run obs_eqb ok",
    "case",
    "obs",
  );
  out.per_shard = 12;
  let thorough = args.tier == "thorough";
  let mut idx = 0usize;
  for spec in corpus(thorough) {
    if args.only.map_or(true, |o| o == idx) {
      let mut r = Rng::for_case(args.seed, idx);
      let o = run_case(&spec, &mut r);
      out.push(idx, o.case, o.obs, &o.tags, o.nontrivial);
    }
    idx += 1;
  }
  for _ in 0..args.n {
    if args.only.map_or(true, |o| o == idx) {
      let mut r = Rng::for_case(args.seed, idx);
      let depth = *r.pick(&[1i32, 1, 2, 5, 32]);
      let writes = *r.pick(&[1usize, 2, 3, 5, 8, 12]);
      let max_nf = *r.pick(&[1i64, 1, 2, 3, 5]);
      let mode = r.below(6);
      let loss = *r.pick(&[0u64, 10, 30, 60, 90]);
      let dup = *r.pick(&[0u64, 0, 10, 30]);
      let reorder = *r.pick(&[0u64, 0, 20, 60]);
      let len = (writes * (6 + max_nf as usize)).min(90) + r.below(20) as usize;
      let spec = CaseSpec {
        depth,
        plan: Plan::Random { writes, max_nf, len, mode, loss, dup, reorder },
        max_rounds: 40,
        name: format!(
          "random:{}",
          ["uniform_loss", "acknacks_lost", "blackout_then_clear", "same_fragment_again", "data_lost_first", "stale_acknack_after_cleaning"][mode as usize]
        ),
      };
      let mut o = run_case(&spec, &mut r);
      o.tags.push(format!("frags:{}", if max_nf <= 1 { "plain_data_only" } else { "mixed" }));
      o.tags.push(format!("loss_pct:{}", loss));
      out.push(idx, o.case, o.obs, &o.tags, o.nontrivial);
    }
    idx += 1;
  }
  out.finish()
}
