// Construction of real rtps::Writer / rtps::Reader objects outside a participant (the same way
// the crate's own unit tests and dp_event_loop do), with the receiving ends of their channels.
use std::{
  rc::Rc,
  sync::{Arc, Mutex, RwLock},
};

use mio_extras::channel as mio_channel;

use crate::{
  dds::{
    qos::QosPolicies,
    statusevents::{
      sync_status_channel, DataReaderStatus, DataWriterStatus, DomainParticipantStatusEvent,
      StatusChannelReceiver,
    },
    typedesc::TypeDesc,
    with_key::simpledatareader::ReaderCommand,
  },
  mio_source,
  network::udp_sender::UDPSender,
  rtps::{
    reader::{Reader, ReaderIngredients},
    writer::{Writer, WriterCommand, WriterIngredients},
  },
  structure::{
    dds_cache::{DDSCache, TopicCache},
    guid::GUID,
  },
};

pub struct WriterKit {
  pub writer: Writer,
  pub status: StatusChannelReceiver<DataWriterStatus>,
  pub participant_status: StatusChannelReceiver<DomainParticipantStatusEvent>,
  pub cmd: mio_channel::SyncSender<WriterCommand>,
}

pub fn make_writer(guid: GUID, topic_name: &str, qos: QosPolicies) -> WriterKit {
  let (cmd, writer_command_receiver) = mio_channel::sync_channel::<WriterCommand>(64);
  let (status_sender, status) = sync_status_channel::<DataWriterStatus>(64).unwrap();
  let (participant_status_sender, participant_status) = sync_status_channel(64).unwrap();
  let ing = WriterIngredients {
    guid,
    writer_command_receiver,
    writer_command_receiver_waker: Arc::new(Mutex::new(None)),
    topic_name: topic_name.to_string(),
    like_stateless: false,
    qos_policies: qos,
    status_sender,
    security_plugins: None,
  };
  let writer = Writer::new(
    ing,
    Rc::new(UDPSender::new(0).unwrap()),
    mio_extras::timer::Builder::default().build(),
    participant_status_sender,
  );
  WriterKit { writer, status, participant_status, cmd }
}

pub struct ReaderKit {
  pub reader: Reader,
  pub status: StatusChannelReceiver<DataReaderStatus>,
  pub participant_status: StatusChannelReceiver<DomainParticipantStatusEvent>,
  pub topic_cache: Arc<Mutex<TopicCache>>,
  pub dds_cache: Arc<RwLock<DDSCache>>,
  pub notification: mio_channel::Receiver<()>,
  pub cmd: mio_channel::SyncSender<ReaderCommand>,
}

pub fn make_reader(guid: GUID, topic_name: &str, qos: QosPolicies) -> ReaderKit {
  let dds_cache = Arc::new(RwLock::new(DDSCache::new()));
  let topic_cache = dds_cache.write().unwrap().add_new_topic(
    topic_name.to_string(),
    TypeDesc::new("verif_type".to_string()),
    &qos,
  );
  let (notification_sender, notification) = mio_channel::sync_channel::<()>(1000);
  let (_notification_event_source, notification_event_sender) =
    mio_source::make_poll_channel().unwrap();
  let (status_sender, status) = sync_status_channel(64).unwrap();
  let (participant_status_sender, participant_status) = sync_status_channel(64).unwrap();
  let (cmd, reader_command_receiver) = mio_channel::sync_channel::<ReaderCommand>(10);
  let ing = ReaderIngredients {
    guid,
    notification_sender,
    status_sender,
    topic_name: topic_name.to_string(),
    topic_cache_handle: topic_cache.clone(),
    like_stateless: false,
    qos_policy: qos,
    data_reader_command_receiver: reader_command_receiver,
    data_reader_waker: Arc::new(Mutex::new(None)),
    poll_event_sender: notification_event_sender,
    security_plugins: None,
  };
  let reader = Reader::new(
    ing,
    Rc::new(UDPSender::new(0).unwrap()),
    mio_extras::timer::Builder::default().build(),
    participant_status_sender,
  );
  ReaderKit { reader, status, participant_status, topic_cache, dds_cache, notification, cmd }
}
