// C03 driver (and the rig shared with C01): a real reliable rtps::Reader inside a real
// MessageReceiver.  Every operation is one RTPS datagram (optional INFO_TS + one DATA / DATAFRAG /
// HEARTBEAT / GAP), serialized by the small encoder below and fed through
// MessageReceiver::handle_received_packet, so that parsing and dispatch are inside the loop.  The
// ACKNACK / NACKFRAG datagrams the Reader hands to its UDPSender are captured, re-parsed with the
// real Message::read_from_buffer and reported field by field.  After each operation the cache
// changes that appeared in the topic cache and the writer proxy's ack_base / `changes` keys are
// reported as well.
use std::{
  collections::BTreeSet,
  panic::{catch_unwind, AssertUnwindSafe},
  rc::Rc,
  sync::{Arc, Mutex, RwLock},
};

use bytes::Bytes;
use mio_extras::channel as mio_channel;

use crate::{
  dds::{
    ddsdata::DDSData,
    qos::{policy, QosPolicies},
    statusevents::sync_status_channel,
    typedesc::TypeDesc,
    with_key::simpledatareader::ReaderCommand,
  },
  messages::submessages::submessages::{AckSubmessage, InterpreterSubmessage, ReaderSubmessage},
  mio_source,
  network::udp_sender::UDPSender,
  rtps::{
    message::Message,
    message_receiver::MessageReceiver,
    reader::{Reader, ReaderIngredients},
    rtps_writer_proxy::RtpsWriterProxy,
    SubmessageBody,
  },
  structure::{
    dds_cache::{DDSCache, TopicCache},
    duration::Duration,
    guid::{EntityId, EntityKind, GuidPrefix, GUID},
    locator::Locator,
    sequence_number::SequenceNumber,
    time::Timestamp,
  },
};
use super::{
  capture,
  util::{self, Args, CaseOut, Rng},
};

pub const P_OWN: [u8; 12] = [0xEE; 12];
pub const E_READER: [u8; 4] = [0, 0, 1, 0x07];
pub const E_WRITER: [u8; 4] = [0, 0, 2, 0x02];
pub const MAX_SN: i64 = i64::MAX - 0x1_0000;

pub fn writer_guid(w: u8) -> GUID {
  GUID::new(
    GuidPrefix::new(&[w; 12]),
    EntityId::new([0, 0, 2], EntityKind::WRITER_WITH_KEY_USER_DEFINED),
  )
}
pub fn reader_entity() -> EntityId {
  EntityId::new([0, 0, 1], EntityKind::READER_WITH_KEY_USER_DEFINED)
}

// ---------------------------------------------------------------------------------------------
// operations = submessages on the wire

#[derive(Clone, Debug)]
pub enum Op {
  Data { w: u8, sn: i64, ts: Option<u64>, payload: Vec<u8> },
  Frag { w: u8, sn: i64, start: u32, count: u16, dsz: u32, fs: u16, payload: Vec<u8>, ts: Option<u64> },
  Hb { w: u8, first: i64, last: i64, count: i32, fin: bool },
  Gap { w: u8, start: i64, base: i64, numbits: u32, bits: Vec<i64> },
}

fn sn_bytes(sn: i64, out: &mut Vec<u8>) {
  out.extend_from_slice(&((sn >> 32) as i32).to_le_bytes());
  out.extend_from_slice(&(sn as u32).to_le_bytes());
}

fn submessage(id: u8, flags: u8, body: &[u8], out: &mut Vec<u8>) {
  assert!(body.len() % 4 == 0 && body.len() < 65536);
  out.push(id);
  out.push(flags);
  out.extend_from_slice(&(body.len() as u16).to_le_bytes());
  out.extend_from_slice(body);
}

fn pad4(mut v: Vec<u8>) -> Vec<u8> {
  while v.len() % 4 != 0 {
    v.push(0);
  }
  v
}

fn coq_ts(ts: &Option<u64>) -> String {
  util::opt(ts.map(|t| util::z(t as i128)))
}

impl Op {
  pub fn writer(&self) -> u8 {
    match self {
      Op::Data { w, .. } | Op::Frag { w, .. } | Op::Hb { w, .. } | Op::Gap { w, .. } => *w,
    }
  }
  pub fn kind(&self) -> &'static str {
    match self {
      Op::Data { .. } => "data",
      Op::Frag { .. } => "frag",
      Op::Hb { .. } => "hb",
      Op::Gap { .. } => "gap",
    }
  }
  /// payload bytes as the receiving side sees them (submessage bodies are padded to 4 bytes)
  pub fn normalized(self) -> Op {
    match self {
      Op::Data { w, sn, ts, payload } => Op::Data { w, sn, ts, payload: pad4(payload) },
      Op::Frag { w, sn, start, count, dsz, fs, payload, ts } => {
        Op::Frag { w, sn, start, count, dsz, fs, payload: pad4(payload), ts }
      }
      o => o,
    }
  }
  pub fn coq(&self) -> String {
    match self {
      Op::Data { w, sn, ts, payload } => format!(
        "Data {} {} {} {}",
        w,
        util::z(*sn as i128),
        coq_ts(ts),
        util::bytes(payload)
      ),
      Op::Frag { w, sn, start, count, dsz, fs, payload, ts } => format!(
        "Frag {} (F.Build_datafrag {} {} {} {} {} {}) {}",
        w,
        util::z(*sn as i128),
        start,
        count,
        dsz,
        fs,
        util::bytes(payload),
        coq_ts(ts)
      ),
      Op::Hb { w, first, last, count, fin } => format!(
        "Hb {} {} {} {} {}",
        w,
        util::z(*first as i128),
        util::z(*last as i128),
        util::z(*count as i128),
        util::b(*fin)
      ),
      Op::Gap { w, start, base, numbits, bits } => format!(
        "Gap {} {} {} {} {}",
        w,
        util::z(*start as i128),
        util::z(*base as i128),
        numbits,
        util::list(bits.iter().map(|b| util::z(*b as i128)))
      ),
    }
  }
  pub fn datagram(&self) -> Vec<u8> {
    let mut out = Vec::new();
    out.extend_from_slice(b"RTPS");
    out.extend_from_slice(&[2, 4, 1, 18]);
    out.extend_from_slice(&[self.writer(); 12]);
    let ts = match self {
      Op::Data { ts, .. } | Op::Frag { ts, .. } => *ts,
      _ => None,
    };
    if let Some(t) = ts {
      let mut b = Vec::new();
      b.extend_from_slice(&((t >> 32) as u32).to_le_bytes());
      b.extend_from_slice(&(t as u32).to_le_bytes());
      submessage(0x09, 1, &b, &mut out);
    }
    let mut body = Vec::new();
    match self {
      Op::Data { sn, payload, .. } => {
        body.extend_from_slice(&0u16.to_le_bytes());
        body.extend_from_slice(&16u16.to_le_bytes());
        body.extend_from_slice(&E_READER);
        body.extend_from_slice(&E_WRITER);
        sn_bytes(*sn, &mut body);
        body.extend_from_slice(payload);
        submessage(0x15, 1 | 4, &body, &mut out); // E + D
      }
      Op::Frag { sn, start, count, dsz, fs, payload, .. } => {
        body.extend_from_slice(&0u16.to_le_bytes());
        body.extend_from_slice(&28u16.to_le_bytes());
        body.extend_from_slice(&E_READER);
        body.extend_from_slice(&E_WRITER);
        sn_bytes(*sn, &mut body);
        body.extend_from_slice(&start.to_le_bytes());
        body.extend_from_slice(&count.to_le_bytes());
        body.extend_from_slice(&fs.to_le_bytes());
        body.extend_from_slice(&dsz.to_le_bytes());
        body.extend_from_slice(payload);
        submessage(0x16, 1, &body, &mut out);
      }
      Op::Hb { first, last, count, fin, .. } => {
        body.extend_from_slice(&E_READER);
        body.extend_from_slice(&E_WRITER);
        sn_bytes(*first, &mut body);
        sn_bytes(*last, &mut body);
        body.extend_from_slice(&count.to_le_bytes());
        submessage(0x07, 1 | if *fin { 2 } else { 0 }, &body, &mut out);
      }
      Op::Gap { start, base, numbits, bits, .. } => {
        body.extend_from_slice(&E_READER);
        body.extend_from_slice(&E_WRITER);
        sn_bytes(*start, &mut body);
        sn_bytes(*base, &mut body);
        body.extend_from_slice(&numbits.to_le_bytes());
        let words = ((*numbits + 31) / 32) as usize;
        let mut bm = vec![0u32; words];
        for b in bits {
          let pos = (*b - *base) as usize;
          bm[pos / 32] |= 1u32 << (31 - (pos % 32));
        }
        for wd in bm {
          body.extend_from_slice(&wd.to_le_bytes());
        }
        submessage(0x08, 1, &body, &mut out);
      }
    }
    out
  }
}

// ---------------------------------------------------------------------------------------------
// observations

#[derive(Clone, Debug)]
pub enum Reply {
  AckNack { w: u8, base: i64, numbits: u32, bits: Vec<i64>, count: i32 },
  NackFrag { w: u8, sn: i64, base: u32, numbits: u32, bits: Vec<u32>, count: i32 },
}
impl Reply {
  pub fn coq(&self) -> String {
    match self {
      Reply::AckNack { w, base, numbits, bits, count } => format!(
        "AckNack {} {} {} {} {}",
        w,
        util::z(*base as i128),
        numbits,
        util::list(bits.iter().map(|b| util::z(*b as i128))),
        util::z(*count as i128)
      ),
      Reply::NackFrag { w, sn, base, numbits, bits, count } => format!(
        "NackFrag {} {} {} {} {} {}",
        w,
        util::z(*sn as i128),
        base,
        numbits,
        util::list(bits.iter().map(|b| format!("{}", b))),
        util::z(*count as i128)
      ),
    }
  }
}

#[derive(Clone, Debug)]
pub struct Added {
  pub w: u8,
  pub sn: i64,
  pub ts: Option<u64>,
  pub payload: Vec<u8>,
}

#[derive(Clone, Debug, Default)]
pub struct StepObs {
  pub replies: Vec<Reply>,
  pub adds: Vec<Added>,
  pub base: i64,
  pub changes: Vec<i64>,
  pub hb_count: i32,
  pub an_count: i32,
}
impl StepObs {
  pub fn coq(&self) -> String {
    format!(
      "Build_sobs {} {} {} {} {}",
      util::list(self.replies.iter().map(|r| r.coq())),
      util::list(self.adds.iter().map(|a| format!("({}, {})", a.w, util::z(a.sn as i128)))),
      util::z(self.base as i128),
      self.changes.len(),
      util::z(self.changes.iter().map(|c| *c as i128).sum::<i128>())
    )
  }
}

/// Re-parses captured datagrams with the real parser.
pub fn parse_replies(dgs: &[(Locator, Vec<u8>)]) -> Vec<Reply> {
  let mut res = Vec::new();
  for (_, b) in dgs {
    let m = match Message::read_from_buffer(&Bytes::copy_from_slice(b)) {
      Ok(m) => m,
      Err(_) => {
        // an unparseable reply: report it as an impossible ACKNACK so that it cannot go unnoticed
        res.push(Reply::AckNack { w: 0, base: -1, numbits: 0, bits: vec![], count: -1 });
        continue;
      }
    };
    let mut dst: u8 = 0;
    for s in m.submessages {
      match s.body {
        SubmessageBody::Interpreter(InterpreterSubmessage::InfoDestination(d, _)) => {
          dst = d.guid_prefix.bytes[0];
        }
        SubmessageBody::Reader(ReaderSubmessage::AckNack(an, _)) => res.push(Reply::AckNack {
          w: dst,
          base: i64::from(an.reader_sn_state.base()),
          numbits: an.reader_sn_state.verif_num_bits(),
          bits: an.reader_sn_state.iter().map(i64::from).collect(),
          count: an.count,
        }),
        SubmessageBody::Reader(ReaderSubmessage::NackFrag(nf, _)) => res.push(Reply::NackFrag {
          w: dst,
          sn: i64::from(nf.writer_sn),
          base: u32::from(nf.fragment_number_state.base()),
          numbits: nf.fragment_number_state.verif_num_bits(),
          bits: nf.fragment_number_state.iter().map(u32::from).collect(),
          count: nf.count,
        }),
        _ => {}
      }
    }
  }
  res
}

pub fn fresh_timestamp(after: Timestamp) -> Timestamp {
  loop {
    let t = Timestamp::now();
    if t > after {
      return t;
    }
    std::hint::spin_loop();
  }
}

// ---------------------------------------------------------------------------------------------
// the system under test

pub fn reliable_qos(history: policy::History) -> QosPolicies {
  let mut qos = QosPolicies::qos_none();
  qos.history = Some(history);
  qos.reliability =
    Some(policy::Reliability::Reliable { max_blocking_time: Duration::from_millis(100) });
  qos
}

pub struct Rig {
  pub mr: MessageReceiver,
  pub topic_cache: Arc<Mutex<TopicCache>>,
  seen: BTreeSet<Timestamp>,
  _keep: Box<dyn std::any::Any>,
}

impl Rig {
  /// `topic_cache` must be the cache of topic `topic_name` (C01 passes the participant's).
  pub fn new(
    matched: &[u8],
    qos: &QosPolicies,
    topic_name: &str,
    topic_cache: Arc<Mutex<TopicCache>>,
  ) -> Rig {
    let own = GuidPrefix::new(&P_OWN);
    let (ack_tx, ack_rx) = mio_channel::sync_channel::<(GuidPrefix, AckSubmessage)>(100);
    let (live_tx, live_rx) = mio_channel::sync_channel::<GuidPrefix>(100);
    let mut mr = MessageReceiver::new(own, ack_tx, live_tx, None);
    let (notification_sender, notification) = mio_channel::sync_channel::<()>(1000);
    let (notification_event_source, notification_event_sender) =
      mio_source::make_poll_channel().unwrap();
    let (status_sender, status) = sync_status_channel(64).unwrap();
    let (participant_status_sender, participant_status) = sync_status_channel(64).unwrap();
    let (cmd, reader_command_receiver) = mio_channel::sync_channel::<ReaderCommand>(10);
    let ing = ReaderIngredients {
      guid: GUID::new(own, reader_entity()),
      notification_sender,
      status_sender,
      topic_name: topic_name.to_string(),
      topic_cache_handle: topic_cache.clone(),
      like_stateless: false,
      qos_policy: qos.clone(),
      data_reader_command_receiver: reader_command_receiver,
      data_reader_waker: Arc::new(Mutex::new(None)),
      poll_event_sender: notification_event_sender,
      security_plugins: None,
    };
    let mut reader = Reader::new(
      ing,
      Rc::new(UDPSender::new(0).unwrap()),
      mio_extras::timer::Builder::default().build(),
      participant_status_sender,
    );
    for w in matched {
      let loc = Locator::from(std::net::SocketAddr::from(([127, 0, 0, 1], 17000 + *w as u16)));
      reader.update_writer_proxy(
        RtpsWriterProxy::new(writer_guid(*w), vec![loc], vec![], EntityId::UNKNOWN),
        qos,
      );
    }
    mr.add_reader(reader);
    Rig {
      mr,
      topic_cache,
      seen: BTreeSet::new(),
      _keep: Box::new((
        ack_rx,
        live_rx,
        notification,
        notification_event_source,
        status,
        participant_status,
        cmd,
      )),
    }
  }

  pub fn with_own_cache(matched: &[u8], qos: &QosPolicies, topic_name: &str) -> Rig {
    let dds_cache = Arc::new(RwLock::new(DDSCache::new()));
    let topic_cache = dds_cache.write().unwrap().add_new_topic(
      topic_name.to_string(),
      TypeDesc::new("verif_type".to_string()),
      qos,
    );
    let mut rig = Rig::new(matched, qos, topic_name, topic_cache);
    rig._keep = Box::new((std::mem::replace(&mut rig._keep, Box::new(())), dds_cache));
    rig
  }

  pub fn proxy_view(&mut self, w: u8) -> Option<(i64, Vec<i64>, i32, i32)> {
    self
      .mr
      .reader_mut(reader_entity())
      .and_then(|r| r.verif_writer_proxy_view(writer_guid(w)))
  }

  pub fn ack_base(&mut self, w: u8) -> i64 {
    self.proxy_view(w).map(|v| v.0).unwrap_or(1)
  }

  /// Feeds one datagram; the receive timestamps taken inside are strictly later than those of
  /// every earlier operation (monotone-clock assumption of the model).
  pub fn feed(&mut self, op: &Op) -> StepObs {
    let t0 = fresh_timestamp(Timestamp::now());
    let _t1 = fresh_timestamp(t0);
    capture::drain();
    self.mr.handle_received_packet(&Bytes::from(op.datagram()));
    let replies = parse_replies(&capture::drain());
    let mut adds = Vec::new();
    {
      let tc = self.topic_cache.lock().unwrap();
      for (ts, cc) in tc.get_changes_in_range_best_effort(Timestamp::ZERO, Timestamp::INFINITE) {
        if self.seen.insert(ts) {
          let payload = match &cc.data_value {
            DDSData::Data { serialized_payload } => {
              let mut v = serialized_payload.representation_identifier.bytes.to_vec();
              v.extend_from_slice(&serialized_payload.representation_options);
              v.extend_from_slice(&serialized_payload.value);
              v
            }
            _ => vec![255, 255, 255, 255, 255],
          };
          adds.push(Added {
            w: cc.writer_guid.prefix.bytes[0],
            sn: i64::from(cc.sequence_number),
            ts: cc.write_options.source_timestamp().map(ts_to_u64),
            payload,
          });
        }
      }
      // forget keys that were evicted, so that the set stays small
      if self.seen.len() > 4096 {
        self.seen = tc
          .get_changes_in_range_best_effort(Timestamp::ZERO, Timestamp::INFINITE)
          .map(|(t, _)| t)
          .collect();
      }
    }
    let (base, changes, hb_count, an_count) =
      self.proxy_view(op.writer()).unwrap_or((0, vec![], 0, 0));
    StepObs { replies, adds, base, changes, hb_count, an_count }
  }
}

pub fn ts_to_u64(t: Timestamp) -> u64 {
  // Timestamp is (seconds: u32, fraction: u32); its wire form is the two words in this order
  use speedy::Writable;
  let b = t.write_to_vec_with_ctx(speedy::Endianness::LittleEndian).unwrap();
  let s = u32::from_le_bytes([b[0], b[1], b[2], b[3]]) as u64;
  let f = u32::from_le_bytes([b[4], b[5], b[6], b[7]]) as u64;
  (s << 32) | f
}

// ---------------------------------------------------------------------------------------------
// generator: simulated remote writers; boundary values are taken relative to the live ack_base

#[derive(Clone)]
pub struct FragInfo {
  pub fs: u16,
  pub body: Vec<u8>, // header ++ value
}

pub struct WSim {
  pub id: u8,
  pub matched: bool,
  pub next_sn: i64,   // next new sequence number the writer would write
  pub first: i64,     // lowest still available
  pub hb_count: i32,
  pub fs: u16,        // fragment size of this writer
  pub frag: std::collections::BTreeMap<i64, FragInfo>,
  /// a GAP [start, until) that was sent with start above the live ack_base and until beyond
  /// ack_base + 256: the reader records only the window (repo fix c71c7f1); the generator follows
  /// up (DATA up to start, HEARTBEAT beyond, renewed GAP from the base).  .2 = a HEARTBEAT was sent
  /// since the base reached the range
  pub far: Option<(i64, i64, bool)>,
}

/// payload = CDR_LE header ++ (u32 length ++ bytes), padded to 4: decodable as a byte sequence
pub fn payload_for(w: u8, sn: i64, n: usize) -> Vec<u8> {
  let mut v = vec![0, 1, 0, 0];
  let n = n - n % 4;
  v.extend_from_slice(&(n as u32).to_le_bytes());
  v.extend((0..n).map(|i| (w as u64).wrapping_mul(31).wrapping_add((sn as u64).wrapping_mul(7)).wrapping_add(i as u64) as u8));
  v
}

pub struct Gen {
  pub r: Rng,
  pub ws: Vec<WSim>,
  pub profile: u8, // 0 small, 1 crossing the 64-SN cache GC, 2 windows wider than 256, 3 hostile numbers
  pub with_ts: bool,
}

impl Gen {
  pub fn new(mut r: Rng, profile: u8) -> Gen {
    let nw = 1 + r.below(3) as u8;
    let mut ws = Vec::new();
    for i in 0..nw {
      ws.push(WSim {
        id: i + 1,
        matched: true,
        next_sn: 1,
        first: 1,
        hb_count: 0,
        fs: *r.pick(&[4u16, 8, 8, 12, 16]),
        frag: Default::default(),
        far: None,
      });
    }
    if r.chance(1, 6) {
      ws.push(WSim { id: 9, matched: false, next_sn: 1, first: 1, hb_count: 0, fs: 8, frag: Default::default(), far: None });
    }
    let with_ts = r.chance(1, 2);
    Gen { r, ws, profile, with_ts }
  }
  pub fn matched(&self) -> Vec<u8> {
    self.ws.iter().filter(|w| w.matched).map(|w| w.id).collect()
  }
  fn ts(&mut self) -> Option<u64> {
    if self.with_ts && self.r.chance(3, 4) {
      Some((1_600_000_000u64 + self.r.below(1000)) << 32 | self.r.below(1 << 32))
    } else {
      None
    }
  }
  fn around(&mut self, b: i64) -> i64 {
    let d = *self.r.pick(&[-2i64, -1, 0, 0, 1, 1, 2, 3, 5, 8, 63, 64, 65, 254, 255, 256, 257, 300]);
    b + d
  }

  /// next operation, given the live ack_base of each writer
  pub fn next(&mut self, ack_base: &dyn Fn(u8) -> i64) -> Op {
    let wi = self.r.below(self.ws.len() as u64) as usize;
    let id = self.ws[wi].id;
    let b = ack_base(id);
    let profile = self.profile;
    let k = self.r.below(100);
    if profile == 3 && self.r.chance(1, 5) {
      return self.hostile(wi, b);
    }
    if self.ws[wi].far.is_some() && self.r.chance(3, 5) {
      if let Some(op) = self.far_follow_up(wi, b) {
        return op;
      }
    }
    let (p_data, p_frag, p_hb) = match profile {
      1 => (80, 83, 93),
      2 => (45, 50, 85),
      _ => (40, 55, 82),
    };
    if k < p_data {
      self.data(wi, b)
    } else if k < p_frag {
      self.frag(wi, b)
    } else if k < p_hb {
      self.hb(wi, b)
    } else {
      self.gap(wi, b)
    }
  }

  fn data(&mut self, wi: usize, b: i64) -> Op {
    let profile = self.profile;
    let c = self.r.below(100);
    let w = &mut self.ws[wi];
    let sn = if profile == 1 {
      // mostly in order, occasional loss / duplicate / repair
      if c < 80 {
        let s = w.next_sn;
        w.next_sn += 1;
        s
      } else if c < 86 {
        w.next_sn += 1; // lost
        let s = w.next_sn;
        w.next_sn += 1;
        s
      } else if c < 94 {
        b
      } else {
        (w.next_sn - 1 - (c as i64 % 5)).max(1)
      }
    } else if c < 40 {
      let s = w.next_sn;
      w.next_sn += 1;
      s
    } else if c < 52 {
      let skip = 1 + (c as i64 % 4);
      w.next_sn += skip;
      let s = w.next_sn;
      w.next_sn += 1;
      s
    } else if c < 66 {
      b
    } else if c < 72 {
      b + 1
    } else if c < 82 {
      // duplicate / retransmission of something older
      let lo = (w.next_sn - 8).max(0);
      lo + (c as i64 * 7919) % (w.next_sn - lo + 1)
    } else if c < 90 {
      b - 1 - (c as i64 % 3)
    } else {
      // ahead of the base, around the window limits
      let d = [2i64, 3, 62, 63, 64, 254, 255, 256, 257, 300][(c % 10) as usize];
      let s = b + d;
      if profile == 2 {
        w.next_sn = w.next_sn.max(s + 1);
      }
      s
    };
    w.next_sn = w.next_sn.max(sn + 1);
    let n = 4 * self.r.below(3) as usize;
    let id = self.ws[wi].id;
    let ts = self.ts();
    Op::Data { w: id, sn, ts, payload: payload_for(id, sn, n) }
  }

  fn frag(&mut self, wi: usize, b: i64) -> Op {
    let c = self.r.below(100);
    let ts = self.ts();
    let w = &mut self.ws[wi];
    // choose the sample: an existing fragmented one, or a new one at next_sn / ack_base
    let sn = if !w.frag.is_empty() && c < 60 {
      let keys: Vec<i64> = w.frag.keys().copied().collect();
      keys[(c as usize * 13) % keys.len()]
    } else if c < 80 {
      let s = w.next_sn;
      w.next_sn += 1;
      s
    } else {
      b.max(1)
    };
    let fs = w.fs;
    let id = w.id;
    let info = w.frag.entry(sn).or_insert_with(|| {
      let nfr = 2 + (c % 4) as usize; // 2..5 fragments
      // length of the last fragment; sample sizes are multiples of 4 so that re-encoding the
      // deserialized value (C01 driver) gives back exactly the bytes
      let last = 4 * (1 + (c as usize * 3) % (fs as usize / 4));
      let total = (nfr - 1) * fs as usize + last;
      let mut body = payload_for(id, sn, 0);
      body.truncate(8);
      let n = total.max(12) - 8;
      body[4..8].copy_from_slice(&(n as u32).to_le_bytes());
      body.extend((0..n).map(|i| (sn as u64).wrapping_mul(11).wrapping_add(i as u64) as u8));
      FragInfo { fs, body }
    });
    let info = info.clone();
    let dsz = info.body.len() as u32;
    let total = (dsz + fs as u32 - 1) / fs as u32;
    let d = self.r.below(100);
    let (start, count) = if d < 80 {
      (1 + self.r.below(total as u64) as u32, 1u16)
    } else if d < 90 {
      let s = 1 + self.r.below(total as u64) as u32;
      (s, (1 + self.r.below((total - s + 1) as u64)) as u16)
    } else if d < 94 {
      (total + 1, 1) // beyond the sample
    } else if d < 97 {
      (total, 2) // runs over the end
    } else {
      (0, 1)
    };
    let from = ((start.max(1) - 1) as usize * fs as usize).min(info.body.len());
    let to = (from + count as usize * fs as usize).min(info.body.len());
    let mut payload = info.body[from..to].to_vec();
    let (dsz, fs) = if d == 99 { (dsz + 4, fs) } else if d == 98 { (dsz, fs + 4) } else { (dsz, fs) };
    if payload.is_empty() {
      payload = vec![0; 4];
    }
    Op::Frag { w: id, sn, start, count, dsz, fs, payload, ts }
  }

  fn hb(&mut self, wi: usize, b: i64) -> Op {
    let c = self.r.below(100);
    let profile = self.profile;
    let (first_avail, next_sn) = (self.ws[wi].first, self.ws[wi].next_sn);
    let first = if c < 45 {
      first_avail
    } else if c < 60 {
      self.around(b)
    } else if c < 70 {
      // the writer dropped some history
      let f = first_avail + 1 + (c as i64 % 4);
      self.ws[wi].first = f;
      f
    } else if c < 76 {
      1
    } else if c < 80 {
      *self.r.pick(&[0i64, -1, -5])
    } else {
      first_avail.max(b - 3)
    };
    let d = self.r.below(100);
    let last = if d < 40 {
      next_sn - 1
    } else if d < 60 {
      self.around(b)
    } else if d < 68 {
      first - 1
    } else if d < 72 {
      first - 2
    } else if d < 80 {
      first
    } else if d < 90 && profile >= 2 {
      b + *self.r.pick(&[254i64, 255, 256, 257, 300, 511, 512, 1000])
    } else {
      next_sn + (d as i64 % 7)
    };
    if profile == 2 {
      self.ws[wi].next_sn = self.ws[wi].next_sn.max(last.min(b + 1200) + 1);
    }
    let e = self.r.below(100);
    let w = &mut self.ws[wi];
    let count = if e < 82 {
      w.hb_count += 1;
      w.hb_count
    } else if e < 90 {
      w.hb_count // duplicate
    } else if e < 94 {
      w.hb_count - 1
    } else if e < 97 {
      w.hb_count += 5;
      w.hb_count
    } else {
      0
    };
    let fin = self.r.chance(1, 2);
    Op::Hb { w: w.id, first, last, count, fin }
  }

  /// What a writer does after a GAP whose far part the reader did not record: the samples below
  /// the range arrive (the base moves up to / into the range), a HEARTBEAT makes the reader ask
  /// again, the GAP is renewed from the reader's base (or from around it).
  fn far_follow_up(&mut self, wi: usize, b: i64) -> Option<Op> {
    let (start, until, hb_sent) = self.ws[wi].far?;
    let id = self.ws[wi].id;
    if b >= until || b < 1 || until > MAX_SN - 2000 {
      // (ranges that reach the accepted maximum are not followed up: no overflow in the generator)
      self.ws[wi].far = None;
      return None;
    }
    if b < start {
      if start - b > 12 {
        // too far below: let a HEARTBEAT with a higher first close the distance
        self.ws[wi].hb_count += 1;
        let c = self.ws[wi].hb_count;
        self.ws[wi].first = self.ws[wi].first.max(start);
        return Some(Op::Hb { w: id, first: start, last: until + 5, count: c, fin: false });
      }
      let ts = self.ts();
      let w = &mut self.ws[wi];
      w.next_sn = w.next_sn.max(b + 1);
      return Some(Op::Data { w: id, sn: b, ts, payload: payload_for(id, b, 4) });
    }
    if !hb_sent {
      self.ws[wi].hb_count += 1;
      let c = self.ws[wi].hb_count;
      let first = self.ws[wi].first;
      let last = until + *self.r.pick(&[-1i64, 0, 3, 200, 300]);
      self.ws[wi].far = Some((start, until, true));
      self.ws[wi].next_sn = self.ws[wi].next_sn.max(last.min(b + 1200) + 1);
      return Some(Op::Hb { w: id, first, last, count: c, fin: self.r.chance(1, 2) });
    }
    // renewed GAP: from the base (taken whole), sometimes from just below / above it
    let s = b + *self.r.pick(&[0i64, 0, 0, 0, -1, -3, 1]);
    self.ws[wi].far = if s > b && until > b + 256 { Some((s, until, false)) } else { None };
    Some(Op::Gap { w: id, start: s.max(1), base: until, numbits: 0, bits: vec![] })
  }

  fn gap(&mut self, wi: usize, b: i64) -> Op {
    let c = self.r.below(100);
    // GAP ranges that start above the ack base and reach beyond the 256-window from it
    let far_p = match self.profile {
      2 => 30,
      3 => 20,
      1 => 4,
      _ => 12,
    };
    if self.r.below(100) < far_p {
      // (the live base may sit at the accepted maximum: no overflow in the generator itself)
      let b = b.min(MAX_SN);
      let start = b + *self.r.pick(&[1i64, 1, 2, 3, 5, 8, 100, 200, 254, 255, 256, 257, 300]);
      let until = if self.profile == 3 && self.r.chance(1, 3) {
        *self.r.pick(&[b.saturating_add(300_005).min(i64::MAX - 70_000), 1i64 << 40, MAX_SN, MAX_SN - 1])
      } else {
        b + *self.r.pick(&[256i64, 257, 258, 300, 400, 511, 512, 513, 600, 1000, 5000])
      };
      let until = until.max(start);
      let numbits = *self.r.pick(&[0u32, 0, 0, 2, 8, 33]);
      let mut bits = Vec::new();
      for i in 0..numbits {
        if self.r.below(2) == 0 {
          bits.push(until.saturating_add(i as i64));
        }
      }
      let w = &mut self.ws[wi];
      if until > b + 256 && start >= 1 {
        w.far = Some((start, until, false));
      }
      w.next_sn = w.next_sn.max(until.min(b + 400));
      return Op::Gap { w: w.id, start, base: until, numbits, bits };
    }
    let start = if c < 30 {
      b
    } else if c < 60 {
      self.around(b)
    } else if c < 75 {
      (b - 1 - (c as i64 % 4)).max(-1)
    } else if c < 80 {
      *self.r.pick(&[0i64, 1, -3])
    } else {
      b + 1 + (c as i64 % 6)
    };
    let d = self.r.below(100);
    let base = if d < 25 {
      start
    } else if d < 65 {
      start + 1 + (d as i64 % 4)
    } else if d < 80 {
      start + *self.r.pick(&[8i64, 20, 64, 100, 256, 300])
    } else if d < 86 {
      start - 1 - (d as i64 % 3) // negative range
    } else if d < 90 {
      0
    } else {
      self.around(b).max(start)
    };
    let numbits = *self.r.pick(&[0u32, 0, 1, 2, 5, 8, 31, 32, 33, 64, 255, 256]);
    let mut bits = Vec::new();
    let dens = *self.r.pick(&[0u64, 1, 2, 4, 8]);
    for i in 0..numbits {
      if dens > 0 && self.r.below(dens) == 0 {
        bits.push(base + i as i64);
      }
    }
    let w = &mut self.ws[wi];
    w.next_sn = w.next_sn.max(base.min(b + 400));
    Op::Gap { w: w.id, start, base, numbits, bits }
  }

  fn hostile(&mut self, wi: usize, b: i64) -> Op {
    let id = self.ws[wi].id;
    let big = *self.r.pick(&[MAX_SN, MAX_SN + 1, MAX_SN - 1, 1i64 << 40, i64::MAX, (1i64 << 32) + 5]);
    match self.r.below(5) {
      0 => Op::Data { w: id, sn: big, ts: None, payload: payload_for(id, 1, 0) },
      1 => {
        self.ws[wi].hb_count += 1;
        let c = self.ws[wi].hb_count;
        // a huge advertised range is fine (the reader looks at 256 numbers); a huge first is not
        // sent here (it would legitimately move the base and end the interesting part of the case)
        Op::Hb { w: id, first: self.ws[wi].first, last: big, count: c, fin: self.r.chance(1, 2) }
      }
      2 => {
        // GAP whose range starts at or below the base: constant work whatever its length
        Op::Gap { w: id, start: (b - 1).max(1), base: b + 3, numbits: 0, bits: vec![] }
      }
      3 => {
        if self.r.chance(1, 2) {
          Op::Gap { w: id, start: big, base: big, numbits: 8, bits: vec![big] }
        } else {
          // starts above the base, claims an enormous range: only the 256-window is recorded
          self.ws[wi].far = Some((b + 2, big.min(MAX_SN), false));
          Op::Gap { w: id, start: b + 2, base: big, numbits: 0, bits: vec![] }
        }
      }
      _ => {
        self.ws[wi].hb_count += 1;
        let c = self.ws[wi].hb_count;
        Op::Hb { w: id, first: big, last: big, count: c, fin: false }
      }
    }
  }
}

// ---------------------------------------------------------------------------------------------
// cases

pub struct CaseRun {
  pub matched: Vec<u8>,
  pub ops: Vec<Op>,
  pub obs: Vec<StepObs>,
  pub panicked: bool,
}

fn run_ops_fixed(matched: &[u8], ops: &[Op]) -> CaseRun {
  let qos = reliable_qos(policy::History::KeepAll);
  let mut obs = Vec::new();
  let mut panicked = false;
  let r = catch_unwind(AssertUnwindSafe(|| {
    let mut rig = Rig::with_own_cache(matched, &qos, "c03_topic");
    for op in ops {
      obs.push(rig.feed(op));
    }
  }));
  if r.is_err() {
    panicked = true;
  }
  CaseRun { matched: matched.to_vec(), ops: ops.to_vec(), obs, panicked }
}

fn run_generated(rng: Rng, profile: u8, nops: usize) -> CaseRun {
  let qos = reliable_qos(policy::History::KeepAll);
  let mut gen = Gen::new(rng, profile);
  let matched = gen.matched();
  let mut ops = Vec::new();
  let mut obs = Vec::new();
  let mut panicked = false;
  // only the code under test runs inside catch_unwind: a panic of the generator must not be
  // reported as a panic of the implementation
  let mut rig = match catch_unwind(AssertUnwindSafe(|| Rig::with_own_cache(&matched, &qos, "c03_topic"))) {
    Ok(r) => r,
    Err(_) => return CaseRun { matched, ops, obs, panicked: true },
  };
  for _ in 0..nops {
    let ids: Vec<u8> = gen.ws.iter().map(|w| w.id).collect();
    let bases = match catch_unwind(AssertUnwindSafe(|| {
      ids.iter().map(|id| (*id, rig.ack_base(*id))).collect::<Vec<(u8, i64)>>()
    })) {
      Ok(b) => b,
      Err(_) => {
        panicked = true;
        break;
      }
    };
    let op = gen
      .next(&|id| bases.iter().find(|(i, _)| *i == id).map(|p| p.1).unwrap_or(1))
      .normalized();
    ops.push(op.clone());
    match catch_unwind(AssertUnwindSafe(|| rig.feed(&op))) {
      Ok(o) => obs.push(o),
      Err(_) => {
        panicked = true;
        break;
      }
    }
  }
  CaseRun { matched, ops, obs, panicked }
}

pub fn coq_case(matched: &[u8], ops: &[Op]) -> String {
  format!(
    "Build_case {} {}",
    util::list(matched.iter().map(|w| format!("{}", w))),
    util::list(ops.iter().map(|o| o.coq()))
  )
}

fn coq_obs(cr: &CaseRun) -> String {
  let l = util::list(cr.obs.iter().map(|o| format!("({})", o.coq())));
  if cr.panicked {
    format!("OPanicked {}", l)
  } else {
    format!("ORun {}", l)
  }
}

fn tags_of(cr: &CaseRun, kind: &str) -> (Vec<String>, bool) {
  let mut tags = vec![format!("kind:{}", kind), format!("writers:{}", cr.matched.len())];
  let n = cr.ops.len();
  tags.push(format!("ops:{}", if n <= 10 { "1-10" } else if n <= 40 { "11-40" } else if n <= 120 { "41-120" } else { ">120" }));
  let mut acks = 0;
  let mut nfs = 0;
  let mut bits = 0;
  let mut full = false;
  let mut maxbase = 0;
  // GAP ranges above the ack base of their time that reach beyond its 256-window (fix c71c7f1):
  // per writer the live base before each operation, and the declared-but-not-recorded parts
  let mut live: std::collections::BTreeMap<u8, i64> = Default::default();
  let mut far_parts: Vec<(u8, i64, i64)> = Vec::new();
  for (op, o) in cr.ops.iter().zip(cr.obs.iter()) {
    tags.push(format!("op:{}", op.kind()));
    let before = *live.get(&op.writer()).unwrap_or(&1);
    if let Op::Gap { w, start, base, .. } = op {
      if o.base != 0 && *start >= 1 && *start <= MAX_SN && *base <= MAX_SN && *base > *start {
        let span = *base - *start;
        if *start > before {
          tags.push("branch:gap_above_base".to_string());
          if span > 256 {
            tags.push("branch:gap_above_base_span>256".to_string());
          }
          if *base > before + 256 {
            tags.push("branch:gap_cut".to_string());
            far_parts.push((*w, (*start).max(before + 256), *base));
            if *start > before + 255 {
              tags.push("branch:gap_beyond_window".to_string());
            }
          }
        } else if *base > before + 256 {
          tags.push("branch:gap_from_base_span>256".to_string());
          if far_parts.iter().any(|(fw, lo, hi)| fw == w && *lo < *base && before < *hi) {
            tags.push("branch:gap_renewed_after_cut".to_string());
          }
        }
      }
    }
    if o.base != 0 {
      live.insert(op.writer(), o.base);
    }
    for r in &o.replies {
      let asked: Vec<i64> = match r {
        Reply::AckNack { bits, .. } => bits.clone(),
        Reply::NackFrag { sn, .. } => vec![*sn],
      };
      if asked.iter().any(|m| far_parts.iter().any(|(fw, lo, hi)| *fw == op.writer() && lo <= m && m < hi)) {
        tags.push("branch:gap_far_part_rerequested".to_string());
      }
    }
    maxbase = maxbase.max(o.base);
    for r in &o.replies {
      match r {
        Reply::AckNack { numbits, bits: b, .. } => {
          acks += 1;
          bits += b.len();
          if *numbits == 256 {
            full = true;
          }
        }
        Reply::NackFrag { .. } => nfs += 1,
      }
    }
    if !o.adds.is_empty() {
      tags.push("effect:cache_add".to_string());
    }
  }
  tags.push(format!("acknacks:{}", if acks == 0 { "0" } else if acks <= 3 { "1-3" } else { ">3" }));
  if nfs > 0 {
    tags.push("branch:nackfrag".to_string());
  }
  if bits > 0 {
    tags.push("branch:bits_set".to_string());
  }
  if full {
    tags.push("branch:window_256".to_string());
  }
  if maxbase > 64 {
    tags.push("branch:base_above_64".to_string());
  }
  if maxbase > 256 {
    tags.push("branch:base_above_256".to_string());
  }
  if cr.panicked {
    tags.push("PANIC".to_string());
  }
  (tags, acks > 0)
}

fn d(w: u8, sn: i64) -> Op {
  Op::Data { w, sn, ts: None, payload: payload_for(w, sn, 4) }
}
fn hb(w: u8, first: i64, last: i64, count: i32, fin: bool) -> Op {
  Op::Hb { w, first, last, count, fin }
}
fn gap(w: u8, start: i64, base: i64, numbits: u32, bits: &[i64]) -> Op {
  Op::Gap { w, start, base, numbits, bits: bits.to_vec() }
}
/// fragment k (from 1) of an honest 3-fragment sample with fragment size 8
fn fr(w: u8, sn: i64, k: u32) -> Op {
  let mut body = vec![0u8, 1, 0, 0, 12, 0, 0, 0];
  body.extend((0..12).map(|i| (sn as u8).wrapping_mul(3).wrapping_add(i)));
  let from = (k as usize - 1) * 8;
  let to = (from + 8).min(body.len());
  Op::Frag { w, sn, start: k, count: 1, dsz: 20, fs: 8, payload: body[from..to].to_vec(), ts: None }
}

/// Fixed corpus: boundary cases from the proof's case splits (13-20: the GAP window of repo fix
/// c71c7f1); case 0 is the witness of the count
/// order defect (NACKFRAG counts above the count of the ACKNACK that follows them on the wire).
pub fn corpus() -> Vec<(Vec<u8>, Vec<Op>)> {
  let mut c: Vec<(Vec<u8>, Vec<Op>)> = Vec::new();
  // 0: sample 1 partially received -> NACKFRAG + ACKNACK in one reply
  c.push((vec![1], vec![fr(1, 1, 1), hb(1, 1, 2, 1, false), fr(1, 1, 3), hb(1, 1, 2, 2, true)]));
  // 1: plain in-order, final and non-final heartbeats
  c.push((vec![1], vec![d(1, 1), d(1, 2), hb(1, 1, 2, 1, true), hb(1, 1, 2, 2, false), hb(1, 1, 3, 3, true)]));
  // 2: out of order + duplicate
  c.push((vec![1], vec![d(1, 3), d(1, 2), hb(1, 1, 3, 1, true), d(1, 2), d(1, 1), hb(1, 1, 3, 2, false)]));
  // 3: heartbeat first above the base; below; equal; first = last + 1; first > last + 1
  c.push((vec![1], vec![d(1, 5), hb(1, 4, 6, 1, false), hb(1, 2, 6, 2, false), hb(1, 7, 6, 3, false), hb(1, 9, 3, 4, false), hb(1, 0, 0, 5, false), hb(1, -3, 20, 6, false)]));
  // 4: stale / duplicate heartbeat counts
  c.push((vec![1], vec![hb(1, 1, 3, 5, false), hb(1, 1, 3, 5, false), hb(1, 1, 3, 4, false), hb(1, 1, 3, 0, false), hb(1, 1, 3, 6, true)]));
  // 5: GAP below / at / above the base, bitmap, base in the bitmap or not
  c.push((vec![1], vec![d(1, 1), gap(1, 2, 4, 8, &[4, 6]), hb(1, 1, 8, 1, false), gap(1, 7, 7, 2, &[7, 8]), hb(1, 1, 9, 2, false), gap(1, 1, 3, 0, &[]), gap(1, 5, 5, 1, &[5]), hb(1, 1, 9, 3, false)]));
  // 6: invalid GAPs
  c.push((vec![1], vec![gap(1, 0, 5, 0, &[]), gap(1, 3, 0, 0, &[]), gap(1, 5, 3, 0, &[]), gap(1, -2, -1, 0, &[]), hb(1, 1, 9, 1, false)]));
  // 7: windows 255 / 256 / 257 / 600 wide, sample beyond the window present
  c.push((vec![1], vec![d(1, 256), d(1, 257), d(1, 258), hb(1, 1, 255, 1, false), hb(1, 1, 256, 2, false), hb(1, 1, 257, 3, false), hb(1, 1, 600, 4, true), d(1, 1), hb(1, 1, 600, 5, true)]));
  // 8: two writers interleaved + unmatched writer
  c.push((vec![1, 2], vec![d(1, 1), d(2, 2), d(9, 1), hb(9, 1, 1, 1, false), hb(2, 1, 2, 1, false), hb(1, 1, 1, 1, false), gap(9, 1, 2, 0, &[]), d(2, 1), hb(2, 1, 2, 2, false)]));
  // 9: numbers at the accepted limit
  c.push((vec![1], vec![d(1, MAX_SN), d(1, MAX_SN + 1), hb(1, 1, MAX_SN, 1, false), hb(1, 1, MAX_SN + 1, 2, false), gap(1, MAX_SN, MAX_SN, 2, &[MAX_SN, MAX_SN + 1]), hb(1, MAX_SN, MAX_SN, 3, false), d(1, MAX_SN)]));
  // 10: all missing numbers partially received (empty bitmap + NACKFRAGs), then completion
  c.push((vec![1], vec![fr(1, 1, 2), fr(1, 2, 1), hb(1, 1, 2, 1, true), fr(1, 1, 1), fr(1, 1, 3), hb(1, 1, 2, 2, true), fr(1, 2, 2), fr(1, 2, 3), hb(1, 1, 2, 3, true)]));
  // 11: fragments of a sample that is already known (GAP), and of an unmatched writer
  c.push((vec![1], vec![gap(1, 1, 2, 0, &[]), fr(1, 1, 1), hb(1, 1, 3, 1, false), fr(9, 1, 1), fr(1, 2, 3), fr(1, 3, 3), hb(1, 1, 3, 2, false)]));
  // 12: a heartbeat that moves the base over received samples
  c.push((vec![1], vec![d(1, 4), d(1, 5), d(1, 7), hb(1, 4, 7, 1, false), hb(1, 7, 7, 2, false)]));
  // --- GAP ranges above the ack base are recorded only within 256 numbers from it (repo fix c71c7f1)
  // 13: = C03_gap_window_example: GAP [5,1000) at base 1 -> 5..256 marked; DATA 1..4 -> base 257;
  //     HEARTBEAT -> 257..512 requested again; renewed GAP [257,1000) -> base 1000
  c.push((vec![1], vec![gap(1, 5, 1000, 0, &[]), hb(1, 1, 1200, 1, false), d(1, 1), d(1, 2), d(1, 3), d(1, 4), hb(1, 1, 1200, 2, false), gap(1, 257, 1000, 0, &[]), hb(1, 1, 1200, 3, false)]));
  // 14: the edge of the cut: writer 1 GAP [2,257) (ends exactly at base+256: whole), writer 2 GAP
  //     [2,258) (257 is declared but not recorded and is requested again)
  c.push((vec![1, 2], vec![gap(1, 2, 257, 0, &[]), gap(2, 2, 258, 0, &[]), hb(1, 1, 600, 1, false), hb(2, 1, 600, 1, false), d(1, 1), d(2, 1), hb(1, 1, 600, 2, false), hb(2, 1, 600, 2, false), gap(2, 257, 258, 0, &[]), hb(2, 1, 600, 3, true)]));
  // 15: ranges that start at / beyond the end of the window: [256,300) -> only 256; [257,280) and
  //     [300,400) -> nothing; then the base moves there and the writer repeats them
  c.push((vec![1], vec![gap(1, 256, 300, 0, &[]), gap(1, 257, 280, 0, &[]), gap(1, 300, 400, 0, &[]), hb(1, 255, 420, 1, false), d(1, 255), hb(1, 255, 420, 2, false), gap(1, 257, 300, 0, &[]), hb(1, 255, 420, 3, false), gap(1, 299, 400, 0, &[]), gap(1, 300, 400, 0, &[]), hb(1, 255, 420, 4, true)]));
  // 16: the inputs of finding F6b (C06): 300000 and 2^40 numbers claimed by one GAP
  c.push((vec![1], vec![gap(1, 5, 300_005, 0, &[]), gap(1, 5, 1i64 << 40, 0, &[]), hb(1, 1, 1i64 << 40, 1, false), d(1, 1), d(1, 2), d(1, 3), d(1, 4), hb(1, 1, 1i64 << 40, 2, false), gap(1, 257, 1i64 << 40, 0, &[]), hb(1, 1, (1i64 << 40) + 5, 3, false), gap(1, (1i64 << 40) + 1, MAX_SN, 0, &[]), hb(1, 1, MAX_SN, 4, false)]));
  // 17: bitmap entries of a far GAP are recorded one by one wherever they lie
  c.push((vec![1], vec![gap(1, 3, 600, 8, &[600, 603]), d(1, 1), d(1, 2), hb(1, 1, 700, 1, false), gap(1, 259, 600, 0, &[]), hb(1, 1, 700, 2, false), gap(1, 258, 600, 0, &[]), hb(1, 1, 700, 3, false)]));
  // 18: span > 256 starting at / below the base: taken whole, no enumeration
  c.push((vec![1], vec![d(1, 1), gap(1, 2, 1000, 0, &[]), hb(1, 1, 1300, 1, false), gap(1, 990, 2000, 4, &[2001]), hb(1, 1, 2300, 2, false), d(1, 2000), gap(1, 1, 5000, 0, &[]), hb(1, 1, 5000, 3, true)]));
  // 19: a partially received sample in the far part of a GAP: NACKFRAG for a declared number
  c.push((vec![1], vec![fr(1, 300, 1), gap(1, 5, 1000, 0, &[]), d(1, 1), d(1, 2), d(1, 3), d(1, 4), hb(1, 1, 1000, 1, false), gap(1, 257, 1000, 0, &[]), fr(1, 300, 2), fr(1, 300, 3), hb(1, 1, 1000, 2, false)]));
  // 20: two far GAPs overlapping, the second arrives after the base has moved into the first
  c.push((vec![1], vec![gap(1, 3, 400, 0, &[]), d(1, 1), d(1, 2), gap(1, 300, 700, 0, &[]), hb(1, 1, 800, 1, false), gap(1, 257, 300, 0, &[]), hb(1, 1, 800, 2, false), gap(1, 513, 700, 0, &[]), hb(1, 1, 800, 3, false)]));
  c
}

pub fn run(args: &Args) -> i32 {
  capture::enable();
  let header = "From Coq Require Import List ZArith Bool.\nFrom RD Require Import Common.Corr C03.Model.\nImport ListNotations.\nOpen Scope Z_scope.";
  let mut out = CaseOut::new(args, header, "check run obs_eqb ok", "case", "obs");
  out.per_shard = 60;
  let corpus = corpus();
  let ncorpus = corpus.len();
  let total = ncorpus + args.n;
  for idx in 0..total {
    if let Some(only) = args.only {
      if only != idx {
        continue;
      }
    }
    let (cr, kind) = if idx < ncorpus {
      let (m, ops) = &corpus[idx];
      let ops: Vec<Op> = ops.iter().cloned().map(Op::normalized).collect();
      (run_ops_fixed(m, &ops), "corpus")
    } else {
      let mut rng = Rng::for_case(args.seed, idx);
      let p = rng.below(100);
      let (profile, nops, kind) = if p < 55 {
        (0u8, 4 + rng.below(36) as usize, "small")
      } else if p < 70 {
        (1, 70 + rng.below(90) as usize, "gc64")
      } else if p < 88 {
        (2, 20 + rng.below(60) as usize, "wide")
      } else {
        (3, 6 + rng.below(30) as usize, "hostile")
      };
      (run_generated(rng, profile, nops), kind)
    };
    let (tags, nontrivial) = tags_of(&cr, kind);
    out.push(idx, coq_case(&cr.matched, &cr.ops), coq_obs(&cr), &tags, nontrivial);
  }
  capture::disable();
  out.finish()
}
