// C17 driver: the security gating of the real rtps::MessageReceiver.
//
// REAL: MessageReceiver (handle_parsed_message and everything below it), SecurityPlugins (the three
// "not protected" sets, handle caches, decode_* wrappers, confirm_local_endpoint_guid), real
// AuthenticationBuiltin and AccessControlBuiltin initialised from the shipped identity files and
// from governance variants generated per case and signed with the shipped Permissions CA key
// (protection attributes of every endpoint come out of the real get_*_sec_attributes /
// register_local_* calls), real rtps::Readers with their topic caches, the real acknack channel.
// STUBBED: the Cryptographic plugin.  Its decode results are the oracle inputs of the case
// (scripted per SecurePrefix / SecureRTPSPrefix key id); its payload decoder accepts exactly the
// payloads the case marks as "encoded, decodes fine" and rejects plaintext.
use std::{
  collections::{BTreeMap, BTreeSet, HashMap},
  panic::{catch_unwind, AssertUnwindSafe},
  sync::{Arc, Mutex},
};

use bytes::Bytes;
use enumflags2::BitFlags;
use mio_extras::channel as mio_channel;

use crate::{
  dds::{
    ddsdata::DDSData,
    qos::{policy, QosPolicies, QosPolicyBuilder},
  },
  messages::{
    header::Header,
    submessages::{
      elements::{
        crypto_content::CryptoContent, crypto_footer::CryptoFooter, crypto_header::CryptoHeader,
        parameter::Parameter, parameter_list::ParameterList,
      },
      secure_body::SecureBody,
      secure_postfix::SecurePostfix,
      secure_prefix::SecurePrefix,
      secure_rtps_postfix::SecureRTPSPostfix,
      secure_rtps_prefix::SecureRTPSPrefix,
      submessages::*,
    },
  },
  rtps::{
    constant::builtin_topic_names, message_receiver::MessageReceiver,
    rtps_writer_proxy::RtpsWriterProxy, Message, Submessage, SubmessageBody,
  },
  security::{
    access_control::types::*,
    AccessControlBuiltin,
    authentication::{authentication_builtin::AuthenticationBuiltin, types::*},
    cryptographic::{
      cryptographic_plugin::{CryptoKeyExchange, CryptoKeyFactory, CryptoTransform},
      types::*,
      Cryptographic,
    },
    security_error,
    security_plugins::{SecurityPlugins, SecurityPluginsHandle},
    types::Property,
    SecurityResult,
  },
  structure::{
    guid::{EntityId, EntityKind, GuidPrefix, GUID},
    parameter_id::ParameterId,
    sequence_number::{SequenceNumber, SequenceNumberSet},
    time::Timestamp,
  },
};
use super::{
  c18::Signer,
  capture, mk,
  util::{self, Args, CaseOut, Rng},
};

// ------------------------------------------------------------------ entity ids

fn eid_z(e: EntityId) -> i64 {
  ((e.entity_key[0] as i64) << 24)
    | ((e.entity_key[1] as i64) << 16)
    | ((e.entity_key[2] as i64) << 8)
    | (u8::from(e.entity_kind) as i64)
}
fn z_eid(z: i64) -> EntityId {
  EntityId::new(
    [(z >> 24) as u8, (z >> 16) as u8, (z >> 8) as u8],
    EntityKind::from((z & 0xff) as u8),
  )
}

const UNKNOWN: i64 = 0;
const SPDP_W: i64 = 0x0001_00c2;
const SPDP_R: i64 = 0x0001_00c7;
const STATELESS_W: i64 = 0x0002_01c3;
const STATELESS_R: i64 = 0x0002_01c4;
const VOLATILE_W: i64 = 0xff02_02c3;
const VOLATILE_R: i64 = 0xff02_02c4;
const SEDP_PUB_W: i64 = 0x0000_03c2;
const SEDP_PUB_R: i64 = 0x0000_03c7;
// local user endpoints on topics A..D
const USER_R: [i64; 4] = [0x0104, 0x0204, 0x0304, 0x0404];
const USER_W: [i64; 4] = [0x0103, 0x0203, 0x0303, 0x0403];
// remote user writers / readers
const RW1: i64 = 0x1103; // matched by the readers of all four topics
const RW2: i64 = 0x1203; // matched by the readers of topics A and C
const RR1: i64 = 0x1104;
const NO_SUCH_READER: i64 = 0x7704;
const NO_SUCH_WRITER: i64 = 0x7703;

const TOPICS: [&str; 4] = ["TopicA", "TopicB", "TopicC", "TopicD"];
const REMOTE_PREFIX: [u8; 12] = [9; 12];
const OTHER_PREFIX: [u8; 12] = [5; 12];

// ------------------------------------------------------------------ abstract case

#[derive(Clone, Debug)]
enum Payload {
  None,
  Plain,
  Enc(bool),
}
#[derive(Clone, Debug)]
enum WKind {
  Data(Payload),
  Heartbeat,
}
#[derive(Clone, Debug)]
struct WSub {
  id: i64,
  kind: WKind,
  reader: i64,
  writer: i64,
}
#[derive(Clone, Debug)]
struct RSub {
  id: i64,
  nackfrag: bool,
  writer: i64,
  reader: i64,
}
#[derive(Clone, Debug)]
enum Interp {
  Dst(bool, bool), // (own, written as GUIDPREFIX_UNKNOWN)
  Ts,
}
#[derive(Clone, Debug)]
enum Outcome {
  Writer(WSub, Vec<i64>),
  Reader(RSub, Vec<i64>),
  Interp(Interp),
  KeysNotFound,
  MacFailed,
  NoParticipant,
  Error,
}
#[derive(Clone, Debug)]
enum Sub {
  Interp(Interp),
  Writer(WSub),
  Reader(RSub),
  Prefix(Outcome),
  Body,
  Postfix,
  RtpsPrefix,
  RtpsPostfix,
}
#[derive(Clone, Debug)]
struct Msg {
  rtps: Option<Vec<Sub>>, // decode_rtps_message: Some(inner) = success
  subs: Vec<Sub>,
}
#[derive(Clone, Debug)]
struct Cfg {
  plugins: bool,
  rtps_kind: &'static str,            // governance rtps_protection_kind
  topics: [(&'static str, &'static str); 4], // (metadata_protection_kind, data_protection_kind)
}

const PROT: [&str; 5] = [
  "NONE",
  "SIGN",
  "ENCRYPT",
  "SIGN_WITH_ORIGIN_AUTHENTICATION",
  "ENCRYPT_WITH_ORIGIN_AUTHENTICATION",
];
const BASIC: [&str; 3] = ["NONE", "SIGN", "ENCRYPT"];

impl Cfg {
  fn local_readers(&self) -> Vec<(i64, Vec<i64>)> {
    // BTreeMap order = numeric order of the entity id
    let mut v = vec![
      (USER_R[0], vec![RW1, RW2]),
      (USER_R[1], vec![RW1]),
      (USER_R[2], vec![RW1, RW2]),
      (USER_R[3], vec![RW1]),
      (SEDP_PUB_R, vec![SEDP_PUB_W]),
      (SPDP_R, vec![]),
      (STATELESS_R, vec![]),
      (VOLATILE_R, vec![VOLATILE_W]),
    ];
    v.sort();
    v
  }
  fn local_writers(&self) -> Vec<i64> {
    vec![USER_W[0], USER_W[1], USER_W[2], USER_W[3], SEDP_PUB_W, SPDP_W, STATELESS_W, VOLATILE_W]
  }
  /// expected (rtps_not_protected, submessage_not_protected, payload_not_protected) as the
  /// governance document says; the driver cross-checks them against the real plugin's sets
  fn expected_sets(&self) -> (bool, Vec<i64>, Vec<i64>) {
    let mut sub_np = vec![SEDP_PUB_R, SEDP_PUB_W, SPDP_R, SPDP_W, STATELESS_R, STATELESS_W];
    let mut pay_np = vec![
      SEDP_PUB_R, SEDP_PUB_W, SPDP_R, SPDP_W, STATELESS_R, STATELESS_W, VOLATILE_R, VOLATILE_W,
    ];
    for k in 0..4 {
      if self.topics[k].0 == "NONE" {
        sub_np.push(USER_R[k]);
        sub_np.push(USER_W[k]);
      }
      if self.topics[k].1 == "NONE" {
        pay_np.push(USER_R[k]);
        pay_np.push(USER_W[k]);
      }
    }
    sub_np.sort();
    pay_np.sort();
    (self.rtps_kind == "NONE", sub_np, pay_np)
  }
}

// ------------------------------------------------------------------ Coq printing

fn zl(v: &[i64]) -> String {
  util::list(v.iter().map(|x| util::z(*x as i128)))
}
fn c_payload(p: &Payload) -> String {
  match p {
    Payload::None => "PNone".into(),
    Payload::Plain => "PPlain".into(),
    Payload::Enc(b) => format!("(PEnc {})", util::b(*b)),
  }
}
fn c_wsub(w: &WSub) -> String {
  format!(
    "(Build_wsub {} {} {} {})",
    w.id,
    match &w.kind {
      WKind::Data(p) => format!("(KData {})", c_payload(p)),
      WKind::Heartbeat => "KHeartbeat".into(),
    },
    w.reader,
    w.writer
  )
}
fn c_rsub(r: &RSub) -> String {
  format!(
    "(Build_rsub {} {} {} {})",
    r.id,
    if r.nackfrag { "KNackFrag" } else { "KAckNack" },
    r.writer,
    r.reader
  )
}
fn c_interp(i: &Interp) -> String {
  match i {
    Interp::Dst(own, _) => format!("(IDst {})", util::b(*own)),
    Interp::Ts => "ITs".into(),
  }
}
fn c_outcome(o: &Outcome) -> String {
  match o {
    Outcome::Writer(w, a) => format!("(OSuccess (DWriter {} {}))", c_wsub(w), zl(a)),
    Outcome::Reader(r, a) => format!("(OSuccess (DReader {} {}))", c_rsub(r), zl(a)),
    Outcome::Interp(i) => format!("(OSuccess (DInterp {}))", c_interp(i)),
    Outcome::KeysNotFound => "OKeysNotFound".into(),
    Outcome::MacFailed => "OMacFailed".into(),
    Outcome::NoParticipant => "ONoParticipant".into(),
    Outcome::Error => "OError".into(),
  }
}
fn c_sub(s: &Sub) -> String {
  match s {
    Sub::Interp(i) => format!("(SInterp {})", c_interp(i)),
    Sub::Writer(w) => format!("(SWriter {})", c_wsub(w)),
    Sub::Reader(r) => format!("(SReader {})", c_rsub(r)),
    Sub::Prefix(o) => format!("(SPrefix {})", c_outcome(o)),
    Sub::Body => "SBody".into(),
    Sub::Postfix => "SPostfix".into(),
    Sub::RtpsPrefix => "SRtpsPrefix".into(),
    Sub::RtpsPostfix => "SRtpsPostfix".into(),
  }
}
fn c_subs(v: &[Sub]) -> String {
  util::list(v.iter().map(c_sub))
}
fn c_msg(m: &Msg) -> String {
  format!(
    "(Build_message {} {})",
    match &m.rtps {
      Some(inner) => format!("(ROk {})", c_subs(inner)),
      None => "RFail".into(),
    },
    c_subs(&m.subs)
  )
}
fn c_cfg(c: &Cfg) -> String {
  let (rtps_np, sub_np, pay_np) = c.expected_sets();
  let mut registered: Vec<i64> = c.local_readers().iter().map(|r| r.0).collect();
  registered.extend(c.local_writers());
  registered.sort();
  format!(
    "(Build_config {} {} {} {} {} {})",
    util::b(c.plugins),
    util::b(rtps_np),
    zl(&sub_np),
    zl(&pay_np),
    zl(&registered),
    util::list(c.local_readers().iter().map(|(e, ws)| format!("({}, {})", e, zl(ws))))
  )
}

// ------------------------------------------------------------------ scripted Cryptographic plugin

enum ScriptedSub {
  Writer(WriterSubmessage, Vec<u32>),
  Reader(ReaderSubmessage, Vec<u32>),
  Interp(InterpreterSubmessage),
  KeysNotFound,
  MacFailed,
  NoParticipant,
  Error,
}
#[derive(Default)]
struct Script {
  sub: HashMap<CryptoTransformKeyId, ScriptedSub>,
  rtps: HashMap<CryptoTransformKeyId, Option<Vec<Submessage>>>,
  calls: Vec<String>,
}
struct StubCrypto {
  script: Arc<Mutex<Script>>,
  next: u32,
}
fn stub_err<T>() -> SecurityResult<T> {
  Err(security_error("not available in the scripted Cryptographic plugin"))
}
impl CryptoKeyFactory for StubCrypto {
  fn register_local_participant(
    &mut self,
    _i: IdentityHandle,
    _p: PermissionsHandle,
    _props: &[Property],
    _a: ParticipantSecurityAttributes,
  ) -> SecurityResult<ParticipantCryptoHandle> {
    Ok(1000)
  }
  fn register_matched_remote_participant(
    &mut self,
    _l: ParticipantCryptoHandle,
    _i: IdentityHandle,
    _p: PermissionsHandle,
    _s: SharedSecretHandle,
  ) -> SecurityResult<ParticipantCryptoHandle> {
    stub_err()
  }
  fn register_local_datawriter(
    &mut self,
    _l: ParticipantCryptoHandle,
    _props: &[Property],
    _a: EndpointSecurityAttributes,
  ) -> SecurityResult<DatawriterCryptoHandle> {
    self.next += 1;
    Ok(self.next)
  }
  fn register_matched_remote_datareader(
    &mut self,
    _l: DatawriterCryptoHandle,
    _r: ParticipantCryptoHandle,
    _s: SharedSecretHandle,
    _relay_only: bool,
  ) -> SecurityResult<DatareaderCryptoHandle> {
    stub_err()
  }
  fn register_local_datareader(
    &mut self,
    _l: ParticipantCryptoHandle,
    _props: &[Property],
    _a: EndpointSecurityAttributes,
  ) -> SecurityResult<DatareaderCryptoHandle> {
    self.next += 1;
    Ok(self.next)
  }
  fn register_matched_remote_datawriter(
    &mut self,
    _l: DatareaderCryptoHandle,
    _r: ParticipantCryptoHandle,
    _s: SharedSecretHandle,
  ) -> SecurityResult<DatawriterCryptoHandle> {
    stub_err()
  }
  fn unregister_participant(&mut self, _h: ParticipantCryptoHandle) -> SecurityResult<()> {
    Ok(())
  }
  fn unregister_datawriter(&mut self, _h: DatawriterCryptoHandle) -> SecurityResult<()> {
    Ok(())
  }
  fn unregister_datareader(&mut self, _h: DatareaderCryptoHandle) -> SecurityResult<()> {
    Ok(())
  }
}
impl CryptoKeyExchange for StubCrypto {
  fn create_local_participant_crypto_tokens(
    &mut self,
    _l: ParticipantCryptoHandle,
    _r: ParticipantCryptoHandle,
  ) -> SecurityResult<Vec<ParticipantCryptoToken>> {
    stub_err()
  }
  fn set_remote_participant_crypto_tokens(
    &mut self,
    _l: ParticipantCryptoHandle,
    _r: ParticipantCryptoHandle,
    _t: Vec<ParticipantCryptoToken>,
  ) -> SecurityResult<()> {
    stub_err()
  }
  fn create_local_datawriter_crypto_tokens(
    &mut self,
    _l: DatawriterCryptoHandle,
    _r: DatareaderCryptoHandle,
  ) -> SecurityResult<Vec<DatawriterCryptoToken>> {
    stub_err()
  }
  fn set_remote_datawriter_crypto_tokens(
    &mut self,
    _l: DatareaderCryptoHandle,
    _r: DatawriterCryptoHandle,
    _t: Vec<DatawriterCryptoToken>,
  ) -> SecurityResult<()> {
    stub_err()
  }
  fn create_local_datareader_crypto_tokens(
    &mut self,
    _l: DatareaderCryptoHandle,
    _r: DatawriterCryptoHandle,
  ) -> SecurityResult<Vec<DatareaderCryptoToken>> {
    stub_err()
  }
  fn set_remote_datareader_crypto_tokens(
    &mut self,
    _l: DatawriterCryptoHandle,
    _r: DatareaderCryptoHandle,
    _t: Vec<DatareaderCryptoToken>,
  ) -> SecurityResult<()> {
    stub_err()
  }
  fn return_crypto_tokens(&mut self, _t: Vec<CryptoToken>) -> SecurityResult<()> {
    Ok(())
  }
}
fn key_of(h: &CryptoHeader) -> CryptoTransformKeyId {
  h.transformation_id.transformation_key_id
}
fn key_id(key: u32) -> CryptoTransformKeyId {
  CryptoTransformKeyId::from(key.to_be_bytes())
}
impl CryptoTransform for StubCrypto {
  fn encode_serialized_payload(
    &self,
    _b: Vec<u8>,
    _h: DatawriterCryptoHandle,
  ) -> SecurityResult<(Vec<u8>, ParameterList)> {
    stub_err()
  }
  fn encode_datawriter_submessage(
    &self,
    _s: Submessage,
    _h: DatawriterCryptoHandle,
    _l: Vec<DatareaderCryptoHandle>,
  ) -> SecurityResult<EncodedSubmessage> {
    stub_err()
  }
  fn encode_datareader_submessage(
    &self,
    _s: Submessage,
    _h: DatareaderCryptoHandle,
    _l: Vec<DatawriterCryptoHandle>,
  ) -> SecurityResult<EncodedSubmessage> {
    stub_err()
  }
  fn encode_rtps_message(
    &self,
    _m: Message,
    _h: ParticipantCryptoHandle,
    _l: Vec<ParticipantCryptoHandle>,
  ) -> SecurityResult<Message> {
    stub_err()
  }
  fn decode_rtps_message(
    &self,
    encoded_message: Message,
    _receiving: ParticipantCryptoHandle,
    _sending: ParticipantCryptoHandle,
  ) -> SecurityResult<DecodeOutcome<Message>> {
    let key = match encoded_message.submessages.first() {
      Some(Submessage {
        body: SubmessageBody::Security(SecuritySubmessage::SecureRTPSPrefix(p, _)),
        ..
      }) => key_of(&p.crypto_header),
      _ => return stub_err(),
    };
    let mut s = self.script.lock().unwrap();
    s.calls.push(format!("rtps:{}", key));
    match s.rtps.get(&key) {
      Some(Some(inner)) => {
        let mut m = Message::new(encoded_message.header);
        for x in inner {
          m.add_submessage(x.clone());
        }
        Ok(DecodeOutcome::Success(m))
      }
      Some(None) => Ok(DecodeOutcome::ValidatingReceiverSpecificMACFailed),
      None => stub_err(),
    }
  }
  fn decode_submessage(
    &self,
    encoded: (SecurePrefix, Submessage, SecurePostfix),
    _receiving: ParticipantCryptoHandle,
    _sending: ParticipantCryptoHandle,
  ) -> SecurityResult<DecodeOutcome<DecodedSubmessage>> {
    let key = key_of(&encoded.0.crypto_header);
    let mut s = self.script.lock().unwrap();
    s.calls.push(format!("sub:{}", key));
    match s.sub.get(&key) {
      Some(ScriptedSub::Writer(w, a)) => Ok(DecodeOutcome::Success(DecodedSubmessage::Writer(
        w.clone(),
        a.clone(),
      ))),
      Some(ScriptedSub::Reader(r, a)) => Ok(DecodeOutcome::Success(DecodedSubmessage::Reader(
        r.clone(),
        a.clone(),
      ))),
      Some(ScriptedSub::Interp(i)) => {
        Ok(DecodeOutcome::Success(DecodedSubmessage::Interpreter(i.clone())))
      }
      Some(ScriptedSub::KeysNotFound) => Ok(DecodeOutcome::KeysNotFound(key)),
      Some(ScriptedSub::MacFailed) => Ok(DecodeOutcome::ValidatingReceiverSpecificMACFailed),
      Some(ScriptedSub::NoParticipant) => Ok(DecodeOutcome::ParticipantCryptoHandleNotFound(
        GuidPrefix::new(&REMOTE_PREFIX),
      )),
      Some(ScriptedSub::Error) | None => stub_err(),
    }
  }
  fn decode_serialized_payload(
    &self,
    encoded_buffer: Vec<u8>,
    _inline_qos: ParameterList,
    _receiving: DatareaderCryptoHandle,
    _sending: DatawriterCryptoHandle,
  ) -> SecurityResult<Vec<u8>> {
    // only a payload marked "encoded, decodes fine" decodes; plaintext has no crypto header
    if encoded_buffer.len() >= 8 && &encoded_buffer[0..4] == b"ENC1" {
      let mut id = [0u8; 4];
      id.copy_from_slice(&encoded_buffer[4..8]);
      Ok(decoded_bytes(u32::from_le_bytes(id) as i64))
    } else {
      stub_err()
    }
  }
}
impl Cryptographic for StubCrypto {}

fn plain_bytes(id: i64) -> Vec<u8> {
  let mut v = vec![0x00, 0x01, 0x00, 0x00];
  v.extend_from_slice(&(id as u32).to_le_bytes());
  v.extend_from_slice(&[0xAA; 4]);
  v
}
fn enc_bytes(id: i64, ok: bool) -> Vec<u8> {
  let mut v = if ok { b"ENC1".to_vec() } else { b"ENC0".to_vec() };
  v.extend_from_slice(&(id as u32).to_le_bytes());
  v.extend_from_slice(&[0xEE; 4]);
  v
}
fn decoded_bytes(id: i64) -> Vec<u8> {
  let mut v = vec![0x00, 0x01, 0x00, 0x00];
  v.extend_from_slice(&(id as u32).to_le_bytes());
  v.extend_from_slice(&[0xDD; 4]);
  v
}

// ------------------------------------------------------------------ building real submessages

fn mk_writer_sub(w: &WSub) -> WriterSubmessage {
  match &w.kind {
    WKind::Data(p) => {
      let (payload, inline_qos, flags) = match p {
        Payload::None => {
          let mut pl = ParameterList::new();
          let mut kh = vec![0u8; 16];
          kh[0..4].copy_from_slice(&(w.id as u32).to_le_bytes());
          pl.push(Parameter::new(ParameterId::PID_KEY_HASH, kh));
          pl.push(Parameter::new(ParameterId::PID_STATUS_INFO, vec![0, 0, 0, 1]));
          (None, Some(pl), DATA_Flags::Endianness | DATA_Flags::InlineQos)
        }
        Payload::Plain => (
          Some(Bytes::from(plain_bytes(w.id))),
          None,
          DATA_Flags::Endianness | DATA_Flags::Data,
        ),
        Payload::Enc(ok) => (
          Some(Bytes::from(enc_bytes(w.id, *ok))),
          None,
          DATA_Flags::Endianness | DATA_Flags::Data,
        ),
      };
      WriterSubmessage::Data(
        Data {
          reader_id: z_eid(w.reader),
          writer_id: z_eid(w.writer),
          writer_sn: SequenceNumber::from(w.id),
          inline_qos,
          serialized_payload: payload,
        },
        flags,
      )
    }
    WKind::Heartbeat => WriterSubmessage::Heartbeat(
      Heartbeat {
        reader_id: z_eid(w.reader),
        writer_id: z_eid(w.writer),
        first_sn: SequenceNumber::from(1),
        last_sn: SequenceNumber::from(0),
        count: w.id as i32,
      },
      BitFlags::from(HEARTBEAT_Flags::Endianness) | HEARTBEAT_Flags::Final,
    ),
  }
}
fn mk_reader_sub(r: &RSub) -> ReaderSubmessage {
  if r.nackfrag {
    ReaderSubmessage::NackFrag(
      NackFrag {
        reader_id: z_eid(r.reader),
        writer_id: z_eid(r.writer),
        writer_sn: SequenceNumber::from(1),
        fragment_number_state: crate::structure::sequence_number::FragmentNumberSet::new_empty(
          crate::structure::sequence_number::FragmentNumber::new(1),
        ),
        count: r.id as i32,
      },
      BitFlags::from(NACKFRAG_Flags::Endianness),
    )
  } else {
    ReaderSubmessage::AckNack(
      AckNack {
        reader_id: z_eid(r.reader),
        writer_id: z_eid(r.writer),
        reader_sn_state: SequenceNumberSet::new_empty(SequenceNumber::from(1)),
        count: r.id as i32,
      },
      BitFlags::from(ACKNACK_Flags::Endianness) | ACKNACK_Flags::Final,
    )
  }
}
fn mk_interp(i: &Interp, own: GuidPrefix) -> InterpreterSubmessage {
  match i {
    Interp::Dst(is_own, as_unknown) => InterpreterSubmessage::InfoDestination(
      InfoDestination {
        guid_prefix: if *is_own {
          if *as_unknown {
            GuidPrefix::UNKNOWN
          } else {
            own
          }
        } else {
          GuidPrefix::new(&OTHER_PREFIX)
        },
      },
      BitFlags::from(INFODESTINATION_Flags::Endianness),
    ),
    Interp::Ts => InterpreterSubmessage::InfoTimestamp(
      InfoTimestamp { timestamp: Some(Timestamp::now()) },
      BitFlags::from(INFOTIMESTAMP_Flags::Endianness),
    ),
  }
}
fn wrap(body: SubmessageBody) -> Submessage {
  Submessage {
    header: SubmessageHeader {
      kind: match &body {
        SubmessageBody::Writer(WriterSubmessage::Data(..)) => crate::messages::submessages::submessage_kind::SubmessageKind::DATA,
        SubmessageBody::Writer(WriterSubmessage::Heartbeat(..)) => crate::messages::submessages::submessage_kind::SubmessageKind::HEARTBEAT,
        SubmessageBody::Reader(ReaderSubmessage::AckNack(..)) => crate::messages::submessages::submessage_kind::SubmessageKind::ACKNACK,
        SubmessageBody::Reader(ReaderSubmessage::NackFrag(..)) => crate::messages::submessages::submessage_kind::SubmessageKind::NACK_FRAG,
        SubmessageBody::Interpreter(InterpreterSubmessage::InfoDestination(..)) => crate::messages::submessages::submessage_kind::SubmessageKind::INFO_DST,
        _ => crate::messages::submessages::submessage_kind::SubmessageKind::INFO_TS,
      },
      flags: 1,
      content_length: 0,
    },
    body,
    original_bytes: None,
  }
}
fn crypto_header(key: u32) -> CryptoHeader {
  CryptoHeader {
    transformation_id: CryptoTransformIdentifier {
      transformation_kind: [0, 0, 0, 2],
      transformation_key_id: key_id(key),
    },
    plugin_crypto_header_extra: vec![0u8; 16].into(),
  }
}

struct Builder<'a> {
  own: GuidPrefix,
  next_key: u32,
  script: &'a mut Script,
  handle_of: &'a BTreeMap<i64, u32>,
}
impl<'a> Builder<'a> {
  fn handles(&self, approved: &[i64]) -> Vec<u32> {
    // endpoints without a handle (unknown to the plugin) map to a handle nobody has
    approved.iter().map(|e| *self.handle_of.get(e).unwrap_or(&999_999)).collect()
  }
  fn sub(&mut self, s: &Sub) -> Submessage {
    let le = speedy::Endianness::LittleEndian;
    match s {
      Sub::Interp(i) => wrap(SubmessageBody::Interpreter(mk_interp(i, self.own))),
      Sub::Writer(w) => wrap(SubmessageBody::Writer(mk_writer_sub(w))),
      Sub::Reader(r) => wrap(SubmessageBody::Reader(mk_reader_sub(r))),
      Sub::Prefix(o) => {
        self.next_key += 1;
        let key = self.next_key;
        let scripted = match o {
          Outcome::Writer(w, a) => ScriptedSub::Writer(mk_writer_sub(w), self.handles(a)),
          Outcome::Reader(r, a) => ScriptedSub::Reader(mk_reader_sub(r), self.handles(a)),
          Outcome::Interp(i) => ScriptedSub::Interp(mk_interp(i, self.own)),
          Outcome::KeysNotFound => ScriptedSub::KeysNotFound,
          Outcome::MacFailed => ScriptedSub::MacFailed,
          Outcome::NoParticipant => ScriptedSub::NoParticipant,
          Outcome::Error => ScriptedSub::Error,
        };
        self.script.sub.insert(key_id(key), scripted);
        SecurePrefix { crypto_header: crypto_header(key) }.create_submessage(le).unwrap()
      }
      Sub::Body => SecureBody { crypto_content: CryptoContent::from(vec![1u8, 2, 3, 4]) }
        .create_submessage(le)
        .unwrap(),
      Sub::Postfix => SecurePostfix { crypto_footer: CryptoFooter::from(vec![0u8; 20]) }
        .create_submessage(le)
        .unwrap(),
      Sub::RtpsPrefix => {
        self.next_key += 1;
        SecureRTPSPrefix { crypto_header: crypto_header(self.next_key) }
          .create_submessage(le)
          .unwrap()
      }
      Sub::RtpsPostfix => SecureRTPSPostfix { crypto_footer: CryptoFooter::from(vec![0u8; 20]) }
        .create_submessage(le)
        .unwrap(),
    }
  }
  fn message(&mut self, m: &Msg) -> Message {
    let mut msg = Message::new(Header::new(GuidPrefix::new(&REMOTE_PREFIX)));
    let mut first_rtps_key = None;
    for (k, s) in m.subs.iter().enumerate() {
      let sm = self.sub(s);
      if k == 0 {
        if let Sub::RtpsPrefix = s {
          first_rtps_key = Some(self.next_key);
        }
      }
      msg.add_submessage(sm);
    }
    if let Some(key) = first_rtps_key {
      let inner = m.rtps.as_ref().map(|inner| inner.iter().map(|s| self.sub(s)).collect());
      self.script.rtps.insert(key_id(key), inner);
    }
    msg
  }
}

// ------------------------------------------------------------------ the rig

struct Rig {
  mr: MessageReceiver,
  own: GuidPrefix,
  kits: Vec<(i64, mk::ReaderKit)>, // topic caches etc. (the Readers themselves live in mr)
  acknack_rx: mio_channel::Receiver<(GuidPrefix, AckSubmessage)>,
  _spdp_rx: mio_channel::Receiver<GuidPrefix>,
  script: Arc<Mutex<Script>>,
  handle_of: BTreeMap<i64, u32>,
  seen: BTreeSet<(i64, Timestamp)>,
  hb: BTreeMap<(i64, i64), i32>,
  sets_match: bool,
}

fn governance_xml(c: &Cfg) -> String {
  let mut o = String::from(
    "<?xml version=\"1.0\" encoding=\"UTF-8\"?>\n<dds xmlns:xsi=\"http://www.w3.org/2001/XMLSchema-instance\" xsi:noNamespaceSchemaLocation=\"http://www.omg.org/spec/DDS-SECURITY/20170901/omg_shared_ca_governance.xsd\">\n<domain_access_rules>\n<domain_rule>\n<domains><id_range><min>0</min><max>100</max></id_range></domains>\n<allow_unauthenticated_participants>false</allow_unauthenticated_participants>\n<enable_join_access_control>true</enable_join_access_control>\n<discovery_protection_kind>NONE</discovery_protection_kind>\n<liveliness_protection_kind>NONE</liveliness_protection_kind>\n",
  );
  o.push_str(&format!("<rtps_protection_kind>{}</rtps_protection_kind>\n<topic_access_rules>\n", c.rtps_kind));
  for k in 0..4 {
    o.push_str(&format!(
      "<topic_rule><topic_expression>{}</topic_expression><enable_discovery_protection>false</enable_discovery_protection><enable_liveliness_protection>false</enable_liveliness_protection><enable_read_access_control>false</enable_read_access_control><enable_write_access_control>false</enable_write_access_control><metadata_protection_kind>{}</metadata_protection_kind><data_protection_kind>{}</data_protection_kind></topic_rule>\n",
      TOPICS[k], c.topics[k].0, c.topics[k].1
    ));
  }
  o.push_str("</topic_access_rules>\n</domain_rule>\n</domain_access_rules>\n</dds>\n");
  o
}

fn topic_of(e: i64) -> String {
  for k in 0..4 {
    if e == USER_R[k] || e == USER_W[k] {
      return TOPICS[k].to_string();
    }
  }
  match e {
    SPDP_R | SPDP_W => builtin_topic_names::DCPS_PARTICIPANT,
    STATELESS_R | STATELESS_W => builtin_topic_names::DCPS_PARTICIPANT_STATELESS_MESSAGE,
    VOLATILE_R | VOLATILE_W => builtin_topic_names::DCPS_PARTICIPANT_VOLATILE_MESSAGE_SECURE,
    _ => builtin_topic_names::DCPS_PUBLICATION,
  }
  .to_string()
}

fn build_rig(
  c: &Cfg,
  signer: &mut Signer,
  gov_cache: &mut HashMap<String, Vec<u8>>,
) -> Result<Rig, String> {
  let script = Arc::new(Mutex::new(Script::default()));
  let (acknack_tx, acknack_rx) = mio_channel::sync_channel::<(GuidPrefix, AckSubmessage)>(256);
  let (spdp_tx, spdp_rx) = mio_channel::sync_channel::<GuidPrefix>(256);
  let mut handle_of = BTreeMap::new();
  let mut sets_match = true;
  let (own, plugins_handle) = if c.plugins {
    let xml = governance_xml(c);
    let gov = gov_cache.entry(xml.clone()).or_insert_with(|| signer.sign(&xml)).clone();
    let f = |n: &str| format!("file:{}", signer.cfg.join(n).display());
    let props = vec![
      ("dds.sec.auth.identity_ca", f("identity_ca.cert.pem")),
      ("dds.sec.auth.identity_certificate", f("cert.pem")),
      ("dds.sec.auth.private_key", f("key.pem")),
      ("dds.sec.access.permissions_ca", f("permissions_ca.cert.pem")),
      ("dds.sec.access.governance", format!("data:{}", String::from_utf8_lossy(&gov))),
      ("dds.sec.access.permissions", f("permissions.p7s")),
    ];
    let qos = QosPolicyBuilder::new()
      .property(policy::Property {
        value: props
          .into_iter()
          .map(|(n, v)| Property { name: n.to_string(), value: v, propagate: false })
          .collect(),
        binary_value: vec![],
      })
      .build();
    let mut sp = SecurityPlugins::new(
      Box::new(AuthenticationBuiltin::new()),
      Box::new(AccessControlBuiltin::new()),
      Box::new(StubCrypto { script: script.clone(), next: 100 }),
    );
    // the same sequence as DomainParticipantBuilder::build
    let candidate = GUID::new_participant_guid();
    let sec_guid = sp.validate_local_identity(0, &qos, candidate).map_err(|e| e.msg)?;
    sp.validate_local_permissions(0, sec_guid.prefix, &qos).map_err(|e| e.msg)?;
    let attr = sp.get_participant_sec_attributes(sec_guid.prefix).map_err(|e| e.msg)?;
    sp.register_local_participant(sec_guid.prefix, qos.property.clone(), attr).map_err(|e| e.msg)?;
    let own = sec_guid.prefix;
    // local endpoints, the way Publisher/Subscriber/Discovery register them
    for (e, _) in c.local_readers() {
      let g = GUID::new(own, z_eid(e));
      let a = sp.get_reader_sec_attributes(g, topic_of(e)).map_err(|e| e.msg)?;
      sp.register_local_reader(g, None, a).map_err(|e| e.msg)?;
      handle_of.insert(e, sp.verif_local_endpoint_crypto_handle(&g).unwrap());
    }
    for e in c.local_writers() {
      let g = GUID::new(own, z_eid(e));
      let a = sp.get_writer_sec_attributes(g, topic_of(e)).map_err(|e| e.msg)?;
      sp.register_local_writer(g, None, a).map_err(|e| e.msg)?;
      handle_of.insert(e, sp.verif_local_endpoint_crypto_handle(&g).unwrap());
    }
    // the remote participant and its endpoints are "authenticated and keyed"
    let remote = GuidPrefix::new(&REMOTE_PREFIX);
    sp.verif_set_remote_participant_crypto_handle(remote, 2000);
    let mut h = 3000;
    for (e, ws) in c.local_readers() {
      for w in ws.iter().chain([SPDP_W, STATELESS_W].iter()) {
        h += 1;
        sp.verif_set_remote_endpoint_crypto_handle(GUID::new(own, z_eid(e)), GUID::new(remote, z_eid(*w)), h);
      }
    }
    // cross-check the sets the real access control produced against the governance document
    let (rtps_np, sub_np, pay_np) = sp.verif_not_protected();
    let (e_rtps, e_sub, e_pay) = c.expected_sets();
    let mut got_sub: Vec<i64> = sub_np.iter().map(|g| eid_z(g.entity_id)).collect();
    let mut got_pay: Vec<i64> = pay_np.iter().map(|g| eid_z(g.entity_id)).collect();
    got_sub.sort();
    got_pay.sort();
    if rtps_np.contains(&own) != e_rtps || got_sub != e_sub || got_pay != e_pay {
      eprintln!(
        "c17: protection sets differ from the governance document: rtps {} vs {}, sub {:?} vs {:?}, payload {:?} vs {:?}",
        rtps_np.contains(&own), e_rtps, got_sub, e_sub, got_pay, e_pay
      );
      sets_match = false;
    }
    (own, Some(SecurityPluginsHandle::new(sp)))
  } else {
    (GuidPrefix::new(&[3; 12]), None)
  };
  let mut mr = MessageReceiver::new(own, acknack_tx, spdp_tx, plugins_handle);
  let mut kits = Vec::new();
  let mut qos = QosPolicies::qos_none();
  qos.history = Some(policy::History::KeepAll);
  qos.reliability = Some(policy::Reliability::Reliable {
    max_blocking_time: crate::structure::duration::Duration::from_millis(100),
  });
  for (e, ws) in c.local_readers() {
    let mut kit = mk::make_reader(GUID::new(own, z_eid(e)), &topic_of(e), qos.clone());
    for w in ws {
      kit.reader.update_writer_proxy(
        RtpsWriterProxy::new(
          GUID::new(GuidPrefix::new(&REMOTE_PREFIX), z_eid(w)),
          vec![],
          vec![],
          EntityId::UNKNOWN,
        ),
        &qos,
      );
    }
    // move the Reader into the MessageReceiver, keep the rest of the kit alive
    let reader = std::mem::replace(
      &mut kit.reader,
      mk::make_reader(GUID::new(GuidPrefix::new(&[1; 12]), z_eid(e)), "unused", qos.clone()).reader,
    );
    mr.add_reader(reader);
    kits.push((e, kit));
  }
  Ok(Rig {
    mr,
    own,
    kits,
    acknack_rx,
    _spdp_rx: spdp_rx,
    script,
    handle_of,
    seen: BTreeSet::new(),
    hb: BTreeMap::new(),
    sets_match,
  })
}

impl Rig {
  /// deliveries that became visible since the last call
  fn observe(&mut self, c: &Cfg) -> Vec<(i64, i64, i64)> {
    let mut out = Vec::new();
    for (e, kit) in &self.kits {
      let tc = kit.topic_cache.lock().unwrap();
      for (ts, cc) in tc.get_changes_in_range_best_effort(Timestamp::ZERO, Timestamp::INFINITE) {
        if self.seen.insert((*e, ts)) {
          let sn = i64::from(cc.sequence_number);
          let tag = match &cc.data_value {
            DDSData::Data { serialized_payload } => {
              let mut v = serialized_payload.representation_identifier.bytes.to_vec();
              v.extend_from_slice(&serialized_payload.representation_options);
              v.extend_from_slice(&serialized_payload.value);
              if v == decoded_bytes(sn) {
                2
              } else if v == plain_bytes(sn) || v == enc_bytes(sn, true) || v == enc_bytes(sn, false) {
                1
              } else {
                99
              }
            }
            _ => 0,
          };
          out.push((*e, sn, tag));
        }
      }
    }
    for (e, ws) in c.local_readers() {
      if let Some(rd) = self.mr.available_readers.get(&z_eid(e)) {
        for w in ws {
          let g = GUID::new(GuidPrefix::new(&REMOTE_PREFIX), z_eid(w));
          if let Some(cnt) = rd.verif_received_heartbeat_count(g) {
            let old = self.hb.insert((e, w), cnt).unwrap_or(0);
            if cnt != old {
              out.push((e, cnt as i64, 0));
            }
          }
        }
      }
    }
    while let Ok((_prefix, ack)) = self.acknack_rx.try_recv() {
      match ack {
        AckSubmessage::AckNack(a) => out.push((eid_z(a.writer_id), a.count as i64, 0)),
        AckSubmessage::NackFrag(n) => out.push((eid_z(n.writer_id), n.count as i64, 0)),
      }
    }
    out.sort();
    out
  }
}

// ------------------------------------------------------------------ generators

struct Ids(i64);
impl Ids {
  fn next(&mut self) -> i64 {
    self.0 += 1;
    self.0
  }
}

fn gen_cfg(r: &mut Rng) -> Cfg {
  let mut topics = [("NONE", "NONE"); 4];
  for t in topics.iter_mut() {
    *t = (*r.pick(&PROT), *r.pick(&BASIC));
    if r.chance(1, 3) {
      t.0 = "NONE";
    }
    if r.chance(1, 3) {
      t.1 = "NONE";
    }
  }
  Cfg {
    plugins: !r.chance(1, 10),
    rtps_kind: if r.chance(1, 2) { "NONE" } else { *r.pick(&PROT[1..]) },
    topics,
  }
}

fn gen_payload(r: &mut Rng) -> Payload {
  match r.below(6) {
    0 => Payload::None,
    1 | 2 | 3 => Payload::Plain,
    4 => Payload::Enc(true),
    _ => Payload::Enc(false),
  }
}

fn gen_wsub(r: &mut Rng, ids: &mut Ids) -> WSub {
  // (receiver, writer) pairs: user topics, builtin endpoints, unknown receiver, nonexistent reader
  let (reader, writer) = match r.below(12) {
    0..=4 => {
      let k = r.below(4) as usize;
      (USER_R[k], if (k == 0 || k == 2) && r.chance(1, 3) { RW2 } else { RW1 })
    }
    5 => (UNKNOWN, *r.pick(&[RW1, RW1, RW2])),
    6 => (UNKNOWN, *r.pick(&[SPDP_W, STATELESS_W, VOLATILE_W, SEDP_PUB_W])),
    7 => (SPDP_R, SPDP_W),
    8 => (STATELESS_R, STATELESS_W),
    9 => (VOLATILE_R, VOLATILE_W),
    10 => (SEDP_PUB_R, SEDP_PUB_W),
    _ => (NO_SUCH_READER, RW1),
  };
  let kind = if r.chance(1, 4) { WKind::Heartbeat } else { WKind::Data(gen_payload(r)) };
  // heartbeats are observable only through a matched proxy: not for SPDP / stateless
  let kind = if matches!(kind, WKind::Heartbeat) && (writer == SPDP_W || writer == STATELESS_W) {
    WKind::Data(gen_payload(r))
  } else {
    kind
  };
  WSub { id: ids.next(), kind, reader, writer }
}
fn gen_rsub(r: &mut Rng, ids: &mut Ids) -> RSub {
  let writer = match r.below(10) {
    0..=4 => USER_W[r.below(4) as usize],
    5 => SPDP_W,
    6 => STATELESS_W,
    7 => VOLATILE_W,
    8 => SEDP_PUB_W,
    _ => *r.pick(&[UNKNOWN, NO_SUCH_WRITER]),
  };
  RSub { id: ids.next(), nackfrag: r.chance(1, 4), writer, reader: RR1 }
}
fn gen_interp(r: &mut Rng) -> Interp {
  match r.below(5) {
    0 => Interp::Ts,
    1 | 2 => Interp::Dst(true, r.chance(1, 2)),
    _ => Interp::Dst(false, false),
  }
}
fn gen_approved(r: &mut Rng, right: i64, c: &Cfg) -> Vec<i64> {
  let all: Vec<i64> =
    c.local_readers().iter().map(|x| x.0).chain(c.local_writers().into_iter()).collect();
  match r.below(6) {
    0 => vec![],
    1 => vec![*r.pick(&all)],
    2 => vec![*r.pick(&all), right],
    3 => all.clone(),
    _ => vec![right],
  }
}
fn gen_outcome(r: &mut Rng, ids: &mut Ids, c: &Cfg) -> Outcome {
  match r.below(14) {
    0..=6 => {
      let w = gen_wsub(r, ids);
      let right = if w.reader == UNKNOWN { *r.pick(&USER_R) } else { w.reader };
      let a = gen_approved(r, right, c);
      Outcome::Writer(w, a)
    }
    7 | 8 => {
      let x = gen_rsub(r, ids);
      let a = gen_approved(r, x.writer, c);
      Outcome::Reader(x, a)
    }
    9 => Outcome::Interp(gen_interp(r)),
    10 => Outcome::KeysNotFound,
    11 => Outcome::MacFailed,
    12 => Outcome::NoParticipant,
    _ => Outcome::Error,
  }
}
fn gen_subs(r: &mut Rng, ids: &mut Ids, c: &Cfg, n: i64) -> Vec<Sub> {
  let mut v = Vec::new();
  for _ in 0..n {
    match r.below(20) {
      0..=5 => v.push(Sub::Writer(gen_wsub(r, ids))),
      6 | 7 => v.push(Sub::Reader(gen_rsub(r, ids))),
      8 | 9 => v.push(Sub::Interp(gen_interp(r))),
      10..=14 => {
        // a well-formed wrapper; the body is a SecureBody or (sign-only style) a submessage in clear
        v.push(Sub::Prefix(gen_outcome(r, ids, c)));
        v.push(if r.chance(1, 2) { Sub::Body } else { Sub::Writer(gen_wsub(r, ids)) });
        v.push(Sub::Postfix);
      }
      15 => {
        // prefix and body without postfix: whatever comes next is swallowed
        v.push(Sub::Prefix(gen_outcome(r, ids, c)));
        v.push(Sub::Body);
        v.push(Sub::Writer(gen_wsub(r, ids)));
      }
      16 => {
        // prefix directly followed by postfix (the postfix becomes the "body")
        v.push(Sub::Prefix(gen_outcome(r, ids, c)));
        v.push(Sub::Postfix);
      }
      17 => v.push(if r.chance(1, 2) { Sub::Body } else { Sub::Postfix }),
      18 => {
        v.push(Sub::Prefix(gen_outcome(r, ids, c)));
        v.push(Sub::Prefix(gen_outcome(r, ids, c)));
        v.push(Sub::Postfix);
      }
      _ => v.push(if r.chance(1, 2) { Sub::RtpsPrefix } else { Sub::RtpsPostfix }),
    }
  }
  v
}
fn gen_msg(r: &mut Rng, ids: &mut Ids, c: &Cfg) -> Msg {
  if r.chance(1, 4) {
    // an RTPS-protected message
    let n = r.range(1, 5);
    let inner = gen_subs(r, ids, c, n);
    let mut subs = vec![Sub::RtpsPrefix, Sub::Body];
    if r.chance(1, 4) {
      subs.push(Sub::Writer(gen_wsub(r, ids)));
    }
    subs.push(Sub::RtpsPostfix);
    Msg { rtps: if r.chance(4, 5) { Some(inner) } else { None }, subs }
  } else if r.chance(1, 3) {
    // a "simple" message: plaintext explicit-receiver traffic only (liveness is judged on these)
    let n = r.range(1, 5);
    let mut subs = Vec::new();
    for _ in 0..n {
      match r.below(4) {
        0 => subs.push(Sub::Interp(Interp::Ts)),
        1 => subs.push(Sub::Reader(gen_rsub(r, ids))),
        _ => {
          let mut w = gen_wsub(r, ids);
          if w.reader == UNKNOWN {
            w.reader = USER_R[r.below(4) as usize];
            w.writer = RW1;
          }
          subs.push(Sub::Writer(w));
        }
      }
    }
    Msg { rtps: None, subs }
  } else {
    let n = r.range(1, 6);
    Msg { rtps: None, subs: gen_subs(r, ids, c, n) }
  }
}

/// The heartbeat counter of a writer proxy shows only the last heartbeat processed, so a message
/// carries at most one heartbeat (plaintext, wrapped or inside an RTPS-protected message): the
/// others are turned into DATA.
fn one_heartbeat_per_message(m: &mut Msg) {
  fn fix_w(w: &mut WSub, seen: &mut bool) {
    if let WKind::Heartbeat = w.kind {
      if *seen {
        w.kind = WKind::Data(Payload::Plain);
      }
      *seen = true;
    }
  }
  fn fix(subs: &mut [Sub], seen: &mut bool) {
    for s in subs.iter_mut() {
      match s {
        Sub::Writer(w) => fix_w(w, seen),
        Sub::Prefix(Outcome::Writer(w, _)) => fix_w(w, seen),
        _ => {}
      }
    }
  }
  let mut seen = false;
  fix(&mut m.subs, &mut seen);
  if let Some(inner) = m.rtps.as_mut() {
    fix(inner, &mut seen);
  }
}

// ------------------------------------------------------------------ running one case

fn run_case(
  out: &mut CaseOut,
  idx: usize,
  c: &Cfg,
  msgs: &[Msg],
  signer: &mut Signer,
  gov_cache: &mut HashMap<String, Vec<u8>>,
  extra_tags: &[String],
) {
  let mut tags: Vec<String> = extra_tags.to_vec();
  tags.push(format!("plugins:{}", c.plugins));
  tags.push(format!("rtps_protection:{}", if c.rtps_kind == "NONE" { "off" } else { "on" }));
  let res = catch_unwind(AssertUnwindSafe(|| -> Result<Vec<Vec<(i64, i64, i64)>>, String> {
    let mut rig = build_rig(c, signer, gov_cache)?;
    let mut obs = Vec::new();
    let mut key = 0u32;
    for m in msgs {
      let message = {
        let mut script = rig.script.lock().unwrap();
        let mut b = Builder { own: rig.own, next_key: key, script: &mut script, handle_of: &rig.handle_of };
        let msg = b.message(m);
        key = b.next_key;
        msg
      };
      rig.mr.handle_parsed_message(message);
      let _ = capture::drain();
      obs.push(rig.observe(c));
    }
    if !rig.sets_match {
      obs.push(vec![(-1, -1, -1)]);
    }
    Ok(obs)
  }));
  let obs = match res {
    Ok(Ok(o)) => o,
    Ok(Err(e)) => {
      eprintln!("c17: rig construction failed: {}", e);
      vec![vec![(-2, -2, -2)]]
    }
    Err(_) => vec![vec![(-3, -3, -3)]],
  };
  let mut delivered = 0;
  for (m, o) in msgs.iter().zip(obs.iter()) {
    delivered += o.len();
    tags.push(format!(
      "message:{}",
      if matches!(m.subs.first(), Some(Sub::RtpsPrefix)) {
        if m.rtps.is_some() { "rtps_protected_ok" } else { "rtps_protected_fail" }
      } else {
        "not_rtps_protected"
      }
    ));
    for s in m.subs.iter().chain(m.rtps.iter().flatten()) {
      tags.push(format!(
        "sub:{}",
        match s {
          Sub::Interp(Interp::Dst(true, _)) => "info_dst_own",
          Sub::Interp(Interp::Dst(false, _)) => "info_dst_other",
          Sub::Interp(Interp::Ts) => "info_ts",
          Sub::Writer(w) if w.reader == UNKNOWN => "plain_writer_sub_unknown_receiver",
          Sub::Writer(_) => "plain_writer_sub",
          Sub::Reader(_) => "plain_reader_sub",
          Sub::Prefix(Outcome::Writer(w, _)) if w.reader == UNKNOWN => "wrapped_writer_sub_unknown_receiver",
          Sub::Prefix(Outcome::Writer(..)) => "wrapped_writer_sub",
          Sub::Prefix(Outcome::Reader(..)) => "wrapped_reader_sub",
          Sub::Prefix(Outcome::Interp(..)) => "wrapped_interpreter_sub",
          Sub::Prefix(_) => "wrapped_decode_failure",
          Sub::Body => "secure_body",
          Sub::Postfix => "secure_postfix",
          Sub::RtpsPrefix => "secure_rtps_prefix",
          Sub::RtpsPostfix => "secure_rtps_postfix",
        }
      ));
    }
  }
  tags.push(format!("deliveries:{}", delivered.min(9)));
  out.push(
    idx,
    format!("(Build_case {} {})", c_cfg(c), util::list(msgs.iter().map(c_msg))),
    util::list(obs.iter().map(|o| {
      util::list(o.iter().map(|(a, b, t)| format!("({}, {}, {})", util::z(*a as i128), util::z(*b as i128), util::z(*t as i128))))
    })),
    &tags,
    delivered > 0 && c.plugins,
  );
}

// ------------------------------------------------------------------ corpus: the full grid

fn corpus() -> Vec<(Cfg, Vec<Msg>, String)> {
  let mut v = Vec::new();
  // topic A: nothing protected; B: submessage protected; C: payload protected; D: both
  let topics = [("NONE", "NONE"), ("SIGN", "NONE"), ("NONE", "ENCRYPT"), ("ENCRYPT_WITH_ORIGIN_AUTHENTICATION", "ENCRYPT")];
  for rtps_kind in ["NONE", "SIGN", "ENCRYPT_WITH_ORIGIN_AUTHENTICATION"] {
    for plugins in [true, false] {
      let c = Cfg { plugins, rtps_kind, topics };
      let all_r: Vec<i64> = c.local_readers().iter().map(|x| x.0).collect();
      let targets_w: Vec<(i64, i64)> = vec![
        (USER_R[0], RW1), (USER_R[1], RW1), (USER_R[2], RW1), (USER_R[3], RW1), (SPDP_R, SPDP_W),
        (STATELESS_R, STATELESS_W), (VOLATILE_R, VOLATILE_W), (SEDP_PUB_R, SEDP_PUB_W), (UNKNOWN, RW1),
        (UNKNOWN, RW2), (UNKNOWN, SPDP_W), (NO_SUCH_READER, RW1),
      ];
      let targets_r: Vec<i64> = vec![
        USER_W[0], USER_W[1], USER_W[2], USER_W[3], SPDP_W, STATELESS_W, VOLATILE_W, SEDP_PUB_W, UNKNOWN,
      ];
      // (protection kinds) x (submessage kinds) x (explicit/unknown receiver) x (wrapping):
      // one case per (wrapping mode, rtps wrapping), all targets and kinds inside
      for rtps_wrapped in [false, true] {
        for mode in 0..6 {
          let mut ids = Ids(0);
          let mut msgs = Vec::new();
          for (rd, wr) in &targets_w {
            for kind in [
              WKind::Data(Payload::Plain), WKind::Data(Payload::None), WKind::Data(Payload::Enc(true)),
              WKind::Data(Payload::Enc(false)), WKind::Heartbeat,
            ] {
              if matches!(kind, WKind::Heartbeat) && (*wr == SPDP_W || *wr == STATELESS_W) {
                continue;
              }
              let w = WSub { id: ids.next(), kind, reader: *rd, writer: *wr };
              let right = if *rd == UNKNOWN { USER_R[3] } else { *rd };
              let subs = match mode {
                0 => vec![Sub::Writer(w)],                                                   // plaintext
                1 => vec![Sub::Prefix(Outcome::Writer(w, vec![right])), Sub::Body, Sub::Postfix], // wrapped, approved for the right endpoint
                2 => vec![Sub::Prefix(Outcome::Writer(w, vec![USER_R[0]])), Sub::Body, Sub::Postfix], // approved for another endpoint
                3 => vec![Sub::Prefix(Outcome::Writer(w.clone(), all_r.clone())), Sub::Body, Sub::Writer(WSub { id: ids.next(), ..w }), Sub::Postfix], // missing postfix
                4 => vec![Sub::Prefix(Outcome::MacFailed), Sub::Writer(w), Sub::Postfix],   // body in clear, decode fails
                _ => vec![Sub::Interp(Interp::Dst(false, false)), Sub::Writer(w)],          // addressed to another participant
              };
              msgs.push(if rtps_wrapped {
                Msg { rtps: Some(subs), subs: vec![Sub::RtpsPrefix, Sub::Body, Sub::RtpsPostfix] }
              } else {
                Msg { rtps: None, subs }
              });
            }
          }
          for wr in &targets_r {
            for nackfrag in [false, true] {
              let x = RSub { id: ids.next(), nackfrag, writer: *wr, reader: RR1 };
              let subs = match mode {
                0 => vec![Sub::Reader(x)],
                1 => vec![Sub::Prefix(Outcome::Reader(x, vec![*wr])), Sub::Body, Sub::Postfix],
                2 => vec![Sub::Prefix(Outcome::Reader(x, vec![USER_W[0]])), Sub::Body, Sub::Postfix],
                3 => vec![Sub::Prefix(Outcome::Reader(x.clone(), vec![*wr])), Sub::Body, Sub::Reader(RSub { id: ids.next(), ..x })],
                4 => vec![Sub::Prefix(Outcome::KeysNotFound), Sub::Reader(x), Sub::Postfix],
                _ => vec![Sub::Interp(Interp::Dst(false, false)), Sub::Reader(x)],
              };
              msgs.push(if rtps_wrapped {
                Msg { rtps: Some(subs), subs: vec![Sub::RtpsPrefix, Sub::Body, Sub::RtpsPostfix] }
              } else {
                Msg { rtps: None, subs }
              });
            }
          }
          // an RTPS-protected message that fails to decode, with plaintext riding behind the prefix
          msgs.push(Msg {
            rtps: None,
            subs: vec![
              Sub::RtpsPrefix,
              Sub::Writer(WSub { id: ids.next(), kind: WKind::Data(Payload::Plain), reader: USER_R[0], writer: RW1 }),
              Sub::RtpsPostfix,
            ],
          });
          v.push((c.clone(), msgs, format!("corpus:grid_mode{}_rtpswrapped_{}", mode, rtps_wrapped)));
        }
      }
    }
  }
  v
}

pub fn run(args: &Args) -> i32 {
  let mut out = CaseOut::new(
    args,
    "From Coq Require Import List ZArith.\nFrom RD Require Import Common.Corr C17.Model.\nImport ListNotations.\nOpen Scope Z_scope.",
    "check run obs_eqb ok",
    "case",
    "obs",
  );
  out.per_shard = 40;
  capture::enable();
  let mut signer = Signer::new(args);
  let mut gov_cache: HashMap<String, Vec<u8>> = HashMap::new();
  let mut idx = 0usize;
  for (c, msgs, tag) in corpus() {
    if args.only.map_or(true, |o| o == idx) {
      run_case(&mut out, idx, &c, &msgs, &mut signer, &mut gov_cache, &[tag]);
    }
    idx += 1;
  }
  for _ in 0..args.n {
    if args.only.map_or(true, |o| o == idx) {
      let mut r = Rng::for_case(args.seed, idx);
      // governance variants come from a pool of 16 per run (each is signed once)
      let k = r.below(16) as usize;
      let mut c = gen_cfg(&mut Rng::for_case(args.seed, 900_000 + k));
      c.plugins = !r.chance(1, 10);
      let mut ids = Ids(0);
      let mut msgs: Vec<Msg> = (0..r.range(2, 6)).map(|_| gen_msg(&mut r, &mut ids, &c)).collect();
      msgs.iter_mut().for_each(one_heartbeat_per_message);
      run_case(&mut out, idx, &c, &msgs, &mut signer, &mut gov_cache, &["generated".to_string()]);
    }
    idx += 1;
  }
  let _ = std::fs::remove_dir_all(&signer.work);
  capture::disable();
  out.finish()
}
