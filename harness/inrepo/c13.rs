// C13 driver: the REAL producer code (rtps::Reader / rtps::Writer, as the participant's event loop
// runs it) and the REAL consumer code (async streams / futures / mio polling of DataReader and
// DataWriter) run on two threads through explicit schedules (sched.rs + cfg(rustdds_verif) yield
// points in the repo).  After the schedule the run is brought to rest deterministically and the
// outside view is reported: quiescent?, delivered, leftover (available but undelivered), number of
// polls, waker invocations and Pending results.  The Coq model (C13.Model.run) must predict all of
// them, and the oracle C13.Model.ok judges the implementation's own observation.
use std::{
  future::Future,
  pin::Pin,
  rc::Rc,
  sync::{
    atomic::{AtomicBool, AtomicUsize, Ordering},
    mpsc, Arc, Mutex, OnceLock, RwLock,
  },
  task::{Context, Poll, Wake, Waker},
  thread,
  time::Duration as StdDuration,
};

use bytes::Bytes;
use byteorder::LittleEndian;
use enumflags2::BitFlags;
use futures::stream::Stream;
use mio_extras::channel as mio_channel;
use serde::{Deserialize, Serialize};

use crate::{
  dds::{
    adapters::with_key::*,
    participant::DomainParticipant,
    pubsub::{Publisher, Subscriber},
    qos::{policy, QosPolicies, QosPolicyBuilder},
    statusevents::{sync_status_channel, DataReaderStatus, DataWriterStatus},
    topic::{Topic, TopicDescription, TopicKind},
    typedesc::TypeDesc,
    with_key::{
      datareader::DataReader,
      datawriter::DataWriter,
      simpledatareader::{ReaderCommand, SimpleDataReader},
    },
  },
  discovery::discovery::DiscoveryCommand,
  messages::submessages::{
    elements::serialized_payload::SerializedPayload, submessage_flag::*, submessages::Data,
  },
  mio_source,
  network::udp_sender::UDPSender,
  rtps::{
    message_receiver::MessageReceiverState,
    reader::{Reader, ReaderIngredients},
    rtps_writer_proxy::RtpsWriterProxy,
    writer::{Writer, WriterCommand, WriterIngredients},
  },
  serialization::{to_vec, CDRDeserializerAdapter, CDRSerializerAdapter},
  structure::{
    dds_cache::{DDSCache, TopicCache},
    entity::RTPSEntity,
    duration::Duration,
    guid::{EntityId, EntityKind, GuidPrefix, GUID},
    sequence_number::SequenceNumber,
  },
  Keyed, RepresentationIdentifier,
};
use super::{
  sched::{self, Outcome, Sched},
  util::{self, Args, CaseOut, Rng},
};

#[derive(Serialize, Deserialize, Clone, Debug, PartialEq)]
struct Msg {
  key: i32,
  seq: i32,
}
impl Keyed for Msg {
  type K = i32;
  fn key(&self) -> i32 {
    self.key
  }
}

// ---------------------------------------------------------------------------------------------
// one participant for the whole run: only its Subscriber / Publisher / Topic handles are needed to
// construct SimpleDataReader / DataWriter objects; the Reader / Writer behind them are ours.
struct World {
  _dp: DomainParticipant,
  sub: Subscriber,
  publ: Publisher,
  topic: Topic,
  qos: QosPolicies,
}
static WORLD: OnceLock<Mutex<World>> = OnceLock::new();
const TOPIC: &str = "c13_topic";
const TYPE: &str = "c13_type";

fn world() -> &'static Mutex<World> {
  WORLD.get_or_init(|| {
    let dp = util::participant(93);
    let qos = QosPolicyBuilder::new()
      .reliability(policy::Reliability::Reliable { max_blocking_time: Duration::from_secs(100_000) })
      .history(policy::History::KeepAll)
      .build();
    let sub = dp.create_subscriber(&qos).unwrap();
    let publ = dp.create_publisher(&qos).unwrap();
    let topic = dp
      .create_topic(TOPIC.to_string(), TYPE.to_string(), &qos, TopicKind::WithKey)
      .unwrap();
    Mutex::new(World { _dp: dp, sub, publ, topic, qos })
  })
}

// ---------------------------------------------------------------------------------------------
// the task's waker: counts invocations, sets the flag the executor loop sleeps on
struct CountWaker {
  woken: AtomicBool,
  wakes: AtomicUsize,
}
impl Wake for CountWaker {
  fn wake(self: Arc<Self>) {
    self.wake_by_ref()
  }
  fn wake_by_ref(self: &Arc<Self>) {
    self.wakes.fetch_add(1, Ordering::SeqCst);
    self.woken.store(true, Ordering::SeqCst);
  }
}
fn count_waker() -> (Arc<CountWaker>, Waker) {
  let cw = Arc::new(CountWaker { woken: AtomicBool::new(false), wakes: AtomicUsize::new(0) });
  let w = Waker::from(cw.clone());
  (cw, w)
}

/// The executor's sleep: the task is polled again only after its waker was invoked.
/// Returns false when the run is over.
fn park(cw: &CountWaker) -> bool {
  loop {
    if !sched::active() {
      return false;
    }
    if cw.woken.swap(false, Ordering::SeqCst) {
      sched::yield_point("C.unparked");
      return sched::active();
    }
    if !sched::blocked("C.parked") {
      return false;
    }
  }
}

#[derive(Clone, Debug, PartialEq)]
pub enum Obs {
  Obs { quiescent: bool, delivered: i64, leftover: i64, polls: i64, wakes: i64, pends: i64 },
  Hang,
  Panic,
}
impl Obs {
  fn coq(&self) -> String {
    match self {
      Obs::Obs { quiescent, delivered, leftover, polls, wakes, pends } => format!(
        "(Obs {} {} {} {} {} {})",
        util::b(*quiescent),
        util::z(*delivered as i128),
        util::z(*leftover as i128),
        util::z(*polls as i128),
        util::z(*wakes as i128),
        util::z(*pends as i128)
      ),
      Obs::Hang => "ObsHang".into(),
      Obs::Panic => "ObsPanic".into(),
    }
  }
}

#[derive(Default)]
struct CRes {
  cw: Option<Arc<CountWaker>>, // wakes are read when the whole run is over
  delivered: i64,
  leftover: i64,
  polls: i64,
  pends: i64,
  wakes: i64,
  panicked: bool,
}

const WATCHDOG: StdDuration = StdDuration::from_secs(30); // generous: only costs time when a run really hangs
const MAX_STEPS: u64 = 20_000;

/// Common tail: start the schedule, wait for rest, collect the consumer's result.
fn conclude(
  s: &Arc<Sched>,
  rx: mpsc::Receiver<CRes>,
  hp: Producer,
  hc: thread::JoinHandle<()>,
) -> Obs {
  s.start();
  let out = s.wait_done(WATCHDOG);
  if out == Outcome::Hang {
    // threads may be stuck inside the code under test: do not join them
    return Obs::Hang;
  }
  let res = rx.recv_timeout(WATCHDOG);
  let _ = hp.release.send(());
  let p_ok = match hp.h.join() {
    Ok(ok) => ok,
    Err(_) => false,
  };
  let _ = hc.join();
  match res {
    Ok(r) if !r.panicked && p_ok => Obs::Obs {
      quiescent: out == Outcome::Quiescent,
      delivered: r.delivered,
      leftover: r.leftover,
      polls: r.polls,
      wakes: r.cw.as_ref().map_or(r.wakes, |c| c.wakes.load(Ordering::SeqCst) as i64),
      pends: r.pends,
    },
    Ok(_) => Obs::Panic,
    Err(_) => Obs::Hang,
  }
}

fn writer_guid() -> GUID {
  GUID {
    prefix: GuidPrefix::new(&[1; 12]),
    entity_id: EntityId::new([1; 3], EntityKind::WRITER_WITH_KEY_USER_DEFINED),
  }
}

fn data_msg(reader_id: EntityId, sn: i64) -> Data {
  let m = Msg { key: 1, seq: sn as i32 };
  Data {
    reader_id,
    writer_id: writer_guid().entity_id,
    writer_sn: SequenceNumber::from(sn),
    serialized_payload: Some(
      SerializedPayload {
        representation_identifier: RepresentationIdentifier::CDR_LE,
        representation_options: [0, 0],
        value: Bytes::from(to_vec::<Msg, LittleEndian>(&m).unwrap()),
      }
      .into(),
    ),
    inline_qos: None,
  }
}

// ---------------------------------------------------------------------------------------------
// reader side kit: a real rtps::Reader (built on the producer thread, it is !Send) wired to a real
// SimpleDataReader exactly the way Subscriber::create_datareader wires them (pubsub.rs:1017-1150)
struct ReaderParts {
  ing: ReaderIngredients,
  sdr: SimpleDataReader<Msg, CDRDeserializerAdapter<Msg>>,
  _disc_rx: mio_channel::Receiver<DiscoveryCommand>,
}

/// capacity of the mio-0.6 notification channel, as in Subscriber::create_datareader (pubsub.rs:1023)
const NOTIF_CAP: usize = 4;

static ENTITY_COUNTER: AtomicUsize = AtomicUsize::new(1);

fn reader_parts() -> ReaderParts {
  let w = world().lock().unwrap();
  let k = ENTITY_COUNTER.fetch_add(1, Ordering::SeqCst);
  let eid = EntityId::new(
    [(k >> 16) as u8, (k >> 8) as u8, k as u8],
    EntityKind::READER_WITH_KEY_USER_DEFINED,
  );
  let guid = GUID::new_with_prefix_and_id(w._dp.guid_prefix(), eid);
  let dds_cache = Arc::new(RwLock::new(DDSCache::new()));
  let topic_cache: Arc<Mutex<TopicCache>> = dds_cache.write().unwrap().add_new_topic(
    TOPIC.to_string(),
    TypeDesc::new(TYPE.to_string()),
    &w.qos,
  );
  // capacities as in pubsub.rs:1023 (notification channel 4)
  let (notification_sender, notification_receiver) = mio_channel::sync_channel::<()>(NOTIF_CAP);
  let (event_source, poll_event_sender) = mio_source::make_poll_channel().unwrap();
  let (status_sender, status_receiver) = sync_status_channel::<DataReaderStatus>(4).unwrap();
  let (reader_command_sender, reader_command_receiver) =
    mio_channel::sync_channel::<ReaderCommand>(4);
  let (disc_tx, disc_rx) = mio_channel::sync_channel::<DiscoveryCommand>(64);
  let data_reader_waker = Arc::new(Mutex::new(None));
  let ing = ReaderIngredients {
    guid,
    notification_sender,
    status_sender,
    topic_name: TOPIC.to_string(),
    topic_cache_handle: topic_cache.clone(),
    like_stateless: false,
    qos_policy: w.qos.clone(),
    data_reader_command_receiver: reader_command_receiver,
    data_reader_waker: data_reader_waker.clone(),
    poll_event_sender,
    security_plugins: None,
  };
  let sdr = SimpleDataReader::<Msg, CDRDeserializerAdapter<Msg>>::new(
    w.sub.clone(),
    eid,
    w.topic.clone(),
    w.qos.clone(),
    notification_receiver,
    topic_cache,
    disc_tx,
    status_receiver,
    reader_command_sender,
    data_reader_waker,
    event_source,
  )
  .unwrap();
  ReaderParts { ing, sdr, _disc_rx: disc_rx }
}

/// producer thread of the reader-side handshakes: a real Reader receives n DATA submessages
fn spawn_reader_producer(s: Arc<Sched>, ing: ReaderIngredients, n: i64) -> Producer {
  let (rel_tx, rel_rx) = mpsc::channel::<()>();
  let h = thread::spawn(move || {
    let r = std::panic::catch_unwind(std::panic::AssertUnwindSafe(|| {
      let (ps_tx, _ps_rx) = sync_status_channel(16).unwrap();
      let mut reader = Reader::new(
        ing,
        Rc::new(UDPSender::new(0).unwrap()),
        mio_extras::timer::Builder::default().build(),
        ps_tx,
      );
      let mr_state = MessageReceiverState {
        source_guid_prefix: writer_guid().prefix,
        ..Default::default()
      };
      reader.update_writer_proxy(
        RtpsWriterProxy::new(writer_guid(), vec![], vec![], EntityId::UNKNOWN),
        &QosPolicies::qos_none(),
      );
      let flags = DATA_Flags::Endianness | DATA_Flags::Data;
      if s.install(sched::P) {
        for i in 1..=n {
          // steps: [.. make_cache_change] reader.inserted [waker take+wake] reader.woke
          //        [poll_event_sender.send] reader.sent08 [notification_sender.try_send ..]
          reader.handle_data_msg(data_msg(reader.entity_id(), i), flags, &mr_state);
          sched::yield_point("P.sample_done");
        }
      }
      sched::finish();
      // keep the Reader (and with it the sending ends of the notification channels) alive until
      // the consumer has been examined: dropping them is itself a notification
      let _ = rel_rx.recv_timeout(WATCHDOG * 2);
    }));
    sched::finish();
    r.is_ok()
  });
  Producer { h, release: rel_tx }
}

struct Producer {
  h: thread::JoinHandle<bool>,
  release: mpsc::Sender<()>,
}

// ---------------------------------------------------------------------------------------------
// (A) async sample stream
fn run_a(n: i64, schedule: &[u8]) -> Obs {
  let ReaderParts { ing, sdr, _disc_rx } = reader_parts();
  let s = Sched::new(schedule, MAX_STEPS, false);
  let hp = spawn_reader_producer(s.clone(), ing, n);
  let (tx, rx) = mpsc::channel::<CRes>();
  let s2 = s.clone();
  let hc = thread::spawn(move || {
    let mut res = CRes::default();
    let (cw, waker) = count_waker();
    let r = std::panic::catch_unwind(std::panic::AssertUnwindSafe(|| {
      let mut cx = Context::from_waker(&waker);
      let mut stream = sdr.as_async_stream();
      if s2.install(sched::C) {
        'outer: loop {
          res.polls += 1;
          // steps inside poll_next: [take] sdr.take1_none [set_waker] sdr.waker_set [take again]
          match Pin::new(&mut stream).poll_next(&mut cx) {
            Poll::Ready(Some(Ok(_))) => {
              res.delivered += 1;
              sched::yield_point("C.ready");
              if !sched::active() {
                break 'outer;
              }
            }
            Poll::Ready(_) => panic!("stream error / end"),
            Poll::Pending => {
              res.pends += 1;
              sched::yield_point("C.pending");
              if !park(&cw) {
                break 'outer;
              }
            }
          }
        }
      }
    }));
    sched::finish();
    // the run is over (both threads at rest): what is still available but was not delivered?
    if r.is_ok() {
      while let Ok(Some(_)) = sdr.try_take_one() {
        res.leftover += 1;
      }
    }
    res.cw = Some(cw.clone());
    res.panicked = r.is_err();
    let _ = tx.send(res);
    drop(sdr);
    drop(_disc_rx);
  });
  conclude(&s, rx, hp, hc)
}

// ---------------------------------------------------------------------------------------------
// (B) the documented mio pattern: poll; on the reader's token take_next_sample until None.
// A real mio Poll (0.6: the notification channel's Registration, edge; 0.8: the socket pair via
// epoll, edge) with zero time-out decides whether the consumer may move.
fn run_b(v08: bool, n: i64, schedule: &[u8]) -> Obs {
  let ReaderParts { ing, sdr, _disc_rx } = reader_parts();
  let s = Sched::new(schedule, MAX_STEPS, false);
  let hp = spawn_reader_producer(s.clone(), ing, n);
  let (tx, rx) = mpsc::channel::<CRes>();
  let s2 = s.clone();
  let hc = thread::spawn(move || {
    let mut res = CRes::default();
    let mut events_seen = 0i64;
    let r = std::panic::catch_unwind(std::panic::AssertUnwindSafe(|| {
      let mut dr = DataReader::from_simple_data_reader(sdr);
      let zero = Some(StdDuration::from_millis(0));
      let poll06 = mio_06::Poll::new().unwrap();
      let mut ev06 = mio_06::Events::with_capacity(8);
      let mut poll08 = mio_08::Poll::new().unwrap();
      let mut ev08 = mio_08::Events::with_capacity(8);
      if v08 {
        poll08
          .registry()
          .register(&mut dr, mio_08::Token(1), mio_08::Interest::READABLE)
          .unwrap();
      } else {
        poll06
          .register(&dr, mio_06::Token(1), mio_06::Ready::readable(), mio_06::PollOpt::edge())
          .unwrap();
      }
      if s2.install(sched::C) {
        'outer: loop {
          let ready = if v08 {
            poll08.poll(&mut ev08, zero).unwrap();
            !ev08.is_empty()
          } else {
            poll06.poll(&mut ev06, zero).unwrap();
            !ev06.is_empty()
          };
          if !ready {
            if !sched::blocked("C.nothing_ready") {
              break 'outer;
            }
            continue;
          }
          events_seen += 1;
          sched::yield_point("C.event");
          if !sched::active() {
            break 'outer;
          }
          loop {
            // steps inside take: [try_recv]* sdr.drained06 [drain pipe] sdr.drained08
            //   ([try_take_one] dr.filled_one)* [try_take_one -> None] dr.filled [take from local cache]
            let got = dr.take_next_sample().expect("take");
            res.polls += 1;
            match got {
              Some(_) => {
                res.delivered += 1;
                sched::yield_point("C.took");
                if !sched::active() {
                  break 'outer;
                }
              }
              None => {
                res.pends += 1;
                sched::yield_point("C.empty");
                if !sched::active() {
                  break 'outer;
                }
                break;
              }
            }
          }
        }
      }
      sched::finish();
      // the run is over: what is available to the application but was not handed over?
      let mut left = 0;
      while let Ok(Some(_)) = dr.take_next_sample() {
        left += 1;
      }
      left
    }));
    sched::finish();
    match r {
      Ok(left) => res.leftover = left,
      Err(_) => res.panicked = true,
    }
    res.wakes = events_seen;
    let _ = tx.send(res);
    drop(_disc_rx);
  });
  conclude(&s, rx, hp, hc)
}

// ---------------------------------------------------------------------------------------------
// writer side kit: a real rtps::Writer wired to a real DataWriter the way
// Publisher::create_datawriter wires them (pubsub.rs:459-560), command queue capacity = cap
struct WriterParts {
  ing: WriterIngredients,
  dw: DataWriter<Msg, CDRSerializerAdapter<Msg>>,
  _disc_rx: mio_channel::Receiver<DiscoveryCommand>,
}

fn writer_parts(cap: usize) -> WriterParts {
  let w = world().lock().unwrap();
  let k = ENTITY_COUNTER.fetch_add(1, Ordering::SeqCst);
  let eid = EntityId::new(
    [(k >> 16) as u8, (k >> 8) as u8, k as u8],
    EntityKind::WRITER_WITH_KEY_USER_DEFINED,
  );
  let guid = GUID::new_with_prefix_and_id(w._dp.guid_prefix(), eid);
  let (cmd_tx, cmd_rx) = mio_channel::sync_channel::<WriterCommand>(cap);
  let (status_sender, status_receiver) = sync_status_channel::<DataWriterStatus>(4).unwrap();
  let (disc_tx, disc_rx) = mio_channel::sync_channel::<DiscoveryCommand>(64);
  let waker = Arc::new(Mutex::new(None));
  let ing = WriterIngredients {
    guid,
    writer_command_receiver: cmd_rx,
    writer_command_receiver_waker: waker.clone(),
    topic_name: TOPIC.to_string(),
    like_stateless: false,
    qos_policies: w.qos.clone(),
    status_sender,
    security_plugins: None,
  };
  let dw = DataWriter::<Msg, CDRSerializerAdapter<Msg>>::new(
    w.publ.clone(),
    w.topic.clone(),
    w.qos.clone(),
    guid,
    cmd_tx,
    waker,
    disc_tx,
    status_receiver,
  )
  .unwrap();
  WriterParts { ing, dw, _disc_rx: disc_rx }
}

/// producer thread of the writer-side handshakes: the event loop calling
/// Writer::process_writer_command whenever it is scheduled (idle when the queue is empty)
fn spawn_writer_producer(s: Arc<Sched>, ing: WriterIngredients) -> Producer {
  let (rel_tx, rel_rx) = mpsc::channel::<()>();
  let h = thread::spawn(move || {
    let r = std::panic::catch_unwind(std::panic::AssertUnwindSafe(|| {
      let (ps_tx, _ps_rx) = sync_status_channel(16).unwrap();
      let mut writer = Writer::new(
        ing,
        Rc::new(UDPSender::new(0).unwrap()),
        mio_extras::timer::Builder::default().build(),
        ps_tx,
      );
      if s.install(sched::P) {
        loop {
          // steps: [try_recv -> Some] writer.popped [wake cc_upload_waker] writer.woke [.. try_recv]
          //        resp. [complete: all_acked.try_send] writer.ack_wait_handled [try_recv ..]
          writer.process_writer_command();
          if !sched::active() || !sched::blocked("P.idle") {
            break;
          }
        }
      }
      sched::finish();
      let _ = rel_rx.recv_timeout(WATCHDOG * 2);
    }));
    sched::finish();
    r.is_ok()
  });
  Producer { h, release: rel_tx }
}

// (D) async_wait_for_acknowledgments
fn run_d(cap: usize, q0: usize, schedule: &[u8]) -> Obs {
  let WriterParts { ing, dw, _disc_rx } = writer_parts(cap);
  let s = Sched::new(schedule, MAX_STEPS, false);
  let hp = spawn_writer_producer(s.clone(), ing);
  let (tx, rx) = mpsc::channel::<CRes>();
  let s2 = s.clone();
  let hc = thread::spawn(move || {
    let mut res = CRes::default();
    let (cw, waker) = count_waker();
    let r = std::panic::catch_unwind(std::panic::AssertUnwindSafe(|| {
      // earlier writes still sitting in the command queue
      for i in 0..q0 {
        dw.write(Msg { key: 1, seq: i as i32 }, None).expect("preload write");
      }
      let mut cx = Context::from_waker(&waker);
      let mut fut = Box::pin(dw.async_wait_for_acknowledgments());
      if s2.install(sched::C) {
        loop {
          res.polls += 1;
          match fut.as_mut().poll(&mut cx) {
            Poll::Ready(r) => {
              if let Ok(true) = r {
                res.delivered = 1;
              }
              break;
            }
            Poll::Pending => {
              res.pends += 1;
              sched::yield_point("C.pending");
              if !park(&cw) {
                break;
              }
            }
          }
        }
      }
    }));
    sched::finish();
    res.leftover = 1 - res.delivered;
    res.cw = Some(cw.clone());
    res.panicked = r.is_err();
    let _ = tx.send(res);
  });
  conclude(&s, rx, hp, hc)
}

// (C) async_write: n writes one after the other through a command queue of capacity cap
fn run_c(cap: usize, n: i64, schedule: &[u8]) -> Obs {
  let WriterParts { ing, dw, _disc_rx } = writer_parts(cap);
  let s = Sched::new(schedule, MAX_STEPS, false);
  let hp = spawn_writer_producer(s.clone(), ing);
  let (tx, rx) = mpsc::channel::<CRes>();
  let s2 = s.clone();
  let hc = thread::spawn(move || {
    let mut res = CRes::default();
    let (cw, waker) = count_waker();
    let r = std::panic::catch_unwind(std::panic::AssertUnwindSafe(|| {
      let mut cx = Context::from_waker(&waker);
      if n > 0 && s2.install(sched::C) {
        'outer: for i in 0..n {
          let mut fut = Box::pin(dw.async_write(Msg { key: 1, seq: i as i32 }, None));
          loop {
            res.polls += 1;
            // steps inside AsyncWrite::poll: [try_send] dw.write_full [store waker]
            //   dw.write_waker_stored [try_send again]
            match fut.as_mut().poll(&mut cx) {
              Poll::Ready(Ok(())) => {
                res.delivered += 1;
                if i + 1 < n {
                  sched::yield_point("C.ready");
                  if !sched::active() {
                    break 'outer;
                  }
                }
                break;
              }
              Poll::Ready(Err(e)) => panic!("async_write failed: {:?}", e),
              Poll::Pending => {
                res.pends += 1;
                sched::yield_point("C.pending");
                if !park(&cw) {
                  break 'outer;
                }
              }
            }
          }
        }
      } else if n == 0 {
        s2.install(sched::C);
      }
    }));
    sched::finish();
    res.leftover = n - res.delivered;
    res.cw = Some(cw.clone());
    res.panicked = r.is_err();
    let _ = tx.send(res);
  });
  conclude(&s, rx, hp, hc)
}

// (D2) status-event stream: StatusChannelSender::try_send || StatusReceiverStream::poll_next.
// Both sides hold the waker mutex for their whole operation, so each call is one step.
fn run_s(n: i64, cap: usize, schedule: &[u8]) -> Obs {
  let (sender, receiver) = sync_status_channel::<i64>(cap).unwrap();
  let s = Sched::new(schedule, MAX_STEPS, false);
  let (rel_tx, rel_rx) = mpsc::channel::<()>();
  let s1 = s.clone();
  let h = thread::spawn(move || {
    let r = std::panic::catch_unwind(std::panic::AssertUnwindSafe(|| {
      if s1.install(sched::P) {
        for i in 0..n {
          sender.try_send(i).expect("status try_send");
          sched::yield_point("P.sent");
        }
      }
      sched::finish();
      let _ = rel_rx.recv_timeout(WATCHDOG * 2);
      drop(sender);
    }));
    sched::finish();
    r.is_ok()
  });
  let hp = Producer { h, release: rel_tx };
  let (tx, rx) = mpsc::channel::<CRes>();
  let s2 = s.clone();
  let hc = thread::spawn(move || {
    let mut res = CRes::default();
    let (cw, waker) = count_waker();
    let r = std::panic::catch_unwind(std::panic::AssertUnwindSafe(|| {
      use crate::dds::statusevents::StatusEvented;
      let mut cx = Context::from_waker(&waker);
      if s2.install(sched::C) {
        'outer: loop {
          res.polls += 1;
          let mut stream = receiver.as_async_status_stream();
          match Pin::new(&mut stream).poll_next(&mut cx) {
            Poll::Ready(Some(_)) => {
              res.delivered += 1;
              sched::yield_point("C.ready");
              if !sched::active() {
                break 'outer;
              }
            }
            Poll::Ready(None) => panic!("status stream ended"),
            Poll::Pending => {
              res.pends += 1;
              sched::yield_point("C.pending");
              if !park(&cw) {
                break 'outer;
              }
            }
          }
        }
      }
      sched::finish();
      while receiver.try_recv().is_ok() {
        res.leftover += 1;
      }
    }));
    sched::finish();
    res.cw = Some(cw.clone());
    res.panicked = r.is_err();
    let _ = tx.send(res);
  });
  conclude(&s, rx, hp, hc)
}

// (D2, probe form) No scheduler and no yield points: the consumer polls with a waker whose `clone` (the moment
// poll_next registers it) starts the producer's try_send on a helper thread and waits up to 300 ms for it.  In the
// code as it is the waker mutex is held from before try_recv until the waker is stored, so the helper blocks until
// poll_next has returned: the run is the schedule [C; P; C; C].  If "channel empty" and "waker stored" are not one
// atomic step, the helper's send lands between them, finds no waker, and the consumer parks for ever with the event
// in the channel - the lost wake-up the oracle rejects.  (A slow helper can only make the probe miss, never alarm.)
const SP_SCHED: [u8; 4] = [1, 0, 1, 1];

struct ProbeInner {
  cw: Arc<CountWaker>,
  on_clone: Mutex<Option<Box<dyn FnOnce() + Send>>>,
}
unsafe fn probe_clone(p: *const ()) -> std::task::RawWaker {
  let arc = std::mem::ManuallyDrop::new(Arc::from_raw(p as *const ProbeInner));
  if let Some(f) = arc.on_clone.lock().unwrap().take() {
    f();
  }
  let a2: Arc<ProbeInner> = (*arc).clone();
  std::task::RawWaker::new(Arc::into_raw(a2) as *const (), &PROBE_VTABLE)
}
unsafe fn probe_wake(p: *const ()) {
  let arc = Arc::from_raw(p as *const ProbeInner);
  arc.cw.wake_by_ref();
}
unsafe fn probe_wake_by_ref(p: *const ()) {
  let arc = std::mem::ManuallyDrop::new(Arc::from_raw(p as *const ProbeInner));
  arc.cw.wake_by_ref();
}
unsafe fn probe_drop(p: *const ()) {
  drop(Arc::from_raw(p as *const ProbeInner));
}
static PROBE_VTABLE: std::task::RawWakerVTable =
  std::task::RawWakerVTable::new(probe_clone, probe_wake, probe_wake_by_ref, probe_drop);

fn run_s_probe(cap: usize) -> Obs {
  use crate::dds::statusevents::StatusEvented;
  let (sender, receiver) = sync_status_channel::<i64>(cap).unwrap();
  let (cw, _plain) = count_waker();
  let sender = Arc::new(sender);
  let s2 = sender.clone();
  let (done_tx, done_rx) = mpsc::channel::<()>();
  let inject: Box<dyn FnOnce() + Send> = Box::new(move || {
    let h = thread::spawn(move || {
      let _ = s2.try_send(0);
      let _ = done_tx.send(());
    });
    let _ = done_rx.recv_timeout(StdDuration::from_millis(300));
    std::mem::forget(h);
  });
  let inner = Arc::new(ProbeInner { cw: cw.clone(), on_clone: Mutex::new(Some(inject)) });
  let waker = unsafe { Waker::from_raw(std::task::RawWaker::new(Arc::into_raw(inner) as *const (), &PROBE_VTABLE)) };
  let r = std::panic::catch_unwind(std::panic::AssertUnwindSafe(|| {
    let mut cx = Context::from_waker(&waker);
    let (mut polls, mut pends, mut delivered) = (0i64, 0i64, 0i64);
    loop {
      polls += 1;
      let mut stream = receiver.as_async_status_stream();
      match Pin::new(&mut stream).poll_next(&mut cx) {
        Poll::Ready(Some(_)) => delivered += 1,
        Poll::Ready(None) => panic!("status stream ended"),
        Poll::Pending => {
          pends += 1;
          // the executor's sleep: poll again only after the waker was invoked; the producer has only one event
          let t0 = std::time::Instant::now();
          let mut woken = false;
          while t0.elapsed() < StdDuration::from_millis(if delivered == 0 { 3000 } else { 300 }) {
            if cw.woken.swap(false, Ordering::SeqCst) {
              woken = true;
              break;
            }
            thread::sleep(StdDuration::from_millis(2));
          }
          if !woken {
            break;
          }
        }
      }
    }
    let mut leftover = 0i64;
    while receiver.try_recv().is_ok() {
      leftover += 1;
    }
    (polls, pends, delivered, leftover)
  }));
  match r {
    Ok((polls, pends, delivered, leftover)) => Obs::Obs {
      quiescent: true,
      delivered,
      leftover,
      polls,
      wakes: cw.wakes.load(Ordering::SeqCst) as i64,
      pends,
    },
    Err(_) => Obs::Panic,
  }
}

// ---------------------------------------------------------------------------------------------
// cases
#[derive(Clone, Debug)]
enum Case {
  A { n: i64, l: Vec<u8> },
  D { cap: usize, q0: usize, l: Vec<u8> },
  C { cap: usize, n: i64, l: Vec<u8> },
  B { v08: bool, n: i64, l: Vec<u8> },
  S { n: i64, cap: usize, l: Vec<u8> },
  /// (D2) the same as `S { n: 1, cap, l: [C, P, C, C] }`, but the producer's step is injected from the clone of the
  /// consumer's waker (no scheduler): it lands INSIDE poll_next if registration is not atomic with the emptiness check
  SP { cap: usize },
}

fn coq_sched(l: &[u8]) -> String {
  util::list(l.iter().map(|t| if *t == 0 { "P".to_string() } else { "C".to_string() }))
}

impl Case {
  fn coq(&self) -> String {
    match self {
      Case::A { n, l } => format!("(CaseA {} {})", n, coq_sched(l)),
      Case::D { cap, q0, l } => format!("(CaseD {} {} {})", cap, q0, coq_sched(l)),
      Case::C { cap, n, l } => format!("(CaseC {} {} {})", cap, n, coq_sched(l)),
      Case::S { n, cap, l } => format!("(CaseS {} {} {})", n, cap, coq_sched(l)),
      Case::SP { cap } => format!("(CaseS 1 {} {})", cap, coq_sched(&SP_SCHED)),
      Case::B { v08, n, l } => format!(
        "(CaseB {} {} {} {})",
        if *v08 { "B.V08" } else { "B.V06" },
        n,
        NOTIF_CAP,
        coq_sched(l)
      ),
    }
  }
  fn run(&self) -> Obs {
    match self {
      Case::A { n, l } => run_a(*n, l),
      Case::D { cap, q0, l } => run_d(*cap, *q0, l),
      Case::C { cap, n, l } => run_c(*cap, *n, l),
      Case::B { v08, n, l } => run_b(*v08, *n, l),
      Case::S { n, cap, l } => run_s(*n, *cap, l),
      Case::SP { cap } => run_s_probe(*cap),
    }
  }
  fn sched(&self) -> &[u8] {
    match self {
      Case::A { l, .. } | Case::D { l, .. } | Case::C { l, .. } | Case::B { l, .. } | Case::S { l, .. } => l,
      Case::SP { .. } => &SP_SCHED,
    }
  }
  fn name(&self) -> &'static str {
    match self {
      Case::A { .. } => "A",
      Case::D { .. } => "D",
      Case::C { .. } => "C",
      Case::S { .. } => "D2",
      Case::SP { .. } => "D2probe",
      Case::B { v08: true, .. } => "B08",
      Case::B { v08: false, .. } => "B06",
    }
  }
}

fn switches(l: &[u8]) -> usize {
  l.windows(2).filter(|w| w[0] != w[1]).count()
}

/// all schedules made of at most `runs` runs (= runs-1 context switches) of 1..=maxlen steps each
fn enumerate(runs: usize, maxlen: usize) -> Vec<Vec<u8>> {
  let mut out: Vec<Vec<u8>> = vec![vec![]];
  let mut frontier: Vec<Vec<u8>> = vec![vec![]];
  for _ in 0..runs {
    let mut next = Vec::new();
    for base in &frontier {
      let starts: Vec<u8> = match base.last() {
        None => vec![0, 1],
        Some(t) => vec![1 - *t],
      };
      for t in starts {
        for len in 1..=maxlen {
          let mut l = base.clone();
          l.extend(std::iter::repeat(t).take(len));
          next.push(l);
        }
      }
    }
    out.extend(next.iter().cloned());
    frontier = next;
  }
  out
}

fn s(txt: &str) -> Vec<u8> {
  txt.bytes().filter_map(|c| match c {
    b'P' => Some(0u8),
    b'C' => Some(1u8),
    _ => None,
  }).collect()
}

/// Fixed corpus: the windows the proofs split on, and the witnesses of the defects.
fn corpus() -> Vec<Case> {
  let mut v = corpus_fixed();
  // (B) second sample (insert + all three notifications) lands after k consumer steps, k sweeping
  // over the whole first wake-up: poll, the drains, the fills, the hand-over, the empty take
  for k in 4..=13usize {
    for v08 in [true, false] {
      let mut l = vec![0u8; 4];
      l.extend(std::iter::repeat(1u8).take(k));
      l.extend([0u8; 4]);
      l.extend([1u8; 3]);
      v.push(Case::B { v08, n: 2, l });
    }
  }
  v
}

fn corpus_fixed() -> Vec<Case> {
  vec![
    // (A) sample arrives between the first take and set_waker / between set_waker and the re-check /
    //     after the re-check (wake), waker stale from an earlier Pending
    Case::A { n: 1, l: s("C P P C C") },
    Case::A { n: 1, l: s("C C P P C") },
    Case::A { n: 1, l: s("C C C P P C") },
    Case::A { n: 2, l: s("C C C P P C C C P C C P") },
    Case::A { n: 0, l: s("C C C C P") },
    Case::A { n: 3, l: s("P P P P P P P P P P P P C C C C C C") },
    // (D) F9 witness: command sent, Pending, writer pops and completes
    Case::D { cap: 16, q0: 0, l: s("C P P") },
    Case::D { cap: 1, q0: 1, l: s("C P P") },
    Case::D { cap: 2, q0: 2, l: s("C C P C P P") },
    Case::D { cap: 16, q0: 3, l: s("P P C P P") },
    // (C) the store-waker-after-failed-try_send window: queue filled, next write finds it full,
    //     writer drains everything, then the waker is stored (witness of the as-found code)
    Case::C { cap: 16, n: 17, l: [vec![1u8; 17], vec![0u8; 32], vec![1u8]].concat() },
    Case::C { cap: 1, n: 2, l: s("C C P P C") },
    Case::C { cap: 2, n: 4, l: s("C C C P P P P C C") },
    Case::C { cap: 2, n: 5, l: s("C C C P C P C C P P C") },
    Case::C { cap: 3, n: 0, l: s("C P") },
    // (B) notification between "take returned nothing" and the next poll; during the drain;
    //     between drain and fill; more samples than the notification channel holds
    Case::B { v08: true, n: 1, l: s("P P P P C C C C C C") },
    Case::B { v08: false, n: 1, l: s("P P P P C C C C C C") },
    Case::B { v08: true, n: 2, l: s("P P P P C C P P P P C C C C C C C") },
    Case::B { v08: false, n: 2, l: s("P P P P C C P P P P C C C C C C C") },
    Case::B { v08: true, n: 2, l: s("P P P P C C C P P P P C C C C C C") },
    Case::B { v08: false, n: 2, l: s("P P P P C C C P P P P C C C C C C") },
    Case::B { v08: false, n: 7, l: s("P P P P P P P P P P P P P P P P P P P P P P P P P P P P C C C") },
    Case::B { v08: true, n: 7, l: s("P P P P P P P P P P P P P P P P P P P P P P P P P P P P C C C") },
    Case::B { v08: false, n: 2, l: s("P P P P C C C C C P P P C P C C C") },
    Case::B { v08: true, n: 2, l: s("P P P P C C C C C P P C P P C C C") },
    // (D2) event sent between two polls / while parked / before the first poll
    Case::S { n: 2, cap: 4, l: s("C P C C P C") },
    Case::S { n: 3, cap: 3, l: s("P P P C C C C C") },
    Case::S { n: 1, cap: 1, l: s("C C P C C") },
    // (D2) producer injected from inside the consumer's waker registration (seeded change C13-B)
    Case::SP { cap: 4 },
    Case::SP { cap: 1 },
  ]
}

fn gen_random(r: &mut Rng) -> Case {
  let len = r.range(8, 60) as usize;
  // bursty schedules: runs of geometric length
  let mut l = Vec::with_capacity(len);
  let mut t = r.below(2) as u8;
  while l.len() < len {
    let m = *r.pick(&[2u64, 4, 9]);
    let run = 1 + r.below(m) as usize;
    for _ in 0..run {
      l.push(t);
    }
    t = 1 - t;
  }
  l.truncate(len);
  match r.below(6) {
    5 => {
      let n = r.range(0, 6);
      Case::S { n, cap: (n + r.range(0, 3)).max(1) as usize, l }
    }
    0 => Case::A { n: r.range(0, 6), l },
    3 => Case::B { v08: true, n: r.range(0, 7), l },
    4 => Case::B { v08: false, n: r.range(0, 7), l },
    1 => {
      let cap = *r.pick(&[1usize, 2, 3, 16]);
      Case::C { cap, n: r.range(0, 2 * cap as i64 + 3), l }
    }
    _ => {
      let cap = *r.pick(&[1usize, 2, 3, 16]);
      let q0 = r.range(0, cap as i64) as usize;
      Case::D { cap, q0, l }
    }
  }
}

pub fn run(args: &Args) -> i32 {
  let mut out = CaseOut::new(
    args,
    "From Coq Require Import List ZArith.\nFrom RD Require Import Common.Corr C13.Sched C13.Model.\nImport ListNotations.\nOpen Scope Z_scope.",
    "check run obs_eqb ok",
    "case",
    "obs",
  );
  let thorough = args.tier == "thorough";
  let (runs, maxlen) = if thorough { (6, 3) } else { (4, 3) };
  let mut cases: Vec<Case> = corpus();
  let n_corpus = cases.len();
  let scheds = enumerate(runs, maxlen);
  for l in &scheds {
    cases.push(Case::A { n: 2, l: l.clone() });
  }
  for l in &scheds {
    cases.push(Case::D { cap: 2, q0: if l.len() % 2 == 0 { 0 } else { 2 }, l: l.clone() });
  }
  for l in &scheds {
    // leading burst of writes so that the queue is full when the interesting part starts
    let mut ll = vec![1u8; if l.len() % 3 == 0 { 0 } else { 2 }];
    ll.extend_from_slice(l);
    cases.push(Case::C { cap: 2, n: 5, l: ll });
  }
  for l in &scheds {
    // the producer has a head start of one full notification so that the consumer is not
    // simply blocked during the whole enumerated part
    let mut ll = vec![0u8; if l.len() % 2 == 0 { 4 } else { 0 }];
    ll.extend_from_slice(l);
    cases.push(Case::B { v08: true, n: 2, l: ll.clone() });
    cases.push(Case::B { v08: false, n: 2, l: ll });
  }
  for l in &scheds {
    cases.push(Case::S { n: 2, cap: 2, l: l.clone() });
  }
  let n_exh = cases.len() - n_corpus;
  let total = cases.len() + args.n;
  let mut max_us = 0u128;
  for idx in 0..total {
    if !args.only.map_or(true, |o| o == idx) {
      continue;
    }
    let (case, kind) = if idx < cases.len() {
      (cases[idx].clone(), if idx < n_corpus { "corpus" } else { "exhaustive" })
    } else {
      let mut r = Rng::for_case(args.seed, idx);
      (gen_random(&mut r), "random")
    };
    let t0 = std::time::Instant::now();
    let obs = case.run();
    max_us = max_us.max(t0.elapsed().as_micros());
    let l = case.sched();
    let mut tags = vec![
      format!("handshake:{}", case.name()),
      format!("gen:{}", kind),
      format!("switches:{}", switches(l).min(12)),
      format!("len:{}", (l.len() / 8) * 8),
    ];
    let nontrivial = match &obs {
      Obs::Obs { wakes, pends, .. } => {
        tags.push(format!("wakes:{}", (*wakes).min(5)));
        tags.push(format!("pendings:{}", (*pends).min(5)));
        *pends > 0 && switches(l) > 0
      }
      Obs::Hang => {
        tags.push("HANG".into());
        true
      }
      Obs::Panic => {
        tags.push("PANIC".into());
        true
      }
    };
    out.push(idx, case.coq(), obs.coq(), &tags, nontrivial);
  }
  out.extra.push(("exhaustive_bound".into(), util::json_str(&format!(
    "all schedules of at most {} runs ({} context switches) with run lengths 1..={}: {} schedules per handshake configuration, {} exhaustive cases",
    runs, runs - 1, maxlen, scheds.len(), n_exh))));
  out.extra.push(("max_case_us".into(), format!("{}", max_us)));
  out.finish()
}
