// C08 driver: a real best-effort with_key DataReader (live DomainParticipant) whose TopicCache gets
// CacheChanges (values and disposes of several instances, several writers) injected directly, with
// strictly increasing receive instants chosen by the driver; every read/take form of the DataReader
// is called and the complete SampleInfo of every returned sample is dumped (no timestamps).
use std::panic::{catch_unwind, AssertUnwindSafe};

use crate::{
  dds::{
    participant::DomainParticipant,
    qos::{policy, QosPolicies},
    readcondition::ReadCondition,
    sampleinfo::{InstanceState, SampleState, ViewState},
    topic::{TopicDescription, TopicKind},
    with_key,
    with_key::{datareader::SelectByKey, datasample::Sample, WriteOptions},
  },
  serialization::CDRDeserializerAdapter,
  structure::{
    cache_change::CacheChange, dds_cache::TopicCache, sequence_number::SequenceNumber,
    time::Timestamp,
  },
};
use super::{
  c09::{dds_data, value_of, writer_guid, Kind, Msg},
  util::{self, Args, CaseOut, Rng},
};

const DOMAIN: u16 = 91;

#[derive(Clone, Copy, Debug, PartialEq)]
enum Hist {
  None,
  KeepAll,
  KeepLast(i32),
}
#[derive(Clone, Copy, Debug, PartialEq)]
enum Cond {
  Any,
  NotRead,
}
#[derive(Clone, Debug)]
enum Form {
  Read(u64, Cond),
  Take(u64, Cond),
  ReadNext,
  TakeNext,
  Iter,
  IntoIter,
  CondIter(Cond),
  IntoCondIter(Cond),
  ReadInst(u64, Cond, Option<i32>, bool), // bool: Next
  TakeInst(u64, Cond, Option<i32>, bool),
}
#[derive(Clone, Debug)]
enum Op {
  Add(i64, i64, i32, bool), // writer, sn, key, is_value
  Call(Form),
}
#[derive(Clone, Debug)]
struct Case {
  hist: Hist,
  rl: Option<i32>,
  ops: Vec<Op>,
}

fn coq_cond(c: Cond) -> &'static str {
  match c {
    Cond::Any => "CAny",
    Cond::NotRead => "CNotRead",
  }
}
fn coq_key(k: &Option<i32>) -> String {
  util::opt(k.map(|k| util::z(k as i128)))
}
fn coq_form(f: &Form) -> String {
  let sel = |n: &bool| if *n { "Next" } else { "This" };
  match f {
    Form::Read(m, c) => format!("(FRead {} {})", m, coq_cond(*c)),
    Form::Take(m, c) => format!("(FTake {} {})", m, coq_cond(*c)),
    Form::ReadNext => "FReadNext".into(),
    Form::TakeNext => "FTakeNext".into(),
    Form::Iter => "FIter".into(),
    Form::IntoIter => "FIntoIter".into(),
    Form::CondIter(c) => format!("(FCondIter {})", coq_cond(*c)),
    Form::IntoCondIter(c) => format!("(FIntoCondIter {})", coq_cond(*c)),
    Form::ReadInst(m, c, k, n) => {
      format!("(FReadInst {} {} {} {})", m, coq_cond(*c), coq_key(k), sel(n))
    }
    Form::TakeInst(m, c, k, n) => {
      format!("(FTakeInst {} {} {} {})", m, coq_cond(*c), coq_key(k), sel(n))
    }
  }
}
fn coq_case(c: &Case) -> String {
  let h = match c.hist {
    Hist::None => "HNone".to_string(),
    Hist::KeepAll => "HKeepAll".to_string(),
    Hist::KeepLast(d) => format!("(HKeepLast {})", util::z(d as i128)),
  };
  let ops = c.ops.iter().map(|o| match o {
    Op::Add(w, sn, k, v) => format!(
      "OAdd {} {} {} {}",
      w,
      sn,
      util::z(*k as i128),
      if *v { format!("(Some {})", value_of(*w, *sn)) } else { "None".to_string() }
    ),
    Op::Call(f) => format!("OCall {}", coq_form(f)),
  });
  format!(
    "(mkCase (mkQos {} {}) {})",
    h,
    util::opt(c.rl.map(|x| util::z(x as i128))),
    util::list(ops)
  )
}

type Dr = with_key::DataReader<Msg, CDRDeserializerAdapter<Msg>>;

fn coq_info(i: &crate::dds::sampleinfo::SampleInfo, key: i32, val: Option<i32>) -> String {
  let id = i.sample_identity();
  format!(
    "(mkO 0 {} {} {} {} {} {} {} {} {} {} {} {})",
    id.writer_guid.entity_id.entity_key[2],
    i64::from(id.sequence_number),
    util::z(key as i128),
    util::opt(val.map(|v| util::z(v as i128))),
    util::b(i.sample_state() == SampleState::Read),
    util::b(i.view_state() == ViewState::New),
    util::b(i.instance_state() == InstanceState::Alive),
    util::z(i.disposed_generation_count() as i128),
    util::z(i.no_writers_generation_count() as i128),
    util::z(i.sample_rank() as i128),
    util::z(i.generation_rank() as i128),
    util::z(i.absolute_generation_rank() as i128),
  )
}
fn ds_ref(d: &with_key::DataSample<&Msg>) -> String {
  match d.value() {
    Sample::Value(m) => coq_info(d.sample_info(), m.k, Some(m.v)),
    Sample::Dispose(k) => coq_info(d.sample_info(), *k, None),
  }
}
fn ds_own(d: &with_key::DataSample<Msg>) -> String {
  match d.value() {
    Sample::Value(m) => coq_info(d.sample_info(), m.k, Some(m.v)),
    Sample::Dispose(k) => coq_info(d.sample_info(), *k, None),
  }
}
fn bare_ref(s: &Sample<&Msg, i32>) -> String {
  match s {
    Sample::Value(m) => format!("({}, Some {})", util::z(m.k as i128), util::z(m.v as i128)),
    Sample::Dispose(k) => format!("({}, None)", util::z(*k as i128)),
  }
}
fn bare_own(s: &Sample<Msg, i32>) -> String {
  match s {
    Sample::Value(m) => format!("({}, Some {})", util::z(m.k as i128), util::z(m.v as i128)),
    Sample::Dispose(k) => format!("({}, None)", util::z(*k as i128)),
  }
}

fn rc(c: Cond) -> ReadCondition {
  match c {
    Cond::Any => ReadCondition::any(),
    Cond::NotRead => ReadCondition::not_read(),
  }
}
fn umax(m: u64) -> usize {
  m.min(usize::MAX as u64) as usize
}
fn sel(next: bool) -> SelectByKey {
  if next {
    SelectByKey::Next
  } else {
    SelectByKey::This
  }
}

fn do_call(dr: &mut Dr, f: &Form) -> String {
  let vecs = |v: Vec<String>| format!("(RVec {})", util::list(v));
  let bares = |v: Vec<String>| format!("(RBare {})", util::list(v));
  let err = "RPanic (* Err *)".to_string();
  match f {
    Form::Read(m, c) => match dr.read(umax(*m), rc(*c)) {
      Ok(v) => vecs(v.iter().map(ds_ref).collect()),
      Err(_) => err,
    },
    Form::Take(m, c) => match dr.take(umax(*m), rc(*c)) {
      Ok(v) => vecs(v.iter().map(ds_own).collect()),
      Err(_) => err,
    },
    Form::ReadNext => match dr.read_next_sample() {
      Ok(x) => format!("(ROpt {})", util::opt(x.as_ref().map(ds_ref))),
      Err(_) => err,
    },
    Form::TakeNext => match dr.take_next_sample() {
      Ok(x) => format!("(ROpt {})", util::opt(x.as_ref().map(ds_own))),
      Err(_) => err,
    },
    Form::Iter => match dr.iterator() {
      Ok(i) => bares(i.map(|s| bare_ref(&s)).collect()),
      Err(_) => err,
    },
    Form::IntoIter => match dr.into_iterator() {
      Ok(i) => bares(i.map(|s| bare_own(&s)).collect()),
      Err(_) => err,
    },
    Form::CondIter(c) => match dr.conditional_iterator(rc(*c)) {
      Ok(i) => bares(i.map(|s| bare_ref(&s)).collect()),
      Err(_) => err,
    },
    Form::IntoCondIter(c) => match dr.into_conditional_iterator(rc(*c)) {
      Ok(i) => bares(i.map(|s| bare_own(&s)).collect()),
      Err(_) => err,
    },
    Form::ReadInst(m, c, k, n) => match dr.read_instance(umax(*m), rc(*c), *k, sel(*n)) {
      Ok(v) => vecs(v.iter().map(ds_ref).collect()),
      Err(_) => err,
    },
    Form::TakeInst(m, c, k, n) => match dr.take_instance(umax(*m), rc(*c), *k, sel(*n)) {
      Ok(v) => vecs(v.iter().map(ds_own).collect()),
      Err(_) => err,
    },
  }
}

fn case_qos(c: &Case) -> QosPolicies {
  let mut qos = QosPolicies::qos_none();
  qos.reliability = Some(policy::Reliability::BestEffort);
  qos.history = match c.hist {
    Hist::None => None,
    Hist::KeepAll => Some(policy::History::KeepAll),
    Hist::KeepLast(d) => Some(policy::History::KeepLast { depth: d }),
  };
  qos.resource_limits = c.rl.map(|m| policy::ResourceLimits {
    max_samples: 1000,
    max_instances: 100,
    max_samples_per_instance: m,
  });
  qos
}

fn run_case(dp: &DomainParticipant, c: &Case, uniq: &str) -> String {
  let qos = case_qos(c);
  let topic = dp
    .create_topic(format!("c08_{}", uniq), "C08Msg".to_string(), &qos, TopicKind::WithKey)
    .unwrap();
  let sub = dp.create_subscriber(&qos).unwrap();
  let mut dr: Dr = sub.create_datareader_cdr::<Msg>(&topic, Some(qos.clone())).unwrap();
  let topic_cache: std::sync::Arc<std::sync::Mutex<TopicCache>> =
    dp.dds_cache().read().unwrap().get_existing_topic_cache(&topic.name()).unwrap();
  // receive instants: strictly increasing, in the past
  let base_ticks = Timestamp::now().to_ticks() - (5u64 << 32);
  let mut n_added = 0u64;
  let mut out = Vec::new();
  for op in &c.ops {
    match op {
      Op::Add(w, sn, key, is_value) => {
        n_added += 1;
        let ts = Timestamp::from_ticks(base_ticks + n_added * 4096);
        let kind = if *is_value { Kind::Data(*key) } else { Kind::DisposeKey(*key) };
        let cc = CacheChange::new(
          writer_guid(*w),
          SequenceNumber::new(*sn),
          WriteOptions::from(None),
          dds_data(false, *w, *sn, &kind),
        );
        topic_cache.lock().unwrap().add_change(&ts, cc);
      }
      Op::Call(f) => match catch_unwind(AssertUnwindSafe(|| do_call(&mut dr, f))) {
        Ok(s) => out.push(s),
        Err(_) => {
          out.push("RPanic".into());
          break;
        }
      },
    }
  }
  util::list(out)
}

// ---------------------------------------------------------------------------------------------
fn gen_cond(r: &mut Rng) -> Cond {
  if r.chance(1, 2) {
    Cond::Any
  } else {
    Cond::NotRead
  }
}
fn gen_max(r: &mut Rng) -> u64 {
  *r.pick(&[0u64, 1, 1, 2, 3, 100, u64::MAX])
}
fn gen_form(r: &mut Rng, nkeys: i64) -> Form {
  let key = |r: &mut Rng| {
    if r.chance(1, 4) {
      None
    } else {
      Some(r.range(0, nkeys + 1) as i32)
    }
  };
  match r.below(16) {
    0..=2 => Form::Read(gen_max(r), gen_cond(r)),
    3..=5 => Form::Take(gen_max(r), gen_cond(r)),
    6 => Form::ReadNext,
    7 => Form::TakeNext,
    8 => Form::Iter,
    9 => Form::IntoIter,
    10 => Form::CondIter(gen_cond(r)),
    11 => Form::IntoCondIter(gen_cond(r)),
    12 | 13 => Form::ReadInst(gen_max(r), gen_cond(r), key(r), r.chance(1, 2)),
    _ => Form::TakeInst(gen_max(r), gen_cond(r), key(r), r.chance(1, 2)),
  }
}

fn gen_case(r: &mut Rng) -> Case {
  let hist_unused = ();
  let _ = hist_unused;
  let hist = *r.pick(&[
    Hist::None,
    Hist::KeepAll,
    Hist::KeepAll,
    Hist::KeepLast(1),
    Hist::KeepLast(2),
    Hist::KeepLast(3),
  ]);
  let rl = if r.chance(1, 3) { Some(*r.pick(&[1, 2, 3, 1, 2, 3, -1, 0])) } else { None };
  let nkeys = r.range(1, 4);
  let nwriters = r.range(1, 3);
  let nops = r.range(4, 26);
  let bare_ok = r.chance(1, 2); // half of the cases avoid the identity-less bare forms
  let mut next_sn = vec![1i64; 4];
  // a sequence number held back: it arrives after its successor (out-of-order arrival; the
  // sort by sequence number has to put the writer's samples back in order)
  let mut late: Vec<Option<i64>> = vec![None; 4];
  let reorder = r.chance(1, 3);
  let mut ops = Vec::new();
  let p_add = *r.pick(&[40u64, 55, 70]);
  let p_dispose = *r.pick(&[15u64, 30, 50]);
  for _ in 0..nops {
    if r.below(100) < p_add {
      let w = r.range(1, nwriters);
      let sn = if let Some(l) = late[w as usize].take() {
        l
      } else if reorder && r.chance(1, 4) {
        late[w as usize] = Some(next_sn[w as usize]);
        next_sn[w as usize] += 2;
        next_sn[w as usize] - 1
      } else {
        let sn = next_sn[w as usize];
        next_sn[w as usize] += if r.chance(1, 8) { 2 } else { 1 };
        sn
      };
      ops.push(Op::Add(w, sn, r.range(1, nkeys) as i32, r.below(100) >= p_dispose));
    } else {
      let mut f = gen_form(r, nkeys);
      if !bare_ok {
        while matches!(f, Form::Iter | Form::IntoIter | Form::CondIter(_) | Form::IntoCondIter(_)) {
          f = gen_form(r, nkeys);
        }
      }
      ops.push(Op::Call(f));
    }
  }
  ops.push(Op::Call(Form::Read(u64::MAX, Cond::Any)));
  Case { hist, rl, ops }
}

fn corpus() -> Vec<(&'static str, Case)> {
  let a = |w, sn, k, v| Op::Add(w, sn, k, v);
  let c = |f| Op::Call(f);
  let all = u64::MAX;
  let mut v = Vec::new();
  // F4: value, dispose, value on one key; read(all), read(max 1), read(all)
  v.push((
    "F4:read",
    Case {
      hist: Hist::KeepAll,
      rl: None,
      ops: vec![
        a(1, 1, 1, true),
        a(1, 2, 1, false),
        a(1, 3, 1, true),
        c(Form::Read(all, Cond::Any)),
        c(Form::Read(1, Cond::Any)),
        c(Form::Read(all, Cond::Any)),
      ],
    },
  ));
  v.push((
    "F4:read_instance+take",
    Case {
      hist: Hist::KeepLast(3),
      rl: None,
      ops: vec![
        a(1, 1, 2, true),
        a(2, 1, 2, false),
        a(1, 2, 2, true),
        c(Form::Iter),
        c(Form::ReadInst(1, Cond::Any, Some(2), false)),
        c(Form::Take(all, Cond::Any)),
      ],
    },
  ));
  // two generations, several instances and writers, ranks
  v.push((
    "generations",
    Case {
      hist: Hist::KeepAll,
      rl: None,
      ops: vec![
        a(1, 1, 1, true),
        a(2, 1, 2, false),
        a(1, 2, 1, false),
        a(2, 2, 2, true),
        a(1, 3, 1, true),
        a(3, 1, 1, false),
        a(3, 2, 1, false),
        a(1, 4, 1, true),
        c(Form::Read(all, Cond::NotRead)),
        a(2, 3, 3, true),
        c(Form::Read(2, Cond::NotRead)),
        c(Form::TakeInst(all, Cond::Any, Some(1), true)),
        c(Form::TakeInst(all, Cond::Any, None, false)),
        c(Form::ReadInst(all, Cond::Any, Some(3), true)),
        c(Form::Take(all, Cond::Any)),
      ],
    },
  ));
  // KeepLast with stale instance_samples entries of taken samples
  v.push((
    "keeplast:stale",
    Case {
      hist: Hist::KeepLast(2),
      rl: None,
      ops: vec![
        a(1, 1, 1, true),
        a(1, 2, 1, true),
        c(Form::ReadNext),
        c(Form::TakeNext),
        a(1, 3, 1, true),
        c(Form::Read(all, Cond::Any)),
        a(1, 4, 1, true),
        a(1, 5, 1, true),
        c(Form::Read(all, Cond::Any)),
      ],
    },
  ));
  v.push((
    "default-history",
    Case {
      hist: Hist::None,
      rl: Some(3),
      ops: vec![
        a(1, 1, 1, true),
        a(1, 2, 2, true),
        a(1, 3, 1, true),
        a(1, 4, 1, false),
        c(Form::Read(all, Cond::Any)),
      ],
    },
  ));
  v.push((
    "keepall:max_samples_per_instance",
    Case {
      hist: Hist::KeepAll,
      rl: Some(2),
      ops: vec![
        a(1, 1, 1, true),
        a(1, 2, 1, true),
        a(1, 3, 1, true),
        a(1, 4, 2, true),
        c(Form::Read(all, Cond::Any)),
      ],
    },
  ));
  // KeepAll with max_samples_per_instance = LENGTH_UNLIMITED (-1): nothing may be evicted
  v.push((
    "keepall:length_unlimited",
    Case {
      hist: Hist::KeepAll,
      rl: Some(-1),
      ops: vec![
        a(1, 1, 1, true),
        a(1, 2, 1, true),
        a(1, 3, 2, false),
        c(Form::Read(all, Cond::Any)),
        c(Form::Take(all, Cond::Any)),
      ],
    },
  ));
  // interleaved writers: sequence-number order inside one result
  v.push((
    "writer-order",
    Case {
      hist: Hist::KeepAll,
      rl: None,
      ops: vec![
        a(2, 5, 1, true),
        a(1, 2, 1, true),
        a(1, 1, 1, true),
        a(2, 6, 2, true),
        a(1, 4, 2, true),
        a(1, 3, 2, true),
        a(3, 1, 1, true),
        c(Form::Take(3, Cond::Any)),
        c(Form::Take(all, Cond::Any)),
      ],
    },
  ));
  v
}

fn tags_of(c: &Case, obs: &str) -> (Vec<String>, bool) {
  let mut t = vec![format!("hist:{:?}", c.hist), format!("rl:{:?}", c.rl)];
  let mut disposes = 0;
  let mut calls = 0;
  let mut adds = 0;
  let mut reborn = false;
  let mut disposed_keys = std::collections::BTreeSet::new();
  for o in &c.ops {
    match o {
      Op::Add(_, _, k, v) => {
        adds += 1;
        if *v {
          if disposed_keys.remove(k) {
            reborn = true;
          }
          t.push("add:value".into());
        } else {
          disposes += 1;
          disposed_keys.insert(*k);
          t.push("add:dispose".into());
        }
      }
      Op::Call(f) => {
        calls += 1;
        let n = coq_form(f);
        t.push(format!(
          "call:{}",
          n.trim_matches(|ch| ch == '(' || ch == ')').split(' ').next().unwrap()
        ));
      }
    }
  }
  t.push(format!("adds:{}", (adds / 4) * 4));
  t.push(format!("new-generation:{}", reborn));
  let mut last = std::collections::BTreeMap::new();
  let mut ooo = false;
  for o in &c.ops {
    if let Op::Add(w, sn, _, _) = o {
      if let Some(p) = last.insert(*w, *sn) {
        if p > *sn {
          ooo = true;
        }
      }
    }
  }
  t.push(format!("out-of-order-arrival:{}", ooo));
  let returned = obs.matches("(mkO ").count();
  t.push(format!("returned_samples:{}", (returned / 5) * 5));
  if obs.contains("RPanic") {
    t.push("res:PANIC".into());
  }
  (t, disposes > 0 && calls >= 2)
}

pub fn run(args: &Args) -> i32 {
  let mut out = CaseOut::new(
    args,
    "From Coq Require Import List ZArith.\nFrom RD Require Import Common.Corr C08.Model.\nImport ListNotations.\nOpen Scope Z_scope.",
    "check run obs_eqb ok",
    "case",
    "obs",
  );
  out.per_shard = 100;
  let dp = util::participant(DOMAIN);
  let corpus = corpus();
  let ncorpus = corpus.len();
  let total = ncorpus + args.n;
  for idx in 0..total {
    if args.only.map_or(true, |o| o == idx) {
      let (name, c) = if idx < ncorpus {
        (Some(corpus[idx].0), corpus[idx].1.clone())
      } else {
        let mut r = Rng::for_case(args.seed, idx);
        (None, gen_case(&mut r))
      };
      // entity creation talks to the participant's event loop over bounded channels; under load
      // it can fail transiently: that is not an observation, retry
      let mut obs = String::new();
      for attempt in 0..8 {
        let uniq = format!("{}_{}_{}", idx, attempt, Timestamp::now().to_ticks());
        match catch_unwind(AssertUnwindSafe(|| run_case(&dp, &c, &uniq))) {
          Ok(o) => {
            obs = o;
            break;
          }
          Err(_) => {
            obs = "[RPanic]".to_string();
            std::thread::sleep(std::time::Duration::from_millis(100 * (attempt + 1)));
          }
        }
      }
      let (mut tags, nontrivial) = tags_of(&c, &obs);
      if let Some(n) = name {
        tags.push(format!("corpus:{}", n));
      }
      out.push(idx, coq_case(&c), obs, &tags, nontrivial);
    }
  }
  out.finish()
}
