// C14 driver (probe stage)
use bytes::Bytes;
use enumflags2::BitFlags;
use speedy::{Endianness, Writable};

use super::util::Args;
use crate::{
  messages::submessages::{
    elements::{parameter::Parameter, parameter_list::ParameterList},
    submessages::*,
  },
  rtps::{Message, Submessage, SubmessageBody},
  structure::{
    guid::{EntityId, GuidPrefix},
    parameter_id::ParameterId,
    sequence_number::{FragmentNumber, SequenceNumber},
  },
};

pub fn run(_args: &Args) -> i32 {
  let df = DataFrag {
    reader_id: EntityId::UNKNOWN,
    writer_id: EntityId::UNKNOWN,
    writer_sn: SequenceNumber::new(1),
    fragment_starting_num: FragmentNumber::new(1),
    fragments_in_submessage: 1,
    data_size: 8,
    fragment_size: 4,
    inline_qos: Some(ParameterList { parameters: vec![Parameter { parameter_id: ParameterId::PID_KEY_HASH, value: vec![1, 2, 3, 4] }] }),
    serialized_payload: Bytes::from_static(&[9, 9, 9, 9]),
  };
  let flags = BitFlags::<DATAFRAG_Flags>::from_flag(DATAFRAG_Flags::Endianness) | DATAFRAG_Flags::InlineQos;
  let sm = Submessage {
    header: SubmessageHeader { kind: SubmessageKind::DATA_FRAG, flags: flags.bits(), content_length: df.len_serialized() as u16 },
    body: SubmessageBody::Writer(WriterSubmessage::DataFrag(df, flags)),
    original_bytes: None,
  };
  let mut m = Message::new(crate::messages::header::Header::new(GuidPrefix::UNKNOWN));
  m.add_submessage(sm);
  let b = m.write_to_vec_with_ctx(Endianness::LittleEndian).unwrap();
  println!("{:?}", &b[20..]);
  println!("{:?}", Message::read_from_buffer(&Bytes::from(b)));
  0
}
