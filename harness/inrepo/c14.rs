// C14 — every RTPS message this implementation emits parses back to itself.
//
// Cases (coq/theories/C14/Model.v):
//   CMsg ctx header ops : submessages produced by the real MessageBuilder, the real
//                         create_submessage functions and Submessage literals; serialised with
//                         write_to_vec_with_ctx in both contexts; parsed with
//                         Message::read_from_buffer; the parsed message serialised again.
//   CBytes bs           : hostile stream (truncations, wrong lengths, flipped bytes, random tails).
//   CNumSet k base set  : table tie of NumberSet::from_base_and_set / iter / write / read.
//   CNumRaw k e base bits words extra : a NumberSet as it arrives on the wire (raw parts written by
//                         the real writer, extra bytes appended, parsed by the real reader) and
//                         what base(), iter(), iter().rev(), next()/next_back() alternately and
//                         is_empty() report for the parsed set.
// The observation renders the implementation's own structures in the model's constructors.
use std::{
  collections::BTreeSet,
  net::{Ipv4Addr, Ipv6Addr, SocketAddrV4, SocketAddrV6},
  panic::{catch_unwind, AssertUnwindSafe},
};

use bytes::Bytes;
use enumflags2::BitFlags;
use speedy::{Endianness, Readable, Writable};

use super::util::{self, Args, CaseOut, Rng};
use crate::{
  dds::{ddsdata::DDSData, key::KeyHash, with_key::datawriter::WriteOptionsBuilder},
  messages::{
    header::Header,
    protocol_id::ProtocolId,
    protocol_version::ProtocolVersion,
    submessages::{
      elements::{
        parameter::Parameter, parameter_list::ParameterList, serialized_payload::SerializedPayload,
      },
      info_source::InfoSource,
      submessages::*,
    },
    vendor_id::VendorId,
  },
  rtps::{Message, MessageBuilder, Submessage, SubmessageBody},
  structure::{
    cache_change::{CacheChange, ChangeKind},
    guid::{EntityId, GuidPrefix, GUID},
    locator::Locator,
    parameter_id::ParameterId,
    rpc::SampleIdentity,
    sequence_number::{
      FragmentNumber, FragmentNumberSet, NumberSet, SequenceNumber, SequenceNumberSet,
    },
    time::Timestamp,
  },
  RepresentationIdentifier,
};

// ------------------------------------------------------------------------------------------------
// abstract values shared by the generator, the executor and the printer

type E = Endianness;

#[derive(Clone, Debug)]
struct NSet {
  base: i64,
  bits: u32,
  words: Vec<u32>,
}

#[derive(Clone, Debug)]
enum Loc {
  Invalid,
  Reserved,
  V4([u8; 4], u16),
  V6([u8; 16], u16, u32, u32),
  Other(i32, u32, [u8; 16]),
}

type Params = Vec<(u16, Vec<u8>)>;

#[derive(Clone, Debug)]
enum Body {
  Data { rd: [u8; 4], wr: [u8; 4], sn: i64, iq: Option<Params>, pl: Option<Vec<u8>> },
  DataFrag {
    rd: [u8; 4],
    wr: [u8; 4],
    sn: i64,
    fsn: u32,
    fis: u16,
    dsz: u32,
    fsz: u16,
    iq: Option<Params>,
    pl: Vec<u8>,
  },
  Gap { rd: [u8; 4], wr: [u8; 4], start: i64, gl: NSet },
  Heartbeat { rd: [u8; 4], wr: [u8; 4], first: i64, last: i64, count: i32 },
  HeartbeatFrag { rd: [u8; 4], wr: [u8; 4], sn: i64, lastf: u32, count: i32 },
  AckNack { rd: [u8; 4], wr: [u8; 4], st: NSet, count: i32 },
  NackFrag { rd: [u8; 4], wr: [u8; 4], sn: i64, st: NSet, count: i32 },
  InfoTs(Option<(u32, u32)>),
  InfoDst([u8; 12]),
  InfoSrc { unused: u32, major: u8, minor: u8, vendor: [u8; 2], prefix: [u8; 12] },
  InfoReply { uni: Vec<Loc>, multi: Option<Vec<Loc>> },
}

#[derive(Clone, Debug)]
enum DD {
  Data(Vec<u8>), // representation id (2) ++ options (2) ++ value
  Key(Vec<u8>),
  Hash([u8; 16]),
}

#[derive(Clone, Debug)]
enum Op {
  Dst(E, [u8; 12]),
  Ts(E, Option<(u32, u32)>),
  Data(E, DD, i64, Option<([u8; 16], i64)>, [u8; 4], [u8; 4]),
  DataFrag(E, DD, i64, Option<([u8; 16], i64)>, [u8; 4], [u8; 4], u32, u16, u32),
  Gap(E, Vec<i64>, [u8; 4], [u8; 4]),
  GapBefore(E, i64, [u8; 4], [u8; 4]),
  Heartbeat(E, [u8; 4], i64, i64, i32, [u8; 4], bool, bool),
  Create(u8, Body),
  Raw { kind: u8, flags: u8, len: u16, bflags: u8, body: Body },
}

#[derive(Clone, Debug)]
struct Hdr {
  proto: [u8; 4],
  major: u8,
  minor: u8,
  vendor: [u8; 2],
  prefix: [u8; 12],
}

// ------------------------------------------------------------------------------------------------
// Coq printing

fn coq_e(e: E) -> &'static str {
  if e == Endianness::LittleEndian {
    "LE"
  } else {
    "BE"
  }
}
fn zi(i: i128) -> String {
  util::z(i)
}
fn coq_params(p: &Params) -> String {
  util::list(p.iter().map(|(id, v)| format!("({}, {})", id, util::bytes(v))))
}
fn coq_oparams(p: &Option<Params>) -> String {
  util::opt(p.as_ref().map(coq_params))
}
fn coq_ns(s: &NSet) -> String {
  format!(
    "(NS {} {} {})",
    zi(s.base as i128),
    s.bits,
    util::list(s.words.iter().map(|w| w.to_string()))
  )
}
fn coq_loc(l: &Loc) -> String {
  match l {
    Loc::Invalid => "LInvalid".to_string(),
    Loc::Reserved => "LReserved".to_string(),
    Loc::V4(a, p) => format!("(LUdpV4 {} {} {} {} {})", a[0], a[1], a[2], a[3], p),
    Loc::V6(a, p, f, s) => format!("(LUdpV6 {} {} {} {})", util::bytes(a), p, f, s),
    Loc::Other(k, p, a) => format!("(LOther {} {} {})", zi(*k as i128), p, util::bytes(a)),
  }
}
fn coq_locs(l: &[Loc]) -> String {
  util::list(l.iter().map(coq_loc))
}
fn coq_body(b: &Body) -> String {
  match b {
    Body::Data { rd, wr, sn, iq, pl } => format!(
      "(BData {} {} {} {} {})",
      util::bytes(rd),
      util::bytes(wr),
      zi(*sn as i128),
      coq_oparams(iq),
      util::opt(pl.as_ref().map(|p| util::bytes(p)))
    ),
    Body::DataFrag { rd, wr, sn, fsn, fis, dsz, fsz, iq, pl } => format!(
      "(BDataFrag {} {} {} {} {} {} {} {} {})",
      util::bytes(rd),
      util::bytes(wr),
      zi(*sn as i128),
      fsn,
      fis,
      dsz,
      fsz,
      coq_oparams(iq),
      util::bytes(pl)
    ),
    Body::Gap { rd, wr, start, gl } => format!(
      "(BGap {} {} {} {})",
      util::bytes(rd),
      util::bytes(wr),
      zi(*start as i128),
      coq_ns(gl)
    ),
    Body::Heartbeat { rd, wr, first, last, count } => format!(
      "(BHeartbeat {} {} {} {} {})",
      util::bytes(rd),
      util::bytes(wr),
      zi(*first as i128),
      zi(*last as i128),
      zi(*count as i128)
    ),
    Body::HeartbeatFrag { rd, wr, sn, lastf, count } => format!(
      "(BHeartbeatFrag {} {} {} {} {})",
      util::bytes(rd),
      util::bytes(wr),
      zi(*sn as i128),
      lastf,
      zi(*count as i128)
    ),
    Body::AckNack { rd, wr, st, count } => format!(
      "(BAckNack {} {} {} {})",
      util::bytes(rd),
      util::bytes(wr),
      coq_ns(st),
      zi(*count as i128)
    ),
    Body::NackFrag { rd, wr, sn, st, count } => format!(
      "(BNackFrag {} {} {} {} {})",
      util::bytes(rd),
      util::bytes(wr),
      zi(*sn as i128),
      coq_ns(st),
      zi(*count as i128)
    ),
    Body::InfoTs(ts) => format!(
      "(BInfoTs {})",
      util::opt(ts.map(|(s, f)| format!("({}, {})", s, f)))
    ),
    Body::InfoDst(p) => format!("(BInfoDst {})", util::bytes(p)),
    Body::InfoSrc { unused, major, minor, vendor, prefix } => format!(
      "(BInfoSrc {} {} {} {} {})",
      unused,
      major,
      minor,
      util::bytes(vendor),
      util::bytes(prefix)
    ),
    Body::InfoReply { uni, multi } => format!(
      "(BInfoReply {} {})",
      coq_locs(uni),
      util::opt(multi.as_ref().map(|m| coq_locs(m)))
    ),
  }
}
fn coq_dd(d: &DD) -> String {
  match d {
    DD::Data(b) => format!("(DData {})", util::bytes(b)),
    DD::Key(b) => format!("(DDisposeByKey {})", util::bytes(b)),
    DD::Hash(h) => format!("(DDisposeByKeyHash {})", util::bytes(h)),
  }
}
fn coq_rsi(r: &Option<([u8; 16], i64)>) -> String {
  util::opt(r.as_ref().map(|(g, sn)| format!("({}, {})", util::bytes(g), zi(*sn as i128))))
}
fn coq_sub(kind: u8, flags: u8, len: u16, bflags: u8, body: &Body) -> String {
  format!("(SM {} {} {} {} {})", kind, flags, len, bflags, coq_body(body))
}
fn coq_op(o: &Op) -> String {
  match o {
    Op::Dst(e, p) => format!("(OpDst {} {})", coq_e(*e), util::bytes(p)),
    Op::Ts(e, ts) => format!(
      "(OpTs {} {})",
      coq_e(*e),
      util::opt(ts.map(|(s, f)| format!("({}, {})", s, f)))
    ),
    Op::Data(e, d, sn, rsi, rd, wr) => format!(
      "(OpData {} {} {} {} {} {})",
      coq_e(*e),
      coq_dd(d),
      zi(*sn as i128),
      coq_rsi(rsi),
      util::bytes(rd),
      util::bytes(wr)
    ),
    Op::DataFrag(e, d, sn, rsi, rd, wr, fnum, fsize, ssize) => format!(
      "(OpDataFrag {} {} {} {} {} {} {} {} {})",
      coq_e(*e),
      coq_dd(d),
      zi(*sn as i128),
      coq_rsi(rsi),
      util::bytes(rd),
      util::bytes(wr),
      fnum,
      fsize,
      ssize
    ),
    Op::Gap(e, sns, wr, rd) => format!(
      "(OpGap {} {} {} {})",
      coq_e(*e),
      util::list(sns.iter().map(|s| zi(*s as i128))),
      util::bytes(wr),
      util::bytes(rd)
    ),
    Op::GapBefore(e, sn, wr, rd) => format!(
      "(OpGapBefore {} {} {} {})",
      coq_e(*e),
      zi(*sn as i128),
      util::bytes(wr),
      util::bytes(rd)
    ),
    Op::Heartbeat(e, wr, first, last, count, rd, fin, liv) => format!(
      "(OpHeartbeat {} {} {} {} {} {} {} {})",
      coq_e(*e),
      util::bytes(wr),
      zi(*first as i128),
      zi(*last as i128),
      zi(*count as i128),
      util::bytes(rd),
      util::b(*fin),
      util::b(*liv)
    ),
    Op::Create(f, b) => format!("(OpCreate {} {})", f, coq_body(b)),
    Op::Raw { kind, flags, len, bflags, body } => {
      format!("(OpRaw {})", coq_sub(*kind, *flags, *len, *bflags, body))
    }
  }
}
fn coq_hdr(h: &Hdr) -> String {
  format!(
    "(MH {} {} {} {} {})",
    util::bytes(&h.proto),
    h.major,
    h.minor,
    util::bytes(&h.vendor),
    util::bytes(&h.prefix)
  )
}

// ------------------------------------------------------------------------------------------------
// abstract -> real

fn eid(b: &[u8; 4]) -> EntityId {
  EntityId { entity_key: [b[0], b[1], b[2]], entity_kind: b[3].into() }
}
fn prefix(b: &[u8; 12]) -> GuidPrefix {
  GuidPrefix { bytes: *b }
}
fn sn(v: i64) -> SequenceNumber {
  SequenceNumber::new(v)
}
fn pid_from_u16(p: u16) -> ParameterId {
  // ParameterId's field is private; its derived Readable is the constructor for arbitrary ids
  ParameterId::read_from_buffer_with_ctx(Endianness::LittleEndian, &p.to_le_bytes()).unwrap()
}
fn pid_to_u16(p: &ParameterId) -> u16 {
  let b = p.write_to_vec_with_ctx(Endianness::LittleEndian).unwrap();
  u16::from_le_bytes([b[0], b[1]])
}
fn real_params(p: &Params) -> ParameterList {
  ParameterList {
    parameters: p
      .iter()
      .map(|(id, v)| Parameter { parameter_id: pid_from_u16(*id), value: v.clone() })
      .collect(),
  }
}
fn real_sns(s: &NSet) -> SequenceNumberSet {
  SequenceNumberSet::verif_from_parts(sn(s.base), s.bits, s.words.clone())
}
fn real_fns(s: &NSet) -> FragmentNumberSet {
  FragmentNumberSet::verif_from_parts(FragmentNumber::new(s.base as u32), s.bits, s.words.clone())
}
fn real_loc(l: &Loc) -> Locator {
  match l {
    Loc::Invalid => Locator::Invalid,
    Loc::Reserved => Locator::Reserved,
    Loc::V4(a, p) => Locator::UdpV4(SocketAddrV4::new(Ipv4Addr::new(a[0], a[1], a[2], a[3]), *p)),
    Loc::V6(a, p, f, s) => Locator::UdpV6(SocketAddrV6::new(Ipv6Addr::from(*a), *p, *f, *s)),
    Loc::Other(k, p, a) => Locator::Other { kind: *k, port: *p, address: *a },
  }
}
fn real_header(h: &Hdr) -> Header {
  Header {
    protocol_id: ProtocolId::read_from_buffer_with_ctx(Endianness::LittleEndian, &h.proto).unwrap(),
    protocol_version: ProtocolVersion { major: h.major, minor: h.minor },
    vendor_id: VendorId { vendor_id: h.vendor },
    guid_prefix: prefix(&h.prefix),
  }
}

/// a Submessage literal for `body` with the given header fields and typed flags from `bflags`
fn literal(kind: u8, flags: u8, len: Option<u16>, bflags: u8, body: &Body) -> Submessage {
  let k = SubmessageKind::read_from_buffer_with_ctx(Endianness::LittleEndian, &[kind]).unwrap();
  let (b, l): (SubmessageBody, u16) = match body {
    Body::Data { rd, wr, sn: s, iq, pl } => {
      let d = Data {
        reader_id: eid(rd),
        writer_id: eid(wr),
        writer_sn: sn(*s),
        inline_qos: iq.as_ref().map(real_params),
        serialized_payload: pl.as_ref().map(|p| Bytes::from(p.clone())),
      };
      let l = d.len_serialized() as u16;
      (
        SubmessageBody::Writer(WriterSubmessage::Data(d, BitFlags::from_bits_truncate(bflags))),
        l,
      )
    }
    Body::DataFrag { rd, wr, sn: s, fsn, fis, dsz, fsz, iq, pl } => {
      let d = DataFrag {
        reader_id: eid(rd),
        writer_id: eid(wr),
        writer_sn: sn(*s),
        fragment_starting_num: FragmentNumber::new(*fsn),
        fragments_in_submessage: *fis,
        data_size: *dsz,
        fragment_size: *fsz,
        inline_qos: iq.as_ref().map(real_params),
        serialized_payload: Bytes::from(pl.clone()),
      };
      let l = d.len_serialized() as u16;
      (
        SubmessageBody::Writer(WriterSubmessage::DataFrag(
          d,
          BitFlags::from_bits_truncate(bflags),
        )),
        l,
      )
    }
    Body::Gap { rd, wr, start, gl } => {
      let g = Gap {
        reader_id: eid(rd),
        writer_id: eid(wr),
        gap_start: sn(*start),
        gap_list: real_sns(gl),
      };
      let l = g.write_to_vec().unwrap().len() as u16;
      (SubmessageBody::Writer(WriterSubmessage::Gap(g, BitFlags::from_bits_truncate(bflags))), l)
    }
    Body::Heartbeat { rd, wr, first, last, count } => {
      let h = Heartbeat {
        reader_id: eid(rd),
        writer_id: eid(wr),
        first_sn: sn(*first),
        last_sn: sn(*last),
        count: *count,
      };
      (
        SubmessageBody::Writer(WriterSubmessage::Heartbeat(
          h,
          BitFlags::from_bits_truncate(bflags),
        )),
        28,
      )
    }
    Body::HeartbeatFrag { rd, wr, sn: s, lastf, count } => {
      let h = HeartbeatFrag {
        reader_id: eid(rd),
        writer_id: eid(wr),
        writer_sn: sn(*s),
        last_fragment_num: FragmentNumber::new(*lastf),
        count: *count,
      };
      (
        SubmessageBody::Writer(WriterSubmessage::HeartbeatFrag(
          h,
          BitFlags::from_bits_truncate(bflags),
        )),
        24,
      )
    }
    Body::AckNack { rd, wr, st, count } => {
      let a = AckNack {
        reader_id: eid(rd),
        writer_id: eid(wr),
        reader_sn_state: real_sns(st),
        count: *count,
      };
      let l = a.len_serialized() as u16;
      (
        SubmessageBody::Reader(ReaderSubmessage::AckNack(a, BitFlags::from_bits_truncate(bflags))),
        l,
      )
    }
    Body::NackFrag { rd, wr, sn: s, st, count } => {
      let a = NackFrag {
        reader_id: eid(rd),
        writer_id: eid(wr),
        writer_sn: sn(*s),
        fragment_number_state: real_fns(st),
        count: *count,
      };
      let l = a.len_serialized() as u16;
      (
        SubmessageBody::Reader(ReaderSubmessage::NackFrag(
          a,
          BitFlags::from_bits_truncate(bflags),
        )),
        l,
      )
    }
    Body::InfoTs(ts) => {
      let t = InfoTimestamp {
        timestamp: ts.map(|(s, f)| Timestamp::from_ticks(((s as u64) << 32) + f as u64)),
      };
      (
        SubmessageBody::Interpreter(InterpreterSubmessage::InfoTimestamp(
          t,
          BitFlags::from_bits_truncate(bflags),
        )),
        if ts.is_some() { 8 } else { 0 },
      )
    }
    Body::InfoDst(p) => {
      let d = InfoDestination { guid_prefix: prefix(p) };
      (
        SubmessageBody::Interpreter(InterpreterSubmessage::InfoDestination(
          d,
          BitFlags::from_bits_truncate(bflags),
        )),
        12,
      )
    }
    Body::InfoSrc { unused, major, minor, vendor, prefix: p } => {
      let s = InfoSource {
        unused: *unused,
        protocol_version: ProtocolVersion { major: *major, minor: *minor },
        vendor_id: VendorId { vendor_id: *vendor },
        guid_prefix: prefix(p),
      };
      (
        SubmessageBody::Interpreter(InterpreterSubmessage::InfoSource(
          s,
          BitFlags::from_bits_truncate(bflags),
        )),
        20,
      )
    }
    Body::InfoReply { uni, multi } => {
      let r = InfoReply {
        unicast_locator_list: uni.iter().map(real_loc).collect(),
        multicast_locator_list: multi.as_ref().map(|m| m.iter().map(real_loc).collect()),
      };
      let l = r.write_to_vec().unwrap().len() as u16;
      (
        SubmessageBody::Interpreter(InterpreterSubmessage::InfoReply(
          r,
          BitFlags::from_bits_truncate(bflags),
        )),
        l,
      )
    }
  };
  Submessage {
    header: SubmessageHeader { kind: k, flags, content_length: len.unwrap_or(l) },
    body: b,
    original_bytes: None,
  }
}

/// X { .. }.create_submessage(flags) where the code has such a function, a literal otherwise
fn create(f: u8, body: &Body) -> Option<Submessage> {
  match body {
    Body::Gap { rd, wr, start, gl } => Gap {
      reader_id: eid(rd),
      writer_id: eid(wr),
      gap_start: sn(*start),
      gap_list: real_sns(gl),
    }
    .create_submessage(BitFlags::from_bits_truncate(f)),
    Body::Heartbeat { rd, wr, first, last, count } => Heartbeat {
      reader_id: eid(rd),
      writer_id: eid(wr),
      first_sn: sn(*first),
      last_sn: sn(*last),
      count: *count,
    }
    .create_submessage(BitFlags::from_bits_truncate(f)),
    Body::AckNack { rd, wr, st, count } => Some(
      AckNack {
        reader_id: eid(rd),
        writer_id: eid(wr),
        reader_sn_state: real_sns(st),
        count: *count,
      }
      .create_submessage(BitFlags::from_bits_truncate(f)),
    ),
    Body::NackFrag { rd, wr, sn: s, st, count } => Some(
      NackFrag {
        reader_id: eid(rd),
        writer_id: eid(wr),
        writer_sn: sn(*s),
        fragment_number_state: real_fns(st),
        count: *count,
      }
      .create_submessage(BitFlags::from_bits_truncate(f)),
    ),
    Body::InfoDst(p) => Some(
      InfoDestination { guid_prefix: prefix(p) }.create_submessage(BitFlags::from_bits_truncate(f)),
    ),
    Body::InfoSrc { unused, major, minor, vendor, prefix: p } => Some(
      InfoSource {
        unused: *unused,
        protocol_version: ProtocolVersion { major: *major, minor: *minor },
        vendor_id: VendorId { vendor_id: *vendor },
        guid_prefix: prefix(p),
      }
      .create_submessage(BitFlags::from_bits_truncate(f)),
    ),
    other => Some(literal(kind_of(other), f, None, f, other)),
  }
}

fn kind_of(b: &Body) -> u8 {
  match b {
    Body::Data { .. } => 0x15,
    Body::DataFrag { .. } => 0x16,
    Body::Gap { .. } => 0x08,
    Body::Heartbeat { .. } => 0x07,
    Body::HeartbeatFrag { .. } => 0x13,
    Body::AckNack { .. } => 0x06,
    Body::NackFrag { .. } => 0x12,
    Body::InfoTs(_) => 0x09,
    Body::InfoDst(_) => 0x0e,
    Body::InfoSrc { .. } => 0x0c,
    Body::InfoReply { .. } => 0x0f,
  }
}
fn fmask(kind: u8) -> u8 {
  match kind {
    0x06 => 3,
    0x15 => 31,
    0x16 => 15,
    0x07 => 7,
    0x09 => 3,
    0x0f => 3,
    _ => 1,
  }
}

fn cache_change(d: &DD, s: i64, rsi: &Option<([u8; 16], i64)>, wr: &[u8; 4]) -> CacheChange {
  let sp = |b: &Vec<u8>| SerializedPayload {
    representation_identifier: RepresentationIdentifier { bytes: [b[0], b[1]] },
    representation_options: [b[2], b[3]],
    value: Bytes::from(b[4..].to_vec()),
  };
  let dv = match d {
    DD::Data(b) => DDSData::new(sp(b)),
    DD::Key(b) => DDSData::new_disposed_by_key(ChangeKind::NotAliveDisposed, sp(b)),
    DD::Hash(h) => DDSData::new_disposed_by_key_hash(
      ChangeKind::NotAliveDisposed,
      KeyHash::from_pl_cdr_bytes(h.to_vec()).unwrap(),
    ),
  };
  let mut wo = WriteOptionsBuilder::new();
  if let Some((g, rs)) = rsi {
    let mut p = [0u8; 12];
    p.copy_from_slice(&g[..12]);
    let mut e4 = [0u8; 4];
    e4.copy_from_slice(&g[12..]);
    wo = wo.related_sample_identity(SampleIdentity {
      writer_guid: GUID { prefix: prefix(&p), entity_id: eid(&e4) },
      sequence_number: sn(*rs),
    });
  }
  CacheChange::new(
    GUID { prefix: GuidPrefix::UNKNOWN, entity_id: eid(wr) },
    sn(s),
    wo.build(),
    dv,
  )
}

fn apply(mb: MessageBuilder, o: &Op) -> MessageBuilder {
  match o {
    Op::Dst(e, p) => mb.dst_submessage(*e, prefix(p)),
    Op::Ts(e, ts) => mb.ts_msg(
      *e,
      ts.map(|(s, f)| Timestamp::from_ticks(((s as u64) << 32) + f as u64)),
    ),
    Op::Data(e, d, s, rsi, rd, wr) => {
      let cc = cache_change(d, *s, rsi, wr);
      mb.data_msg(
        &cc,
        eid(rd),
        GUID { prefix: GuidPrefix::UNKNOWN, entity_id: eid(wr) },
        *e,
        None,
      )
    }
    Op::DataFrag(e, d, s, rsi, rd, wr, fnum, fsize, ssize) => {
      let cc = cache_change(d, *s, rsi, wr);
      mb.data_frag_msg(
        &cc,
        eid(rd),
        GUID { prefix: GuidPrefix::UNKNOWN, entity_id: eid(wr) },
        FragmentNumber::new(*fnum),
        *fsize,
        *ssize,
        *e,
        None,
      )
    }
    Op::Gap(e, sns, wr, rd) => {
      let set: BTreeSet<SequenceNumber> = sns.iter().map(|s| sn(*s)).collect();
      mb.gap_msg(&set, eid(wr), *e, GUID { prefix: GuidPrefix::UNKNOWN, entity_id: eid(rd) })
    }
    Op::GapBefore(e, s, wr, rd) => mb.gap_msg_before(
      sn(*s),
      eid(wr),
      *e,
      GUID { prefix: GuidPrefix::UNKNOWN, entity_id: eid(rd) },
    ),
    Op::Heartbeat(e, wr, first, last, count, rd, fin, liv) => {
      mb.heartbeat_msg(eid(wr), sn(*first), sn(*last), *count, *e, eid(rd), *fin, *liv)
    }
    Op::Create(..) | Op::Raw { .. } => unreachable!(),
  }
}

/// Runs the ops on the real code.  Builder ops go through one MessageBuilder each (its vector is
/// private; add_header_and_build hands the submessages out).
fn build_real(h: &Hdr, ops: &[Op]) -> Message {
  let mut m = Message::new(real_header(h));
  for o in ops {
    match o {
      Op::Create(f, b) => {
        if let Some(s) = create(*f, b) {
          m.add_submessage(s);
        }
      }
      Op::Raw { kind, flags, len, bflags, body } => {
        m.add_submessage(literal(*kind, *flags, Some(*len), *bflags, body));
      }
      other => {
        let built = apply(MessageBuilder::new(), other).add_header_and_build(GuidPrefix::UNKNOWN);
        for s in built.submessages {
          m.add_submessage(s);
        }
      }
    }
  }
  m
}

// ------------------------------------------------------------------------------------------------
// real -> abstract (for the observation)

fn eid_b(e: &EntityId) -> [u8; 4] {
  [e.entity_key[0], e.entity_key[1], e.entity_key[2], u8::from(e.entity_kind)]
}
fn abs_params(p: &ParameterList) -> Params {
  p.parameters.iter().map(|q| (pid_to_u16(&q.parameter_id), q.value.clone())).collect()
}
fn abs_sns(s: &SequenceNumberSet) -> NSet {
  let (b, n, w) = s.verif_parts();
  NSet { base: i64::from(b), bits: n, words: w }
}
fn abs_fns(s: &FragmentNumberSet) -> NSet {
  let (b, n, w) = s.verif_parts();
  NSet { base: i64::from(b), bits: n, words: w }
}
fn abs_loc(l: &Locator) -> Loc {
  match l {
    Locator::Invalid => Loc::Invalid,
    Locator::Reserved => Loc::Reserved,
    Locator::UdpV4(sa) => Loc::V4(sa.ip().octets(), sa.port()),
    Locator::UdpV6(sa) => Loc::V6(sa.ip().octets(), sa.port(), sa.flowinfo(), sa.scope_id()),
    Locator::Other { kind, port, address } => Loc::Other(*kind, *port, *address),
  }
}
/// None = a security submessage (outside the model)
fn abs_sub(s: &Submessage) -> Option<String> {
  let k = u8::from(s.header.kind);
  let (bf, body): (u8, Body) = match &s.body {
    SubmessageBody::Writer(WriterSubmessage::Data(d, f)) => (
      f.bits(),
      Body::Data {
        rd: eid_b(&d.reader_id),
        wr: eid_b(&d.writer_id),
        sn: i64::from(d.writer_sn),
        iq: d.inline_qos.as_ref().map(abs_params),
        pl: d.serialized_payload.as_ref().map(|b| b.to_vec()),
      },
    ),
    SubmessageBody::Writer(WriterSubmessage::DataFrag(d, f)) => (
      f.bits(),
      Body::DataFrag {
        rd: eid_b(&d.reader_id),
        wr: eid_b(&d.writer_id),
        sn: i64::from(d.writer_sn),
        fsn: u32::from(d.fragment_starting_num),
        fis: d.fragments_in_submessage,
        dsz: d.data_size,
        fsz: d.fragment_size,
        iq: d.inline_qos.as_ref().map(abs_params),
        pl: d.serialized_payload.to_vec(),
      },
    ),
    SubmessageBody::Writer(WriterSubmessage::Gap(g, f)) => (
      f.bits(),
      Body::Gap {
        rd: eid_b(&g.reader_id),
        wr: eid_b(&g.writer_id),
        start: i64::from(g.gap_start),
        gl: abs_sns(&g.gap_list),
      },
    ),
    SubmessageBody::Writer(WriterSubmessage::Heartbeat(h, f)) => (
      f.bits(),
      Body::Heartbeat {
        rd: eid_b(&h.reader_id),
        wr: eid_b(&h.writer_id),
        first: i64::from(h.first_sn),
        last: i64::from(h.last_sn),
        count: h.count,
      },
    ),
    SubmessageBody::Writer(WriterSubmessage::HeartbeatFrag(h, f)) => (
      f.bits(),
      Body::HeartbeatFrag {
        rd: eid_b(&h.reader_id),
        wr: eid_b(&h.writer_id),
        sn: i64::from(h.writer_sn),
        lastf: u32::from(h.last_fragment_num),
        count: h.count,
      },
    ),
    SubmessageBody::Reader(ReaderSubmessage::AckNack(a, f)) => (
      f.bits(),
      Body::AckNack {
        rd: eid_b(&a.reader_id),
        wr: eid_b(&a.writer_id),
        st: abs_sns(&a.reader_sn_state),
        count: a.count,
      },
    ),
    SubmessageBody::Reader(ReaderSubmessage::NackFrag(a, f)) => (
      f.bits(),
      Body::NackFrag {
        rd: eid_b(&a.reader_id),
        wr: eid_b(&a.writer_id),
        sn: i64::from(a.writer_sn),
        st: abs_fns(&a.fragment_number_state),
        count: a.count,
      },
    ),
    SubmessageBody::Interpreter(InterpreterSubmessage::InfoTimestamp(t, f)) => (
      f.bits(),
      Body::InfoTs(t.timestamp.map(|ts| {
        let k = ts.to_ticks();
        ((k >> 32) as u32, k as u32)
      })),
    ),
    SubmessageBody::Interpreter(InterpreterSubmessage::InfoDestination(d, f)) => {
      (f.bits(), Body::InfoDst(d.guid_prefix.bytes))
    }
    SubmessageBody::Interpreter(InterpreterSubmessage::InfoSource(i, f)) => (
      f.bits(),
      Body::InfoSrc {
        unused: i.unused,
        major: i.protocol_version.major,
        minor: i.protocol_version.minor,
        vendor: i.vendor_id.vendor_id,
        prefix: i.guid_prefix.bytes,
      },
    ),
    SubmessageBody::Interpreter(InterpreterSubmessage::InfoReply(r, f)) => (
      f.bits(),
      Body::InfoReply {
        uni: r.unicast_locator_list.iter().map(abs_loc).collect(),
        multi: r.multicast_locator_list.as_ref().map(|m| m.iter().map(abs_loc).collect()),
      },
    ),
    SubmessageBody::Security(_) => return None,
  };
  Some(coq_sub(k, s.header.flags, s.header.content_length, bf, &body))
}
fn abs_msg(m: &Message) -> Option<String> {
  let pid = m.header.protocol_id.write_to_vec_with_ctx(Endianness::LittleEndian).unwrap();
  let h = Hdr {
    proto: [pid[0], pid[1], pid[2], pid[3]],
    major: m.header.protocol_version.major,
    minor: m.header.protocol_version.minor,
    vendor: m.header.vendor_id.vendor_id,
    prefix: m.header.guid_prefix.bytes,
  };
  let mut subs = Vec::new();
  for s in &m.submessages {
    subs.push(abs_sub(s)?);
  }
  Some(format!("(Msg {} {})", coq_hdr(&h), util::list(subs)))
}

/// Message::read_from_buffer as a Coq `pres message`, and the parsed message
fn parse_real(bytes: &[u8]) -> (String, Option<Message>) {
  match Message::read_from_buffer(&Bytes::from(bytes.to_vec())) {
    Err(_) => ("PErr".to_string(), None),
    Ok(m) => match abs_msg(&m) {
      Some(s) => (format!("(POk {})", s), Some(m)),
      None => ("PUnmodelled".to_string(), None),
    },
  }
}

// ------------------------------------------------------------------------------------------------
// running the three kinds of cases

fn header_term() -> &'static str {
  "From Coq Require Import List ZArith.\nFrom RD Require Import Common.Corr C15.Prim C15.PL C15.Disc C14.Wire C14.Model.\nImport ListNotations.\nOpen Scope Z_scope."
}

fn run_msg(out: &mut CaseOut, idx: usize, ctx: E, h: &Hdr, ops: &[Op], tags: &[String]) {
  let case = format!("(CMsg {} {} {})", coq_e(ctx), coq_hdr(h), util::list(ops.iter().map(coq_op)));
  let r = catch_unwind(AssertUnwindSafe(|| {
    let m = build_real(h, ops);
    let ms = abs_msg(&m).expect("no security submessages are generated");
    let bytes = m.write_to_vec_with_ctx(ctx).unwrap();
    let other = if ctx == Endianness::LittleEndian {
      Endianness::BigEndian
    } else {
      Endianness::LittleEndian
    };
    let bytes2 = m.write_to_vec_with_ctx(other).unwrap();
    let (p, pm) = parse_real(&bytes);
    let reser = match pm {
      Some(pm) => pm.write_to_vec_with_ctx(ctx).unwrap() == bytes,
      None => false,
    };
    (
      format!(
        "(ObsMsg {} {} {} {} {})",
        ms,
        util::bytes(&bytes),
        util::b(bytes2 == bytes),
        p,
        util::b(reser)
      ),
      p != "PErr",
      bytes.len(),
    )
  }));
  let mut tags = tags.to_vec();
  match r {
    Ok((obs, parsed_ok, n)) => {
      tags.push(format!("msg_parse_{}", if parsed_ok { "ok" } else { "err" }));
      tags.push(format!("msg_bytes_{}", size_class(n)));
      out.push(idx, case, obs, &tags, parsed_ok);
    }
    Err(_) => {
      tags.push("msg_panic".to_string());
      out.push(idx, case, "ObsPanic".to_string(), &tags, false);
    }
  }
}

fn size_class(n: usize) -> &'static str {
  match n {
    0..=19 => "lt20",
    20..=63 => "20_63",
    64..=255 => "64_255",
    256..=1023 => "256_1023",
    1024..=65535 => "1k_64k",
    _ => "ge64k",
  }
}

fn run_bytes(out: &mut CaseOut, idx: usize, bytes: &[u8], tags: &[String]) {
  let case = format!("(CBytes {})", util::bytes(bytes));
  let r = catch_unwind(AssertUnwindSafe(|| {
    let (p, pm) = parse_real(bytes);
    let reser = pm.map(|m| util::bytes(&m.write_to_vec_with_ctx(Endianness::LittleEndian).unwrap()));
    let n = match &reser {
      Some(_) => true,
      None => false,
    };
    (format!("(ObsBytes {} {})", p, util::opt(reser)), n)
  }));
  let mut tags = tags.to_vec();
  match r {
    Ok((obs, accepted)) => {
      tags.push(format!("hostile_{}", if accepted { "accepted" } else { "rejected" }));
      out.push(idx, case, obs, &tags, accepted);
    }
    Err(_) => {
      tags.push("hostile_panic".to_string());
      out.push(idx, case, "ObsPanic".to_string(), &tags, false);
    }
  }
}

fn run_numset(out: &mut CaseOut, idx: usize, fnk: bool, base: i64, set: &[i64], tags: &[String]) {
  let case = format!(
    "(CNumSet {} {} {})",
    if fnk { "KFN" } else { "KSN" },
    zi(base as i128),
    util::list(set.iter().map(|s| zi(*s as i128)))
  );
  let r = catch_unwind(AssertUnwindSafe(|| {
    if fnk {
      let s: BTreeSet<FragmentNumber> = set.iter().map(|x| FragmentNumber::new(*x as u32)).collect();
      let ns = FragmentNumberSet::from_base_and_set(FragmentNumber::new(base as u32), &s);
      let it: Vec<i64> = ns.iter().map(i64::from).collect();
      let le = ns.write_to_vec_with_ctx(Endianness::LittleEndian).unwrap();
      let be = ns.write_to_vec_with_ctx(Endianness::BigEndian).unwrap();
      let ok = FragmentNumberSet::read_from_buffer_with_ctx(Endianness::LittleEndian, &le)
        .map_or(false, |x| x == ns)
        && FragmentNumberSet::read_from_buffer_with_ctx(Endianness::BigEndian, &be)
          .map_or(false, |x| x == ns);
      (abs_fns(&ns), it, le, be, ok)
    } else {
      let s: BTreeSet<SequenceNumber> = set.iter().map(|x| sn(*x)).collect();
      let ns = SequenceNumberSet::from_base_and_set(sn(base), &s);
      let it: Vec<i64> = ns.iter().map(i64::from).collect();
      let le = ns.write_to_vec_with_ctx(Endianness::LittleEndian).unwrap();
      let be = ns.write_to_vec_with_ctx(Endianness::BigEndian).unwrap();
      let ok = SequenceNumberSet::read_from_buffer_with_ctx(Endianness::LittleEndian, &le)
        .map_or(false, |x| x == ns)
        && SequenceNumberSet::read_from_buffer_with_ctx(Endianness::BigEndian, &be)
          .map_or(false, |x| x == ns);
      (abs_sns(&ns), it, le, be, ok)
    }
  }));
  let mut tags = tags.to_vec();
  match r {
    Ok((ns, it, le, be, ok)) => {
      tags.push(format!("numset_bits_{}", ns.bits));
      let obs = format!(
        "(ObsNumSet {} {} {} {} {})",
        coq_ns(&ns),
        util::list(it.iter().map(|x| zi(*x as i128))),
        util::bytes(&le),
        util::bytes(&be),
        util::b(ok)
      );
      out.push(idx, case, obs, &tags, ns.bits > 0);
    }
    Err(_) => {
      tags.push("numset_panic".to_string());
      out.push(idx, case, "ObsPanic".to_string(), &tags, false);
    }
  }
}

// ------------------------------------------------------------------------------------------------
// wire-parsed number sets

fn coq_ires(r: &Option<Vec<i64>>) -> String {
  match r {
    Some(l) => format!("(IOk {})", util::list(l.iter().map(|x| zi(*x as i128)))),
    None => "IPanic".to_string(),
  }
}

struct RawObs {
  set: NSet,
  rest: usize,
  base: i64,
  fwd: Option<Vec<i64>>,
  bwd: Option<Vec<i64>>,
  alt: Option<Vec<i64>>,
  empty: Option<bool>,
}

macro_rules! numraw_impl {
  ($fname:ident, $set:ty, $mk:expr, $abs:ident) => {
    /// None = the writer panicked; Some((bytes, None)) = the reader rejects
    fn $fname(e: E, base: i64, bits: u32, words: &[u32], extra: &[u8]) -> Option<(Vec<u8>, Option<RawObs>)> {
      let written = catch_unwind(AssertUnwindSafe(|| {
        <$set>::verif_from_parts($mk(base), bits, words.to_vec())
          .write_to_vec_with_ctx(e)
          .unwrap()
      }))
      .ok()?;
      let mut bytes = written;
      bytes.extend_from_slice(extra);
      let parsed = catch_unwind(AssertUnwindSafe(|| {
        <$set>::read_with_length_from_buffer_with_ctx(e, &bytes)
      }))
      .ok()?;
      let (res, used) = parsed;
      let ns = match res {
        Ok(ns) => ns,
        Err(_) => return Some((bytes, None)),
      };
      let fwd = catch_unwind(AssertUnwindSafe(|| ns.iter().map(i64::from).collect::<Vec<i64>>())).ok();
      let bwd =
        catch_unwind(AssertUnwindSafe(|| ns.iter().rev().map(i64::from).collect::<Vec<i64>>())).ok();
      let alt = catch_unwind(AssertUnwindSafe(|| {
        let mut it = ns.iter();
        let mut v: Vec<i64> = Vec::new();
        loop {
          match it.next() {
            Some(x) => v.push(i64::from(x)),
            None => break,
          }
          match it.next_back() {
            Some(x) => v.push(i64::from(x)),
            None => break,
          }
        }
        v
      }))
      .ok();
      let empty = catch_unwind(AssertUnwindSafe(|| ns.is_empty())).ok();
      let obs = RawObs {
        set: $abs(&ns),
        rest: bytes.len() - used,
        base: i64::from(ns.base()),
        fwd,
        bwd,
        alt,
        empty,
      };
      Some((bytes, Some(obs)))
    }
  };
}
numraw_impl!(numraw_sn, SequenceNumberSet, sn, abs_sns);
numraw_impl!(numraw_fn, FragmentNumberSet, |b: i64| FragmentNumber::new(b as u32), abs_fns);

#[allow(clippy::too_many_arguments)]
fn run_numraw(
  out: &mut CaseOut,
  idx: usize,
  fnk: bool,
  e: E,
  base: i64,
  bits: u32,
  words: &[u32],
  extra: &[u8],
  tags: &[String],
) {
  let case = format!(
    "(CNumRaw {} {} {} {} {} {})",
    if fnk { "KFN" } else { "KSN" },
    coq_e(e),
    zi(base as i128),
    bits,
    util::list(words.iter().map(|w| w.to_string())),
    util::bytes(extra)
  );
  let r = if fnk {
    numraw_fn(e, base, bits, words, extra)
  } else {
    numraw_sn(e, base, bits, words, extra)
  };
  let mut tags = tags.to_vec();
  tags.push(format!("raw_{}_{}", if fnk { "fn" } else { "sn" }, if e == Endianness::LittleEndian { "le" } else { "be" }));
  tags.push(format!(
    "raw_bits_{}",
    match bits {
      0 => "0",
      1..=31 => "1_31",
      32 => "32",
      33..=255 if bits % 32 == 0 => "mult32",
      33..=255 => "33_255",
      256 => "256",
      _ => "gt256",
    }
  ));
  tags.push(format!("raw_padding_{}", if bits % 32 == 0 { "none" } else { "some" }));
  match r {
    None => {
      tags.push("raw_codec_panic".to_string());
      out.push(idx, case, "ObsPanic".to_string(), &tags, false);
    }
    Some((bytes, None)) => {
      tags.push("raw_rejected".to_string());
      out.push(idx, case, format!("(ObsNumRaw {} None)", util::bytes(&bytes)), &tags, false);
    }
    Some((bytes, Some(o))) => {
      tags.push("raw_accepted".to_string());
      let n = o.set.bits as usize;
      // dirty padding: a one-bit at a position >= numBits in the last word
      let dirty = n % 32 != 0
        && o.set.words.last().map_or(false, |w| w & (u32::MAX >> (n % 32)) != 0);
      if dirty {
        tags.push("raw_dirty_padding".to_string());
      }
      match &o.fwd {
        Some(l) => tags.push(format!(
          "raw_members_{}",
          match l.len() {
            0 => "0",
            1 => "1",
            2..=31 => "2_31",
            _ => "ge32",
          }
        )),
        None => tags.push("raw_iter_panic".to_string()),
      }
      let nontrivial = n > 0;
      let obs = format!(
        "(ObsNumRaw {} (Some (RR {} {} {} {} {} {} {})))",
        util::bytes(&bytes),
        coq_ns(&o.set),
        o.rest,
        zi(o.base as i128),
        coq_ires(&o.fwd),
        coq_ires(&o.bwd),
        coq_ires(&o.alt),
        util::opt(o.empty.map(|b| util::b(b).to_string()))
      );
      out.push(idx, case, obs, &tags, nontrivial);
    }
  }
}

/// words for numBits = bits: 0 = all ones, 1 = only the padding bits after numBits, 2 = only the
/// last in-window bit, 3 = random, 4 = the first in-window bit and all padding bits,
/// 5 = every in-window bit and no padding bit
fn raw_words(r: &mut Rng, bits: u32, pattern: u32) -> Vec<u32> {
  let wc = ((bits + 31) / 32) as usize;
  let pad_mask: u32 = if bits % 32 == 0 { 0 } else { u32::MAX >> (bits % 32) };
  let mut w: Vec<u32> = match pattern {
    0 => vec![u32::MAX; wc],
    3 => (0..wc).map(|_| r.next() as u32).collect(),
    5 => vec![u32::MAX; wc],
    _ => vec![0; wc],
  };
  if wc == 0 {
    return w;
  }
  match pattern {
    1 => w[wc - 1] = pad_mask,
    2 => {
      let i = bits - 1;
      w[(i / 32) as usize] |= 1 << (31 - i % 32);
    }
    4 => {
      w[0] |= 1 << 31;
      w[wc - 1] |= pad_mask;
    }
    5 => w[wc - 1] &= !pad_mask,
    _ => {}
  }
  w
}
const RAW_PATTERN: [&str; 6] =
  ["all_ones", "only_padding", "last_window_bit", "random", "first_bit_and_padding", "window_only"];
const RAW_SN_BASES: [i64; 6] =
  [1, 0x1_0000_0000 - 40, 0x1234_5678_0000, i64::MAX - 0x1_0000 - 300, 0, -5];
const RAW_FN_BASES: [i64; 4] = [1, 1000, u32::MAX as i64 - 0x1_0000 - 300, 0];

type RawCase = (bool, E, i64, u32, Vec<u32>, Vec<u8>, String);

fn corpus_numraw() -> Vec<RawCase> {
  let le = Endianness::LittleEndian;
  let be = Endianness::BigEndian;
  let t = |s: &str| s.to_string();
  vec![
    // the input of the seeded regression: numBits 25, members 10..=20, all 7 padding bits set
    (false, le, 10, 25, vec![0xffe0_007f], vec![], t("corpus_raw_seed_acknack_padding_ones")),
    // no member inside the window, padding all ones
    (true, be, 1000, 5, vec![0x07ff_ffff], vec![], t("corpus_raw_seed_empty_window_padding_ones")),
    (false, le, 1, 0, vec![], vec![], t("corpus_raw_bits_0")),
    (false, be, 1, 0, vec![], vec![1, 2, 3, 4], t("corpus_raw_bits_0_trailing_bytes")),
    (false, le, 1, 1, vec![0x7fff_ffff], vec![], t("corpus_raw_bits_1_only_padding")),
    (false, le, 1, 1, vec![0x8000_0000], vec![], t("corpus_raw_bits_1_member")),
    (false, be, 7, 31, vec![1], vec![], t("corpus_raw_bits_31_only_padding")),
    (false, be, 7, 31, vec![2], vec![], t("corpus_raw_bits_31_last")),
    (true, le, 7, 32, vec![1], vec![], t("corpus_raw_bits_32_last")),
    (true, le, 7, 33, vec![0, 0x7fff_ffff], vec![], t("corpus_raw_bits_33_only_padding")),
    (false, le, 1, 256, vec![u32::MAX; 8], vec![], t("corpus_raw_bits_256_full")),
    (false, le, 1, 257, vec![u32::MAX; 9], vec![], t("corpus_raw_bits_257_rejected")),
    // (numBits above u32::MAX - 31 would overflow `(num_bits + 31) / 32` in the writer: not modelled)
    (true, be, 1, u32::MAX - 31, vec![], vec![], t("corpus_raw_bits_max_rejected")),
    (false, le, 1, 40, vec![u32::MAX], vec![], t("corpus_raw_one_word_short_rejected")),
    (false, le, 1, 40, vec![u32::MAX], vec![0xff, 0xff, 0xff], t("corpus_raw_one_word_short_3_bytes_rejected")),
    (false, le, 1, 40, vec![u32::MAX], vec![0xff, 0xff, 0xff, 0xff, 9], t("corpus_raw_one_word_short_extra_read_as_word")),
    (false, be, 1, 40, vec![1, 2, 3], vec![], t("corpus_raw_one_word_long_not_written")),
    (false, le, 1, 0, vec![u32::MAX], vec![], t("corpus_raw_bits_0_with_word")),
    // the window sticks out of the number type: the debug-build addition bit + base panics
    (false, le, i64::MAX - 5, 10, vec![0xffc0_0000], vec![], t("corpus_raw_window_beyond_i64_max_panic")),
    (false, le, i64::MAX - 5, 10, vec![0xfc00_0000], vec![], t("corpus_raw_window_beyond_i64_max_members_inside")),
    (false, le, i64::MAX - 5, 10, vec![0x003f_ffff], vec![], t("corpus_raw_window_beyond_i64_max_only_padding")),
    (true, be, u32::MAX as i64 - 3, 8, vec![0x0100_0000], vec![], t("corpus_raw_window_beyond_u32_max_last_panic")),
    (true, be, u32::MAX as i64 - 3, 8, vec![0xf000_0000], vec![], t("corpus_raw_window_beyond_u32_max_members_inside")),
    (false, be, i64::MIN, 64, vec![0x8000_0001, 0x8000_0001], vec![], t("corpus_raw_base_i64_min")),
  ]
}

/// dense table: every numBits in 0..=256 with the word patterns, kinds and byte orders rotated in
/// the quick tier (each numBits sees every pattern; each pattern sees both kinds and both byte
/// orders at every residue of numBits mod 32), everything in the thorough tier; then word-count
/// violations
fn table_numraw(tier: &str) -> Vec<RawCase> {
  let mut v: Vec<RawCase> = Vec::new();
  let mut r = Rng::new(0xC14_0002);
  let thorough = tier == "thorough";
  let le = Endianness::LittleEndian;
  let be = Endianness::BigEndian;
  for bits in 0..=256u32 {
    for pattern in 0..6u32 {
      for combo in 0..4u32 {
        // rotate so that consecutive numBits and the residues mod 32 see different combinations
        if !thorough && (bits + bits / 32 + pattern) % 4 != combo {
          continue;
        }
        // quick tier: the two extra patterns only near the word boundaries and for small sets
        if !thorough && pattern >= 4 && !(bits <= 40 || bits % 32 <= 2 || bits % 32 >= 30) {
          continue;
        }
        let fnk = combo & 1 == 1;
        let e = if combo & 2 == 2 { be } else { le };
        let base = if fnk {
          RAW_FN_BASES[((bits + pattern) % 4) as usize]
        } else {
          RAW_SN_BASES[((bits + pattern) % 6) as usize]
        };
        let words = raw_words(&mut r, bits, pattern);
        v.push((fnk, e, base, bits, words, vec![], format!("rawtable_{}", RAW_PATTERN[pattern as usize])));
      }
    }
  }
  // word-count and numBits violations
  for (i, bits) in [0u32, 1, 31, 32, 33, 64, 65, 224, 225, 255, 256, 257, 288, 1000, 0x1_0000, u32::MAX - 31]
    .iter()
    .enumerate()
  {
    let wc = ((*bits as u64 + 31) / 32).min(9) as usize;
    for variant in 0..6u32 {
      let fnk = (i as u32 + variant) % 2 == 1;
      let e = if (i as u32 / 2 + variant) % 2 == 1 { be } else { le };
      let base = if fnk { 1000 } else { 0x1_0000_0000 - 8 };
      let (n, extra, tag): (usize, Vec<u8>, &str) = match variant {
        0 => (wc.saturating_sub(1), vec![], "one_word_short"),
        1 => (wc + 1, vec![], "one_word_long"),
        2 => (wc.saturating_sub(1), vec![0xff, 0xff, 0xff], "one_word_short_3_bytes"),
        3 => (wc.saturating_sub(1), vec![0xff, 0xff, 0xff, 0xff], "one_word_short_4_bytes"),
        4 => (wc, vec![0xaa, 0xbb, 0xcc, 0xdd, 0xee], "trailing_bytes"),
        _ => (0, vec![0xff; 4 * wc], "no_words_all_from_extra"),
      };
      let words: Vec<u32> = (0..n).map(|_| if r.chance(1, 2) { u32::MAX } else { r.next() as u32 }).collect();
      v.push((fnk, e, base, *bits, words, extra, format!("rawviolation_{}", tag)));
    }
  }
  v
}

fn g_numraw(r: &mut Rng) -> RawCase {
  let fnk = r.chance(1, 2);
  let e = g_e(r);
  let bits = match r.below(8) {
    0..=2 => *r.pick(&BITS_GRID),
    3..=6 => r.below(257) as u32,
    _ => *r.pick(&[257u32, 288, 1000, u32::MAX - 31]),
  };
  let mut wc = ((bits as u64 + 31) / 32).min(10) as usize;
  if r.chance(1, 6) {
    wc = if r.chance(1, 2) { wc + 1 } else { wc.saturating_sub(1) };
  }
  let mode = r.below(5);
  let words: Vec<u32> = (0..wc)
    .map(|_| match mode {
      0 => 0,
      1 => u32::MAX,
      2 => 1 << r.below(32),
      3 => (r.next() & r.next()) as u32,
      _ => r.next() as u32,
    })
    .collect();
  let base = if fnk { g_u32(r) as i64 } else { g_sn(r) };
  let nextra = r.below(9) as usize;
  let extra = if r.chance(1, 4) { g_vec(r, nextra) } else { vec![] };
  (fnk, e, base, bits, words, extra, "stream_numraw".to_string())
}

// ------------------------------------------------------------------------------------------------
// generators

const SN_GRID: [i64; 16] = [
  1,
  2,
  0,
  -1,
  255,
  256,
  257,
  0x7fff_ffff,
  0x8000_0000,
  0xffff_ffff,
  0x1_0000_0000,
  0x1234_5678_9abc,
  i64::MAX - 0x1_0000,
  i64::MAX,
  i64::MIN,
  -0x1_0000_0001,
];
fn g_sn(r: &mut Rng) -> i64 {
  match r.below(4) {
    0 => *r.pick(&SN_GRID),
    1 => r.range(1, 1000),
    2 => r.next() as i64,
    _ => (r.next() >> 24) as i64,
  }
}
fn g_sn_pos(r: &mut Rng) -> i64 {
  match r.below(3) {
    0 => *r.pick(&[1i64, 2, 255, 0xffff_ffff, 0x1_0000_0000, i64::MAX - 0x1_0000, i64::MAX]),
    1 => r.range(1, 1000),
    _ => ((r.next() >> 24) as i64).max(1),
  }
}
fn g_u32(r: &mut Rng) -> u32 {
  match r.below(3) {
    0 => *r.pick(&[0u32, 1, 2, 255, 256, 0xffff, 0x1_0000, 0x7fff_ffff, 0x8000_0000, u32::MAX]),
    1 => r.below(1000) as u32,
    _ => r.next() as u32,
  }
}
fn g_i32(r: &mut Rng) -> i32 {
  match r.below(3) {
    0 => *r.pick(&[0i32, 1, -1, i32::MAX, i32::MIN, 256]),
    1 => r.below(1000) as i32,
    _ => r.next() as i32,
  }
}
fn g_bytes<const N: usize>(r: &mut Rng) -> [u8; N] {
  let mut b = [0u8; N];
  match r.below(4) {
    0 => {}
    1 => b = [0xff; N],
    _ => {
      for x in b.iter_mut() {
        *x = r.next() as u8;
      }
    }
  }
  b
}
fn g_vec(r: &mut Rng, n: usize) -> Vec<u8> {
  let mode = r.below(3);
  (0..n)
    .map(|i| match mode {
      0 => r.next() as u8,
      1 => (i as u8).wrapping_add(1),
      _ => 0xff,
    })
    .collect()
}
fn g_e(r: &mut Rng) -> E {
  if r.chance(1, 2) {
    Endianness::LittleEndian
  } else {
    Endianness::BigEndian
  }
}
fn g_len(r: &mut Rng) -> usize {
  match r.below(10) {
    0..=5 => r.below(14) as usize,       // every residue mod 4, small
    6..=7 => 14 + r.below(60) as usize,  // medium
    8 => 1000 + r.below(500) as usize,   // around a fragment
    _ => *r.pick(&[0usize, 1, 2, 3, 4, 5, 7, 8, 1023, 1024, 1025]),
  }
}
fn g_params(r: &mut Rng, hostile: bool) -> Params {
  let n = match r.below(6) {
    0 => 0,
    1..=3 => 1 + r.below(2) as usize,
    _ => 1 + r.below(5) as usize,
  };
  (0..n)
    .map(|_| {
      let id = match r.below(5) {
        0 => 0x70,
        1 => 0x71,
        2 => *r.pick(&[0u16, 2, 0x83, 0x800f, 0x8000, 0x4001, 0xffff]),
        3 if hostile => 1, // a sentinel inside the list: the reader stops there
        _ => (r.next() as u16) | 2,
      };
      let l = match r.below(4) {
        0 => r.below(6) as usize,
        1 => 4 * r.below(5) as usize,
        2 => 16,
        _ => r.below(30) as usize,
      };
      (id, g_vec(r, l))
    })
    .collect()
}
const BITS_GRID: [u32; 14] = [0, 1, 2, 31, 32, 33, 63, 64, 65, 128, 224, 225, 255, 256];
fn g_nset(r: &mut Rng, fnk: bool, hostile: bool) -> NSet {
  let bits = match r.below(8) {
    0..=3 => *r.pick(&BITS_GRID),
    4..=6 => r.below(257) as u32,
    _ if hostile => *r.pick(&[257u32, 288, 1000]),
    _ => r.below(257) as u32,
  };
  let mut wc = ((bits + 31) / 32) as usize;
  if hostile && r.chance(1, 3) {
    // violates the constructor invariant: the writer emits min(word_count, len) words
    wc = if r.chance(1, 2) { wc + 1 } else { wc.saturating_sub(1) };
  }
  let mode = r.below(4);
  let words = (0..wc)
    .map(|_| match mode {
      0 => 0,
      1 => u32::MAX, // dirty trailing bits when bits % 32 != 0
      2 => 1 << r.below(32),
      _ => r.next() as u32,
    })
    .collect();
  let base = if fnk { g_u32(r) as i64 } else { g_sn(r) };
  NSet { base, bits, words }
}
fn g_loc(r: &mut Rng, hostile: bool) -> Loc {
  match r.below(8) {
    0 => Loc::Invalid,
    1 => Loc::Reserved,
    2..=3 => Loc::V4(g_bytes(r), r.next() as u16),
    4..=5 => {
      let (f, s) = if hostile && r.chance(1, 2) { (r.next() as u32, r.next() as u32) } else { (0, 0) };
      Loc::V6(g_bytes(r), r.next() as u16, f, s)
    }
    _ => {
      let k = if hostile { *r.pick(&[-1i32, 0, 1, 2, 3]) } else { *r.pick(&[3i32, 4, 8, -2, i32::MAX, i32::MIN, 0x0100_0000]) };
      Loc::Other(k, g_u32(r), g_bytes(r))
    }
  }
}
fn g_locs(r: &mut Rng, hostile: bool) -> Vec<Loc> {
  let n = r.below(4) as usize;
  (0..n).map(|_| g_loc(r, hostile)).collect()
}

/// a body and flags that agree with it (`built`), unless `hostile`
fn g_body(r: &mut Rng, which: u64, hostile: bool) -> (u8, Body) {
  let e = r.below(2) as u8;
  match which {
    0 => {
      let iq = if r.chance(1, 2) { Some(g_params(r, hostile)) } else { None };
      let n = g_len(r);
      let pl = if r.chance(3, 4) { Some(g_vec(r, n)) } else { None };
      let mut f = e;
      if iq.is_some() {
        f |= 2;
      }
      if pl.is_some() {
        f |= *r.pick(&[4u8, 4, 8, 12]);
      }
      if r.chance(1, 8) {
        f |= 16;
      }
      if hostile {
        f ^= *r.pick(&[2u8, 4, 8, 12, 6]);
      }
      (f, Body::Data { rd: g_bytes(r), wr: g_bytes(r), sn: g_sn(r), iq, pl })
    }
    1 => {
      let iq = if r.chance(1, 2) {
        let mut p = g_params(r, hostile);
        if p.is_empty() && r.chance(1, 2) {
          p.push((0x70, g_vec(r, 16)));
        }
        Some(p)
      } else {
        None
      };
      let fsz: u16 = match r.below(4) {
        0 => 1,
        1 => 1024,
        2 => 1 + r.below(2000) as u16,
        _ => *r.pick(&[2u16, 3, 4, 5, 1023, 1025, 65535]),
      };
      let nfrag = 1 + r.below(6) as u32;
      let dsz: u32 = match r.below(3) {
        0 => fsz as u32 * nfrag,
        1 => fsz as u32 * (nfrag - 1) + 1 + r.below(fsz as u64) as u32,
        _ => fsz as u32,
      };
      let total = dsz / fsz as u32 + u32::from(dsz % fsz as u32 > 0);
      let fsn = 1 + r.below(total as u64) as u32;
      let n = g_len(r);
      let mut f = e;
      if iq.is_some() {
        f |= 2;
      }
      if r.chance(1, 3) {
        f |= 4;
      }
      if r.chance(1, 8) {
        f |= 8;
      }
      let mut b = Body::DataFrag {
        rd: g_bytes(r),
        wr: g_bytes(r),
        sn: g_sn_pos(r),
        fsn,
        fis: if r.chance(3, 4) { 1 } else { r.next() as u16 },
        dsz,
        fsz,
        iq,
        pl: g_vec(r, n),
      };
      if hostile {
        if let Body::DataFrag { sn, fsn, dsz, fsz, .. } = &mut b {
          match r.below(5) {
            0 => *sn = *r.pick(&[0i64, -1, i64::MIN]),
            1 => *fsz = 0,
            2 => *dsz = (*fsz as u32).saturating_sub(1),
            3 => *fsn = *r.pick(&[0u32, total + 1, u32::MAX]),
            _ => f ^= 2,
          }
        }
      }
      (f, b)
    }
    2 => (
      e,
      Body::Gap { rd: g_bytes(r), wr: g_bytes(r), start: g_sn(r), gl: g_nset(r, false, hostile) },
    ),
    3 => (
      e | (r.below(4) as u8) << 1,
      Body::Heartbeat {
        rd: g_bytes(r),
        wr: g_bytes(r),
        first: g_sn(r),
        last: g_sn(r),
        count: g_i32(r),
      },
    ),
    4 => (
      e,
      Body::HeartbeatFrag {
        rd: g_bytes(r),
        wr: g_bytes(r),
        sn: g_sn(r),
        lastf: g_u32(r),
        count: g_i32(r),
      },
    ),
    5 => (
      e | (r.below(2) as u8) << 1,
      Body::AckNack {
        rd: g_bytes(r),
        wr: g_bytes(r),
        st: g_nset(r, false, hostile),
        count: g_i32(r),
      },
    ),
    6 => (
      e,
      Body::NackFrag {
        rd: g_bytes(r),
        wr: g_bytes(r),
        sn: g_sn(r),
        st: g_nset(r, true, hostile),
        count: g_i32(r),
      },
    ),
    7 => {
      let ts = if r.chance(2, 3) { Some((g_u32(r), g_u32(r))) } else { None };
      let mut f = e | if ts.is_none() { 2 } else { 0 };
      if hostile {
        f ^= 2;
      }
      (f, Body::InfoTs(ts))
    }
    8 => (e, Body::InfoDst(g_bytes(r))),
    9 => (
      e,
      Body::InfoSrc {
        unused: g_u32(r),
        major: r.next() as u8,
        minor: r.next() as u8,
        vendor: g_bytes(r),
        prefix: g_bytes(r),
      },
    ),
    _ => {
      let multi = if r.chance(1, 2) { Some(g_locs(r, hostile)) } else { None };
      (
        e | (r.below(2) as u8) << 1,
        Body::InfoReply { uni: g_locs(r, hostile), multi },
      )
    }
  }
}

fn g_dd(r: &mut Rng) -> DD {
  let n = 4 + g_len(r);
  match r.below(4) {
    0..=1 => DD::Data(g_vec(r, n)),
    2 => {
      let k = 4 + r.below(20) as usize;
      DD::Key(g_vec(r, k))
    }
    _ => DD::Hash(g_bytes(r)),
  }
}
fn g_rsi(r: &mut Rng) -> Option<([u8; 16], i64)> {
  if r.chance(1, 3) {
    Some((g_bytes(r), g_sn(r)))
  } else {
    None
  }
}
fn g_sn_set(r: &mut Rng) -> Vec<i64> {
  let first = match r.below(4) {
    0 => 1,
    1 => *r.pick(&[0xffff_ff00i64, 0x1_0000_0000 - 3, i64::MAX - 0x2_0000]),
    _ => r.range(1, 5000),
  };
  let mut s = BTreeSet::new();
  let run = r.below(6) as i64;
  for i in 0..=run {
    s.insert(first + i);
  }
  let extra = r.below(8);
  let spread = *r.pick(&[8i64, 40, 255, 256, 257, 300, 600]);
  for _ in 0..extra {
    s.insert(first + run + 1 + r.below(spread as u64) as i64);
  }
  if r.chance(1, 12) {
    s.clear();
  }
  s.into_iter().collect()
}

fn g_op(r: &mut Rng, hostile: bool) -> (Op, String) {
  let k = r.below(20);
  match k {
    0 => (Op::Dst(g_e(r), g_bytes(r)), "op_dst".into()),
    1 => (
      Op::Ts(g_e(r), if r.chance(2, 3) { Some((g_u32(r), g_u32(r))) } else { None }),
      "op_ts".into(),
    ),
    2..=4 => (
      Op::Data(g_e(r), g_dd(r), g_sn(r), g_rsi(r), g_bytes(r), g_bytes(r)),
      "op_data".into(),
    ),
    5..=6 => {
      let d = g_dd(r);
      let total = match &d {
        DD::Data(b) | DD::Key(b) => b.len() as u32,
        DD::Hash(_) => 16,
      };
      let fsize: u16 = match r.below(3) {
        0 => 1024,
        1 => 1 + r.below(16) as u16,
        _ => 1 + r.below(total as u64 + 1) as u16,
      };
      let nfr = (total + fsize as u32 - 1) / fsize as u32;
      let mut fnum = 1 + r.below(nfr.max(1) as u64) as u32;
      let mut ssize = total;
      if hostile {
        match r.below(3) {
          0 => fnum = 0,
          1 => fnum = nfr + 1 + r.below(3) as u32,
          _ => ssize = total + 1 + r.below(10) as u32,
        }
      }
      (
        Op::DataFrag(g_e(r), d, g_sn_pos(r), g_rsi(r), g_bytes(r), g_bytes(r), fnum, fsize, ssize),
        "op_datafrag".into(),
      )
    }
    7 => (Op::Gap(g_e(r), g_sn_set(r), g_bytes(r), g_bytes(r)), "op_gap".into()),
    8 => (Op::GapBefore(g_e(r), g_sn(r), g_bytes(r), g_bytes(r)), "op_gap_before".into()),
    9 => (
      Op::Heartbeat(
        g_e(r),
        g_bytes(r),
        g_sn(r),
        g_sn(r),
        g_i32(r),
        g_bytes(r),
        r.chance(1, 2),
        r.chance(1, 2),
      ),
      "op_heartbeat".into(),
    ),
    _ => {
      let which = r.below(11);
      let (f, b) = g_body(r, which, hostile);
      let kind = kind_of(&b);
      let name = format!("{:?}", b);
      let name = name.split(|c: char| !c.is_alphanumeric()).next().unwrap_or("").to_lowercase();
      if hostile && r.chance(1, 2) {
        // a literal with arbitrary header fields
        let l = literal(kind, f, None, f, &b).header.content_length;
        let len = match r.below(5) {
          0 => 0,
          1 => l.wrapping_add(4),
          2 => l.wrapping_sub(4),
          3 => l.wrapping_add(1),
          _ => l,
        };
        let k2 = if r.chance(1, 4) { *r.pick(&[0x01u8, 0x09, 0x15, 0x06, 0x7f, 0x80, 0x0d]) } else { kind };
        let fl = if r.chance(1, 4) { f | 0xe0 } else { f };
        (
          Op::Raw { kind: k2, flags: fl, len, bflags: f & fmask(kind), body: b },
          format!("raw_{}", name),
        )
      } else {
        (Op::Create(f & fmask(kind), b), format!("create_{}", name))
      }
    }
  }
}

fn std_hdr(r: &mut Rng) -> Hdr {
  Hdr { proto: *b"RTPS", major: 2, minor: 4, vendor: [1, 0x12], prefix: g_bytes(r) }
}
fn g_hdr(r: &mut Rng, hostile: bool) -> Hdr {
  let mut h = std_hdr(r);
  match r.below(6) {
    0 => {
      h.major = *r.pick(&[0u8, 1, 2]);
      h.minor = r.next() as u8;
      h.vendor = g_bytes(r);
    }
    1 if hostile => match r.below(3) {
      0 => h.major = *r.pick(&[3u8, 255]),
      1 => h.proto = *b"RTPX",
      _ => h.proto = g_bytes(r),
    },
    _ => {}
  }
  h
}

fn g_msg(r: &mut Rng, hostile: bool) -> (Hdr, Vec<Op>, Vec<String>) {
  let n = match r.below(8) {
    0 => 0,
    1..=4 => 1,
    5..=6 => 2 + r.below(2) as usize,
    _ => 2 + r.below(5) as usize,
  };
  let mut tags = vec![format!("n_ops_{}", n)];
  let mut ops = Vec::new();
  for _ in 0..n {
    let (o, t) = g_op(r, hostile);
    tags.push(t);
    ops.push(o);
  }
  (g_hdr(r, hostile), ops, tags)
}

/// never let a security submessage kind (0x30..0x34, outside the model) sit at a header position
fn sanitize(b: &mut [u8]) {
  let mut pos = 20usize;
  while pos + 4 <= b.len() {
    if (0x30..=0x34).contains(&b[pos]) {
      b[pos] = 0x7f;
    }
    let le = b[pos + 1] & 1 == 1;
    let clen = if le {
      b[pos + 2] as usize + 256 * b[pos + 3] as usize
    } else {
      b[pos + 3] as usize + 256 * b[pos + 2] as usize
    };
    let left = b.len() - pos - 4;
    let prop = if clen == 0 {
      if b[pos] == 1 || b[pos] == 9 {
        0
      } else {
        left
      }
    } else {
      clen
    };
    if prop > left {
      break;
    }
    pos += 4 + prop;
  }
}

fn sub_offsets(b: &[u8]) -> Vec<usize> {
  let mut v = Vec::new();
  let mut pos = 20usize;
  while pos + 4 <= b.len() {
    v.push(pos);
    let le = b[pos + 1] & 1 == 1;
    let clen = if le {
      b[pos + 2] as usize + 256 * b[pos + 3] as usize
    } else {
      b[pos + 3] as usize + 256 * b[pos + 2] as usize
    };
    let left = b.len() - pos - 4;
    let prop = if clen == 0 { left } else { clen };
    if prop > left {
      break;
    }
    pos += 4 + prop;
  }
  v
}

fn g_hostile(r: &mut Rng) -> (Vec<u8>, String) {
  // start from the bytes of a (mostly valid) generated message
  let (h, ops, _) = g_msg(r, false);
  let mut ops = ops;
  if ops.is_empty() {
    ops.push(g_op(r, false).0);
  }
  let base = catch_unwind(AssertUnwindSafe(|| {
    build_real(&h, &ops).write_to_vec_with_ctx(Endianness::LittleEndian).unwrap()
  }))
  .unwrap_or_else(|_| b"RTPS\x02\x04\x01\x12000000000000".to_vec());
  let mut b = base;
  let offs = sub_offsets(&b);
  let how;
  match r.below(12) {
    0 => {
      let n = r.below(b.len() as u64 + 1) as usize;
      b.truncate(n);
      how = "truncate";
    }
    1 => {
      let n = 1 + r.below(3) as usize;
      b.extend(g_vec(r, n));
      how = "trailing_1_3";
    }
    2 if !offs.is_empty() => {
      // octetsToNextHeader
      let o = *r.pick(&offs);
      let v: u16 = *r.pick(&[0u16, 1, 3, 4, 8, 12, 0xffff, 0x0100]);
      let d = if r.chance(1, 2) { v } else { (b[o + 2] as u16 + 256 * b[o + 3] as u16).wrapping_add(*r.pick(&[1u16, 4, 0xfffc, 0xffff])) };
      b[o + 2] = d as u8;
      b[o + 3] = (d >> 8) as u8;
      how = "length_field";
    }
    3 if !offs.is_empty() => {
      let o = *r.pick(&offs);
      b[o + 1] ^= *r.pick(&[1u8, 2, 4, 8, 0x80]);
      how = "flag_flip";
    }
    4 if !offs.is_empty() => {
      let o = *r.pick(&offs);
      b[o] = *r.pick(&[0x01u8, 0x06, 0x07, 0x08, 0x09, 0x0c, 0x0d, 0x0e, 0x0f, 0x12, 0x13, 0x15, 0x16, 0x30, 0x33, 0x7f, 0x80, 0xff, 0x00]);
      how = "kind_change";
    }
    5 if !offs.is_empty() => {
      // octetsToInlineQos / numBits area: a 16-bit field right after the submessage header
      let o = *r.pick(&offs);
      if o + 8 <= b.len() {
        let v: u16 = *r.pick(&[0u16, 15, 16, 17, 20, 27, 28, 29, 32, 0xffff]);
        b[o + 6] = v as u8;
        b[o + 7] = (v >> 8) as u8;
      }
      how = "octets_to_inline_qos";
    }
    6 => {
      for _ in 0..1 + r.below(4) {
        if !b.is_empty() {
          let i = r.below(b.len() as u64) as usize;
          b[i] = r.next() as u8;
        }
      }
      how = "byte_noise";
    }
    7 => {
      // PAD / INFO_TS with zero length in front, unknown kind with a body
      let mut ins: Vec<u8> = match r.below(4) {
        0 => vec![0x01, 0x01, 0, 0],
        1 => vec![0x09, 0x03, 0, 0],
        2 => vec![0x01, 0x00, 0, 4, 1, 2, 3, 4],
        _ => vec![0x80, 0x01, 4, 0, 9, 9, 9, 9],
      };
      ins.extend_from_slice(&b[20.min(b.len())..]);
      b.truncate(20);
      b.extend(ins);
      how = "pad_inserted";
    }
    8 => {
      let n = r.below(60) as usize;
      b.truncate(20);
      b.extend(g_vec(r, n));
      how = "random_after_header";
    }
    9 => {
      b[r.below(8) as usize] ^= 1 << r.below(8);
      how = "header_damage";
    }
    10 if !offs.is_empty() => {
      // bytes 20..28 after the header of an ACKNACK/GAP hold numBits; raise it
      let o = *r.pick(&offs);
      for d in [16usize, 20, 24, 28] {
        if r.chance(1, 2) && o + 4 + d + 4 <= b.len() {
          let v: u32 = *r.pick(&[0u32, 1, 255, 256, 257, 1000, u32::MAX]);
          b[o + 4 + d..o + 8 + d].copy_from_slice(&v.to_le_bytes());
        }
      }
      how = "num_bits";
    }
    _ => {
      how = "unchanged";
    }
  }
  sanitize(&mut b);
  (b, how.to_string())
}

// ------------------------------------------------------------------------------------------------
// fixed corpus

fn corpus_msgs() -> Vec<(E, Hdr, Vec<Op>, &'static str)> {
  let le = Endianness::LittleEndian;
  let be = Endianness::BigEndian;
  let h = Hdr { proto: *b"RTPS", major: 2, minor: 4, vendor: [1, 0x12], prefix: [7; 12] };
  let rd = [0, 0, 1, 4];
  let wr = [0, 0, 1, 3];
  let mut v: Vec<(E, Hdr, Vec<Op>, &'static str)> = Vec::new();
  // the repaired defect: DATAFRAG with inline QoS (fix 989bc45) and its neighbours
  let iq = Some(vec![(0x70u16, vec![1u8; 16])]);
  for e in [1u8, 0] {
    v.push((
      le,
      h.clone(),
      vec![Op::Create(
        e | 2,
        Body::DataFrag { rd, wr, sn: 1, fsn: 1, fis: 1, dsz: 8, fsz: 4, iq: iq.clone(), pl: vec![9; 4] },
      )],
      "corpus_datafrag_inline_qos",
    ));
  }
  v.push((
    le,
    h.clone(),
    vec![Op::DataFrag(le, DD::Data(vec![0, 1, 0, 0, 1, 2, 3, 4, 5, 6, 7]), 5, Some(([3; 16], 9)), rd, wr, 2, 4, 11)],
    "corpus_datafrag_builder_rsi",
  ));
  v.push((
    be,
    h.clone(),
    vec![
      Op::DataFrag(be, DD::Key(vec![0, 1, 0, 0, 1, 2, 3]), 5, None, rd, wr, 2, 4, 7),
      Op::Heartbeat(be, wr, 1, 5, 3, rd, true, false),
    ],
    "corpus_datafrag_unaligned_then_heartbeat",
  ));
  // empty inline QoS list with the Q flag (DATA and DATAFRAG)
  v.push((
    le,
    h.clone(),
    vec![
      Op::Create(1 | 2 | 4, Body::Data { rd, wr, sn: 1, iq: Some(vec![]), pl: Some(vec![1, 2, 3]) }),
      Op::Create(1 | 2, Body::DataFrag { rd, wr, sn: 1, fsn: 1, fis: 1, dsz: 4, fsz: 4, iq: Some(vec![]), pl: vec![1, 2, 3, 4] }),
    ],
    "corpus_empty_inline_qos",
  ));
  // payload lengths of every residue, with and without inline QoS, both key and data flags
  for n in 0..6usize {
    v.push((
      le,
      h.clone(),
      vec![
        Op::Data(le, DD::Data((0..4 + n as u8).collect()), 1 + n as i64, None, rd, wr),
        Op::Data(be, DD::Key((0..4 + n as u8).collect()), 1, Some(([1; 16], 2)), rd, wr),
        Op::Create(8, Body::Data { rd, wr, sn: 7, iq: None, pl: Some(vec![5; n]) }),
      ],
      "corpus_payload_residues",
    ));
  }
  v.push((le, h.clone(), vec![Op::Data(le, DD::Hash([9; 16]), 3, None, rd, wr)], "corpus_dispose_by_key_hash"));
  // DATA without D/K flag but with a payload; flags against content; InfoTimestamp invalidate
  v.push((
    le,
    h.clone(),
    vec![Op::Create(1, Body::Data { rd, wr, sn: 1, iq: None, pl: Some(vec![1, 2, 3, 4]) })],
    "corpus_data_payload_without_flag",
  ));
  v.push((
    le,
    h.clone(),
    vec![Op::Ts(le, None), Op::Ts(be, Some((1, 2))), Op::Create(1, Body::InfoTs(None)), Op::Create(3, Body::InfoTs(Some((1, 2))))],
    "corpus_info_ts",
  ));
  // number sets: numBits not a multiple of 32 with dirty trailing bits; 256; 257 via new()
  for (bits, w) in [(1u32, vec![u32::MAX]), (33, vec![u32::MAX, u32::MAX]), (256, vec![u32::MAX; 8]), (0, vec![]), (257, vec![0; 9]), (32, vec![])] {
    v.push((
      be,
      h.clone(),
      vec![
        Op::Create(0, Body::AckNack { rd, wr, st: NSet { base: 1, bits, words: w.clone() }, count: 1 }),
        Op::Create(1, Body::NackFrag { rd, wr, sn: 2, st: NSet { base: 1, bits, words: w.clone() }, count: 1 }),
        Op::Create(1, Body::Gap { rd, wr, start: 1, gl: NSet { base: 5, bits, words: w }}),
      ],
      "corpus_numset_words",
    ));
  }
  v.push((
    le,
    h.clone(),
    vec![
      Op::Gap(le, vec![1, 2, 3, 5, 9, 300], wr, rd),
      Op::Gap(be, vec![10], wr, rd),
      Op::Gap(be, vec![], wr, rd),
      Op::GapBefore(le, 17, wr, rd),
      Op::Gap(le, vec![i64::MAX - 1, i64::MAX], wr, rd),
    ],
    "corpus_gap_builder",
  ));
  v.push((
    le,
    h.clone(),
    vec![
      Op::Dst(le, [1; 12]),
      Op::Create(1, Body::InfoSrc { unused: 0, major: 2, minor: 4, vendor: [1, 0x12], prefix: [2; 12] }),
      Op::Create(3, Body::InfoReply { uni: vec![Loc::V4([127, 0, 0, 1], 7400)], multi: Some(vec![Loc::V6([1; 16], 1, 0, 0)]) }),
      Op::Create(0, Body::InfoReply { uni: vec![], multi: None }),
      Op::Create(1, Body::HeartbeatFrag { rd, wr, sn: 1, lastf: 3, count: 1 }),
    ],
    "corpus_interpreter_submessages",
  ));
  // header variants: old version accepted, newer major and foreign protocol id rejected
  for (maj, proto, tag) in [(1u8, *b"RTPS", "corpus_header_v1"), (3, *b"RTPS", "corpus_header_major3"), (2, *b"RTPX", "corpus_header_proto")] {
    let mut h2 = h.clone();
    h2.major = maj;
    h2.proto = proto;
    v.push((le, h2, vec![Op::Heartbeat(le, wr, 1, 2, 3, rd, false, false)], tag));
  }
  // content_length 0 on a literal: extends to the end of the message
  v.push((
    le,
    h.clone(),
    vec![
      Op::Raw { kind: 0x07, flags: 1, len: 0, bflags: 1, body: Body::Heartbeat { rd, wr, first: 1, last: 2, count: 3 } },
      Op::Heartbeat(le, wr, 1, 2, 3, rd, false, false),
    ],
    "corpus_len0_not_last",
  ));
  v.push((le, h, vec![], "corpus_empty_message"));
  v
}

fn corpus_bytes() -> Vec<(Vec<u8>, &'static str)> {
  let hdr: Vec<u8> = b"RTPS\x02\x04\x01\x12aaaaaaaaaaaa".to_vec();
  let with = |tail: &[u8]| {
    let mut v = hdr.clone();
    v.extend_from_slice(tail);
    v
  };
  vec![
    (vec![], "corpus_b_empty"),
    (hdr[..19].to_vec(), "corpus_b_short_header"),
    (hdr.clone(), "corpus_b_header_only"),
    (with(&[0x09, 0x01]), "corpus_b_2_trailing"),
    (with(&[0x09, 0x03, 0, 0]), "corpus_b_ts_invalidate_len0"),
    (with(&[0x09, 0x01, 0, 0]), "corpus_b_ts_len0_no_invalidate"),
    (with(&[0x01, 0x01, 0, 0, 0x01, 0x00, 0, 0]), "corpus_b_pads"),
    (with(&[0x07, 0x01, 0, 0, 0, 0, 0, 0, 0, 0, 0, 0, 0, 0, 0, 0, 1, 0, 0, 0, 0, 0, 0, 0, 2, 0, 0, 0, 3, 0, 0, 0]), "corpus_b_heartbeat_len0_to_end"),
    (with(&[0x07, 0x01, 29, 0, 0, 0, 0, 0, 0, 0, 0, 0, 0, 0, 0, 0, 1, 0, 0, 0, 0, 0, 0, 0, 2, 0, 0, 0, 3, 0, 0, 0]), "corpus_b_length_beyond_end"),
    (with(&[0x06, 0x01, 24, 0, 0, 0, 0, 0, 0, 0, 0, 0, 0, 0, 0, 0, 1, 0, 0, 0, 1, 1, 0, 0, 7, 0, 0, 0]), "corpus_b_acknack_257_bits"),
    (with(&[0x0f, 0x01, 8, 0, 0xff, 0xff, 0xff, 0xff, 0, 0, 0, 0]), "corpus_b_inforeply_huge_count"),
    (with(&[0x15, 0x05, 24, 0, 0, 0, 15, 0, 0, 0, 0, 0, 0, 0, 0, 0, 0, 0, 0, 0, 1, 0, 0, 0, 1, 2, 3, 4]), "corpus_b_data_oiq_15"),
    (with(&[0x15, 0x05, 24, 0, 0, 0, 20, 0, 0, 0, 0, 0, 0, 0, 0, 0, 0, 0, 0, 0, 1, 0, 0, 0, 1, 2, 3, 4]), "corpus_b_data_oiq_20_exact_end"),
    (with(&[0x15, 0x05, 24, 0, 0, 0, 21, 0, 0, 0, 0, 0, 0, 0, 0, 0, 0, 0, 0, 0, 1, 0, 0, 0, 1, 2, 3, 4]), "corpus_b_data_oiq_21_past_end"),
    (with(&[0x15, 0x07, 24, 0, 0, 0, 16, 0, 0, 0, 0, 0, 0, 0, 0, 0, 0, 0, 0, 0, 1, 0, 0, 0, 0x70, 0, 8, 0]), "corpus_b_data_qos_value_past_end"),
    (with(&[0x80, 0x01, 4, 0, 1, 2, 3, 4, 0x7f, 0, 0, 0]), "corpus_b_unknown_kinds"),
  ]
}

fn corpus_numsets() -> Vec<(bool, i64, Vec<i64>, &'static str)> {
  let mut v: Vec<(bool, i64, Vec<i64>, &'static str)> = vec![
    (false, 1, vec![], "corpus_ns_empty"),
    (false, 5, vec![5], "corpus_ns_single"),
    (false, 5, vec![3, 5], "corpus_ns_start_below_base"),
    (false, 0, vec![0, 1], "corpus_ns_base_0"),
    (false, -5, vec![-5, 7], "corpus_ns_negative"),
    (false, 1, vec![1, 256], "corpus_ns_256"),
    (false, 1, vec![1, 257], "corpus_ns_257_truncated"),
    (false, 1, vec![1000], "corpus_ns_all_outside"),
    (false, i64::MAX - 10, vec![i64::MAX - 10, i64::MAX - 1], "corpus_ns_near_max"),
    (false, i64::MAX - 10, vec![i64::MAX - 10, i64::MAX], "corpus_ns_at_max_overflow"),
    (true, 1, vec![1, 2, 33], "corpus_fns"),
    (true, 0, vec![0, 3], "corpus_fns_base_0"),
    (true, (u32::MAX - 300) as i64, vec![(u32::MAX - 300) as i64, (u32::MAX - 1) as i64], "corpus_fns_trunc_near_max"),
    (true, (u32::MAX - 5) as i64, vec![(u32::MAX - 5) as i64, u32::MAX as i64], "corpus_fns_at_max_overflow"),
  ];
  v.push((false, 0x1_0000_0000 - 8, (0..20).map(|i| 0x1_0000_0000 - 8 + 2 * i).collect(), "corpus_ns_low_word_carry"));
  v
}

/// table tie: widths 1..=257 at three alignments of the set start relative to the base
fn table_numsets(tier: &str) -> Vec<(bool, i64, Vec<i64>, String)> {
  let mut v = Vec::new();
  let mut r = Rng::new(0xC14);
  let thorough = tier == "thorough";
  for w in 1..=257i64 {
    let dense = thorough
      || w <= 40
      || (60..=68).contains(&w)
      || (92..=100).contains(&w)
      || (124..=132).contains(&w)
      || (188..=196).contains(&w)
      || w >= 250
      || w % 8 == 0;
    if !dense {
      continue;
    }
    for (ai, off) in [0i64, 1, 31].iter().enumerate() {
      for fnk in [false, true] {
        if !thorough && (w + ai as i64) % 2 == (fnk as i64) {
          continue; // quick tier: alternate the two kinds
        }
        let base: i64 = match (ai, fnk) {
          (0, _) => 1,
          (1, false) => 0x1_0000_0000 - 40,
          (1, true) => 1000,
          (_, false) => 0x1234_5678_0000,
          (_, true) => u32::MAX as i64 - 600,
        };
        let first = base + off;
        let npat = if thorough { 4 } else { 1 };
        for p in 0..npat {
          let mut s = BTreeSet::new();
          s.insert(first);
          s.insert(first + w - 1);
          match (p + w) % 4 {
            0 => {
              for i in 0..w {
                s.insert(first + i);
              }
            }
            1 => {
              for i in (0..w).step_by(2) {
                s.insert(first + i);
              }
            }
            2 => {}
            _ => {
              for i in 0..w {
                if r.chance(1, 3) {
                  s.insert(first + i);
                }
              }
            }
          }
          v.push((fnk, base, s.into_iter().collect(), format!("table_align_{}", off)));
        }
      }
    }
  }
  v
}

// ------------------------------------------------------------------------------------------------

pub fn run(args: &Args) -> i32 {
  if std::env::var("C14_VERBOSE").is_err() {
    std::panic::set_hook(Box::new(|_| {}));
  }
  let mut out = CaseOut::new(args, header_term(), "check run obs_eqb ok", "case", "obs");
  out.per_shard = 90;
  let mut idx = 0usize;
  let want = |i: usize| args.only.map_or(true, |o| o == i);

  for (ctx, h, ops, tag) in corpus_msgs() {
    if want(idx) {
      run_msg(&mut out, idx, ctx, &h, &ops, &["corpus".to_string(), tag.to_string()]);
    }
    idx += 1;
  }
  for (b, tag) in corpus_bytes() {
    if want(idx) {
      run_bytes(&mut out, idx, &b, &["corpus".to_string(), tag.to_string()]);
    }
    idx += 1;
  }
  for (fnk, base, set, tag) in corpus_numsets() {
    if want(idx) {
      run_numset(&mut out, idx, fnk, base, &set, &["corpus".to_string(), tag.to_string()]);
    }
    idx += 1;
  }
  let table = table_numsets(&args.tier);
  out.extra.push(("numset_table_cases".to_string(), table.len().to_string()));
  for (fnk, base, set, tag) in table {
    if want(idx) {
      run_numset(&mut out, idx, fnk, base, &set, &["table".to_string(), tag]);
    }
    idx += 1;
  }
  let rawtable: Vec<RawCase> = corpus_numraw().into_iter().chain(table_numraw(&args.tier)).collect();
  out.extra.push(("numraw_table_cases".to_string(), rawtable.len().to_string()));
  for (fnk, e, base, bits, words, extra, tag) in rawtable {
    if want(idx) {
      let kind = if tag.starts_with("corpus") { "corpus" } else { "table" };
      run_numraw(&mut out, idx, fnk, e, base, bits, &words, &extra, &[kind.to_string(), tag]);
    }
    idx += 1;
  }
  for _ in 0..args.n {
    if want(idx) {
      let mut r = Rng::for_case(args.seed, idx);
      match r.below(16) {
        0..=8 => {
          let (h, ops, mut tags) = g_msg(&mut r, false);
          tags.push("stream_valid".to_string());
          run_msg(&mut out, idx, g_e(&mut r), &h, &ops, &tags);
        }
        9..=10 => {
          let (h, ops, mut tags) = g_msg(&mut r, true);
          tags.push("stream_inconsistent_structs".to_string());
          run_msg(&mut out, idx, g_e(&mut r), &h, &ops, &tags);
        }
        11..=14 => {
          let (b, how) = g_hostile(&mut r);
          run_bytes(&mut out, idx, &b, &["stream_hostile".to_string(), format!("hostile_{}", how)]);
        }
        _ if r.chance(1, 2) => {
          // random wire-parsed number sets beside the table
          let (fnk, e, base, bits, words, extra, tag) = g_numraw(&mut r);
          run_numraw(&mut out, idx, fnk, e, base, bits, &words, &extra, &[tag]);
        }
        _ => {
          // random number sets beside the table
          let fnk = r.chance(1, 2);
          let base = if fnk { g_u32(&mut r) as i64 } else { g_sn(&mut r) };
          let n = r.below(12);
          let spread = *r.pick(&[4u64, 40, 255, 256, 257, 300, 1000]);
          let lo = if r.chance(1, 4) { base.wrapping_sub(3) } else { base };
          let mut s = BTreeSet::new();
          for _ in 0..n {
            let x = lo.wrapping_add(r.below(spread) as i64);
            if !fnk || (0..=u32::MAX as i64).contains(&x) {
              s.insert(x);
            }
          }
          let v: Vec<i64> = s.into_iter().collect();
          run_numset(&mut out, idx, fnk, base, &v, &["stream_numset".to_string()]);
        }
      }
    }
    idx += 1;
  }
  let _ = std::panic::take_hook();
  out.finish()
}
