// C09 driver: a real DataReader / SimpleDataReader (with_key and no_key) created through a live
// DomainParticipant; CacheChanges are injected directly into the reader's TopicCache
// (TopicCache::add_change / mark_reliably_received_before) and every read/take form is called
// under a watchdog.  A call that does not return within the watchdog time is the observation
// `CHang` (the calling thread is abandoned, it cannot be cancelled).
use std::{
  panic::{catch_unwind, AssertUnwindSafe},
  pin::Pin,
  sync::mpsc,
  task::{Context, Poll},
  thread,
  time::Duration as StdDuration,
};

use bytes::Bytes;
use futures::stream::{Stream, StreamExt};
use serde::{Deserialize, Serialize};

use crate::{
  dds::{
    ddsdata::DDSData,
    key::{Key, KeyHash},
    no_key,
    participant::DomainParticipant,
    qos::{policy, QosPolicies},
    readcondition::ReadCondition,
    result::ReadError,
    topic::{Topic, TopicDescription, TopicKind},
    with_key,
    with_key::{datasample::Sample, WriteOptions},
  },
  messages::submessages::elements::serialized_payload::SerializedPayload,
  serialization::CDRDeserializerAdapter,
  structure::{
    cache_change::{CacheChange, ChangeKind},
    dds_cache::TopicCache,
    guid::{EntityId, EntityKind, GuidPrefix, GUID},
    sequence_number::SequenceNumber,
    time::Timestamp,
  },
  Keyed, RepresentationIdentifier,
};
use super::util::{self, Args, CaseOut, Rng};

const DOMAIN: u16 = 90;
// A wedged call spins for ever, so the watchdog can be generous: it only costs time when something hangs.  A first
// time-out is confirmed by re-running the case on a fresh participant with a longer watchdog, so that a slow, loaded
// machine is never reported as a hang.
const WATCHDOG: StdDuration = StdDuration::from_millis(10_000);
const WATCHDOG_CONFIRM: StdDuration = StdDuration::from_millis(40_000);

#[derive(Serialize, Deserialize, Clone, Debug, PartialEq)]
pub struct Msg {
  pub k: i32,
  pub v: i32,
}
impl Keyed for Msg {
  type K = i32;
  fn key(&self) -> i32 {
    self.k
  }
}

#[derive(Clone, Debug)]
pub enum Kind {
  Data(i32),
  BadPayload,
  UnknownRep,
  DisposeKey(i32),
  DisposeBadKey,
  DisposeHash(i32),
}

#[derive(Clone, Debug, PartialEq)]
pub enum Form {
  TakeOne,
  SPoll,
  Take(u64, bool),
  Read(u64, bool),
  TakeNext,
  ReadNext,
  IntoIter,
  Iter,
  Poll,
  PollBare,
}

#[derive(Clone, Debug)]
pub enum Op {
  Add(i64, i64, Kind),
  Mark(i64, i64),
  Call(Form),
}

#[derive(Clone, Copy, Debug, PartialEq)]
pub enum Family {
  Simple,
  Reader,
  Stream,
  BareStream,
}

#[derive(Clone, Debug)]
pub struct Case {
  pub reliable: bool,
  pub nokey: bool,
  pub family: Family,
  pub ops: Vec<Op>,
}

pub fn value_of(w: i64, sn: i64) -> i32 {
  (w * 100 + sn) as i32
}

fn coq_kind(k: &Kind, w: i64, sn: i64) -> String {
  match k {
    Kind::Data(key) => format!("(KData {} {})", util::z(*key as i128), value_of(w, sn)),
    Kind::BadPayload => "KBadPayload".into(),
    Kind::UnknownRep => "KUnknownRep".into(),
    Kind::DisposeKey(key) => format!("(KDisposeKey {})", util::z(*key as i128)),
    Kind::DisposeBadKey => "KDisposeBadKey".into(),
    Kind::DisposeHash(h) => format!("(KDisposeHash {})", util::z(*h as i128)),
  }
}
fn coq_form(f: &Form) -> String {
  match f {
    Form::TakeOne => "FTakeOne".into(),
    Form::SPoll => "FSPoll".into(),
    Form::Take(m, nr) => format!("(FTake {} {})", m, util::b(*nr)),
    Form::Read(m, nr) => format!("(FRead {} {})", m, util::b(*nr)),
    Form::TakeNext => "FTakeNext".into(),
    Form::ReadNext => "FReadNext".into(),
    Form::IntoIter => "FIntoIter".into(),
    Form::Iter => "FIter".into(),
    Form::Poll => "FPoll".into(),
    Form::PollBare => "FPollBare".into(),
  }
}
pub fn coq_case(c: &Case) -> String {
  let ops = c.ops.iter().map(|o| match o {
    Op::Add(w, sn, k) => format!("OAdd {} {} {}", w, sn, coq_kind(k, *w, *sn)),
    Op::Mark(w, sn) => format!("OMark {} {}", w, sn),
    Op::Call(f) => format!("OCall {}", coq_form(f)),
  });
  format!("(mkCase {} {} {})", util::b(c.reliable), util::b(c.nokey), util::list(ops))
}

pub fn writer_guid(w: i64) -> GUID {
  GUID::new(
    GuidPrefix::new(b"verifC09wrtr"),
    EntityId::new([0, 0, w as u8], EntityKind::WRITER_WITH_KEY_USER_DEFINED),
  )
}
fn writer_index(g: GUID) -> i64 {
  g.entity_id.entity_key[2] as i64
}

fn cdr_le(bytes: Vec<u8>) -> SerializedPayload {
  SerializedPayload {
    representation_identifier: RepresentationIdentifier::CDR_LE,
    representation_options: [0, 0],
    value: Bytes::from(bytes),
  }
}

/// KeyHash of the 4-byte key (big-endian CDR, zero padded) — the no_key key () hashes to zero
pub fn key_hash(nokey: bool, h: i32) -> KeyHash {
  if nokey && h == 0 {
    ().hash_key(false)
  } else {
    h.hash_key(false)
  }
}

pub fn dds_data(nokey: bool, w: i64, sn: i64, k: &Kind) -> DDSData {
  match k {
    Kind::Data(key) => {
      let mut b = key.to_le_bytes().to_vec();
      b.extend_from_slice(&value_of(w, sn).to_le_bytes());
      DDSData::new(cdr_le(b))
    }
    Kind::BadPayload => DDSData::new(cdr_le(vec![1, 2, 3])),
    Kind::UnknownRep => {
      let mut p = cdr_le(vec![0, 0, 0, 0, 0, 0, 0, 0]);
      p.representation_identifier = RepresentationIdentifier { bytes: [0x7f, 0x7e] };
      DDSData::new(p)
    }
    Kind::DisposeKey(key) => DDSData::new_disposed_by_key(
      ChangeKind::NotAliveDisposed,
      cdr_le(key.to_le_bytes().to_vec()),
    ),
    Kind::DisposeBadKey => {
      DDSData::new_disposed_by_key(ChangeKind::NotAliveDisposed, cdr_le(vec![9]))
    }
    Kind::DisposeHash(h) => {
      DDSData::new_disposed_by_key_hash(ChangeKind::NotAliveDisposed, key_hash(nokey, *h))
    }
  }
}

fn coq_err(e: &ReadError) -> String {
  match e {
    ReadError::Deserialization { .. } => "(CErr EDeser)".into(),
    ReadError::UnknownKey { .. } => "(CErr EUnknownKey)".into(),
    _ => "(CErr EOther)".into(),
  }
}
fn coq_sample(w: i64, sn: i64, key: i32, val: Option<i32>) -> String {
  format!(
    "(mkS 0 {} {} {} {})",
    util::z(w as i128),
    util::z(sn as i128),
    util::z(key as i128),
    util::opt(val.map(|v| util::z(v as i128)))
  )
}
fn keyed_sample(g: GUID, sn: SequenceNumber, s: &Sample<&Msg, i32>) -> String {
  match s {
    Sample::Value(m) => coq_sample(writer_index(g), i64::from(sn), m.k, Some(m.v)),
    Sample::Dispose(k) => coq_sample(writer_index(g), i64::from(sn), *k, None),
  }
}
fn bare_sample(s: &Sample<&Msg, i32>) -> String {
  match s {
    Sample::Value(m) => coq_sample((m.v / 100) as i64, (m.v % 100) as i64, m.k, Some(m.v)),
    Sample::Dispose(k) => coq_sample(-1, -1, *k, None),
  }
}
// no_key: the key is () — 0 in the model
fn nokey_value(g: GUID, sn: SequenceNumber, m: &Msg) -> String {
  coq_sample(writer_index(g), i64::from(sn), 0, Some(m.v))
}
fn nokey_bare(m: &Msg) -> String {
  coq_sample((m.v / 100) as i64, (m.v % 100) as i64, 0, Some(m.v))
}

type KDr = with_key::DataReader<Msg, CDRDeserializerAdapter<Msg>>;
type NDr = no_key::DataReader<Msg, CDRDeserializerAdapter<Msg>>;
type NSimple = no_key::SimpleDataReader<Msg, CDRDeserializerAdapter<Msg>>;

enum Obj {
  K(KDr), // sync forms, and the SimpleDataReader inside for the simple forms
  KStream(with_key::DataReaderStream<Msg, CDRDeserializerAdapter<Msg>>),
  KBare(with_key::BareDataReaderStream<Msg, CDRDeserializerAdapter<Msg>>),
  NSimple(NSimple),
  N(NDr),
  NStream(no_key::DataReaderStream<Msg, CDRDeserializerAdapter<Msg>>),
  NBare(no_key::BareDataReaderStream<Msg, CDRDeserializerAdapter<Msg>>),
}

fn cond(notread: bool) -> ReadCondition {
  if notread {
    ReadCondition::not_read()
  } else {
    ReadCondition::any()
  }
}
fn umax(m: u64) -> usize {
  m.min(usize::MAX as u64) as usize
}

fn poll_once<S: Stream + Unpin>(s: &mut S) -> Poll<Option<S::Item>> {
  let waker = futures::task::noop_waker();
  let mut cx = Context::from_waker(&waker);
  Pin::new(s).poll_next(&mut cx)
}

fn vec_res<T>(r: Result<Vec<T>, ReadError>, f: impl Fn(&T) -> String) -> String {
  match r {
    Err(e) => coq_err(&e),
    Ok(v) => format!("(CVec {})", util::list(v.iter().map(|x| f(x)))),
  }
}
fn opt_res<T>(r: Result<Option<T>, ReadError>, f: impl Fn(&T) -> String) -> String {
  match r {
    Err(e) => coq_err(&e),
    Ok(None) => "CNone".into(),
    Ok(Some(x)) => format!("(COne {})", f(&x)),
  }
}
fn poll_res<T>(p: Poll<Option<Result<T, ReadError>>>, f: impl Fn(&T) -> String) -> String {
  match p {
    Poll::Pending => "CPending".into(),
    Poll::Ready(None) => "CNone".into(),
    Poll::Ready(Some(Err(e))) => coq_err(&e),
    Poll::Ready(Some(Ok(x))) => format!("(COne {})", f(&x)),
  }
}

const UNSUPPORTED: &str = "CPanic (* form not available on this object *)";

fn ds_keyed(d: &with_key::DataSample<&Msg>) -> String {
  let id = d.sample_info().sample_identity();
  let s: Sample<&Msg, i32> = match d.value() {
    Sample::Value(m) => Sample::Value(*m),
    Sample::Dispose(k) => Sample::Dispose(*k),
  };
  keyed_sample(id.writer_guid, id.sequence_number, &s)
}
fn ds_keyed_owned(d: &with_key::DataSample<Msg>) -> String {
  let id = d.sample_info().sample_identity();
  keyed_sample(id.writer_guid, id.sequence_number, &d.value().as_ref().map_dispose(|k| *k))
}

fn do_call(obj: &mut Obj, f: &Form) -> String {
  match (obj, f) {
    // ---- with_key
    (Obj::K(dr), Form::TakeOne) => {
      let sdr = dr.verif_simple_data_reader();
      sdr.drain_read_notifications();
      opt_res(sdr.try_take_one(), |d| {
        keyed_sample(d.writer_guid, d.sequence_number, &d.sample.as_ref().map_dispose(|k| *k))
      })
    }
    (Obj::K(dr), Form::SPoll) => {
      let sdr = dr.verif_simple_data_reader();
      let mut st = sdr.as_async_stream();
      poll_res(poll_once(&mut st), |d| {
        keyed_sample(d.writer_guid, d.sequence_number, &d.sample.as_ref().map_dispose(|k| *k))
      })
    }
    (Obj::K(dr), Form::Take(m, nr)) => vec_res(dr.take(umax(*m), cond(*nr)), ds_keyed_owned),
    (Obj::K(dr), Form::Read(m, nr)) => vec_res(dr.read(umax(*m), cond(*nr)), ds_keyed),
    (Obj::K(dr), Form::TakeNext) => opt_res(dr.take_next_sample(), ds_keyed_owned),
    (Obj::K(dr), Form::ReadNext) => opt_res(dr.read_next_sample(), ds_keyed),
    (Obj::K(dr), Form::IntoIter) => {
      vec_res(dr.into_iterator().map(|i| i.collect::<Vec<_>>()), |s| {
        bare_sample(&s.as_ref().map_dispose(|k| *k))
      })
    }
    (Obj::K(dr), Form::Iter) => vec_res(dr.iterator().map(|i| i.collect::<Vec<_>>()), |s| {
      let s2: Sample<&Msg, i32> = match s {
        Sample::Value(m) => Sample::Value(*m),
        Sample::Dispose(k) => Sample::Dispose(*k),
      };
      bare_sample(&s2)
    }),
    (Obj::KStream(st), Form::Poll) => poll_res(poll_once(st), ds_keyed_owned),
    (Obj::KBare(st), Form::PollBare) => {
      poll_res(poll_once(st), |s| bare_sample(&s.as_ref().map_dispose(|k| *k)))
    }
    // ---- no_key
    (Obj::NSimple(sdr), Form::TakeOne) => {
      opt_res(sdr.try_take_one(), |d| nokey_value(d.writer_guid, d.sequence_number, &d.sample))
    }
    (Obj::NSimple(sdr), Form::SPoll) => {
      let mut st = Box::pin(sdr.as_async_stream());
      poll_res(poll_once(&mut st), |d| nokey_value(d.writer_guid, d.sequence_number, &d.sample))
    }
    (Obj::N(dr), Form::Take(m, nr)) => vec_res(dr.take(umax(*m), cond(*nr)), |d| {
      let id = d.sample_info().sample_identity();
      nokey_value(id.writer_guid, id.sequence_number, d.value())
    }),
    (Obj::N(dr), Form::Read(m, nr)) => vec_res(dr.read(umax(*m), cond(*nr)), |d| {
      let id = d.sample_info().sample_identity();
      nokey_value(id.writer_guid, id.sequence_number, d.value())
    }),
    (Obj::N(dr), Form::TakeNext) => opt_res(dr.take_next_sample(), |d| {
      let id = d.sample_info().sample_identity();
      nokey_value(id.writer_guid, id.sequence_number, d.value())
    }),
    (Obj::N(dr), Form::ReadNext) => opt_res(dr.read_next_sample(), |d| {
      let id = d.sample_info().sample_identity();
      nokey_value(id.writer_guid, id.sequence_number, d.value())
    }),
    (Obj::N(dr), Form::IntoIter) => {
      vec_res(dr.into_iterator().map(|i| i.collect::<Vec<_>>()), |m| nokey_bare(m))
    }
    (Obj::N(dr), Form::Iter) => {
      vec_res(dr.iterator().map(|i| i.collect::<Vec<_>>()), |m| nokey_bare(m))
    }
    (Obj::NStream(st), Form::Poll) => poll_res(poll_once(st), |d| {
      let id = d.sample_info().sample_identity();
      nokey_value(id.writer_guid, id.sequence_number, d.value())
    }),
    (Obj::NBare(st), Form::PollBare) => poll_res(poll_once(st), |m| nokey_bare(m)),
    _ => UNSUPPORTED.into(),
  }
}

/// Everything one case needs from the participant: topic, reader object, its TopicCache.
pub struct Rig {
  obj: Obj,
  topic_cache: std::sync::Arc<std::sync::Mutex<TopicCache>>,
  base_ticks: u64,
  n_added: u64,
  _keep: Box<dyn std::any::Any>,
}

pub fn case_qos(reliable: bool) -> QosPolicies {
  let mut qos = QosPolicies::qos_none();
  qos.history = Some(policy::History::KeepAll);
  qos.reliability = Some(if reliable {
    policy::Reliability::Reliable { max_blocking_time: crate::Duration::from_millis(100) }
  } else {
    policy::Reliability::BestEffort
  });
  qos
}

impl Rig {
  fn new(dp: &DomainParticipant, c: &Case, uniq: &str) -> Rig {
    let qos = case_qos(c.reliable);
    let kind = if c.nokey { TopicKind::NoKey } else { TopicKind::WithKey };
    let topic =
      dp.create_topic(format!("c09_{}", uniq), "C09Msg".to_string(), &qos, kind).unwrap();
    let sub = dp.create_subscriber(&qos).unwrap();
    let obj = if !c.nokey {
      let dr = sub.create_datareader_cdr::<Msg>(&topic, Some(qos.clone())).unwrap();
      match c.family {
        Family::Simple | Family::Reader => Obj::K(dr),
        Family::Stream => Obj::KStream(dr.async_sample_stream()),
        Family::BareStream => Obj::KBare(dr.async_bare_sample_stream()),
      }
    } else {
      match c.family {
        Family::Simple => Obj::NSimple(
          sub
            .create_simple_datareader_no_key::<Msg, CDRDeserializerAdapter<Msg>>(
              &topic,
              Some(qos.clone()),
            )
            .unwrap(),
        ),
        Family::Reader => {
          Obj::N(sub.create_datareader_no_key_cdr::<Msg>(&topic, Some(qos.clone())).unwrap())
        }
        Family::Stream => Obj::NStream(
          sub
            .create_datareader_no_key_cdr::<Msg>(&topic, Some(qos.clone()))
            .unwrap()
            .async_sample_stream(),
        ),
        Family::BareStream => Obj::NBare(
          sub
            .create_datareader_no_key_cdr::<Msg>(&topic, Some(qos.clone()))
            .unwrap()
            .async_bare_sample_stream(),
        ),
      }
    };
    let topic_cache =
      dp.dds_cache().read().unwrap().get_existing_topic_cache(&topic.name()).unwrap();
    // receive instants: strictly increasing, all in the (recent) past
    let base_ticks = Timestamp::now().to_ticks() - (5u64 << 32);
    Rig { obj, topic_cache, base_ticks, n_added: 0, _keep: Box::new((topic, sub)) }
  }

  fn add(&mut self, nokey: bool, w: i64, sn: i64, k: &Kind) {
    self.n_added += 1;
    let ts = Timestamp::from_ticks(self.base_ticks + self.n_added * 4096);
    let cc = CacheChange::new(
      writer_guid(w),
      SequenceNumber::new(sn),
      WriteOptions::from(None),
      dds_data(nokey, w, sn, k),
    );
    self.topic_cache.lock().unwrap().add_change(&ts, cc);
  }
  fn mark(&mut self, w: i64, sn: i64) {
    self
      .topic_cache
      .lock()
      .unwrap()
      .mark_reliably_received_before(writer_guid(w), SequenceNumber::new(sn));
  }
}

enum WMsg {
  Res(String),
  Done,
}

/// Runs cases sent to it, reporting every call result as soon as it is there.
fn worker(dp: DomainParticipant, jobs: mpsc::Receiver<(usize, Case)>, res: mpsc::Sender<WMsg>) {
  while let Ok((idx, c)) = jobs.recv() {
    // entity creation talks to the participant's event loop over bounded channels; under load it
    // can fail transiently: retry before giving up
    let mut rig = Err(Box::new(()) as Box<dyn std::any::Any + Send>);
    for attempt in 0..6u64 {
      let uniq = format!("{}_{}_{}", idx, attempt, Timestamp::now().to_ticks());
      rig = catch_unwind(AssertUnwindSafe(|| Rig::new(&dp, &c, &uniq)));
      if rig.is_ok() {
        break;
      }
      thread::sleep(StdDuration::from_millis(50 * (attempt + 1)));
    }
    let mut rig = match rig {
      Ok(r) => r,
      Err(_) => {
        let _ = res.send(WMsg::Res("CPanic (* setup *)".into()));
        let _ = res.send(WMsg::Done);
        continue;
      }
    };
    for op in &c.ops {
      match op {
        Op::Add(w, sn, k) => rig.add(c.nokey, *w, *sn, k),
        Op::Mark(w, sn) => rig.mark(*w, *sn),
        Op::Call(f) => {
          let r = catch_unwind(AssertUnwindSafe(|| do_call(&mut rig.obj, f)));
          match r {
            Ok(s) => {
              let _ = res.send(WMsg::Res(s));
            }
            Err(_) => {
              let _ = res.send(WMsg::Res("CPanic".into()));
              break;
            }
          }
        }
      }
    }
    let _ = res.send(WMsg::Done);
    drop(rig);
  }
}

struct Pool {
  dp: DomainParticipant,
  jobs: mpsc::Sender<(usize, Case)>,
  res: mpsc::Receiver<WMsg>,
  hangs: usize,
}

impl Pool {
  fn spawn() -> Pool {
    let dp = util::participant(DOMAIN);
    let (jobs, jobs_rx) = mpsc::channel();
    let (res_tx, res) = mpsc::channel();
    let dp2 = dp.clone();
    thread::spawn(move || worker(dp2, jobs_rx, res_tx));
    Pool { dp, jobs, res, hangs: 0 }
  }
  /// Observation of one case as a Coq term.
  fn run(&mut self, idx: usize, c: &Case) -> (String, bool) {
    let (out, hung) = self.run_once(idx, c, WATCHDOG);
    if !hung {
      return (util::list(out), false);
    }
    let (out, hung) = self.run_once(idx, c, WATCHDOG_CONFIRM);
    (util::list(out), hung)
  }

  fn run_once(&mut self, idx: usize, c: &Case, watchdog: StdDuration) -> (Vec<String>, bool) {
    self.jobs.send((idx, c.clone())).expect("worker alive");
    let mut out = Vec::new();
    let mut hung = false;
    loop {
      match self.res.recv_timeout(watchdog) {
        Ok(WMsg::Res(s)) => {
          out.push(s);
        }
        Ok(WMsg::Done) => break,
        Err(_) => {
          out.push("CHang".into());
          hung = true;
          break;
        }
      }
    }
    if hung {
      // The stuck thread keeps spinning with the topic-cache mutex held; the participant's own
      // threads may block on it.  Abandon both and start over with a fresh participant.
      let hangs = self.hangs + 1;
      let old = std::mem::replace(self, Pool::spawn());
      std::mem::forget(old);
      self.hangs = hangs;
    }
    (out, hung)
  }
}

// ---------------------------------------------------------------------------------------------
// generators

fn gen_kind(r: &mut Rng, nokey: bool, seen_keys: &mut Vec<i32>, hostile: bool) -> Kind {
  let nkeys = if nokey { 1 } else { 3 };
  let key = r.below(nkeys) as i32;
  let roll = r.below(100);
  let (d, b, u, dk, dbk) = if hostile { (25, 40, 55, 62, 72) } else { (52, 60, 67, 77, 82) };
  if roll < d {
    seen_keys.push(key);
    Kind::Data(key)
  } else if roll < b {
    Kind::BadPayload
  } else if roll < u {
    Kind::UnknownRep
  } else if roll < dk {
    seen_keys.push(key);
    Kind::DisposeKey(key)
  } else if roll < dbk {
    Kind::DisposeBadKey
  } else if !seen_keys.is_empty() && r.chance(1, 2) {
    Kind::DisposeHash(*r.pick(seen_keys))
  } else {
    // a key hash no value has carried (also hash 0 on a no_key topic before any sample)
    Kind::DisposeHash(*r.pick(&[0, 1, 2, 5, 7]))
  }
}

fn family_forms(fam: Family) -> Vec<Form> {
  match fam {
    Family::Simple => vec![Form::TakeOne, Form::SPoll],
    Family::Reader => vec![
      Form::Take(u64::MAX, false),
      Form::Take(1, false),
      Form::Take(2, true),
      Form::Take(0, false),
      Form::Read(u64::MAX, false),
      Form::Read(1, true),
      Form::Read(2, false),
      Form::TakeNext,
      Form::ReadNext,
      Form::IntoIter,
      Form::Iter,
    ],
    Family::Stream => vec![Form::Poll],
    Family::BareStream => vec![Form::PollBare],
  }
}
fn taking_forms(fam: Family) -> Vec<Form> {
  match fam {
    Family::Simple => vec![Form::TakeOne, Form::SPoll],
    Family::Reader => {
      vec![Form::TakeNext, Form::Take(1, false), Form::Take(u64::MAX, true), Form::IntoIter]
    }
    Family::Stream => vec![Form::Poll],
    Family::BareStream => vec![Form::PollBare],
  }
}

pub fn gen_case(r: &mut Rng) -> Case {
  let reliable = r.chance(1, 2);
  let nokey = r.chance(2, 5);
  let family = *r.pick(&[
    Family::Simple,
    Family::Simple,
    Family::Reader,
    Family::Reader,
    Family::Reader,
    Family::Stream,
    Family::BareStream,
  ]);
  let hostile = r.chance(1, 4);
  let nwriters = r.range(1, 3);
  let nadds = r.range(1, 12);
  let mut next_sn = vec![1i64; 4];
  let mut marker = vec![1i64; 4];
  let mut seen_keys = Vec::new();
  let mut ops = Vec::new();
  let forms = family_forms(family);
  let mut adds = 0;
  while adds < nadds {
    // a burst of arrivals ...
    for _ in 0..r.range(1, 4) {
      let w = r.range(1, nwriters);
      let sn = match r.below(12) {
        0 => (next_sn[w as usize] - 1).max(1),                // duplicate of the previous
        1 => next_sn[w as usize] + 1,                         // a hole (out of order / lost)
        2 => r.range(1, 8),                                   // anywhere
        _ => next_sn[w as usize],
      };
      next_sn[w as usize] = next_sn[w as usize].max(sn + 1);
      ops.push(Op::Add(w, sn, gen_kind(r, nokey, &mut seen_keys, hostile)));
      adds += 1;
      if reliable && r.chance(3, 4) {
        // HEARTBEAT / in-order arrival moves the marker: mostly "everything so far"
        let m = match r.below(8) {
          0 => marker[w as usize],                            // not moved
          1 => (next_sn[w as usize] - 1).max(1),              // last one still open
          2 => r.range(1, 9),                                 // anything (may move backwards)
          _ => next_sn[w as usize],
        };
        marker[w as usize] = m;
        ops.push(Op::Mark(w, m));
      }
    }
    // ... then some calls
    for _ in 0..r.range(0, 3) {
      ops.push(Op::Call(r.pick(&forms).clone()));
    }
  }
  if reliable && r.chance(3, 4) {
    for w in 1..=nwriters {
      ops.push(Op::Mark(w, next_sn[w as usize]));
    }
  }
  if r.chance(3, 4) {
    // drain: more taking calls than changes were fed
    let tf = taking_forms(family);
    let f = r.pick(&tf).clone();
    let mixed = r.chance(1, 4);
    for _ in 0..(adds + 1 + r.range(0, 1)) {
      ops.push(Op::Call(if mixed { r.pick(&tf).clone() } else { f.clone() }));
    }
  }
  Case { reliable, nokey, family, ops }
}

/// Fixed corpus.  Case 0 is the F1 witness (pre-repair: DataReader::take never returns).
pub fn corpus() -> Vec<(&'static str, Case)> {
  use Family::*;
  use Kind::*;
  let a = |w, sn, k| Op::Add(w, sn, k);
  let m = |w, sn| Op::Mark(w, sn);
  let c = |f| Op::Call(f);
  let mut v = Vec::new();
  let f1 = |reliable: bool, nokey: bool, family: Family, f: Form, n: usize| {
    let mut ops = vec![a(1, 1, DisposeHash(7)), a(1, 2, Data(0)), a(2, 1, Data(0)), m(1, 3), m(2, 2)];
    for _ in 0..n {
      ops.push(c(f.clone()));
    }
    Case { reliable, nokey, family, ops }
  };
  v.push(("F1:reliable:take", f1(true, false, Reader, Form::Take(10, false), 2)));
  v.push(("F1:besteffort:take", f1(false, false, Reader, Form::Take(10, false), 2)));
  v.push(("F1:simple:take_one", f1(true, false, Simple, Form::TakeOne, 4)));
  v.push(("F1:simple:poll", f1(false, false, Simple, Form::SPoll, 4)));
  v.push(("F1:stream", f1(true, false, Stream, Form::Poll, 4)));
  v.push(("F1:barestream", f1(false, false, BareStream, Form::PollBare, 4)));
  v.push(("F1:take_next", f1(true, false, Reader, Form::TakeNext, 4)));
  v.push(("F1:read", f1(true, false, Reader, Form::Read(u64::MAX, false), 2)));
  v.push(("F1:iter", f1(false, false, Reader, Form::Iter, 2)));
  v.push(("F1:nokey:take", f1(true, true, Reader, Form::Take(10, false), 2)));
  v.push(("F1:nokey:simple", f1(false, true, Simple, Form::TakeOne, 4)));
  v.push(("F1:nokey:spoll", f1(true, true, Simple, Form::SPoll, 4)));
  v.push(("F1:nokey:stream", f1(false, true, Stream, Form::Poll, 4)));
  v.push(("F1:nokey:bare", f1(true, true, BareStream, Form::PollBare, 4)));
  // only an unknown hash, nothing behind it; and several in a row between values
  v.push((
    "F1:alone",
    Case {
      reliable: true,
      nokey: false,
      family: Reader,
      ops: vec![a(1, 1, DisposeHash(7)), m(1, 2), c(Form::Take(10, false))],
    },
  ));
  v.push((
    "unknown-hash:run",
    Case {
      reliable: false,
      nokey: false,
      family: Simple,
      ops: vec![
        a(1, 1, Data(1)),
        a(1, 2, DisposeHash(2)),
        a(2, 1, DisposeHash(5)),
        a(1, 3, DisposeHash(1)),
        a(2, 2, Data(2)),
        a(2, 3, DisposeHash(2)),
        c(Form::TakeOne),
        c(Form::TakeOne),
        c(Form::TakeOne),
        c(Form::TakeOne),
        c(Form::TakeOne),
        c(Form::TakeOne),
        c(Form::TakeOne),
      ],
    },
  ));
  // every undecodable kind at the head, values of the same and another writer behind
  for (name, k) in [
    ("head:bad-payload", BadPayload),
    ("head:unknown-rep", UnknownRep),
    ("head:bad-key", DisposeBadKey),
  ] {
    for (reliable, nokey, family, f) in [
      (true, false, Reader, Form::TakeNext),
      (false, false, Simple, Form::TakeOne),
      (true, true, Reader, Form::Take(u64::MAX, false)),
      (false, false, Stream, Form::Poll),
      (true, true, Simple, Form::SPoll),
    ] {
      let mut ops = vec![
        a(1, 1, k.clone()),
        a(1, 2, Data(0)),
        a(2, 1, k.clone()),
        a(2, 2, Data(0)),
        m(1, 3),
        m(2, 3),
      ];
      for _ in 0..5 {
        ops.push(c(f.clone()));
      }
      v.push((name, Case { reliable, nokey, family, ops }));
    }
  }
  // second candidate: a dispose on a no_key topic with values behind it, every sync/async form
  for (family, f) in [
    (Simple, Form::TakeOne),
    (Simple, Form::SPoll),
    (Reader, Form::TakeNext),
    (Reader, Form::Take(1, false)),
    (Reader, Form::Take(u64::MAX, false)),
    (Reader, Form::IntoIter),
    (Stream, Form::Poll),
    (BareStream, Form::PollBare),
  ] {
    for reliable in [true, false] {
      let mut ops = vec![
        a(1, 1, Data(0)),
        a(1, 2, DisposeKey(0)),
        a(1, 3, DisposeHash(0)),
        a(1, 4, Data(0)),
        a(2, 1, DisposeBadKey),
        a(2, 2, Data(0)),
        m(1, 5),
        m(2, 3),
      ];
      for _ in 0..7 {
        ops.push(c(f.clone()));
      }
      v.push(("nokey:dispose-then-values", Case { reliable, nokey: true, family, ops }));
    }
  }
  // reliable: changes beyond the marker stay invisible until it moves
  v.push((
    "marker",
    Case {
      reliable: true,
      nokey: false,
      family: Reader,
      ops: vec![
        a(1, 1, Data(0)),
        a(1, 3, Data(1)),
        m(1, 2),
        c(Form::Take(u64::MAX, false)),
        a(1, 2, BadPayload),
        m(1, 4),
        c(Form::Take(u64::MAX, false)),
        c(Form::Take(u64::MAX, false)),
        c(Form::Take(u64::MAX, false)),
      ],
    },
  ));
  v
}

fn tags_of(c: &Case, obs: &str) -> (Vec<String>, bool) {
  let mut t = vec![
    format!("family:{:?}", c.family),
    format!("reliable:{}", c.reliable),
    format!("nokey:{}", c.nokey),
  ];
  let mut unintelligible = 0;
  let mut calls = 0;
  for o in &c.ops {
    match o {
      Op::Add(_, _, k) => {
        let n = match k {
          Kind::Data(_) => "data",
          Kind::BadPayload => {
            unintelligible += 1;
            "bad-payload"
          }
          Kind::UnknownRep => {
            unintelligible += 1;
            "unknown-rep"
          }
          Kind::DisposeKey(_) => "dispose-key",
          Kind::DisposeBadKey => {
            unintelligible += 1;
            "dispose-bad-key"
          }
          Kind::DisposeHash(_) => {
            unintelligible += 1;
            "dispose-hash"
          }
        };
        t.push(format!("add:{}", n));
      }
      Op::Mark(..) => t.push("mark".into()),
      Op::Call(f) => {
        calls += 1;
        let n = coq_form(f);
        t.push(format!("call:{}", n.trim_matches(|ch| ch == '(' || ch == ')').split(' ').next().unwrap()));
      }
    }
  }
  for (n, pat) in [
    ("res:none", "CNone"),
    ("res:one", "COne"),
    ("res:err-deser", "CErr EDeser"),
    ("res:vec", "CVec"),
    ("res:pending", "CPending"),
    ("res:HANG", "CHang"),
    ("res:PANIC", "CPanic"),
  ] {
    let k = obs.matches(pat).count();
    for _ in 0..k {
      t.push(n.to_string());
    }
  }
  t.push(format!("unintelligible_changes:{}", unintelligible.min(6)));
  (t, unintelligible > 0 && calls > 0)
}

pub fn run(args: &Args) -> i32 {
  let mut out = CaseOut::new(
    args,
    "From Coq Require Import List ZArith.\nFrom RD Require Import Common.Corr C09.Model.\nImport ListNotations.\nOpen Scope Z_scope.",
    "check run obs_eqb ok",
    "case",
    "obs",
  );
  out.per_shard = 120;
  let mut pool = Pool::spawn();
  let mut idx = 0usize;
  let corpus = corpus();
  let ncorpus = corpus.len();
  let total = ncorpus + args.n;
  let mut cases: Vec<(Option<&'static str>, Case)> =
    corpus.into_iter().map(|(n, c)| (Some(n), c)).collect();
  while idx < total {
    if pool.hangs >= 3 {
      // every hang costs a spinning thread and a participant; the verdict is clear already
      out.tag("stopped-after-3-hangs");
      break;
    }
    if args.only.map_or(true, |o| o == idx) {
      let (name, c) = if idx < ncorpus {
        let (n, c) = cases[idx].clone();
        (n, c)
      } else {
        let mut r = Rng::for_case(args.seed, idx);
        (None, gen_case(&mut r))
      };
      let (obs, _hung) = pool.run(idx, &c);
      let (mut tags, nontrivial) = tags_of(&c, &obs);
      if let Some(n) = name {
        tags.push(format!("corpus:{}", n));
      }
      out.push(idx, coq_case(&c), obs, &tags, nontrivial);
    }
    idx += 1;
  }
  let _ = &mut cases;
  let rc = out.finish();
  // leaked spinning threads (if any) and the participants' threads die with the process
  rc
}
