// C07 driver: end-to-end scenarios with two real DomainParticipants in this process (public API
// only): every creation order, late joiners, loss through the UDP hook, deletion -> unmatch.
use std::{
  sync::{mpsc, Arc, Mutex},
  thread,
  time::{Duration as StdDuration, Instant},
};

use serde::{Deserialize, Serialize};

use crate::{
  dds::{
    qos::{policy::*, QosPolicies, QosPolicyBuilder},
    statusevents::{DataReaderStatus, DataWriterStatus, StatusEvented},
    with_key::Sample,
  },
  structure::duration::Duration,
  DomainParticipant, Keyed, TopicKind,
};
use super::{
  c10,
  capture,
  util::{self, Args, CaseOut, Rng},
};

#[derive(Serialize, Deserialize, Clone, Debug, PartialEq)]
struct Msg {
  key: i32,
  seq: i32,
  pad: Vec<u8>,
}
impl Keyed for Msg {
  type K = i32;
  fn key(&self) -> i32 {
    self.key
  }
}

#[derive(Clone, Copy, Debug, PartialEq)]
enum Ev {
  P1,
  T1,
  W,
  P2,
  T2,
  R,
}
#[derive(Clone, Copy, Debug, PartialEq)]
enum Del {
  None,
  Reader,
  Writer,
  ReaderParticipant,
  WriterParticipant,
}
#[derive(Clone, Debug, PartialEq)]
enum Smp {
  Value { key: i32, seq: i32, len: usize },
  Dispose { key: i32 },
  Corrupt,
}

#[derive(Clone, Debug)]
struct Scenario {
  keyed: bool,
  wq: QosPolicies,
  rq: QosPolicies,
  order: Vec<Ev>,
  before: Vec<Smp>, // written when only the writer side exists (late-joiner scenarios)
  after: Vec<Smp>,  // written after both sides report the match
  loss: u32,        // per mille
  pace: u64,        // ms between creation events
  del: Del,
}

#[derive(Clone, Debug, Default)]
struct Obs {
  w_matched: bool,
  r_matched: bool,
  w_incompat: bool,
  r_incompat: bool,
  delivered: Vec<Smp>,
  unmatch_seen: bool,
  note: String,
}

fn pad_of(seq: i32, len: usize) -> Vec<u8> {
  (0..len).map(|i| ((seq as usize * 31 + i * 7 + 3) % 251) as u8).collect()
}

fn rec_of(m: &Msg) -> Smp {
  if m.pad == pad_of(m.seq, m.pad.len()) {
    Smp::Value { key: m.key, seq: m.seq, len: m.pad.len() }
  } else {
    Smp::Corrupt
  }
}

enum Wr {
  K(crate::with_key::DataWriter<Msg>),
  N(crate::no_key::DataWriter<Msg>),
}
enum Rd {
  K(crate::with_key::DataReader<Msg>),
  N(crate::no_key::DataReader<Msg>),
}

impl Wr {
  fn write(&self, s: &Smp) -> bool {
    match (self, s) {
      (Wr::K(w), Smp::Value { key, seq, len }) => w
        .write(Msg { key: *key, seq: *seq, pad: pad_of(*seq, *len) }, None)
        .is_ok(),
      (Wr::K(w), Smp::Dispose { key }) => w.dispose(key, None).is_ok(),
      (Wr::N(w), Smp::Value { key, seq, len }) => w
        .write(Msg { key: *key, seq: *seq, pad: pad_of(*seq, *len) }, None)
        .is_ok(),
      _ => true,
    }
  }
  fn status(&self) -> Option<DataWriterStatus> {
    match self {
      Wr::K(w) => w.try_recv_status(),
      Wr::N(w) => w.try_recv_status(),
    }
  }
}
impl Rd {
  fn take_all(&mut self, out: &mut Vec<Smp>) {
    loop {
      match self {
        Rd::K(r) => match r.take_next_sample() {
          Ok(Some(ds)) => match ds.into_value() {
            Sample::Value(m) => out.push(rec_of(&m)),
            Sample::Dispose(k) => out.push(Smp::Dispose { key: k }),
          },
          _ => break,
        },
        Rd::N(r) => match r.take_next_sample() {
          Ok(Some(ds)) => out.push(rec_of(&ds.into_value())),
          _ => break,
        },
      }
    }
  }
  fn status(&self) -> Option<DataReaderStatus> {
    match self {
      Rd::K(r) => r.try_recv_status(),
      Rd::N(r) => r.try_recv_status(),
    }
  }
}

struct Watch {
  w_cur: i32,
  r_cur: i32,
  w_ever: bool,
  r_ever: bool,
  w_incompat: bool,
  r_incompat: bool,
  w_unmatch: bool,
  r_unmatch: bool,
}

fn pump(w: Option<&Wr>, r: Option<&Rd>, st: &mut Watch) {
  if let Some(w) = w {
    while let Some(e) = w.status() {
      match e {
        DataWriterStatus::PublicationMatched { current, .. } => {
          st.w_cur = current.count();
          if current.count() > 0 {
            st.w_ever = true;
          } else if st.w_ever {
            st.w_unmatch = true;
          }
        }
        DataWriterStatus::OfferedIncompatibleQos { .. } => st.w_incompat = true,
        _ => {}
      }
    }
  }
  if let Some(r) = r {
    while let Some(e) = r.status() {
      match e {
        DataReaderStatus::SubscriptionMatched { current, .. } => {
          st.r_cur = current.count();
          if current.count() > 0 {
            st.r_ever = true;
          } else if st.r_ever {
            st.r_unmatch = true;
          }
        }
        DataReaderStatus::RequestedIncompatibleQos { .. } => st.r_incompat = true,
        _ => {}
      }
    }
  }
}

/// participant before topic before endpoint, on both sides (every entity's parent exists when it is created)
fn creation_order_is_valid(order: &[Ev]) -> bool {
  let pos = |e: &Ev| order.iter().position(|x| std::mem::discriminant(x) == std::mem::discriminant(e));
  match (pos(&Ev::P1), pos(&Ev::T1), pos(&Ev::W), pos(&Ev::P2), pos(&Ev::T2), pos(&Ev::R)) {
    (Some(p1), Some(t1), Some(w), Some(p2), Some(t2), Some(r)) => p1 < t1 && t1 < w && p2 < t2 && t2 < r,
    _ => false,
  }
}

thread_local! {
  /// multiplier of the three wall-clock bounds of a scenario (1 normally; 4 when a scenario that ran into one of the
  /// bounds is run a second time: a slow, loaded machine must not be reported as "never")
  static PATIENCE: std::cell::Cell<u64> = std::cell::Cell::new(1);
}
fn patience() -> u64 {
  PATIENCE.with(|p| p.get())
}

fn run_scenario(sc: &Scenario, domain: u16, uniq: &str) -> Obs {
  let mut obs = Obs::default();
  capture::set_loss(domain, sc.loss);
  let topic_name = format!("c07_{}", uniq);
  let kind = if sc.keyed { TopicKind::WithKey } else { TopicKind::NoKey };
  let mut p1: Option<DomainParticipant> = None;
  let mut p2: Option<DomainParticipant> = None;
  let mut t1 = None;
  let mut t2 = None;
  let mut w: Option<Wr> = None;
  let mut r: Option<Rd> = None;
  let mut keep_pub = None;
  let mut keep_sub = None;
  let mut st = Watch {
    w_cur: 0,
    r_cur: 0,
    w_ever: false,
    r_ever: false,
    w_incompat: false,
    r_incompat: false,
    w_unmatch: false,
    r_unmatch: false,
  };
  let expected_compat = sc.wq.compliance_failure_wrt(&sc.rq).is_none();
  let mut wrote_before = false;
  for ev in &sc.order {
    match ev {
      Ev::P1 => p1 = DomainParticipant::new(domain).ok(),
      Ev::P2 => {
        // late joiner: the writer's samples exist before the second participant does
        if !sc.before.is_empty() && !wrote_before {
          if let Some(w) = &w {
            for s in &sc.before {
              w.write(s);
            }
            wrote_before = true;
            thread::sleep(StdDuration::from_millis(100));
          }
        }
        p2 = DomainParticipant::new(domain).ok()
      }
      Ev::T1 => {
        t1 = p1.as_ref().and_then(|p| {
          p.create_topic(topic_name.clone(), "C07Msg".to_string(), &sc.wq, kind).ok()
        })
      }
      Ev::T2 => {
        t2 = p2.as_ref().and_then(|p| {
          p.create_topic(topic_name.clone(), "C07Msg".to_string(), &sc.rq, kind).ok()
        })
      }
      Ev::W => {
        if let (Some(p), Some(t)) = (&p1, &t1) {
          let publ = p.create_publisher(&sc.wq).unwrap();
          w = if sc.keyed {
            publ.create_datawriter_cdr::<Msg>(t, Some(sc.wq.clone())).ok().map(Wr::K)
          } else {
            publ.create_datawriter_no_key_cdr::<Msg>(t, Some(sc.wq.clone())).ok().map(Wr::N)
          };
          keep_pub = Some(publ);
        }
      }
      Ev::R => {
        if let (Some(p), Some(t)) = (&p2, &t2) {
          let subs = p.create_subscriber(&sc.rq).unwrap();
          r = if sc.keyed {
            subs.create_datareader_cdr::<Msg>(t, Some(sc.rq.clone())).ok().map(Rd::K)
          } else {
            subs.create_datareader_no_key_cdr::<Msg>(t, Some(sc.rq.clone())).ok().map(Rd::N)
          };
          keep_sub = Some(subs);
        }
      }
    }
    // creation events are separated by a short, seed-independent pause so that every order is
    // really realised as an order of the discovery traffic
    thread::sleep(StdDuration::from_millis(sc.pace));
    pump(w.as_ref(), r.as_ref(), &mut st);
  }
  if p1.is_none() || p2.is_none() || w.is_none() || r.is_none() {
    obs.note = "setup-failed".into();
    capture::set_loss(domain, 0);
    return obs;
  }
  // phase 1: wait for the match (or for the incompatibility verdict) on both sides
  let deadline = Instant::now() + StdDuration::from_secs(patience() * if sc.loss > 0 { 40 } else { 25 });
  loop {
    pump(w.as_ref(), r.as_ref(), &mut st);
    let done = if expected_compat {
      st.w_cur > 0 && st.r_cur > 0
    } else {
      st.w_incompat && st.r_incompat
    };
    if done {
      break;
    }
    if Instant::now() > deadline {
      obs.note = "deadline".into();
      break;
    }
    thread::sleep(StdDuration::from_millis(20));
  }
  if !expected_compat {
    // give a wrong match a chance to show up
    thread::sleep(StdDuration::from_millis(1500));
    pump(w.as_ref(), r.as_ref(), &mut st);
  }
  obs.w_matched = st.w_cur > 0;
  obs.r_matched = st.r_cur > 0;
  obs.w_incompat = st.w_incompat;
  obs.r_incompat = st.r_incompat;
  let both_reliable = sc.wq.is_reliable() && sc.rq.is_reliable();
  let force = std::env::var("C07_FORCE_WRITE").is_ok();
  if (obs.w_matched && obs.r_matched) || (force && obs.w_matched) {
    // phase 2: traffic after the match
    thread::sleep(StdDuration::from_millis(300));
    for s in &sc.after {
      w.as_ref().unwrap().write(s);
      thread::sleep(StdDuration::from_millis(5));
    }
    let transient = matches!(
      sc.rq.durability(),
      Some(Durability::TransientLocal) | Some(Durability::Transient) | Some(Durability::Persistent)
    );
    let want = sc.after.len() + if transient { sc.before.len() } else { 0 };
    let deadline = Instant::now() + StdDuration::from_secs(patience() * if sc.loss > 0 { 40 } else { 20 });
    let mut got = Vec::new();
    while Instant::now() < deadline {
      r.as_mut().unwrap().take_all(&mut got);
      if got.len() >= want {
        break;
      }
      thread::sleep(StdDuration::from_millis(20));
    }
    if got.len() < want && both_reliable {
      obs.note = "deadline".into();
    }
    // anything extra (duplicates, samples a volatile reader must not see) shows up here
    thread::sleep(StdDuration::from_millis(700));
    r.as_mut().unwrap().take_all(&mut got);
    if both_reliable {
      obs.delivered = got;
    }
  }
  // phase 3: deletion is observed by the peer as an unmatch
  capture::set_loss(domain, 0);
  pump(w.as_ref(), r.as_ref(), &mut st);
  st.w_unmatch = false;
  st.r_unmatch = false;
  let matched = obs.w_matched && obs.r_matched;
  match sc.del {
    Del::None => {}
    Del::Reader => {
      r = None;
    }
    Del::Writer => {
      w = None;
    }
    Del::ReaderParticipant => {
      r = None;
      keep_sub = None;
      t2 = None;
      p2 = None;
    }
    Del::WriterParticipant => {
      w = None;
      keep_pub = None;
      t1 = None;
      p1 = None;
    }
  }
  if sc.del != Del::None && matched {
    let deadline = Instant::now() + StdDuration::from_secs(patience() * 15);
    while Instant::now() < deadline {
      pump(w.as_ref(), r.as_ref(), &mut st);
      let seen = match sc.del {
        Del::Reader | Del::ReaderParticipant => st.w_unmatch,
        _ => st.r_unmatch,
      };
      if seen {
        obs.unmatch_seen = true;
        break;
      }
      thread::sleep(StdDuration::from_millis(20));
    }
    if !obs.unmatch_seen {
      obs.note = "deadline".into();
    }
  }
  drop(w);
  drop(r);
  drop(keep_pub);
  drop(keep_sub);
  drop(t1);
  drop(t2);
  drop(p1);
  drop(p2);
  obs
}

// ---------- generation ----------

fn interleavings() -> Vec<Vec<Ev>> {
  // all 20 interleavings of P1<T1<W with P2<T2<R
  let mut out = Vec::new();
  fn go(a: &[Ev], b: &[Ev], cur: &mut Vec<Ev>, out: &mut Vec<Vec<Ev>>) {
    if a.is_empty() && b.is_empty() {
      out.push(cur.clone());
      return;
    }
    if !a.is_empty() {
      cur.push(a[0]);
      go(&a[1..], b, cur, out);
      cur.pop();
    }
    if !b.is_empty() {
      cur.push(b[0]);
      go(a, &b[1..], cur, out);
      cur.pop();
    }
  }
  go(&[Ev::P1, Ev::T1, Ev::W], &[Ev::P2, Ev::T2, Ev::R], &mut Vec::new(), &mut out);
  out
}

fn base_qos(reliable: bool, dur: Durability) -> QosPolicyBuilder {
  let b = QosPolicyBuilder::new().durability(dur).history(History::KeepAll);
  if reliable {
    b.reliability(Reliability::Reliable { max_blocking_time: Duration::from_millis(100) })
  } else {
    b.reliability(Reliability::BestEffort)
  }
}

// serialized sample = 4 (representation header) + 12 (key, seq, length prefix) + len: 1008 / 2032 / 3056 make it exactly
// 1 / 2 / 3 fragment sizes (seeded change C07-B: receiver expecting one fragment too many at exact multiples)
const LENS: [usize; 18] = [0, 1, 2, 3, 17, 500, 1007, 1008, 1009, 1010, 1011, 1023, 2031, 2032, 2033, 2050, 3056, 4099];

fn gen_samples(r: &mut Rng, n: usize, seq0: i32, keyed: bool) -> Vec<Smp> {
  let mut v = Vec::new();
  for i in 0..n {
    let key = r.range(1, 2) as i32;
    if keyed && i > 0 && r.chance(1, 5) {
      v.push(Smp::Dispose { key });
    } else {
      v.push(Smp::Value { key, seq: seq0 + i as i32, len: *r.pick(&LENS) });
    }
  }
  v
}

fn gen_scenario(r: &mut Rng, idx: usize) -> Scenario {
  let keyed = r.chance(2, 3);
  let orders = interleavings();
  let late = r.chance(1, 3);
  // QoS: mostly compatible reliable pairs, a stratum of incompatible ones
  let w_rel = r.chance(7, 8);
  let r_rel = r.chance(5, 6);
  let w_dur = if r.chance(1, 2) { Durability::TransientLocal } else { Durability::Volatile };
  let r_dur = if w_dur == Durability::TransientLocal && r.chance(2, 3) || r.chance(1, 8) {
    Durability::TransientLocal
  } else {
    Durability::Volatile
  };
  let mut wq = base_qos(w_rel, w_dur);
  let mut rq = base_qos(r_rel, r_dur);
  match r.below(8) {
    0 => {
      wq = wq.deadline(Deadline(Duration::from_secs(5)));
      rq = rq.deadline(Deadline(Duration::from_secs(if r.chance(1, 2) { 4 } else { 6 })));
    }
    1 => {
      wq = wq.ownership(Ownership::Exclusive { strength: 3 });
      rq = rq.ownership(if r.chance(1, 2) {
        Ownership::Exclusive { strength: 0 }
      } else {
        Ownership::Shared
      });
    }
    2 => {
      wq = wq.liveliness(Liveliness::Automatic { lease_duration: Duration::from_secs(30) });
      rq = rq.liveliness(if r.chance(1, 2) {
        Liveliness::Automatic { lease_duration: Duration::from_secs(60) }
      } else {
        Liveliness::ManualByParticipant { lease_duration: Duration::from_secs(60) }
      });
    }
    3 => {
      wq = wq.destination_order(DestinationOrder::ByReceptionTimestamp);
      rq = rq.destination_order(if r.chance(1, 2) {
        DestinationOrder::BySourceTimeStamp
      } else {
        DestinationOrder::ByReceptionTimestamp
      });
    }
    _ => {}
  }
  let (order, before) = if late {
    {
      let nb = r.range(1, 3) as usize;
      (vec![Ev::P1, Ev::T1, Ev::W, Ev::P2, Ev::T2, Ev::R], gen_samples(r, nb, 100, keyed))
    }
  } else {
    (orders[idx % orders.len()].clone(), vec![])
  };
  let na = r.range(1, 6) as usize;
  let after = gen_samples(r, na, 200, keyed);
  Scenario {
    keyed,
    wq: wq.build(),
    rq: rq.build(),
    order,
    before,
    after,
    loss: if r.chance(1, 4) { *r.pick(&[50u32, 100, 150]) } else { 0 },
    pace: if r.chance(1, 3) { 2500 } else { 60 },
    del: *r.pick(&[Del::None, Del::Reader, Del::Writer, Del::ReaderParticipant, Del::WriterParticipant]),
  }
}

fn corpus() -> Vec<Scenario> {
  let rel_tl = base_qos(true, Durability::TransientLocal).build();
  let rel_v = base_qos(true, Durability::Volatile).build();
  let be_v = base_qos(false, Durability::Volatile).build();
  let v = |seq, len| Smp::Value { key: 1, seq, len };
  vec![
    // transient-local late joiner gets retained history incl. a fragmented sample
    Scenario {
      keyed: true,
      wq: rel_tl.clone(),
      rq: rel_tl.clone(),
      order: vec![Ev::P1, Ev::T1, Ev::W, Ev::P2, Ev::T2, Ev::R],
      before: vec![v(100, 3), v(101, 2050), Smp::Dispose { key: 1 }],
      after: vec![v(200, 1009), v(201, 0), v(202, 2032), v(203, 5)],
      loss: 0,
      pace: 60,
      del: Del::Reader,
    },
    // volatile late joiner gets only later samples
    Scenario {
      keyed: true,
      wq: rel_tl.clone(),
      rq: rel_v.clone(),
      order: vec![Ev::P1, Ev::T1, Ev::W, Ev::P2, Ev::T2, Ev::R],
      before: vec![v(100, 1), v(101, 1010)],
      after: vec![v(200, 1011), Smp::Dispose { key: 1 }, v(202, 2)],
      loss: 0,
      pace: 60,
      del: Del::WriterParticipant,
    },
    // reader first, no_key, loss
    Scenario {
      keyed: false,
      wq: rel_v.clone(),
      rq: rel_v.clone(),
      order: vec![Ev::P2, Ev::T2, Ev::R, Ev::P1, Ev::T1, Ev::W],
      before: vec![],
      after: vec![v(200, 4099), v(201, 1023), v(202, 17), v(203, 3056), v(204, 1)],
      loss: 100,
      pace: 2500,
      del: Del::Writer,
    },
    // incompatible: best-effort offered, reliable requested
    Scenario {
      keyed: true,
      wq: be_v.clone(),
      rq: rel_v.clone(),
      order: vec![Ev::P1, Ev::P2, Ev::T1, Ev::T2, Ev::W, Ev::R],
      before: vec![],
      after: vec![v(200, 5)],
      loss: 0,
      pace: 60,
      del: Del::None,
    },
    // incompatible: volatile offered, transient-local requested
    Scenario {
      keyed: false,
      wq: rel_v.clone(),
      rq: rel_tl.clone(),
      order: vec![Ev::P2, Ev::P1, Ev::T2, Ev::T1, Ev::R, Ev::W],
      before: vec![],
      after: vec![v(200, 5)],
      loss: 0,
      pace: 60,
      del: Del::ReaderParticipant,
    },
  ]
}

// ---------- printing ----------

fn coq_smp(s: &Smp) -> String {
  match s {
    Smp::Value { key, seq, len } => format!("(SValue {} {} {})", key, seq, len),
    Smp::Dispose { key } => format!("(SDispose {})", key),
    Smp::Corrupt => "SCorrupt".to_string(),
  }
}
fn coq_ev(e: &Ev) -> &'static str {
  match e {
    Ev::P1 => "EvP1",
    Ev::T1 => "EvT1",
    Ev::W => "EvW",
    Ev::P2 => "EvP2",
    Ev::T2 => "EvT2",
    Ev::R => "EvR",
  }
}
fn coq_del(d: Del) -> &'static str {
  match d {
    Del::None => "DelNone",
    Del::Reader => "DelReader",
    Del::Writer => "DelWriter",
    Del::ReaderParticipant => "DelReaderParticipant",
    Del::WriterParticipant => "DelWriterParticipant",
  }
}
fn coq_scenario(s: &Scenario) -> String {
  format!(
    "(Build_scenario {} {} {} {} {} {} {} {} {})",
    util::b(s.keyed),
    c10::coq_qos(&s.wq),
    c10::coq_qos(&s.rq),
    util::list(s.order.iter().map(|e| coq_ev(e).to_string())),
    util::list(s.before.iter().map(coq_smp)),
    util::list(s.after.iter().map(coq_smp)),
    s.loss,
    s.pace,
    coq_del(s.del)
  )
}
fn coq_obs(o: &Obs) -> String {
  format!(
    "(Build_obs {} {} {} {} {} {})",
    util::b(o.w_matched),
    util::b(o.r_matched),
    util::b(o.w_incompat),
    util::b(o.r_incompat),
    util::list(o.delivered.iter().map(coq_smp)),
    util::b(o.unmatch_seen)
  )
}

pub fn run(args: &Args) -> i32 {
  let mut out = CaseOut::new(
    args,
    "From Coq Require Import List ZArith.\nFrom RD Require Import Common.Corr C10.Model C07.Model.\nImport ListNotations.\nOpen Scope Z_scope.",
    "check C07.Model.run C07.Model.obs_eqb C07.Model.ok",
    "C07.Model.scenario",
    "C07.Model.obs",
  );
  let mut scs: Vec<(usize, Scenario)> = Vec::new();
  let mut idx = 0;
  for s in corpus() {
    scs.push((idx, s));
    idx += 1;
  }
  for _ in 0..args.n {
    let mut r = Rng::for_case(args.seed, idx);
    let mut sc = gen_scenario(&mut r, idx);
    if args.get("stress") == Some("fragloss") || r.chance(1, 5) {
      // stress stratum: compatible reliable pair, heavy loss, every sample fragmented
      sc.wq = base_qos(true, Durability::TransientLocal).build();
      sc.rq = base_qos(true, Durability::TransientLocal).build();
      sc.loss = 200;
      sc.pace = 60;
      for s in sc.after.iter_mut().chain(sc.before.iter_mut()) {
        if let Smp::Value { len, .. } = s {
          *len = 2050 + (*len % 4);
        }
      }
    }
    scs.push((idx, sc));
    idx += 1;
  }
  if let Some(o) = args.only {
    scs.retain(|(i, _)| *i == o);
  }
  // run scenarios on a pool of worker threads, each with its own domain ids
  let workers: usize = args.get("workers").and_then(|s| s.parse().ok()).unwrap_or(10);
  let queue = Arc::new(Mutex::new(scs.into_iter().collect::<std::collections::VecDeque<_>>()));
  let (tx, rx) = mpsc::channel();
  let pid = std::process::id();
  let mut handles = Vec::new();
  for wk in 0..workers {
    let queue = queue.clone();
    let tx = tx.clone();
    handles.push(thread::spawn(move || {
      let mut k = 0u16;
      loop {
        let item = queue.lock().unwrap().pop_front();
        let (i, sc) = match item {
          Some(x) => x,
          None => break,
        };
        // Domain ids 1..=80, disjoint per worker, rotating.  They must stay below 101: the RTPS well-known ports are
        // 7400 + 250 * domain (+ offsets), and from domain 102 on they fall into the kernel's ephemeral range
        // (32768..60999), where any unrelated socket - e.g. a UDPSender of another participant - may already sit on
        // the multicast discovery port; the participant then runs without a multicast listener ("Cannot get multicast
        // discovery listener") and is never discovered.  That is the environment, not the property: it made 2 of
        // about 50 runs fail with "no match at all" for one scenario when domains went up to 219.
        let per = (80 / workers.max(1)).max(1) as u16;
        let domain = 1 + (wk as u16) * per + (k % per);
        k += 1;
        let t0 = Instant::now();
        let mut attempt = 0;
        let obs = loop {
          let res = std::panic::catch_unwind(std::panic::AssertUnwindSafe(|| {
            run_scenario(&sc, domain, &format!("{}_{}_{}", pid, i, attempt))
          }));
          let mut obs = res.unwrap_or_else(|_| Obs { note: "panic".into(), ..Default::default() });
          // An entity could not be CREATED although its parent exists (DomainParticipant::new timing out with
          // "Discovery thread channel error: Timeout", create_datareader failing with "Cannot inform Discovery ...
          // Full"): the API reported a failure to the application, which is what happens on a heavily loaded
          // machine and is not what C07 is about.  The scenario is run again (at most 3 more times); the number of
          // repetitions goes into the evidence.  A scenario whose creations all succeeded is never repeated.
          if obs.note == "setup-failed" && creation_order_is_valid(&sc.order) && attempt < 3 {
            attempt += 1;
            thread::sleep(StdDuration::from_millis(1500 * attempt as u64));
            continue;
          }
          // One of the wall-clock bounds (match 25/40 s, delivery 20/40 s, unmatch 15 s) expired.  "Within bounded
          // time" has no number in the property; before the expiry counts, the scenario is run once more with four
          // times the bounds.  A creation order or configuration that never works fails again (after minutes);
          // a machine that was merely slow does not raise an alarm.  Counted in the evidence as note:rerun-patient.
          if obs.note == "deadline" && PATIENCE.with(|p| p.get()) == 1 {
            PATIENCE.with(|p| p.set(4));
            attempt += 10;
            continue;
          }
          if PATIENCE.with(|p| p.get()) != 1 {
            PATIENCE.with(|p| p.set(1));
            obs.note = format!("rerun-patient{}", if obs.note == "deadline" { "-deadline-again" } else { "" });
          } else if attempt > 0 && obs.note.is_empty() {
            obs.note = format!("setup-retried-{}", attempt);
          }
          break obs;
        };
        let _ = tx.send((i, sc, obs, t0.elapsed().as_secs_f64()));
      }
    }));
  }
  drop(tx);
  let mut results: Vec<(usize, Scenario, Obs, f64)> = rx.iter().collect();
  for h in handles {
    let _ = h.join();
  }
  results.sort_by_key(|x| x.0);
  let mut maxt: f64 = 0.0;
  for (i, sc, obs, secs) in &results {
    maxt = maxt.max(*secs);
    let compat = sc.wq.compliance_failure_wrt(&sc.rq).is_none();
    let tags = vec![
      format!("keyed:{}", sc.keyed),
      format!("compatible:{}", compat),
      format!("late_joiner:{}", !sc.before.is_empty()),
      format!("loss_permille:{}", sc.loss),
      format!("pace_ms:{}", sc.pace),
      format!("delete:{:?}", sc.del),
      format!("first_event:{:?}", sc.order[0]),
      format!("reader_durability:{:?}", sc.rq.durability()),
      format!("reliable_pair:{}", sc.wq.is_reliable() && sc.rq.is_reliable()),
      format!("fragmented_samples:{}", sc.after.iter().chain(sc.before.iter()).filter(|s| matches!(s, Smp::Value{len,..} if *len > 1000)).count().min(3)),
      format!("note:{}", obs.note),
    ];
    out.push(*i, coq_scenario(sc), coq_obs(obs), &tags, true);
  }
  out.extra.push(("max_scenario_seconds".into(), format!("{:.1}", maxt)));
  out.extra.push((
    "datagrams_dropped_by_loss_hook".into(),
    format!("{}", capture::DROPPED.load(std::sync::atomic::Ordering::Relaxed)),
  ));
  out.finish()
}
