// C15 driver: discovery data and QoS on the wire (PL_CDR), byte-exact against the real
// to_parameter_list / from_parameter_list / to_pl_cdr_bytes / from_pl_cdr_bytes.
//
// case  = CVal e value [(pos, (pid, bytes)) ...]   |  CRaw e kind bytes
// obs   = ObsVal bytes decoded decoded_with_foreign_parameters  |  ObsRaw decoded  |  ObsPanic
use std::panic::{catch_unwind, AssertUnwindSafe};

use speedy::{Endianness, Readable};

use std::net::{Ipv4Addr, Ipv6Addr, SocketAddrV4, SocketAddrV6};

use crate::{
  dds::qos::{policy::*, QosPolicies},
  dds::qos::HasQoSPolicy,
  discovery::{
    builtin_endpoint::{BuiltinEndpointQos, BuiltinEndpointSet},
    content_filter_property::ContentFilterProperty,
    sedp_messages::{
      DiscoveredReaderData, DiscoveredTopicData, DiscoveredWriterData, ParticipantMessageData,
      ParticipantMessageDataKind, PublicationBuiltinTopicData, ReaderProxy,
      SubscriptionBuiltinTopicData, TopicBuiltinTopicData, WriterProxy,
    },
    spdp_participant_data::SpdpDiscoveredParticipantData,
  },
  dds::adapters::no_key::SerializerAdapter,
  serialization::{deserialize_from_cdr_with_rep_id, CDRSerializerAdapter},
  structure::guid::GuidPrefix,
  discovery::{sedp_messages::Endpoint_GUID, spdp_participant_data::Participant_GUID},
  security::{
    EndpointSecurityAttributesMask, EndpointSecurityAttributesMaskFlags, EndpointSecurityInfo,
    ParticipantSecurityAttributesMask, ParticipantSecurityAttributesMaskFlags, ParticipantSecurityInfo,
    PluginSecurityAttributesMask,
  },
  messages::{
    protocol_version::ProtocolVersion,
    submessages::elements::{parameter::Parameter, parameter_list::ParameterList},
    vendor_id::VendorId,
  },
  serialization::pl_cdr_adapters::{PlCdrDeserialize, PlCdrSerialize},
  structure::{duration::Duration, guid::GUID, locator::Locator, parameter_id::ParameterId},
  RepresentationIdentifier,
};
use super::util::{self, Args, CaseOut, Rng};

// ------------------------------------------------------------------------------------------
// generators

fn gen_duration(r: &mut Rng) -> Duration {
  // (seconds:i32, fraction:u32) boundary grid first-class
  let grid: [i64; 12] = [
    0,
    1,
    0xFFFF_FFFF,
    1 << 32,
    (1 << 32) + 1,
    Duration::INFINITE.to_ticks(),
    (0x7FFF_FFFFi64) << 32,
    i64::MIN,                   // seconds = i32::MIN, fraction 0
    -1,                         // seconds = -1, fraction = u32::MAX
    -(1i64 << 32),              // seconds = -1, fraction 0
    (3 << 32) + 0x8000_0000,
    (0x0102_0304i64 << 32) + 0x0506_0708,
  ];
  if r.chance(2, 3) {
    Duration::from_ticks(*r.pick(&grid))
  } else {
    Duration::from_ticks(r.next() as i64)
  }
}

fn gen_i32(r: &mut Rng) -> i32 {
  let grid = [0, 1, -1, i32::MAX, i32::MIN, 255, 256, 65536, 0x0102_0304];
  if r.chance(1, 2) {
    *r.pick(&grid)
  } else {
    r.next() as i32
  }
}

const QOS_FIELDS: usize = 12;

/// mask bit i set = i-th optional policy present (declaration order of QosPolicies)
fn gen_qos(r: &mut Rng, mask: u32) -> QosPolicies {
  let mut q = QosPolicies::qos_none();
  let p = |i: usize| mask & (1 << i) != 0;
  if p(0) {
    q.durability = Some(*r.pick(&[
      Durability::Volatile,
      Durability::TransientLocal,
      Durability::Transient,
      Durability::Persistent,
    ]));
  }
  if p(1) {
    q.presentation = Some(Presentation {
      access_scope: *r.pick(&[
        PresentationAccessScope::Instance,
        PresentationAccessScope::Topic,
        PresentationAccessScope::Group,
      ]),
      coherent_access: r.chance(1, 2),
      ordered_access: r.chance(1, 2),
    });
  }
  if p(2) {
    q.deadline = Some(Deadline(gen_duration(r)));
  }
  if p(3) {
    q.latency_budget = Some(LatencyBudget { duration: gen_duration(r) });
  }
  if p(4) {
    q.ownership = Some(if r.chance(1, 3) {
      Ownership::Shared
    } else {
      Ownership::Exclusive { strength: gen_i32(r) }
    });
  }
  if p(5) {
    let lease_duration = gen_duration(r);
    q.liveliness = Some(match r.below(3) {
      0 => Liveliness::Automatic { lease_duration },
      1 => Liveliness::ManualByParticipant { lease_duration },
      _ => Liveliness::ManualByTopic { lease_duration },
    });
  }
  if p(6) {
    q.time_based_filter = Some(TimeBasedFilter { minimum_separation: gen_duration(r) });
  }
  if p(7) {
    q.reliability = Some(if r.chance(1, 3) {
      Reliability::BestEffort
    } else {
      Reliability::Reliable { max_blocking_time: gen_duration(r) }
    });
  }
  if p(8) {
    q.destination_order = Some(*r.pick(&[
      DestinationOrder::ByReceptionTimestamp,
      DestinationOrder::BySourceTimeStamp,
    ]));
  }
  if p(9) {
    q.history = Some(if r.chance(1, 3) {
      History::KeepAll
    } else {
      History::KeepLast { depth: gen_i32(r) }
    });
  }
  if p(10) {
    q.resource_limits = Some(ResourceLimits {
      max_samples: gen_i32(r),
      max_instances: gen_i32(r),
      max_samples_per_instance: gen_i32(r),
    });
  }
  if p(11) {
    q.lifespan = Some(Lifespan { duration: gen_duration(r) });
  }
  q
}

fn gen_guid(r: &mut Rng) -> GUID {
  let mut b = [0u8; 16];
  match r.below(4) {
    0 => {}
    1 => b = [0xff; 16],
    _ => {
      for x in b.iter_mut() {
        *x = r.next() as u8;
      }
    }
  }
  if r.chance(1, 2) {
    b[15] = *r.pick(&[0xc1u8, 0xc2, 0xc7, 0x02, 0x07, 0x04, 0x03]);
  }
  GUID::from_bytes(b)
}

fn gen_port(r: &mut Rng) -> u16 {
  if r.chance(1, 2) {
    *r.pick(&[0u16, 1, 7400, 7410, 7411, 255, 256, 65535, 0x1234])
  } else {
    r.next() as u16
  }
}

/// `wf` = false allows the values the wire format cannot carry (UdpV6 flowinfo/scope_id, Other with
/// a kind that has its own variant)
fn gen_locator(r: &mut Rng, wf: bool) -> Locator {
  let mut addr = [0u8; 16];
  for x in addr.iter_mut() {
    *x = r.next() as u8;
  }
  if r.chance(1, 4) {
    addr = [0; 16];
  }
  match r.below(10) {
    0 => Locator::Invalid,
    1 => Locator::Reserved,
    2 | 3 | 4 | 5 => Locator::UdpV4(SocketAddrV4::new(
      Ipv4Addr::new(addr[0], addr[1], addr[2], addr[3]),
      gen_port(r),
    )),
    6 | 7 => {
      let (fl, sc) = if wf { (0, 0) } else { (r.below(3) as u32, r.below(3) as u32 * 7) };
      Locator::UdpV6(SocketAddrV6::new(Ipv6Addr::from(addr), gen_port(r), fl, sc))
    }
    _ => {
      let kind = if wf {
        *r.pick(&[3i32, 4, 8, 16, -2, i32::MAX, i32::MIN, 0x0100_0000, 0x0200_0000])
      } else {
        *r.pick(&[-1i32, 0, 1, 2])
      };
      let port = if r.chance(1, 2) { r.next() as u32 } else { *r.pick(&[0u32, 65535, 65536, u32::MAX]) };
      Locator::Other { kind, port, address: addr }
    }
  }
}

fn gen_participant_secinfo(r: &mut Rng) -> ParticipantSecurityInfo {
  let bits = (r.next() as u32) & 0x8000_0007;
  ParticipantSecurityInfo {
    participant_security_attributes: ParticipantSecurityAttributesMask(
      enumflags2::BitFlags::<ParticipantSecurityAttributesMaskFlags>::from_bits_truncate(bits),
    ),
    plugin_participant_security_attributes: PluginSecurityAttributesMask(r.next() as u32),
  }
}

fn gen_endpoint_secinfo(r: &mut Rng) -> EndpointSecurityInfo {
  let bits = (r.next() as u32) & 0x8000_007F;
  EndpointSecurityInfo {
    endpoint_security_attributes: EndpointSecurityAttributesMask(
      enumflags2::BitFlags::<EndpointSecurityAttributesMaskFlags>::from_bits_truncate(bits),
    ),
    plugin_endpoint_security_attributes: PluginSecurityAttributesMask(if r.chance(1, 2) {
      0x8000_0000
    } else {
      r.next() as u32
    }),
  }
}

fn gen_locators(r: &mut Rng, nonempty: bool, wf: bool) -> Vec<Locator> {
  if !nonempty {
    return vec![];
  }
  let n = match r.below(4) {
    0 | 1 => 1,
    2 => 2,
    _ => r.range(3, 5),
  };
  (0..n).map(|_| gen_locator(r, wf)).collect()
}

/// strings: every length mod 4, ASCII and multi-byte UTF-8, embedded NUL
fn gen_string(r: &mut Rng) -> String {
  let n = match r.below(4) {
    0 => r.below(9) as usize,
    1 => r.below(5) as usize,
    2 => r.range(9, 40) as usize,
    _ => r.below(13) as usize,
  };
  let multi = r.chance(1, 3);
  let mut s = String::new();
  for _ in 0..n {
    if multi && r.chance(1, 3) {
      s.push(*r.pick(&['é', 'ß', '€', '✓', '𝄞', '\u{7ff}', '\u{800}', '\u{ffff}', '\u{10000}', '\u{10ffff}', '\0', '\u{7f}', '\u{80}']));
    } else {
      s.push((b'a' + (r.below(26) as u8)) as char);
    }
  }
  s
}

const SPDP_FIELDS: usize = 10;

/// mask bits: 0 expects_inline_qos, 1..4 the four locator lists non-empty, 5 lease, 6 liveliness
/// count non-zero, 7 builtin endpoint qos, 8 entity name, 9 security info
fn gen_spdp(r: &mut Rng, mask: u32, wf: bool) -> SpdpDiscoveredParticipantData {
  let p = |i: usize| mask & (1 << i) != 0;
  SpdpDiscoveredParticipantData {
    updated_time: chrono::Utc::now(),
    protocol_version: if r.chance(1, 2) {
      ProtocolVersion::PROTOCOLVERSION_2_3
    } else {
      ProtocolVersion { major: r.next() as u8, minor: r.next() as u8 }
    },
    vendor_id: if r.chance(1, 2) {
      VendorId::THIS_IMPLEMENTATION
    } else {
      VendorId { vendor_id: [r.next() as u8, r.next() as u8] }
    },
    expects_inline_qos: p(0),
    participant_guid: gen_guid(r),
    metatraffic_unicast_locators: gen_locators(r, p(1), wf),
    metatraffic_multicast_locators: gen_locators(r, p(2), wf),
    default_unicast_locators: gen_locators(r, p(3), wf),
    default_multicast_locators: gen_locators(r, p(4), wf),
    available_builtin_endpoints: BuiltinEndpointSet::from_u32(if r.chance(1, 2) {
      0x1800_0c3f
    } else {
      r.next() as u32
    }),
    lease_duration: if p(5) { Some(gen_duration(r)) } else { None },
    manual_liveliness_count: if p(6) { gen_i32(r) } else { 0 },
    builtin_endpoint_qos: if p(7) {
      let v: u32 = if r.chance(1, 2) { 1 } else { r.next() as u32 };
      Some(BuiltinEndpointQos::read_from_buffer_with_ctx(Endianness::LittleEndian, &v.to_le_bytes()).unwrap())
    } else {
      None
    },
    entity_name: if p(8) { Some(gen_string(r)) } else { None },
    // feature "security": tokens and property list are not modelled, always absent
    identity_token: None,
    permissions_token: None,
    property: None,
    security_info: if p(9) { Some(gen_participant_secinfo(r)) } else { None },
  }
}

fn gen_content_filter(r: &mut Rng) -> ContentFilterProperty {
  let n = match r.below(4) {
    0 => 0,
    1 => 1,
    _ => r.range(2, 4),
  };
  ContentFilterProperty {
    content_filtered_topic_name: gen_string(r),
    related_topic_name: gen_string(r),
    filter_class_name: if r.chance(1, 2) { "DDSSQL".to_string() } else { gen_string(r) },
    filter_expression: gen_string(r),
    expression_parameters: (0..n).map(|_| gen_string(r)).collect(),
  }
}

const ENDPOINT_QOS_MASK: u32 = 0xFFF & !(1 << 9) & !(1 << 10); // no history, no resource limits
const TOPIC_QOS_MASK: u32 = 0xFFF & !(1 << 6); // no time based filter

/// mask bits 0..11 qos, 12 expects_inline_qos, 13 unicast, 14 multicast, 15 participant key,
/// 16 content filter, 17 security info
fn gen_reader(r: &mut Rng, mask: u32, wf: bool) -> DiscoveredReaderData {
  let p = |i: usize| mask & (1 << i) != 0;
  let guid = gen_guid(r);
  let key = if wf { guid } else { gen_guid(r) };
  let qos = gen_qos(r, mask & ENDPOINT_QOS_MASK);
  DiscoveredReaderData {
    reader_proxy: ReaderProxy::new(guid, p(12), gen_locators(r, p(13), wf), gen_locators(r, p(14), wf)),
    subscription_topic_data: SubscriptionBuiltinTopicData::new(
      key,
      if p(15) { Some(gen_guid(r)) } else { None },
      gen_string(r),
      gen_string(r),
      &qos,
      if p(17) { Some(gen_endpoint_secinfo(r)) } else { None },
    ),
    content_filter: if p(16) { Some(gen_content_filter(r)) } else { None },
  }
}

/// mask bits 0..11 qos, 12 max size, 13 unicast, 14 multicast, 15 participant key,
/// 16 service instance name, 17 related reader, 18 topic aliases, 19 security info
fn gen_writer(r: &mut Rng, mask: u32, wf: bool) -> DiscoveredWriterData {
  let p = |i: usize| mask & (1 << i) != 0;
  let guid = gen_guid(r);
  let key = if wf { guid } else { gen_guid(r) };
  let qos = gen_qos(r, mask & ENDPOINT_QOS_MASK);
  let mut pbtd = PublicationBuiltinTopicData::new_with_qos(
    key,
    if p(15) { Some(gen_guid(r)) } else { None },
    gen_string(r),
    gen_string(r),
    &qos,
    if p(19) { Some(gen_endpoint_secinfo(r)) } else { None },
  );
  if p(16) {
    pbtd.service_instance_name = Some(gen_string(r));
  }
  if p(17) {
    pbtd.related_datareader_key = Some(gen_guid(r));
  }
  if p(18) {
    let n = if wf { r.range(1, 3) } else { r.range(0, 1) };
    pbtd.topic_aliases = Some((0..n).map(|_| gen_string(r)).collect());
  }
  DiscoveredWriterData {
    last_updated: std::time::Instant::now(),
    writer_proxy: WriterProxy {
      remote_writer_guid: guid,
      unicast_locator_list: gen_locators(r, p(13), wf),
      multicast_locator_list: gen_locators(r, p(14), wf),
      data_max_size_serialized: if p(12) {
        Some(if r.chance(1, 2) { r.next() as u32 } else { *r.pick(&[0u32, 1, 65536, u32::MAX]) })
      } else {
        None
      },
    },
    publication_topic_data: pbtd,
  }
}

/// mask bits 0..11 qos, 12 key
fn gen_topic(r: &mut Rng, mask: u32) -> DiscoveredTopicData {
  let qos = gen_qos(r, mask & TOPIC_QOS_MASK);
  DiscoveredTopicData::new(
    chrono::Utc::now(),
    TopicBuiltinTopicData::new(
      if mask & (1 << 12) != 0 { Some(gen_guid(r)) } else { None },
      gen_string(r),
      gen_string(r),
      &qos,
    ),
  )
}

fn gen_pmd(r: &mut Rng) -> ParticipantMessageData {
  let mut prefix = [0u8; 12];
  for x in prefix.iter_mut() {
    *x = r.next() as u8;
  }
  let kind = match r.below(4) {
    0 => ParticipantMessageDataKind::UNKNOWN,
    1 => ParticipantMessageDataKind::AUTOMATIC_LIVELINESS_UPDATE,
    2 => ParticipantMessageDataKind::MANUAL_LIVELINESS_UPDATE,
    _ => {
      // vendor-specific kinds: the field is private, the serde impl is the only constructor
      let b = [0x80 | (r.next() as u8), r.next() as u8, r.next() as u8, r.next() as u8];
      deserialize_from_cdr_with_rep_id::<ParticipantMessageDataKind>(&b, RepresentationIdentifier::CDR_LE)
        .unwrap()
        .0
    }
  };
  let n = match r.below(4) {
    0 | 1 => 0,
    2 => r.range(1, 5) as usize,
    _ => r.range(6, 40) as usize,
  };
  ParticipantMessageData {
    guid: GuidPrefix { bytes: prefix },
    kind,
    data: (0..n).map(|_| r.next() as u8).collect(),
  }
}

/// every parameter id named in structure/parameter_id.rs: "the known set"
const ALL_PIDS: [u16; 64] = [
  0x0000, 0x0001, 0x002c, 0x0005, 0x0007, 0x002d, 0x002e, 0x001d, 0x001e, 0x0023, 0x0027, 0x001b,
  0x001a, 0x002b, 0x0025, 0x0040, 0x0041, 0x001f, 0x0006, 0x0021, 0x0029, 0x0004, 0x0049, 0x0015,
  0x0016, 0x002f, 0x0030, 0x0011, 0x0031, 0x0048, 0x0032, 0x0033, 0x000c, 0x000e, 0x0045, 0x000d,
  0x000b, 0x0046, 0x0043, 0x0034, 0x0044, 0x0002, 0x0035, 0x0050, 0x0052, 0x0053, 0x0058, 0x005a,
  0x0077, 0x0059, 0x0060, 0x0062, 0x0070, 0x0071, 0x0080, 0x0081, 0x0082, 0x0083, 0x800f, 0x1001,
  0x1002, 0x1003, 0x1004, 0x1005,
];
const MORE_PIDS: [u16; 1] = [0x1006];

fn is_known_pid(p: u16) -> bool {
  ALL_PIDS.contains(&p) || MORE_PIDS.contains(&p)
}

/// a parameter id outside the known set: standard range, vendor-specific (0x8000..), must-understand
/// bit (0x4000) set, or both
fn gen_unknown_pid(r: &mut Rng) -> u16 {
  loop {
    let p = match r.below(5) {
      0 => r.range(0x8000, 0xFFFF) as u16,       // vendor-specific
      1 => r.range(0x0003, 0x00FF) as u16,       // small, mostly collides: retried
      2 => r.range(0x4000, 0x7FFF) as u16,       // must-understand bit
      3 => *r.pick(&[0x8000u16, 0x8001, 0xFFFF, 0x7FFF, 0x3FFF, 0x0003, 0x0100, 0xC000, 0x8007]),
      _ => r.next() as u16,
    };
    if !is_known_pid(p) {
      return p;
    }
  }
}

fn gen_foreign(r: &mut Rng, len_now: usize) -> Vec<(usize, u16, Vec<u8>)> {
  let n = match r.below(4) {
    0 => 1,
    1 => 2,
    2 => 3,
    _ => r.range(1, 6) as usize,
  };
  let mut v = Vec::new();
  for k in 0..n {
    let pos = match r.below(4) {
      0 => 0,
      1 => len_now + k, // just before the sentinel
      _ => r.below((len_now + k + 1) as u64) as usize,
    };
    let l = match r.below(4) {
      0 => 0usize,
      1 => 4,
      _ => 4 * r.below(9) as usize,
    } + if r.chance(1, 5) { r.below(4) as usize } else { 0 };
    let bytes: Vec<u8> = (0..l).map(|_| r.next() as u8).collect();
    v.push((pos, gen_unknown_pid(r), bytes));
  }
  v
}

// ------------------------------------------------------------------------------------------
// Coq rendering

fn coq_e(e: Endianness) -> &'static str {
  match e {
    Endianness::LittleEndian => "LE",
    Endianness::BigEndian => "BE",
  }
}

fn coq_duration(d: Duration) -> String {
  let t = d.to_ticks();
  format!("({}, {})", util::z((t >> 32) as i128), util::z((t as u32) as i128))
}

fn coq_qos(q: &QosPolicies) -> String {
  let d = q.durability.map(|d| {
    match d {
      Durability::Volatile => "Volatile",
      Durability::TransientLocal => "TransientLocal",
      Durability::Transient => "Transient",
      Durability::Persistent => "Persistent",
    }
    .to_string()
  });
  let p = q.presentation.map(|p| {
    format!(
      "(Build_presentation {} {} {})",
      match p.access_scope {
        PresentationAccessScope::Instance => "ScInstance",
        PresentationAccessScope::Topic => "ScTopic",
        PresentationAccessScope::Group => "ScGroup",
      },
      util::b(p.coherent_access),
      util::b(p.ordered_access)
    )
  });
  let dl = q.deadline.map(|x| coq_duration(x.0));
  let lb = q.latency_budget.map(|x| coq_duration(x.duration));
  let ow = q.ownership.map(|o| match o {
    Ownership::Shared => "Shared".to_string(),
    Ownership::Exclusive { strength } => format!("(Exclusive {})", util::z(strength as i128)),
  });
  let lv = q.liveliness.map(|l| {
    let (k, d) = match l {
      Liveliness::Automatic { lease_duration } => ("Automatic", lease_duration),
      Liveliness::ManualByParticipant { lease_duration } => ("ManualByParticipant", lease_duration),
      Liveliness::ManualByTopic { lease_duration } => ("ManualByTopic", lease_duration),
    };
    format!("({} {})", k, coq_duration(d))
  });
  let tb = q.time_based_filter.map(|x| coq_duration(x.minimum_separation));
  let rl = q.reliability.map(|r| match r {
    Reliability::BestEffort => "BestEffort".to_string(),
    Reliability::Reliable { max_blocking_time } => {
      format!("(Reliable {})", coq_duration(max_blocking_time))
    }
  });
  let dor = q.destination_order.map(|d| {
    match d {
      DestinationOrder::ByReceptionTimestamp => "ByReception",
      DestinationOrder::BySourceTimeStamp => "BySource",
    }
    .to_string()
  });
  let hi = q.history.map(|h| match h {
    History::KeepAll => "KeepAll".to_string(),
    History::KeepLast { depth } => format!("(KeepLast {})", util::z(depth as i128)),
  });
  let rs = q.resource_limits.map(|r| {
    format!(
      "(Build_resource_limits {} {} {})",
      util::z(r.max_samples as i128),
      util::z(r.max_instances as i128),
      util::z(r.max_samples_per_instance as i128)
    )
  });
  let ls = q.lifespan.map(|x| coq_duration(x.duration));
  format!(
    "(Build_qos {} {} {} {} {} {} {} {} {} {} {} {})",
    util::opt(d),
    util::opt(p),
    util::opt(dl),
    util::opt(lb),
    util::opt(ow),
    util::opt(lv),
    util::opt(tb),
    util::opt(rl),
    util::opt(dor),
    util::opt(hi),
    util::opt(rs),
    util::opt(ls)
  )
}

/// the only number in the derived Debug output of a one-field struct (no accessor exists)
fn debug_u32<T: std::fmt::Debug>(x: &T) -> u32 {
  let s = format!("{:?}", x);
  let digits: String = s.chars().filter(|c| c.is_ascii_digit()).collect();
  digits.parse().expect("one number in Debug output")
}

fn coq_str(s: &str) -> String {
  util::bytes(s.as_bytes())
}

fn coq_guid(g: &GUID) -> String {
  util::bytes(&g.to_bytes())
}

fn coq_locator(l: &Locator) -> String {
  match l {
    Locator::Invalid => "LInvalid".to_string(),
    Locator::Reserved => "LReserved".to_string(),
    Locator::UdpV4(sa) => {
      let o = sa.ip().octets();
      format!("(LUdpV4 {} {} {} {} {})", o[0], o[1], o[2], o[3], sa.port())
    }
    Locator::UdpV6(sa) => format!(
      "(LUdpV6 {} {} {} {})",
      util::bytes(&sa.ip().octets()),
      sa.port(),
      sa.flowinfo(),
      sa.scope_id()
    ),
    Locator::Other { kind, port, address } => {
      format!("(LOther {} {} {})", util::z(*kind as i128), port, util::bytes(address))
    }
  }
}

fn coq_locators(ls: &[Locator]) -> String {
  util::list(ls.iter().map(coq_locator))
}

fn coq_psec(s: &ParticipantSecurityInfo) -> String {
  format!(
    "({}, {})",
    s.participant_security_attributes.0.bits(),
    s.plugin_participant_security_attributes.0
  )
}

fn coq_esec(s: &EndpointSecurityInfo) -> String {
  format!("({}, {})", s.endpoint_security_attributes.0.bits(), s.plugin_endpoint_security_attributes.0)
}

fn coq_spdp(v: &SpdpDiscoveredParticipantData) -> String {
  format!(
    "(Build_spdp ({}, {}) ({}, {}) {} {} {} {} {} {} {} {} {} {} {} {})",
    v.protocol_version.major,
    v.protocol_version.minor,
    v.vendor_id.vendor_id[0],
    v.vendor_id.vendor_id[1],
    util::b(v.expects_inline_qos),
    coq_guid(&v.participant_guid),
    coq_locators(&v.metatraffic_unicast_locators),
    coq_locators(&v.metatraffic_multicast_locators),
    coq_locators(&v.default_unicast_locators),
    coq_locators(&v.default_multicast_locators),
    debug_u32(&v.available_builtin_endpoints),
    util::opt(v.lease_duration.map(coq_duration)),
    util::z(v.manual_liveliness_count as i128),
    util::opt(v.builtin_endpoint_qos.map(|q| format!("{}", debug_u32(&q)))),
    util::opt(v.entity_name.as_ref().map(|s| coq_str(s))),
    util::opt(v.security_info.as_ref().map(coq_psec)),
  )
}

fn coq_opt_guid(g: &Option<GUID>) -> String {
  util::opt(g.as_ref().map(coq_guid))
}

fn coq_content_filter(c: &ContentFilterProperty) -> String {
  format!(
    "(Build_content_filter {} {} {} {} {})",
    coq_str(&c.content_filtered_topic_name),
    coq_str(&c.related_topic_name),
    coq_str(&c.filter_class_name),
    coq_str(&c.filter_expression),
    util::list(c.expression_parameters.iter().map(|s| coq_str(s)))
  )
}

fn coq_reader(v: &DiscoveredReaderData) -> String {
  let s = &v.subscription_topic_data;
  format!(
    "(Build_reader_data {} {} {} {} {} {} {} {} {} {} {})",
    coq_guid(&v.reader_proxy.remote_reader_guid),
    util::b(v.reader_proxy.expects_inline_qos),
    coq_locators(&v.reader_proxy.unicast_locator_list),
    coq_locators(&v.reader_proxy.multicast_locator_list),
    coq_guid(&s.key()),
    coq_opt_guid(s.participant_key()),
    coq_str(s.topic_name()),
    coq_str(s.type_name()),
    coq_qos(&s.qos()),
    util::opt(v.content_filter.as_ref().map(coq_content_filter)),
    util::opt(s.security_info().as_ref().map(coq_esec)),
  )
}

fn coq_writer(v: &DiscoveredWriterData) -> String {
  let p = &v.publication_topic_data;
  format!(
    "(Build_writer_data {} {} {} {} {} {} {} {} {} {} {} {} {})",
    coq_guid(&v.writer_proxy.remote_writer_guid),
    coq_locators(&v.writer_proxy.unicast_locator_list),
    coq_locators(&v.writer_proxy.multicast_locator_list),
    util::opt(v.writer_proxy.data_max_size_serialized.map(|x| format!("{}", x))),
    coq_guid(&p.key),
    coq_opt_guid(&p.participant_key),
    coq_str(&p.topic_name),
    coq_str(&p.type_name),
    coq_qos(&p.qos()),
    util::opt(p.service_instance_name.as_ref().map(|s| coq_str(s))),
    coq_opt_guid(&p.related_datareader_key),
    util::opt(p.topic_aliases.as_ref().map(|l| util::list(l.iter().map(|s| coq_str(s))))),
    util::opt(p.security_info.as_ref().map(coq_esec)),
  )
}

fn coq_topic(v: &DiscoveredTopicData) -> String {
  let t = &v.topic_data;
  format!(
    "(Build_topic_data {} {} {} {})",
    coq_opt_guid(&t.key),
    coq_str(&t.name),
    coq_str(&t.type_name),
    coq_qos(&t.qos()),
  )
}

/// all the numbers in a derived Debug output (private array field)
fn debug_bytes<T: std::fmt::Debug>(x: &T) -> Vec<u8> {
  let s = format!("{:?}", x);
  s.split(|c: char| !c.is_ascii_digit())
    .filter(|t| !t.is_empty())
    .map(|t| t.parse::<u8>().expect("byte in Debug output"))
    .collect()
}

fn coq_pmd(v: &ParticipantMessageData) -> String {
  format!(
    "(Build_pmd {} {} {})",
    util::bytes(&v.guid.bytes),
    util::bytes(&debug_bytes(&v.kind)),
    util::bytes(&v.data)
  )
}

fn coq_ins(ins: &[(usize, u16, Vec<u8>)]) -> String {
  util::list(
    ins
      .iter()
      .map(|(pos, pid, b)| format!("({}%nat, ({}, {}))", pos, pid, util::bytes(b))),
  )
}

fn coq_outcome(x: &Option<String>) -> String {
  match x {
    Some(v) => format!("(Ok {})", v),
    None => "Err".to_string(),
  }
}

// ------------------------------------------------------------------------------------------
// the values under test, behind one interface

#[derive(Clone)]
enum Val {
  Qos(QosPolicies),
  Spdp(SpdpDiscoveredParticipantData),
  Reader(DiscoveredReaderData),
  Writer(DiscoveredWriterData),
  Topic(DiscoveredTopicData),
  Pmd(ParticipantMessageData),
  PKey(GUID),
  EKey(GUID),
}

#[derive(Clone, Copy, PartialEq, Eq, Debug)]
enum Kind {
  Qos,
  Spdp,
  Reader,
  Writer,
  Topic,
  Pmd,
  PKey,
  EKey,
}

impl Kind {
  fn coq(self) -> &'static str {
    match self {
      Kind::Qos => "KQos",
      Kind::Spdp => "KSpdp",
      Kind::Reader => "KReader",
      Kind::Writer => "KWriter",
      Kind::Topic => "KTopic",
      Kind::Pmd => "KPmd",
      Kind::PKey => "(KKey ParticipantKey)",
      Kind::EKey => "(KKey EndpointKey)",
    }
  }
}

impl Val {
  fn kind(&self) -> Kind {
    match self {
      Val::Qos(_) => Kind::Qos,
      Val::Spdp(_) => Kind::Spdp,
      Val::Reader(_) => Kind::Reader,
      Val::Writer(_) => Kind::Writer,
      Val::Topic(_) => Kind::Topic,
      Val::Pmd(_) => Kind::Pmd,
      Val::PKey(_) => Kind::PKey,
      Val::EKey(_) => Kind::EKey,
    }
  }
  fn coq(&self) -> String {
    match self {
      Val::Qos(q) => format!("(VQos {})", coq_qos(q)),
      Val::Spdp(v) => format!("(VSpdp {})", coq_spdp(v)),
      Val::Reader(v) => format!("(VReader {})", coq_reader(v)),
      Val::Writer(v) => format!("(VWriter {})", coq_writer(v)),
      Val::Topic(v) => format!("(VTopic {})", coq_topic(v)),
      Val::Pmd(v) => format!("(VPmd {})", coq_pmd(v)),
      Val::PKey(g) => format!("(VKey ParticipantKey {})", coq_guid(g)),
      Val::EKey(g) => format!("(VKey EndpointKey {})", coq_guid(g)),
    }
  }
  /// the real serialiser
  fn encode(&self, e: Endianness) -> Option<Vec<u8>> {
    match self {
      Val::Qos(q) => {
        let parameters = q.to_parameter_list(e).ok()?;
        let pl = ParameterList { parameters };
        pl.serialize_to_bytes(e).ok().map(|b| b.to_vec())
      }
      Val::Spdp(v) => v.to_pl_cdr_bytes(rep_id(e)).ok().map(|b| b.to_vec()),
      Val::Reader(v) => v.to_pl_cdr_bytes(rep_id(e)).ok().map(|b| b.to_vec()),
      Val::Writer(v) => v.to_pl_cdr_bytes(rep_id(e)).ok().map(|b| b.to_vec()),
      Val::Topic(v) => v.to_pl_cdr_bytes(rep_id(e)).ok().map(|b| b.to_vec()),
      Val::PKey(g) => Participant_GUID(*g).to_pl_cdr_bytes(rep_id(e)).ok().map(|b| b.to_vec()),
      Val::EKey(g) => Endpoint_GUID(*g).to_pl_cdr_bytes(rep_id(e)).ok().map(|b| b.to_vec()),
      Val::Pmd(v) => match e {
        Endianness::LittleEndian => {
          CDRSerializerAdapter::<ParticipantMessageData, byteorder::LittleEndian>::to_bytes(v)
        }
        Endianness::BigEndian => {
          CDRSerializerAdapter::<ParticipantMessageData, byteorder::BigEndian>::to_bytes(v)
        }
      }
      .ok()
      .map(|b| b.to_vec()),
    }
  }
}

fn rep_id(e: Endianness) -> RepresentationIdentifier {
  match e {
    Endianness::LittleEndian => RepresentationIdentifier::PL_CDR_LE,
    Endianness::BigEndian => RepresentationIdentifier::PL_CDR_BE,
  }
}

/// the real deserialiser; None = any error
fn decode(kind: Kind, e: Endianness, bytes: &[u8]) -> Option<Val> {
  match kind {
    Kind::Qos => {
      let pl = ParameterList::read_from_buffer_with_ctx(e, bytes).ok()?;
      let map = pl.to_map();
      QosPolicies::from_parameter_list(e, &map).ok().map(Val::Qos)
    }
    Kind::Spdp => SpdpDiscoveredParticipantData::from_pl_cdr_bytes(bytes, rep_id(e))
      .ok()
      .map(Val::Spdp),
    Kind::Reader => DiscoveredReaderData::from_pl_cdr_bytes(bytes, rep_id(e)).ok().map(Val::Reader),
    Kind::Writer => DiscoveredWriterData::from_pl_cdr_bytes(bytes, rep_id(e)).ok().map(Val::Writer),
    Kind::Topic => DiscoveredTopicData::from_pl_cdr_bytes(bytes, rep_id(e)).ok().map(Val::Topic),
    Kind::PKey => Participant_GUID::from_pl_cdr_bytes(bytes, rep_id(e)).ok().map(|k| Val::PKey(k.0)),
    Kind::EKey => Endpoint_GUID::from_pl_cdr_bytes(bytes, rep_id(e)).ok().map(|k| Val::EKey(k.0)),
    Kind::Pmd => {
      let rid = match e {
        Endianness::LittleEndian => RepresentationIdentifier::CDR_LE,
        Endianness::BigEndian => RepresentationIdentifier::CDR_BE,
      };
      deserialize_from_cdr_with_rep_id::<ParticipantMessageData>(bytes, rid).ok().map(|x| Val::Pmd(x.0))
    }
  }
}

fn pid_from_u16(p: u16) -> ParameterId {
  // ParameterId's field is private; its derived Readable is the only constructor for arbitrary ids
  ParameterId::read_from_buffer_with_ctx(Endianness::LittleEndian, &p.to_le_bytes()).unwrap()
}

/// parse the real bytes with the real reader, insert the foreign parameters, write with the real
/// writer
fn with_foreign(e: Endianness, bytes: &[u8], ins: &[(usize, u16, Vec<u8>)]) -> Option<Vec<u8>> {
  let mut pl = ParameterList::read_from_buffer_with_ctx(e, bytes).ok()?;
  for (pos, pid, b) in ins {
    let at = (*pos).min(pl.parameters.len());
    pl.parameters.insert(at, Parameter::new(pid_from_u16(*pid), b.clone()));
  }
  pl.serialize_to_bytes(e).ok().map(|b| b.to_vec())
}

// ------------------------------------------------------------------------------------------

fn header() -> &'static str {
  "From Coq Require Import List ZArith.\nFrom RD Require Import Common.Corr C15.Prim C15.PL C15.Qos C15.Disc C15.Sedp C15.Model.\nImport ListNotations.\nOpen Scope Z_scope."
}

fn emit_val(
  out: &mut CaseOut,
  idx: usize,
  e: Endianness,
  v: &Val,
  ins: &[(usize, u16, Vec<u8>)],
  extra_tags: &[String],
) {
  let case = format!("(CVal {} {} {})", coq_e(e), v.coq(), coq_ins(ins));
  let mut tags: Vec<String> = extra_tags.to_vec();
  tags.push(format!("kind:{:?}", v.kind()));
  tags.push(format!("enc:{}", coq_e(e)));
  tags.push(format!("foreign_params:{}", ins.len()));
  for (_, pid, b) in ins {
    tags.push(
      if *pid >= 0x8000 { "foreign:vendor_specific" } else { "foreign:standard_range" }.to_string(),
    );
    tags.push(format!("foreign_len_mod4:{}", b.len() % 4));
  }
  let res = catch_unwind(AssertUnwindSafe(|| {
    let bytes = v.encode(e)?;
    let d1 = decode(v.kind(), e, &bytes).map(|x| x.coq());
    let d2 = if v.kind() == Kind::Pmd {
      d1.clone() // plain CDR: no parameter list, nothing to insert
    } else {
      match with_foreign(e, &bytes, ins) {
        Some(b2) => decode(v.kind(), e, &b2).map(|x| x.coq()),
        None => None,
      }
    };
    Some((bytes, d1, d2))
  }));
  let obs = match res {
    Ok(Some((bytes, d1, d2))) => {
      tags.push(format!("bytes_len_div16:{}", bytes.len() / 16));
      tags.push(format!("roundtrip:{}", if d1.is_some() { "Ok" } else { "Err" }));
      format!("(ObsVal {} {} {})", util::bytes(&bytes), coq_outcome(&d1), coq_outcome(&d2))
    }
    Ok(None) => {
      tags.push("encode:Err".to_string());
      "ObsPanic".to_string() // serialisation never fails for these types; reported as a disagreement
    }
    Err(_) => {
      tags.push("PANIC".to_string());
      "ObsPanic".to_string()
    }
  };
  out.push(idx, case, obs, &tags, true);
}

fn emit_raw(out: &mut CaseOut, idx: usize, e: Endianness, kind: Kind, bytes: &[u8], how: &str) {
  let case = format!("(CRaw {} {} {})", coq_e(e), kind.coq(), util::bytes(bytes));
  let mut tags = vec![
    format!("kind:{:?}", kind),
    format!("enc:{}", coq_e(e)),
    format!("raw:{}", how),
  ];
  let res = catch_unwind(AssertUnwindSafe(|| decode(kind, e, bytes).map(|x| x.coq())));
  let (obs, nontrivial) = match res {
    Ok(d) => {
      tags.push(format!("raw_decoded:{}", if d.is_some() { "Ok" } else { "Err" }));
      (format!("(ObsRaw {})", coq_outcome(&d)), d.is_some())
    }
    Err(_) => {
      tags.push("PANIC".to_string());
      ("ObsPanic".to_string(), true)
    }
  };
  out.push(idx, case, obs, &tags, nontrivial);
}

/// structured damage on the parameter level (real reader and writer do the parsing/re-writing):
/// drop a parameter (-> defaults / MissingField), duplicate one (-> first occurrence wins, get_all
/// collects), swap two, or replace a value by a shorter/longer one
fn mutate_params(
  r: &mut Rng,
  e: Endianness,
  bytes: &[u8],
  drop_pid: bool,
) -> Option<(Vec<u8>, &'static str)> {
  let mut pl = ParameterList::read_from_buffer_with_ctx(e, bytes).ok()?;
  let n = pl.parameters.len();
  if n == 0 {
    return None;
  }
  let i = r.below(n as u64) as usize;
  let how = match if drop_pid { 5 } else { r.below(5) } {
    0 => {
      pl.parameters.remove(i);
      "drop_param"
    }
    5 | 6 => {
      // every occurrence of one id disappears: the field must take its default (or MissingField)
      let id = pl.parameters[i].parameter_id;
      pl.parameters.retain(|p| p.parameter_id != id);
      "drop_pid"
    }
    1 => {
      let p = pl.parameters[i].clone();
      let at = r.below(n as u64 + 1) as usize;
      pl.parameters.insert(at, p);
      "dup_param"
    }
    2 => {
      let mut p = pl.parameters[i].clone();
      if !p.value.is_empty() {
        let k = r.below(p.value.len() as u64) as usize;
        p.value[k] = p.value[k].wrapping_add(1 + r.below(3) as u8);
      }
      let at = r.below(n as u64 + 1) as usize;
      pl.parameters.insert(at, p);
      "dup_param_modified"
    }
    3 => {
      let j = r.below(n as u64) as usize;
      pl.parameters.swap(i, j);
      "swap_params"
    }
    _ => {
      let l = pl.parameters[i].value.len();
      let nl = match r.below(3) {
        0 => l.saturating_sub(4),
        1 => l / 2,
        _ => l + 4,
      };
      pl.parameters[i].value.resize(nl, 0);
      "resize_value"
    }
  };
  pl.serialize_to_bytes(e).ok().map(|b| (b.to_vec(), how))
}

/// hostile stream: damage a valid encoding, or random bytes
fn mutate(r: &mut Rng, e: Endianness, bytes: &[u8]) -> (Vec<u8>, &'static str) {
  let mut b = bytes.to_vec();
  match r.below(16) {
    0 => {
      let n = r.below(b.len() as u64 + 1) as usize;
      b.truncate(n);
      (b, "truncate")
    }
    1 => {
      if !b.is_empty() {
        let i = r.below(b.len() as u64) as usize;
        b[i] ^= 1 << r.below(8);
      }
      (b, "bitflip")
    }
    2 => {
      if !b.is_empty() {
        let i = r.below(b.len() as u64) as usize;
        b[i] = r.next() as u8;
      }
      (b, "byte")
    }
    3 => {
      // damage a 4-aligned header (id or length field)
      if b.len() >= 4 {
        let i = 4 * r.below((b.len() / 4) as u64) as usize;
        b[i + (r.below(4) as usize)] = *r.pick(&[0u8, 1, 2, 3, 4, 5, 8, 0xff, 0x80]);
      }
      (b, "header")
    }
    4 => {
      // drop the sentinel
      let n = b.len().saturating_sub(4);
      b.truncate(n);
      (b, "no_sentinel")
    }
    5 => {
      // remove one aligned word somewhere
      if b.len() >= 8 {
        let i = 4 * r.below((b.len() / 4) as u64) as usize;
        b.drain(i..i + 4);
      }
      (b, "drop_word")
    }
    6 => {
      // bytes that matter to the UTF-8 validator, anywhere (strings are a good part of the bytes)
      if !b.is_empty() {
        let i = r.below(b.len() as u64) as usize;
        b[i] = *r.pick(&[0x80u8, 0xbf, 0xc0, 0xc1, 0xc2, 0xe0, 0xed, 0xf0, 0xf4, 0xf5, 0xff, 0xa0, 0x9f, 0x90, 0x8f]);
      }
      (b, "utf8_byte")
    }
    7 | 8 | 9 => match mutate_params(r, e, bytes, false) {
      Some(x) => x,
      None => (b, "unchanged"),
    },
    10 | 11 | 12 | 13 => match mutate_params(r, e, bytes, true) {
      Some(x) => x,
      None => (b, "unchanged"),
    },
    _ => {
      let n = 4 * r.below(8) as usize;
      ((0..n).map(|_| *r.pick(&[0u8, 0, 1, 4, 0x1d, 0x1f, 6, 0x40, 0xff, 8])).collect(), "random")
    }
  }
}

fn gen_endianness(r: &mut Rng) -> Endianness {
  if r.chance(1, 2) {
    Endianness::LittleEndian
  } else {
    Endianness::BigEndian
  }
}

/// parameters that only the security build reads and the model does not cover
const UNMODELLED_PIDS: [u16; 3] = [0x1001, 0x1002, 0x0059];

fn has_unmodelled_pid(e: Endianness, bytes: &[u8]) -> bool {
  match ParameterList::read_from_buffer_with_ctx(e, bytes) {
    Ok(pl) => pl.parameters.iter().any(|p| {
      let id = p.parameter_id;
      UNMODELLED_PIDS.iter().any(|u| pid_from_u16(*u) == id)
    }),
    Err(_) => false,
  }
}

type Ins = Vec<(usize, u16, Vec<u8>)>;

/// Fixed corpus: boundary cases from the case splits of the proofs.
fn corpus() -> Vec<(Endianness, Val, Ins)> {
  let mut v = Vec::new();
  let le = Endianness::LittleEndian;
  let be = Endianness::BigEndian;
  let n = QosPolicies::qos_none;
  // empty policy set: only the sentinel
  v.push((le, Val::Qos(n()), vec![]));
  v.push((be, Val::Qos(n()), vec![(0, 0x8000, vec![1, 2, 3, 4])]));
  // Ownership: the two-parameter encoding
  for e in [le, be] {
    let mut q = n();
    q.ownership = Some(Ownership::Exclusive { strength: -1 });
    v.push((e, Val::Qos(q.clone()), vec![(1, 0x8001, vec![])])); // between kind and strength
    q.ownership = Some(Ownership::Shared);
    v.push((e, Val::Qos(q), vec![]));
    // BestEffort carries a dummy duration, KeepAll a dummy depth
    let mut q = n();
    q.reliability = Some(Reliability::BestEffort);
    q.history = Some(History::KeepAll);
    v.push((e, Val::Qos(q), vec![]));
    let mut q = n();
    q.reliability = Some(Reliability::Reliable { max_blocking_time: Duration::INFINITE });
    q.history = Some(History::KeepLast { depth: i32::MIN });
    q.presentation = Some(Presentation {
      access_scope: PresentationAccessScope::Group,
      coherent_access: true,
      ordered_access: false,
    });
    v.push((e, Val::Qos(q), vec![(0, 0xFFFF, vec![9; 7]), (99, 0x4abc, vec![0; 4])]));
  }
  // everything present
  let mut r = Rng::new(15);
  v.push((le, Val::Qos(gen_qos(&mut r, 0xFFF)), vec![]));
  v.push((be, Val::Qos(gen_qos(&mut r, 0xFFF)), vec![(5, 0x9000, vec![1; 8])]));
  // SPDP: nothing optional / everything, entity names of every length mod 4
  for e in [le, be] {
    v.push((e, Val::Spdp(gen_spdp(&mut r, 0, true)), vec![]));
    v.push((e, Val::Spdp(gen_spdp(&mut r, 0x3ff, true)), vec![(2, 0x8000, vec![7; 5])]));
    for name in ["", "a", "ab", "abc", "abcd", "é", "€", "𝄞", "a\0"] {
      let mut p = gen_spdp(&mut r, 0, true);
      p.entity_name = Some(name.to_string());
      v.push((e, Val::Spdp(p), vec![]));
    }
    // locators the wire cannot carry faithfully (outside the theorem's hypothesis, model agrees)
    let mut p = gen_spdp(&mut r, 0, true);
    p.default_unicast_locators = vec![
      Locator::Other { kind: 1, port: 0x1_0001, address: [9; 16] },
      Locator::UdpV6(SocketAddrV6::new(Ipv6Addr::from([1; 16]), 7400, 5, 7)),
      Locator::Other { kind: -1, port: 3, address: [1; 16] },
    ];
    v.push((e, Val::Spdp(p), vec![]));
    // writer_rpc_fields: the witness of C15_writer_old_refuted (fields written but not read back
    // before the repair) and its neighbours
    for m in [1u32 << 16, 1 << 17, 1 << 18, 7 << 16, 0, 0xFFFFF] {
      let mut w = gen_writer(&mut r, m, true);
      if m == 1 << 16 {
        w.publication_topic_data.service_instance_name = Some("svc".to_string());
      }
      v.push((e, Val::Writer(w), vec![(3, 0x8002, vec![1, 2, 3, 4])]));
    }
    // reader / topic / participant message: nothing optional, everything optional
    v.push((e, Val::Reader(gen_reader(&mut r, 0, true)), vec![]));
    v.push((e, Val::Reader(gen_reader(&mut r, 0x3FFFF, true)), vec![(0, 0xFF00, vec![0; 12])]));
    v.push((e, Val::PKey(gen_guid(&mut r)), vec![(0, 0x8000, vec![1; 4])]));
    v.push((e, Val::EKey(gen_guid(&mut r)), vec![(1, 0x8000, vec![1; 4])]));
    v.push((e, Val::Topic(gen_topic(&mut r, 0)), vec![]));
    v.push((e, Val::Topic(gen_topic(&mut r, 0x1FFF)), vec![(1, 0x8100, vec![])]));
    v.push((e, Val::Pmd(gen_pmd(&mut r)), vec![]));
    v.push((
      e,
      Val::Pmd(ParticipantMessageData {
        guid: GuidPrefix { bytes: [7; 12] },
        kind: ParticipantMessageDataKind::MANUAL_LIVELINESS_UPDATE,
        data: vec![],
      }),
      vec![],
    ));
    // an empty alias list writes no parameter (outside the theorem's hypothesis, model agrees)
    let mut w = gen_writer(&mut r, 0, true);
    w.publication_topic_data.topic_aliases = Some(vec![]);
    v.push((e, Val::Writer(w), vec![]));
    // inconsistent GUIDs in proxy and topic data: only the proxy's travels (warn! in the code)
    v.push((e, Val::Reader(gen_reader(&mut r, 0, false)), vec![]));
  }
  v
}

fn mask_tags(prefix: &str, mask: u32, from: usize, to: usize) -> Vec<String> {
  let mut tags = vec![format!("{}_optional_present:{}", prefix, (mask >> from).count_ones())];
  for i in from..to {
    if mask & (1 << i) != 0 {
      tags.push(format!("{}_present:{}", prefix, i));
    }
  }
  tags
}

fn gen_value(r: &mut Rng, k: usize) -> (Val, Vec<String>) {
  // which type: fixed rotation so that every type gets a stable share of the budget
  let j = (k / 16) as u32;
  let wf = !r.chance(1, 10);
  let wf_tag = |tags: &mut Vec<String>| {
    if !wf {
      tags.push("outside_hypothesis_values_allowed".to_string());
    }
  };
  match k % 16 {
    0 | 1 | 2 | 3 => {
      let j = j * 4 + (k % 16) as u32;
      // present/absent stratification: an odd multiplier walks through all 4096 masks
      let mask = (j.wrapping_mul(2654435761) >> 7) & 0xFFF;
      let mask = if j % 16 == 0 { (j / 16) & 0xFFF } else { mask };
      let mut tags = vec![format!("qos_policies_present:{}", mask.count_ones())];
      for i in 0..QOS_FIELDS {
        if mask & (1 << i) != 0 {
          tags.push(format!("qos_present:{}", i));
        }
      }
      (Val::Qos(gen_qos(r, mask)), tags)
    }
    4 | 5 | 6 => {
      let j = j * 3 + (k % 16 - 4) as u32;
      let mask = (j.wrapping_mul(40503) >> 3) & 0x3FF;
      let mut tags = mask_tags("spdp", mask, 0, SPDP_FIELDS);
      wf_tag(&mut tags);
      (Val::Spdp(gen_spdp(r, mask, wf)), tags)
    }
    7 | 8 | 9 => {
      let j = j * 3 + (k % 16 - 7) as u32;
      let mask = (j.wrapping_mul(2654435761) >> 9) & 0x3FFFF;
      let mut tags = mask_tags("reader", mask, 12, 18);
      wf_tag(&mut tags);
      (Val::Reader(gen_reader(r, mask, wf)), tags)
    }
    10 | 11 | 12 => {
      let j = j * 3 + (k % 16 - 10) as u32;
      let mask = (j.wrapping_mul(2654435761) >> 8) & 0xFFFFF;
      let mut tags = mask_tags("writer", mask, 12, 20);
      wf_tag(&mut tags);
      (Val::Writer(gen_writer(r, mask, wf)), tags)
    }
    13 | 14 => {
      let j = j * 2 + (k % 16 - 13) as u32;
      let mask = (j.wrapping_mul(2654435761) >> 10) & 0x1FFF;
      (Val::Topic(gen_topic(r, mask)), mask_tags("topic", mask, 12, 13))
    }
    _ => match j % 4 {
      0 => (Val::PKey(gen_guid(r)), vec![]),
      1 => (Val::EKey(gen_guid(r)), vec![]),
      _ => (Val::Pmd(gen_pmd(r)), vec![]),
    },
  }
}

fn n_params(e: Endianness, bytes: &[u8]) -> usize {
  ParameterList::read_from_buffer_with_ctx(e, bytes).map(|p| p.parameters.len()).unwrap_or(0)
}

pub fn run(args: &Args) -> i32 {
  let mut out = CaseOut::new(args, header(), "check run obs_eqb ok", "case", "obs");
  out.per_shard = 400;
  let mut idx = 0usize;
  for (e, v, ins) in corpus() {
    if args.only.map_or(true, |o| o == idx) {
      emit_val(&mut out, idx, e, &v, &ins, &["corpus".to_string()]);
    }
    idx += 1;
  }
  for k in 0..args.n {
    if args.only.map_or(true, |o| o == idx) {
      let mut r = Rng::for_case(args.seed, idx);
      let e = gen_endianness(&mut r);
      let (v, tags) = gen_value(&mut r, k);
      if r.chance(1, 4) {
        // hostile stream
        if let Some(bytes) = v.encode(e) {
          let (b, how) = mutate(&mut r, e, &bytes);
          if has_unmodelled_pid(e, &b) {
            emit_raw(&mut out, idx, e, v.kind(), &bytes, "skipped_security_pid");
          } else {
            emit_raw(&mut out, idx, e, v.kind(), &b, how);
          }
        }
      } else {
        let np = v.encode(e).map(|b| n_params(e, &b)).unwrap_or(0);
        let ins = if r.chance(3, 4) { gen_foreign(&mut r, np) } else { vec![] };
        emit_val(&mut out, idx, e, &v, &ins, &tags);
      }
    }
    idx += 1;
  }
  out.finish()
}
