// In-crate verification drivers for RustDDS.  Mounted into the crate by
//   #[cfg(rustdds_verif)] #[path = "/verif/harness/inrepo/mod.rs"] pub mod verif_hooks;
// so that pub(crate) items are reachable.  Nothing here is compiled without --cfg rustdds_verif.
#![allow(dead_code, unused_imports, clippy::all)]

pub mod capture;
pub mod util;

pub mod c10;
pub mod c11;
pub mod c12;

use util::Args;

/// Entry point used by /verif/harness/src/main.rs.
/// drive <prop> --seed S --n N --out DIR [--only IDX] [--shards K]
pub fn main(argv: &[String]) -> i32 {
  if argv.is_empty() {
    eprintln!("usage: drive <cXX> --seed S --n N --out DIR [--only IDX]");
    return 2;
  }
  let args = Args::parse(&argv[1..]);
  match argv[0].as_str() {
    "c10" => c10::run(&args),
    "c11" => c11::run(&args),
    "c12" => c12::run(&args),
    other => {
      eprintln!("unknown property driver {other}");
      2
    }
  }
}
