// All driver logic lives in-crate (rustdds::verif_hooks, mounted from /verif/harness/inrepo)
// because the objects under test are pub(crate).
fn main() {
  let args: Vec<String> = std::env::args().skip(1).collect();
  std::process::exit(rustdds::verif_hooks::main(&args));
}
