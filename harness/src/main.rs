// All driver logic lives in-crate (rustdds::verif_hooks, mounted from /verif/harness/inrepo)
// because the objects under test are pub(crate).  The binary only adds a counting allocator so
// that the C06 driver can measure the bytes allocated while a datagram is handled and the
// growth of the live heap over a case.
use std::{
  alloc::{GlobalAlloc, Layout, System},
  sync::atomic::{AtomicU64, Ordering},
};

struct Counting;
static ALLOCATED: AtomicU64 = AtomicU64::new(0);
static FREED: AtomicU64 = AtomicU64::new(0);

unsafe impl GlobalAlloc for Counting {
  unsafe fn alloc(&self, l: Layout) -> *mut u8 {
    ALLOCATED.fetch_add(l.size() as u64, Ordering::Relaxed);
    System.alloc(l)
  }
  unsafe fn dealloc(&self, p: *mut u8, l: Layout) {
    FREED.fetch_add(l.size() as u64, Ordering::Relaxed);
    System.dealloc(p, l)
  }
  unsafe fn alloc_zeroed(&self, l: Layout) -> *mut u8 {
    ALLOCATED.fetch_add(l.size() as u64, Ordering::Relaxed);
    System.alloc_zeroed(l)
  }
  unsafe fn realloc(&self, p: *mut u8, l: Layout, new_size: usize) -> *mut u8 {
    if new_size > l.size() {
      ALLOCATED.fetch_add((new_size - l.size()) as u64, Ordering::Relaxed);
    } else {
      FREED.fetch_add((l.size() - new_size) as u64, Ordering::Relaxed);
    }
    System.realloc(p, l, new_size)
  }
}

#[global_allocator]
static GLOBAL: Counting = Counting;

fn allocated_total() -> u64 {
  ALLOCATED.load(Ordering::Relaxed)
}

/// bytes currently allocated
fn live_total() -> i64 {
  ALLOCATED.load(Ordering::Relaxed) as i64 - FREED.load(Ordering::Relaxed) as i64
}

fn main() {
  rustdds::verif_hooks::util::set_alloc_probe(allocated_total);
  rustdds::verif_hooks::util::set_live_probe(live_total);
  let args: Vec<String> = std::env::args().skip(1).collect();
  std::process::exit(rustdds::verif_hooks::main(&args));
}
