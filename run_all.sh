#!/bin/sh
# usage: ./run_all.sh [tier] [parallelism]   runs every claimed check, logs in build/all_<ID>.log, prints a summary
tier="${1:-quick}"; par="${2:-4}"
cd "$(dirname "$0")"; mkdir -p build
ids=$(ls props | sed 's/.json//')
echo $ids | tr ' ' '\n' | xargs -P "$par" -I{} sh -c "./check {} --tier $tier > build/all_{}.log 2>&1; echo \"{} rc=\$?\""
echo ---
for i in $ids; do tail -1 build/all_$i.log; grep -h "VIOLATION\|KNOWN-FINDING" build/all_$i.log | cut -c1-160; done
